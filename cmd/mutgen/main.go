// mutgen is a self-test tool: it enumerates small syntactic mutations of one Go
// file (comparison boundaries, ==/!=, &&/||, +/-, negated conditions, dropped
// guard statements, dropped defers, integer literals +1, swapped adjacent
// arguments) and applies one of them in place. It is used on scratch copies
// only, to survey which test-passing changes the checks do not report.
package main

import (
	"bytes"
	"flag"
	"fmt"
	"go/ast"
	"go/format"
	"go/parser"
	"go/token"
	"os"
	"strconv"
)

type mut struct {
	kind  string
	pos   token.Pos
	desc  string
	apply func()
}

func main() {
	file := flag.String("file", "", "Go file")
	apply := flag.Int("apply", -1, "index of the mutation to apply in place")
	flag.Parse()
	fset := token.NewFileSet()
	f, err := parser.ParseFile(fset, *file, nil, parser.ParseComments)
	if err != nil {
		fmt.Fprintln(os.Stderr, err)
		os.Exit(2)
	}
	var muts []mut
	swap := map[token.Token]token.Token{
		token.LSS: token.LEQ, token.LEQ: token.LSS, token.GTR: token.GEQ, token.GEQ: token.GTR,
		token.EQL: token.NEQ, token.NEQ: token.EQL, token.LAND: token.LOR, token.LOR: token.LAND,
		token.ADD: token.SUB, token.SUB: token.ADD,
	}
	inConst := false
	var walk func(n ast.Node) bool
	walk = func(n ast.Node) bool {
		switch x := n.(type) {
		case *ast.GenDecl:
			if x.Tok == token.CONST || x.Tok == token.IMPORT {
				return false
			}
		case *ast.BinaryExpr:
			if to, ok := swap[x.Op]; ok {
				if x.Op == token.ADD || x.Op == token.SUB {
					// skip string concatenation heuristically: a string literal operand
					if isStr(x.X) || isStr(x.Y) {
						break
					}
				}
				from := x.Op
				muts = append(muts, mut{"binop", x.OpPos, fmt.Sprintf("%s -> %s", from, to), func() { x.Op = to }})
			}
		case *ast.IfStmt:
			if _, isBin := x.Cond.(*ast.BinaryExpr); !isBin {
				muts = append(muts, mut{"negate", x.Cond.Pos(), "negate condition", func() { x.Cond = &ast.UnaryExpr{Op: token.NOT, X: &ast.ParenExpr{X: x.Cond}} }})
			}
		case *ast.BlockStmt:
			addDrops(&muts, &x.List)
		case *ast.CaseClause:
			addDrops(&muts, &x.Body)
		case *ast.DeferStmt:
			muts = append(muts, mut{"dropdefer", x.Pos(), "drop defer", func() {
				x.Call = &ast.CallExpr{Fun: &ast.FuncLit{Type: &ast.FuncType{Params: &ast.FieldList{}}, Body: &ast.BlockStmt{}}}
			}})
		case *ast.BasicLit:
			if x.Kind == token.INT && !inConst {
				if v, err := strconv.ParseInt(x.Value, 0, 64); err == nil && v < 1<<31 {
					old := x.Value
					muts = append(muts, mut{"lit", x.Pos(), fmt.Sprintf("%s -> %d", old, v+1), func() { x.Value = strconv.FormatInt(v+1, 10) }})
				}
			}
		case *ast.CallExpr:
			if isFormatting(x) {
				break // argument order of a message text is not behaviour any property speaks about
			}
			for i := 0; i+1 < len(x.Args); i++ {
				if simple(x.Args[i]) && simple(x.Args[i+1]) {
					x, i := x, i
					muts = append(muts, mut{"swapargs", x.Args[i].Pos(), fmt.Sprintf("swap arguments %d and %d", i, i+1), func() { x.Args[i], x.Args[i+1] = x.Args[i+1], x.Args[i] }})
				}
			}
		}
		return true
	}
	ast.Inspect(f, walk)
	if *apply < 0 {
		for i, m := range muts {
			p := fset.Position(m.pos)
			fmt.Printf("%d\t%s\t%d:%d\t%s\n", i, m.kind, p.Line, p.Column, m.desc)
		}
		return
	}
	if *apply >= len(muts) {
		fmt.Fprintln(os.Stderr, "no such mutation")
		os.Exit(2)
	}
	muts[*apply].apply()
	var buf bytes.Buffer
	if err := format.Node(&buf, fset, f); err != nil {
		fmt.Fprintln(os.Stderr, err)
		os.Exit(2)
	}
	if err := os.WriteFile(*file, buf.Bytes(), 0o644); err != nil {
		fmt.Fprintln(os.Stderr, err)
		os.Exit(2)
	}
}

func isStr(e ast.Expr) bool {
	l, ok := e.(*ast.BasicLit)
	return ok && l.Kind == token.STRING
}

func simple(e ast.Expr) bool {
	switch x := e.(type) {
	case *ast.Ident:
		return x.Name != "nil" && x.Name != "true" && x.Name != "false"
	case *ast.SelectorExpr:
		return simple(x.X)
	}
	return false
}

// addDrops: removing a guard statement (an if without else whose body ends in
// return) from its statement list. The result compiles only when the guard's
// variables are used elsewhere — e.g. an err that a later call re-assigns —
// which is exactly the quiet edit of interest.
func addDrops(muts *[]mut, list *[]ast.Stmt) {
	for i, st := range *list {
		ifs, ok := st.(*ast.IfStmt)
		if !ok || ifs.Else != nil || len(ifs.Body.List) == 0 {
			continue
		}
		if _, isRet := ifs.Body.List[len(ifs.Body.List)-1].(*ast.ReturnStmt); !isRet {
			continue
		}
		i := i
		*muts = append(*muts, mut{"dropguard", ifs.Pos(), "delete guard statement", func() {
			var nl []ast.Stmt
			nl = append(nl, (*list)[:i]...)
			if ifs.Init != nil {
				nl = append(nl, ifs.Init)
			}
			nl = append(nl, (*list)[i+1:]...)
			*list = nl
		}})
	}
}

func isFormatting(c *ast.CallExpr) bool {
	sel, ok := c.Fun.(*ast.SelectorExpr)
	if !ok {
		if id, isID := c.Fun.(*ast.Ident); isID {
			return id.Name == "decodeErrorf" || id.Name == "panic"
		}
		return false
	}
	if id, isID := sel.X.(*ast.Ident); isID {
		switch id.Name {
		case "fmt", "log", "errors":
			return true
		}
	}
	switch sel.Sel.Name {
	case "Errorf", "Printf", "Sprintf", "Fatalf", "Panicf", "Logf":
		return true
	}
	return false
}
