// Command rename is a self-test utility: it renames unexported struct fields,
// functions, methods or types of a Go module in place (all identifiers that
// resolve to the object, test files included), to produce behaviour-preserving
// "rename storms" against which the checks are run (scripts/refac_eval.sh).
//
//	rename -dir /tmp/copy pkgpath.Type.field=new pkgpath.func=new ...
package main

import (
	"flag"
	"fmt"
	"go/ast"
	"go/format"
	"go/token"
	"go/types"
	"os"
	"strings"

	"golang.org/x/tools/go/packages"
)

func main() {
	dir := flag.String("dir", ".", "module directory")
	flag.Parse()
	cfg := &packages.Config{Mode: packages.LoadSyntax, Dir: *dir, Tests: true, Env: append(os.Environ(), "GOFLAGS=-mod=mod", "GOPROXY=off", "GOWORK=off")}
	pkgs, err := packages.Load(cfg, "./...")
	if err != nil {
		fmt.Fprintln(os.Stderr, err)
		os.Exit(2)
	}
	type job struct{ pkg, typ, name, to string }
	var jobs []job
	for _, a := range flag.Args() {
		eq := strings.Index(a, "=")
		lhs, to := a[:eq], a[eq+1:]
		parts := strings.Split(lhs, ":")
		j := job{pkg: parts[0], to: to}
		if len(parts) == 3 {
			j.typ, j.name = parts[1], parts[2]
		} else {
			j.name = parts[1]
		}
		jobs = append(jobs, j)
	}
	targets := map[string]string{} // object position -> new name
	posKey := func(fset *token.FileSet, p token.Pos) string { return fset.Position(p).String() }
	for _, p := range pkgs {
		for _, j := range jobs {
			if !strings.HasSuffix(strings.TrimSuffix(p.PkgPath, "_test"), j.pkg) || p.Types == nil {
				continue
			}
			sc := p.Types.Scope()
			if j.typ == "" {
				if o := sc.Lookup(j.name); o != nil {
					targets[posKey(p.Fset, o.Pos())] = j.to
				}
				continue
			}
			tn, _ := sc.Lookup(j.typ).(*types.TypeName)
			if tn == nil {
				continue
			}
			obj, _, _ := types.LookupFieldOrMethod(types.NewPointer(tn.Type()), true, p.Types, j.name)
			if obj != nil {
				targets[posKey(p.Fset, obj.Pos())] = j.to
			}
		}
	}
	changed := map[string]*ast.File{}
	fsets := map[string]*token.FileSet{}
	for _, p := range pkgs {
		for i, f := range p.Syntax {
			fn := p.CompiledGoFiles[i]
			touched := false
			ast.Inspect(f, func(n ast.Node) bool {
				id, ok := n.(*ast.Ident)
				if !ok {
					return true
				}
				var o types.Object
				if d := p.TypesInfo.Defs[id]; d != nil {
					o = d
				} else if u := p.TypesInfo.Uses[id]; u != nil {
					o = u
				}
				if o == nil {
					return true
				}
				if to, has := targets[posKey(p.Fset, o.Pos())]; has && id.Name != to {
					id.Name = to
					touched = true
				}
				return true
			})
			if touched {
				changed[fn] = f
				fsets[fn] = p.Fset
			}
		}
	}
	for fn, f := range changed {
		out, err := os.Create(fn)
		if err != nil {
			fmt.Fprintln(os.Stderr, err)
			os.Exit(2)
		}
		if err := format.Node(out, fsets[fn], f); err != nil {
			fmt.Fprintln(os.Stderr, err)
			os.Exit(2)
		}
		out.Close()
	}
	fmt.Println("renamed", len(targets), "objects in", len(changed), "files")
}
