// Command vcheck decides the static clauses of one property on /repo's
// current working tree. Exit 0 = all obligations discharged (or listed as
// known findings), 1 = violation/undecided obligation, 2 = infrastructure.
package main

import (
	"encoding/json"
	"flag"
	"fmt"
	"os"
	"path/filepath"
	"runtime/debug"
	"sort"
	"strconv"
	"strings"
	"time"

	"verif/internal/core"
	"verif/internal/rules"
)

func main() {
	prop := flag.String("p", "", "property id (C01..C20)")
	tier := flag.String("tier", os.Getenv("VERIF_TIER"), "quick or thorough")
	repo := flag.String("repo", "/repo", "repository to analyse")
	verif := flag.String("verif", "", "verif directory (default: directory above the binary)")
	only := flag.String("only", "", "print only the obligation rule|key (replay)")
	list := flag.Bool("list", false, "list all obligations")
	replay := flag.String("replay", "", "replay file written for a violation (out/replay/<id>/*.json): re-decide that one obligation on the current tree")
	dump := flag.String("dump-anchors", "", "write the anchor fingerprint table of the repository to this file and exit")
	flag.Parse()
	if *tier != "thorough" {
		*tier = "quick"
	}
	if *verif == "" {
		exe, _ := os.Executable()
		*verif = filepath.Dir(filepath.Dir(exe))
	}
	core.SetAnchorDir(*verif)
	if *dump != "" {
		c := core.Load(core.Config{RepoDir: *repo, Tier: "quick"})
		if err := c.DumpAnchors(*dump); err != nil {
			fmt.Fprintln(os.Stderr, err)
			os.Exit(2)
		}
		return
	}
	seed, _ := strconv.ParseInt(os.Getenv("VERIF_SEED"), 10, 64)
	if strings.Contains(*prop, ",") || *prop == "all" {
		*prop = strings.Trim(*prop, ",")
		// self-test mode: several properties over one loaded program (the registered commands run one property per process)
		os.Exit(runMany(*prop, *tier, *repo, *verif, seed))
	}
	chk := rules.Registry[*prop]
	if chk == nil {
		var ids []string
		for k := range rules.Registry {
			ids = append(ids, k)
		}
		sort.Strings(ids)
		fmt.Fprintf(os.Stderr, "unknown property %q; have %v\n", *prop, ids)
		os.Exit(2)
	}
	start := time.Now()
	code := 2
	func() {
		defer func() {
			if r := recover(); r != nil {
				if ie, ok := r.(*core.InfraError); ok {
					fmt.Fprintf(os.Stderr, "INFRASTRUCTURE: %s\n", ie.Msg)
				} else {
					fmt.Fprintf(os.Stderr, "INFRASTRUCTURE: checker panic: %v\n%s\n", r, debug.Stack())
				}
				code = 2
			}
		}()
		configs := []core.Config{{RepoDir: *repo, Tier: *tier}}
		l := core.NewLedger(*prop, *tier)
		l.Trusted = rules.TrustedBase
		for i, cfg := range configs {
			c := core.Load(cfg)
			if d := os.Getenv("VDUMP"); d != "" {
				rules.DumpSkeleton(c, d)
				os.Exit(0)
			}
			if i == 0 {
				rules.EnsureAliases(c)
				chk(c, l)
				rules.RunExtra(c, l)
				for k, v := range c.Units {
					l.Units[k] = v
				}
			}
		}
		if *only != "" || *list {
			for _, o := range l.Obls {
				if *list || o.Rule+"|"+o.Key == *only {
					fmt.Printf("%-11s %-18s %s  %s\n      %s\n", o.Status, o.Rule, o.Key, o.Pos, o.Detail)
					for _, t := range o.Trace {
						fmt.Println("        " + t)
					}
				}
			}
		}
		if *replay != "" {
			// re-decide the one obligation the replay file names; evidence and replay files are left alone
			code = replayOne(l, *replay)
			return
		}
		cmd := "./bin/vcheck " + strings.Join(os.Args[1:], " ")
		code = l.Finish(*verif, start, seed, cmd)
	}()
	os.Exit(code)
}

// runMany runs the listed properties one after the other on one loaded
// program and prints "PROP <id> exit=<code>" after each. Used by the
// regression scripts only.
func runMany(list, tier, repo, verif string, seed int64) int {
	var ids []string
	if list == "all" {
		for k := range rules.Registry {
			ids = append(ids, k)
		}
		sort.Strings(ids)
	} else {
		ids = strings.Split(list, ",")
	}
	worst := 0
	var c *core.Ctx
	func() {
		defer func() {
			if r := recover(); r != nil {
				fmt.Fprintf(os.Stderr, "INFRASTRUCTURE: load failed: %v\n", r)
				worst = 2
			}
		}()
		c = core.Load(core.Config{RepoDir: repo, Tier: tier})
		rules.EnsureAliases(c)
	}()
	if c == nil {
		return 2
	}
	for _, id := range ids {
		chk := rules.Registry[id]
		if chk == nil {
			fmt.Fprintf(os.Stderr, "unknown property %q\n", id)
			worst = 2
			continue
		}
		code := 2
		start := time.Now()
		func() {
			defer func() {
				if r := recover(); r != nil {
					if ie, ok := r.(*core.InfraError); ok {
						fmt.Fprintf(os.Stderr, "INFRASTRUCTURE: %s\n", ie.Msg)
					} else {
						fmt.Fprintf(os.Stderr, "INFRASTRUCTURE: checker panic: %v\n%s\n", r, debug.Stack())
					}
				}
			}()
			l := core.NewLedger(id, tier)
			l.Trusted = rules.TrustedBase
			chk(c, l)
			rules.RunExtra(c, l)
			for k, v := range c.Units {
				l.Units[k] = v
			}
			code = l.Finish(verif, start, seed, "./bin/vcheck -p "+id)
		}()
		fmt.Printf("PROP %s exit=%d\n", id, code)
		if code > worst {
			worst = code
		}
	}
	return worst
}

// replayOne looks up the obligation a replay file names (rule and key) in the
// freshly computed ledger: exit 1 with a VIOLATION line if it is still
// violated or undecided, 0 if it is discharged now (or no longer exists).
func replayOne(l *core.Ledger, path string) int {
	b, err := os.ReadFile(path)
	if err != nil {
		fmt.Fprintf(os.Stderr, "INFRASTRUCTURE: cannot read replay file: %v\n", err)
		return 2
	}
	var rec struct {
		Property, Rule, Key string
	}
	if err := json.Unmarshal(b, &rec); err != nil || rec.Rule == "" {
		fmt.Fprintf(os.Stderr, "INFRASTRUCTURE: %s is not a replay file of vcheck\n", path)
		return 2
	}
	if rec.Property != "" && rec.Property != l.Prop {
		fmt.Fprintf(os.Stderr, "INFRASTRUCTURE: replay file is for %s, not %s\n", rec.Property, l.Prop)
		return 2
	}
	found := false
	code := 0
	for _, o := range l.Obls {
		if o.Rule != rec.Rule || o.Key != rec.Key {
			continue
		}
		found = true
		fmt.Printf("%-11s %-18s %s  %s\n      %s\n", o.Status, o.Rule, o.Key, o.Pos, o.Detail)
		for _, t := range o.Trace {
			fmt.Println("        " + t)
		}
		if o.Status != core.Discharged {
			code = 1
		}
	}
	if !found {
		fmt.Printf("obligation %s|%s is not raised on this tree any more\n", rec.Rule, rec.Key)
	}
	if code == 1 {
		fmt.Printf("VIOLATION property=%s replay=%s\n", l.Prop, path)
	}
	return code
}
