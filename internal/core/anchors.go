package core

import (
	"encoding/json"
	"fmt"
	"go/token"
	"go/types"
	"os"
	"path/filepath"
	"sort"
	"strings"

	"golang.org/x/tools/go/ssa"
)

// Anchor fingerprints. The rules find the functions they are about by name.
// An unexported function can be renamed without any change of behaviour; to
// keep such a rename from turning into "anchor not found", every unexported
// function of the repository has a recorded fingerprint (testdata/anchors.json,
// produced from the pinned tree by `vcheck -dump-anchors`): its signature
// without names, the functions it calls and the functions that call it. When a
// lookup by name fails, the functions of the package that are *not* in the
// table under their own name (new names) and have the recorded signature are
// compared with the fingerprint of the missing one; a unique best match with
// at least half of the call neighbourhood in common is taken to be the renamed
// function and given the old name as alias (SetAlias). A wrong guess cannot
// hide a violation of the original function — the rule is then evaluated on
// other code and fails as it did with the anchor missing.

// AnchorFP is the fingerprint of one function.
type AnchorFP struct {
	Sig     string   `json:"sig"`
	Callees []string `json:"callees"`
	Callers []string `json:"callers"`
}

func sigString(f *ssa.Function) string {
	q := func(p *types.Package) string { return p.Path() }
	var ps, rs []string
	for i := 0; i < f.Signature.Params().Len(); i++ {
		ps = append(ps, types.TypeString(f.Signature.Params().At(i).Type(), q))
	}
	for i := 0; i < f.Signature.Results().Len(); i++ {
		rs = append(rs, types.TypeString(f.Signature.Results().At(i).Type(), q))
	}
	recv := ""
	if f.Signature.Recv() != nil {
		recv = RecvTypeName(f.Signature.Recv().Type()) + "|"
	}
	v := ""
	if f.Signature.Variadic() {
		v = "..."
	}
	return recv + "(" + strings.Join(ps, ",") + v + ")(" + strings.Join(rs, ",") + ")"
}

func anchorKey(f *ssa.Function) string {
	name := f.Name()
	if f.Signature.Recv() != nil {
		name = RecvTypeName(f.Signature.Recv().Type()) + "." + name
	}
	return PkgRel(f) + "|" + name
}

// fingerprints computes the fingerprint of every declared repository function.
func (c *Ctx) fingerprints() map[string]AnchorFP {
	callees := map[*ssa.Function]map[string]bool{}
	callers := map[*ssa.Function]map[string]bool{}
	var fns []*ssa.Function
	for _, f := range c.AllFuncs() {
		if f.Parent() != nil || f.Synthetic != "" || c.IsTestFile(f.Pos()) {
			continue
		}
		if _, ok := f.Object().(*types.Func); !ok {
			continue
		}
		fns = append(fns, f)
	}
	owner := func(f *ssa.Function) *ssa.Function {
		for f.Parent() != nil {
			f = f.Parent()
		}
		return f
	}
	for _, f := range c.AllFuncs() {
		if c.IsTestFile(f.Pos()) {
			continue
		}
		top := owner(f)
		Instrs(f, func(in ssa.Instruction) {
			// functions used as values (callbacks, template function tables) count as callers too
			for _, op := range in.Operands(nil) {
				if op == nil || *op == nil {
					continue
				}
				if g, isFn := (*op).(*ssa.Function); isFn && InRepo(g) && g.Parent() == nil {
					if ci, isCall := in.(ssa.CallInstruction); isCall && ci.Common().StaticCallee() == g {
						continue
					}
					if callers[g] == nil {
						callers[g] = map[string]bool{}
					}
					callers[g]["ref:"+top.String()] = true
				}
			}
			call, ok := in.(ssa.CallInstruction)
			if !ok {
				return
			}
			com := call.Common()
			name := ""
			if com.IsInvoke() {
				name = "inv:" + com.Method.Name()
			} else if cal := com.StaticCallee(); cal != nil {
				name = cal.String()
				if InRepo(cal) && cal.Parent() == nil {
					if callers[cal] == nil {
						callers[cal] = map[string]bool{}
					}
					callers[cal][top.String()] = true
				}
			}
			if name != "" {
				if callees[top] == nil {
					callees[top] = map[string]bool{}
				}
				callees[top][name] = true
			}
		})
	}
	keys := func(m map[string]bool) []string {
		var out []string
		for k := range m {
			out = append(out, strings.ReplaceAll(k, ModPath+"/", ""))
		}
		sort.Strings(out)
		return out
	}
	out := map[string]AnchorFP{}
	// unexported struct fields: type, and the functions that touch them
	touch := map[*types.Var]map[string]bool{}
	for _, f := range c.AllFuncs() {
		if c.IsTestFile(f.Pos()) {
			continue
		}
		top := owner(f)
		Instrs(f, func(in ssa.Instruction) {
			var fld *types.Var
			switch x := in.(type) {
			case *ssa.FieldAddr:
				fld = FieldOf(x)
			case *ssa.Field:
				fld = FieldOf(x)
			}
			if fld != nil && !fld.Exported() {
				if touch[fld] == nil {
					touch[fld] = map[string]bool{}
				}
				touch[fld][top.String()] = true
			}
		})
	}
	for _, p := range c.Pkgs {
		rel := strings.TrimPrefix(strings.TrimPrefix(p.PkgPath, ModPath), "/")
		sc := p.Types.Scope()
		for _, n := range sc.Names() {
			tn, ok := sc.Lookup(n).(*types.TypeName)
			if !ok || c.IsTestFile(tn.Pos()) {
				continue
			}
			st, ok := tn.Type().Underlying().(*types.Struct)
			if !ok {
				continue
			}
			for i := 0; i < st.NumFields(); i++ {
				fld := st.Field(i)
				if fld.Exported() || fld.Embedded() {
					continue
				}
				out["F|"+rel+"|"+n+"."+fld.Name()] = AnchorFP{Sig: types.TypeString(fld.Type(), func(p *types.Package) string { return p.Path() }), Callees: keys(touch[fld])}
			}
		}
	}
	var all []string
	for _, f := range c.AllFuncs() {
		if !c.IsTestFile(f.Pos()) {
			all = append(all, strings.ReplaceAll(f.String(), ModPath+"/", ""))
		}
	}
	sort.Strings(all)
	out["_all"] = AnchorFP{Callees: all}
	for _, f := range fns {
		if token.IsExported(f.Name()) || strings.HasPrefix(f.Name(), "init") {
			continue // exported names are API: not renamed by a behaviour-preserving edit of this repository
		}
		out[anchorKey(f)] = AnchorFP{Sig: sigString(f), Callees: keys(callees[f]), Callers: keys(callers[f])}
	}
	return out
}

// DumpAnchors writes the fingerprint table of the loaded tree.
func (c *Ctx) DumpAnchors(path string) error {
	b, err := json.MarshalIndent(c.fingerprints(), "", " ")
	if err != nil {
		return err
	}
	return os.WriteFile(path, b, 0o644)
}

var (
	anchorTable     map[string]AnchorFP
	anchorTableDir  string
	anchorCurrent   map[string]AnchorFP
	anchorResolving bool
)

// SetAnchorDir tells where testdata/anchors.json lives.
func SetAnchorDir(dir string) { anchorTableDir = dir }

// anchorFallback re-identifies a function that is missing under its recorded name.
func (c *Ctx) anchorFallback(rel, name string) *types.Func {
	if anchorResolving || anchorTableDir == "" {
		return nil
	}
	if anchorTable == nil {
		anchorTable = map[string]AnchorFP{}
		if b, err := os.ReadFile(filepath.Join(anchorTableDir, "testdata", "anchors.json")); err == nil {
			_ = json.Unmarshal(b, &anchorTable)
		}
	}
	want, ok := anchorTable[rel+"|"+name]
	if !ok {
		return nil
	}
	anchorResolving = true
	defer func() { anchorResolving = false }()
	if anchorCurrent == nil {
		anchorCurrent = c.fingerprints()
	}
	set := func(xs []string) map[string]bool {
		m := map[string]bool{}
		for _, x := range xs {
			m[x] = true
		}
		return m
	}
	// neighbours that were themselves renamed say nothing: compare only over names present on both sides
	recorded, current := set(anchorTable["_all"].Callees), set(anchorCurrent["_all"].Callees)
	bare := func(e string) string { return strings.TrimPrefix(strings.TrimPrefix(e, "<-"), "ref:") }
	keepWant := func(e string) bool { b := bare(e); return !recorded[b] || current[b] }
	keepGot := func(e string) bool { b := bare(e); return !current[b] || recorded[b] }
	filter := func(xs []string, keep func(string) bool) map[string]bool {
		m := map[string]bool{}
		for _, x := range xs {
			if keep(x) {
				m[x] = true
			}
		}
		return m
	}
	wantN := filter(append(append([]string{}, want.Callees...), prefixAll("<-", want.Callers)...), keepWant)
	// the renamed function keeps its receiver type: compare signatures including it
	best, bestScore, ties := "", 0.0, 0
	for key, fp := range anchorCurrent {
		if key == "_all" || strings.HasPrefix(key, "F|") || !strings.HasPrefix(key, rel+"|") || fp.Sig != want.Sig {
			continue
		}
		if _, known := anchorTable[key]; known {
			continue // exists under its own recorded name: not a renamed function
		}
		if bare := key[strings.LastIndexAny(key, "|.")+1:]; token.IsExported(bare) {
			continue
		}
		gotN := filter(append(append([]string{}, fp.Callees...), prefixAll("<-", fp.Callers)...), keepGot)
		inter, union := 0, len(gotN)
		for k := range wantN {
			if gotN[k] {
				inter++
			} else {
				union++
			}
		}
		score := 1.0
		if union > 0 {
			score = float64(inter) / float64(union)
		}
		if os.Getenv("VDEBUG") == "2" {
			fmt.Fprintln(os.Stderr, "  cand", key, score, "want", wantN, "got", gotN)
		}
		switch {
		case score > bestScore:
			best, bestScore, ties = key, score, 1
		case score == bestScore:
			ties++
		}
	}
	if os.Getenv("VDEBUG") != "" {
		fmt.Fprintln(os.Stderr, "ANCHOR", rel+"|"+name, "->", best, bestScore, "ties", ties)
	}
	if best == "" || ties != 1 || bestScore < 0.5 {
		return nil
	}
	obj := c.lookupFunc(rel, best[len(rel)+1:])
	if obj != nil {
		SetAlias(rel, name, obj)
	}
	return obj
}

func prefixAll(p string, xs []string) []string {
	out := make([]string, len(xs))
	for i, x := range xs {
		out[i] = p + x
	}
	return out
}

// Named reports whether f is the function known to the rules by one of the
// given bare names (in f's own package, on f's own receiver type): either it
// carries that name, or the name is missing from the tree and f was identified
// as the renamed function.
func (c *Ctx) Named(f *ssa.Function, names ...string) bool {
	if f == nil {
		return false
	}
	for _, n := range names {
		if f.Name() == n {
			return true
		}
	}
	rel := PkgRel(f)
	if rel == "?" || c.Pkg(rel) == nil {
		return false
	}
	for _, n := range names {
		canon := n
		if f.Signature.Recv() != nil {
			canon = RecvTypeName(f.Signature.Recv().Type()) + "." + n
		}
		if o := c.LookupFunc(rel, canon); o != nil && c.SSAFunc(o) == f {
			return true
		}
	}
	return false
}

// ResolveAllAnchors eagerly re-identifies every recorded function that is
// missing under its name, so that renderings (which consult aliases but never
// trigger a lookup) are canonical from the start. Does nothing when every
// recorded name still exists.
func (c *Ctx) ResolveAllAnchors() {
	if anchorTableDir == "" {
		return
	}
	c.anchorFallback("", "\x00") // loads the table
	var missing []string
	for key := range anchorTable {
		if key == "_all" || strings.HasPrefix(key, "F|") {
			continue
		}
		i := strings.Index(key, "|")
		rel, name := key[:i], key[i+1:]
		if c.Pkg(rel) == nil {
			continue
		}
		if c.lookupFunc(rel, name) == nil && aliasByCanon[key] == nil {
			missing = append(missing, key)
		}
	}
	sort.Strings(missing)
	for _, key := range missing {
		i := strings.Index(key, "|")
		c.anchorFallback(key[:i], key[i+1:])
	}
	if anchorCurrent == nil {
		// computed only when some recorded field name is absent (cheap test first)
		need := false
		for key := range anchorTable {
			if strings.HasPrefix(key, "F|") && !c.fieldExists(key) {
				need = true
				break
			}
		}
		if !need {
			return
		}
		anchorCurrent = c.fingerprints()
	}
	c.resolveFields()
}

func (c *Ctx) fieldExists(key string) bool {
	parts := strings.SplitN(key, "|", 3)
	p := c.Pkg(parts[1])
	if p == nil {
		return true
	}
	tf := parts[2]
	tn, _ := p.Types.Scope().Lookup(tf[:strings.Index(tf, ".")]).(*types.TypeName)
	if tn == nil {
		return true // the type itself is gone: not a field rename
	}
	st, _ := tn.Type().Underlying().(*types.Struct)
	for i := 0; st != nil && i < st.NumFields(); i++ {
		if st.Field(i).Name() == tf[strings.Index(tf, ".")+1:] {
			return true
		}
	}
	return false
}

// fieldAlias: unexported struct fields re-identified after a rename.
var fieldAlias = map[*types.Var]string{}

// FieldName: the name a struct field is known by to the rules.
func FieldName(v *types.Var) string {
	if v == nil {
		return ""
	}
	if a, ok := fieldAlias[v]; ok {
		return a
	}
	return v.Name()
}

// resolveFields re-identifies recorded fields that are missing from their
// struct: among the fields of the same struct with the recorded type that are
// not themselves recorded names, the one whose set of accessing functions is
// closest (a single candidate is taken as is).
func (c *Ctx) resolveFields() {
	cur := anchorCurrent
	recorded, current := map[string]bool{}, map[string]bool{}
	for _, x := range anchorTable["_all"].Callees {
		recorded[x] = true
	}
	for _, x := range cur["_all"].Callees {
		current[x] = true
	}
	var missing []string
	for key := range anchorTable {
		if strings.HasPrefix(key, "F|") {
			if _, still := cur[key]; !still {
				missing = append(missing, key)
			}
		}
	}
	sort.Strings(missing)
	taken := map[string]bool{}
	for _, key := range missing {
		want := anchorTable[key]
		owner := key[:strings.LastIndex(key, ".")+1] // F|rel|Type.
		best, bestScore, n := "", -1.0, 0
		for k2, fp := range cur {
			if !strings.HasPrefix(k2, owner) || fp.Sig != want.Sig || taken[k2] {
				continue
			}
			if _, known := anchorTable[k2]; known {
				continue
			}
			inter, union := 0, 0
			got := map[string]bool{}
			for _, x := range fp.Callees {
				if !current[x] || recorded[x] {
					got[x] = true
				}
			}
			union = len(got)
			for _, x := range want.Callees {
				if recorded[x] && !current[x] {
					continue
				}
				if got[x] {
					inter++
				} else {
					union++
				}
			}
			score := 1.0
			if union > 0 {
				score = float64(inter) / float64(union)
			}
			n++
			if score > bestScore {
				best, bestScore = k2, score
			}
		}
		if best == "" || (n > 1 && bestScore < 0.34) {
			continue
		}
		taken[best] = true
		// bind the *types.Var
		parts := strings.SplitN(best, "|", 3)
		rel, tf := parts[1], parts[2]
		p := c.Pkg(rel)
		if p == nil {
			continue
		}
		tn, _ := p.Types.Scope().Lookup(tf[:strings.Index(tf, ".")]).(*types.TypeName)
		if tn == nil {
			continue
		}
		st, _ := tn.Type().Underlying().(*types.Struct)
		for i := 0; st != nil && i < st.NumFields(); i++ {
			if st.Field(i).Name() == tf[strings.Index(tf, ".")+1:] {
				fieldAlias[st.Field(i)] = key[strings.LastIndex(key, ".")+1:]
				if os.Getenv("VDEBUG") != "" {
					fmt.Fprintln(os.Stderr, "FIELD-ALIAS", best, "->", key, bestScore)
				}
			}
		}
	}
}
