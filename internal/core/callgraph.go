package core

import (
	"go/token"
	"go/types"
	"sort"
	"time"

	"golang.org/x/tools/go/callgraph"
	"golang.org/x/tools/go/callgraph/cha"
	"golang.org/x/tools/go/callgraph/vta"
	"golang.org/x/tools/go/ssa"
	"golang.org/x/tools/go/ssa/ssautil"
)

// CGEdge is an edge of the gated call graph.
type CGEdge struct {
	From, To *ssa.Function
	Kind     string // static, invoke, dynamic, callback, template, reflect
	Site     ssa.Instruction
	Note     string
}

// CG is the repository call graph: VTA refined by callback gating, plus the
// reflection edges VTA cannot see (template functions, concurrent.Range).
type CG struct {
	Out   map[*ssa.Function][]CGEdge
	In    map[*ssa.Function][]CGEdge
	Nodes int
	// ParamCallers: functions that only *call* their i-th func-typed parameter.
	ParamCallers map[*ssa.Function]map[int]bool
}

// ExtraEdges are added by the template model before the graph is built.
var ExtraEdges func(c *Ctx) []CGEdge

// Graph builds (once) and returns the gated call graph.
func (c *Ctx) Graph() *CG {
	if g := c.cgCache; g != nil {
		return g
	}
	t0 := time.Now()
	all := ssautil.AllFunctions(c.Prog)
	vg := vta.CallGraph(all, cha.CallGraph(c.Prog))
	c.cg = vg
	g := &CG{Out: map[*ssa.Function][]CGEdge{}, In: map[*ssa.Function][]CGEdge{}, ParamCallers: map[*ssa.Function]map[int]bool{}}

	// field stores of function values: field -> values
	fieldStores := map[*types.Var][]ssa.Value{}
	for f := range all {
		if !InRepo(f) {
			continue
		}
		Instrs(f, func(in ssa.Instruction) {
			if st, ok := in.(*ssa.Store); ok {
				if fa, ok := st.Addr.(*ssa.FieldAddr); ok {
					if _, isSig := st.Val.Type().Underlying().(*types.Signature); isSig {
						fieldStores[FieldOf(fa)] = append(fieldStores[FieldOf(fa)], st.Val)
					}
				}
			}
		})
	}

	// 1. param callers (fixed point)
	paramIndex := func(f *ssa.Function, v ssa.Value) int {
		// v is a parameter of f, or a free variable of f bound (in the parent) to a
		// parameter of the parent: returns index in the *owner*; owner via second result.
		for i, p := range f.Params {
			if p == v {
				return i
			}
		}
		return -1
	}
	onlyCalled := func(f *ssa.Function, i int, pc map[*ssa.Function]map[int]bool) bool {
		p := f.Params[i]
		if _, ok := p.Type().Underlying().(*types.Signature); !ok {
			return false
		}
		refs := p.Referrers()
		if refs == nil || len(*refs) == 0 {
			return false
		}
		for _, r := range *refs {
			switch x := r.(type) {
			case ssa.CallInstruction:
				cc := x.Common()
				if cc.Value == p {
					continue
				}
				// passed as argument to a param caller at that position
				ok := false
				if callee := cc.StaticCallee(); callee != nil {
					off := 0
					if cc.Signature().Recv() != nil && !cc.IsInvoke() {
						off = 0 // receiver is Args[0] and Params[0] alike
					}
					for ai, a := range cc.Args {
						if a == p && pc[callee][ai+off] {
							ok = true
						}
					}
				}
				if !ok {
					return false
				}
			case *ssa.DebugRef:
			default:
				return false
			}
		}
		return true
	}
	for changed := true; changed; {
		changed = false
		for f := range all {
			if !InRepo(f) || len(f.Blocks) == 0 {
				continue
			}
			for i := range f.Params {
				if g.ParamCallers[f][i] {
					continue
				}
				if onlyCalled(f, i, g.ParamCallers) {
					if g.ParamCallers[f] == nil {
						g.ParamCallers[f] = map[int]bool{}
					}
					g.ParamCallers[f][i] = true
					changed = true
				}
			}
		}
	}
	_ = paramIndex

	// resolve a function value to concrete functions; ok=false when it cannot
	var resolve func(v ssa.Value, depth int) ([]*ssa.Function, bool)
	resolve = func(v ssa.Value, depth int) ([]*ssa.Function, bool) {
		if depth > 4 {
			return nil, false
		}
		switch x := v.(type) {
		case *ssa.Function:
			return []*ssa.Function{x}, true
		case *ssa.MakeClosure:
			return []*ssa.Function{x.Fn.(*ssa.Function)}, true
		case *ssa.ChangeType:
			return resolve(x.X, depth+1)
		case *ssa.MakeInterface:
			return resolve(x.X, depth+1)
		case *ssa.Phi:
			var out []*ssa.Function
			for _, e := range x.Edges {
				r, ok := resolve(e, depth+1)
				if !ok {
					return nil, false
				}
				out = append(out, r...)
			}
			return out, true
		case *ssa.UnOp:
			if x.Op == token.MUL {
				if fa, ok := x.X.(*ssa.FieldAddr); ok {
					var out []*ssa.Function
					st := fieldStores[FieldOf(fa)]
					if len(st) == 0 {
						return nil, false
					}
					for _, sv := range st {
						r, ok := resolve(sv, depth+1)
						if !ok {
							return nil, false
						}
						out = append(out, r...)
					}
					return out, true
				}
			}
		case *ssa.Const:
			if x.IsNil() {
				return nil, true
			}
		}
		return nil, false
	}

	add := func(e CGEdge) {
		if e.From == nil || e.To == nil {
			return
		}
		g.Out[e.From] = append(g.Out[e.From], e)
		g.In[e.To] = append(g.In[e.To], e)
	}

	// 2. edges
	for f, n := range vg.Nodes {
		if f == nil || !InRepo(f) {
			continue
		}
		g.Nodes++
		// group VTA edges by site
		for _, e := range n.Out {
			site := e.Site
			kind := "static"
			if site != nil {
				cc := site.Common()
				if cc.IsInvoke() {
					kind = "invoke"
				} else if cc.StaticCallee() == nil {
					kind = "dynamic"
					// gated? the called value is a parameter that is only called
					if pi := paramIndex(f, cc.Value); pi >= 0 && g.ParamCallers[f][pi] {
						continue // replaced by per-call-site callback edges below
					}
					if fv, ok := cc.Value.(*ssa.FreeVar); ok {
						// closure calling a captured parameter of the parent
						if par := f.Parent(); par != nil {
							idx := -1
							for i, v := range f.FreeVars {
								if v == fv {
									idx = i
								}
							}
							gated := false
							if idx >= 0 {
								// find the MakeClosure in parent binding this free var
								Instrs(par, func(in ssa.Instruction) {
									if mc, ok := in.(*ssa.MakeClosure); ok && mc.Fn == f && idx < len(mc.Bindings) {
										if pi := paramIndex(par, mc.Bindings[idx]); pi >= 0 && g.ParamCallers[par][pi] {
											gated = true
										}
									}
								})
							}
							if gated {
								continue
							}
						}
					}
				}
			}
			add(CGEdge{From: f, To: e.Callee.Func, Kind: kind, Site: site})
		}
		// callback edges: calls to param callers with resolvable function arguments
		for _, call := range Calls(f) {
			cc := call.Common()
			callee := cc.StaticCallee()
			if callee == nil || g.ParamCallers[callee] == nil {
				continue
			}
			for ai, a := range cc.Args {
				if !g.ParamCallers[callee][ai] {
					continue
				}
				if pi := paramIndex(f, a); pi >= 0 && g.ParamCallers[f][pi] {
					continue // forwarded; resolved at f's callers
				}
				targets, ok := resolve(a, 0)
				if !ok {
					// fall back to everything VTA thinks the callee's parameter call may reach
					for _, e := range vg.Nodes[callee].Out {
						if e.Site != nil && e.Site.Common().StaticCallee() == nil && !e.Site.Common().IsInvoke() {
							add(CGEdge{From: f, To: e.Callee.Func, Kind: "callback", Site: call, Note: "unresolved argument; VTA fallback"})
						}
					}
					continue
				}
				for _, t := range targets {
					add(CGEdge{From: f, To: t, Kind: "callback", Site: call, Note: "via " + SSAName(callee)})
				}
			}
		}
	}
	// a parameter caller with *no* resolvable caller keeps nothing; functions that
	// capture a gated param in a closure handled above.

	// 3. reflection: concurrent.Range(coll, fn)
	rangeFn := c.SSAFunc(c.LookupFunc("internal/concurrent", "Range"))
	for f := range all {
		if !InRepo(f) {
			continue
		}
		for _, call := range Calls(f) {
			if call.Common().StaticCallee() == rangeFn && rangeFn != nil && len(call.Common().Args) == 2 {
				ts, ok := resolve(call.Common().Args[1], 0)
				if ok {
					for _, t := range ts {
						add(CGEdge{From: f, To: t, Kind: "reflect", Site: call, Note: "concurrent.Range"})
					}
				}
			}
		}
	}
	if ExtraEdges != nil {
		for _, e := range ExtraEdges(c) {
			add(e)
		}
	}
	c.cgTime = time.Since(t0)
	c.Units["callgraph_nodes"] = g.Nodes
	c.cgCache = g
	return g
}

// VTA returns the raw VTA graph (after Graph()).
func (c *Ctx) VTA() *callgraph.Graph { c.Graph(); return c.cg }

// Reach returns all repository functions reachable from roots; keep filters
// which functions are entered (nil = all repo functions).
func (g *CG) Reach(roots []*ssa.Function, keep func(*ssa.Function) bool) map[*ssa.Function]CGEdge {
	seen := map[*ssa.Function]CGEdge{}
	var st []*ssa.Function
	for _, r := range roots {
		if r != nil {
			if _, ok := seen[r]; !ok {
				seen[r] = CGEdge{}
				st = append(st, r)
			}
		}
	}
	for len(st) > 0 {
		f := st[len(st)-1]
		st = st[:len(st)-1]
		for _, e := range g.Out[f] {
			if _, ok := seen[e.To]; ok {
				continue
			}
			if !InRepo(e.To) {
				continue
			}
			if keep != nil && !keep(e.To) {
				continue
			}
			seen[e.To] = e
			st = append(st, e.To)
		}
	}
	return seen
}

// PathTo renders the discovery path of f in a Reach result.
func PathTo(seen map[*ssa.Function]CGEdge, f *ssa.Function) []string {
	var out []string
	for i := 0; i < 50 && f != nil; i++ {
		e, ok := seen[f]
		if !ok || e.From == nil {
			out = append([]string{SSAName(f)}, out...)
			break
		}
		out = append([]string{"-> " + SSAName(f) + " [" + e.Kind + "]"}, out...)
		f = e.From
	}
	return out
}

// SortedFuncs returns the keys sorted by name.
func SortedFuncs(m map[*ssa.Function]CGEdge) []*ssa.Function {
	var out []*ssa.Function
	for f := range m {
		out = append(out, f)
	}
	sort.Slice(out, func(i, j int) bool { return out[i].String() < out[j].String() })
	return out
}

// SCCs computes strongly connected components (Tarjan) of the graph restricted
// to functions accepted by keep. Only components with a cycle are returned.
func (g *CG) SCCs(keep func(*ssa.Function) bool) [][]*ssa.Function {
	var nodes []*ssa.Function
	set := map[*ssa.Function]bool{}
	for f := range g.Out {
		if keep(f) && !set[f] {
			set[f] = true
			nodes = append(nodes, f)
		}
	}
	for f := range g.In {
		if keep(f) && !set[f] {
			set[f] = true
			nodes = append(nodes, f)
		}
	}
	sort.Slice(nodes, func(i, j int) bool { return nodes[i].String() < nodes[j].String() })
	index := map[*ssa.Function]int{}
	low := map[*ssa.Function]int{}
	on := map[*ssa.Function]bool{}
	var stack []*ssa.Function
	var out [][]*ssa.Function
	idx := 0
	var strong func(v *ssa.Function)
	strong = func(v *ssa.Function) {
		idx++
		index[v] = idx
		low[v] = idx
		stack = append(stack, v)
		on[v] = true
		for _, e := range g.Out[v] {
			w := e.To
			if !set[w] {
				continue
			}
			if index[w] == 0 {
				strong(w)
				if low[w] < low[v] {
					low[v] = low[w]
				}
			} else if on[w] && index[w] < low[v] {
				low[v] = index[w]
			}
		}
		if low[v] == index[v] {
			var comp []*ssa.Function
			for {
				w := stack[len(stack)-1]
				stack = stack[:len(stack)-1]
				on[w] = false
				comp = append(comp, w)
				if w == v {
					break
				}
			}
			cyc := len(comp) > 1
			if !cyc {
				for _, e := range g.Out[v] {
					if e.To == v {
						cyc = true
					}
				}
			}
			if cyc {
				sort.Slice(comp, func(i, j int) bool { return comp[i].String() < comp[j].String() })
				out = append(out, comp)
			}
		}
	}
	for _, n := range nodes {
		if index[n] == 0 {
			strong(n)
		}
	}
	sort.Slice(out, func(i, j int) bool { return out[i][0].String() < out[j][0].String() })
	return out
}
