// Package core holds the program model (typed syntax, SSA, call graph) and the
// obligation ledger shared by all property rules.
package core

import (
	"fmt"
	"go/ast"
	"go/token"
	"go/types"
	"os"
	"path/filepath"
	"sort"
	"strings"
	"time"

	"golang.org/x/tools/go/callgraph"
	"golang.org/x/tools/go/packages"
	"golang.org/x/tools/go/ssa"
	"golang.org/x/tools/go/ssa/ssautil"
)

// ModPath is the import path prefix of the analysed module.
const ModPath = "go.uber.org/thriftrw"

// InfraError is an infrastructure failure: the run gives no verdict (exit 2).
type InfraError struct{ Msg string }

func (e *InfraError) Error() string { return e.Msg }

// Infraf aborts the run with an infrastructure failure.
func Infraf(format string, args ...interface{}) {
	panic(&InfraError{Msg: fmt.Sprintf(format, args...)})
}

// Config selects what is loaded.
type Config struct {
	RepoDir string
	Tier    string
	GOARCH  string   // "" = host
	Tags    []string // extra build tags (verif is always added)
}

// Ctx is the loaded program.
type Ctx struct {
	Cfg       Config
	Fset      *token.FileSet
	Pkgs      []*packages.Package // repo packages only (module go.uber.org/thriftrw)
	AllPkgs   []*packages.Package
	ByPath    map[string]*packages.Package
	Prog      *ssa.Program
	SSA       map[string]*ssa.Package
	Start     time.Time
	LoadTime  time.Duration
	cg        *callgraph.Graph
	cgTime    time.Duration
	funcDecls map[*types.Func]*ast.FuncDecl
	declPkg   map[*types.Func]*packages.Package
	Units     map[string]int
	cgCache   *CG
	Cache     map[string]interface{}
}

// Load loads ./... of the repository with full syntax and builds SSA.
func Load(cfg Config) *Ctx {
	start := time.Now()
	env := append(os.Environ(), "GOWORK=off", "GOFLAGS=-mod=mod", "GOPROXY=off", "GOSUMDB=off", "GOTOOLCHAIN=local")
	if cfg.GOARCH != "" {
		env = append(env, "GOARCH="+cfg.GOARCH)
	}
	tags := append([]string{"verif"}, cfg.Tags...)
	pc := &packages.Config{
		Mode:       packages.LoadAllSyntax,
		Dir:        cfg.RepoDir,
		Tests:      false,
		Env:        env,
		BuildFlags: []string{"-tags=" + strings.Join(tags, ",")},
	}
	pkgs, err := packages.Load(pc, "./...")
	if err != nil {
		Infraf("load: %v", err)
	}
	c := &Ctx{Cfg: cfg, ByPath: map[string]*packages.Package{}, SSA: map[string]*ssa.Package{}, Start: start,
		Cache: map[string]interface{}{}, funcDecls: map[*types.Func]*ast.FuncDecl{}, declPkg: map[*types.Func]*packages.Package{}, Units: map[string]int{}}
	nerr := 0
	packages.Visit(pkgs, nil, func(p *packages.Package) {
		c.AllPkgs = append(c.AllPkgs, p)
		if p.PkgPath == ModPath || strings.HasPrefix(p.PkgPath, ModPath+"/") {
			for _, e := range p.Errors {
				nerr++
				fmt.Fprintf(os.Stderr, "load error: %s: %v\n", p.PkgPath, e)
			}
			c.Pkgs = append(c.Pkgs, p)
			c.ByPath[p.PkgPath] = p
		}
	})
	if nerr > 0 {
		Infraf("the tree does not type-check (%d errors)", nerr)
	}
	if len(c.Pkgs) < 40 {
		Infraf("only %d repository packages loaded (expected >= 40)", len(c.Pkgs))
	}
	sort.Slice(c.Pkgs, func(i, j int) bool { return c.Pkgs[i].PkgPath < c.Pkgs[j].PkgPath })
	if len(pkgs) > 0 {
		c.Fset = pkgs[0].Fset
	}
	prog, ssapkgs := ssautil.AllPackages(pkgs, ssa.InstantiateGenerics)
	prog.Build()
	c.Prog = prog
	for i, p := range pkgs {
		if ssapkgs[i] != nil {
			c.SSA[p.PkgPath] = ssapkgs[i]
		}
	}
	for _, p := range c.Pkgs {
		if sp := prog.Package(p.Types); sp != nil {
			c.SSA[p.PkgPath] = sp
		}
		for _, f := range p.Syntax {
			for _, d := range f.Decls {
				if fd, ok := d.(*ast.FuncDecl); ok {
					if obj, ok := p.TypesInfo.Defs[fd.Name].(*types.Func); ok {
						c.funcDecls[obj] = fd
						c.declPkg[obj] = p
						if IsErrCtorFunc(prog.FuncValue(obj)) {
							errCtorObjs[obj] = true
						}
					}
				}
			}
		}
	}
	c.LoadTime = time.Since(start)
	c.Units["packages"] = len(c.Pkgs)
	return c
}

// Pkg returns the repository package with the given path relative to the module
// root ("" is the root package).
func (c *Ctx) Pkg(rel string) *packages.Package {
	path := ModPath
	if rel != "" {
		path += "/" + rel
	}
	p := c.ByPath[path]
	if p == nil {
		Infraf("package %s not loaded", path)
	}
	return p
}

// SSAPkg returns the SSA package for a module-relative path.
func (c *Ctx) SSAPkg(rel string) *ssa.Package {
	p := c.Pkg(rel)
	sp := c.SSA[p.PkgPath]
	if sp == nil {
		Infraf("no SSA for %s", p.PkgPath)
	}
	return sp
}

// Rel renders a position relative to the repository root.
func (c *Ctx) Rel(pos token.Pos) string {
	if !pos.IsValid() {
		return "?"
	}
	p := c.Fset.Position(pos)
	r, err := filepath.Rel(c.Cfg.RepoDir, p.Filename)
	if err != nil || strings.HasPrefix(r, "..") {
		r = p.Filename
	}
	return fmt.Sprintf("%s:%d", r, p.Line)
}

// RelFile returns only the repo-relative file name of a position.
func (c *Ctx) RelFile(pos token.Pos) string {
	s := c.Rel(pos)
	if i := strings.LastIndex(s, ":"); i >= 0 {
		return s[:i]
	}
	return s
}

// LookupFunc resolves "Name" or "Type.Method" (pointer or value receiver) in a
// package to its object. nil when absent.
func (c *Ctx) LookupFunc(rel, name string) *types.Func {
	if f := c.lookupFunc(rel, name); f != nil {
		return f
	}
	// a helper that was renamed and re-identified by its role (see SetAlias)
	if f := aliasByCanon[rel+"|"+name]; f != nil {
		return f
	}
	// ... or by its recorded fingerprint (anchors.go)
	return c.anchorFallback(rel, name)
}

// funcAlias: repository functions re-identified structurally after a rename,
// with the canonical name the rules know them by. Renderings (FuncName,
// CanonName) and LookupFunc use the canonical name, so frozen expectations do
// not depend on what an unexported helper happens to be called.
var (
	funcAlias    = map[*types.Func]string{}
	aliasByCanon = map[string]*types.Func{}
)

// SetAlias records that obj plays the role known as canon ("Name" or "Type.Method") in package rel.
func SetAlias(rel, canon string, obj *types.Func) {
	if obj == nil {
		return
	}
	bare := canon
	if i := strings.Index(canon, "."); i >= 0 {
		bare = canon[i+1:]
	}
	funcAlias[obj] = bare
	aliasByCanon[rel+"|"+canon] = obj
}

// CanonName: the name a function is known by to the rules (its alias, else its own name).
func CanonName(f *ssa.Function) string {
	if f == nil {
		return ""
	}
	if o, ok := f.Object().(*types.Func); ok {
		if a, has := funcAlias[o]; has {
			return a
		}
	}
	return f.Name()
}

func (c *Ctx) lookupFunc(rel, name string) *types.Func {
	p := c.Pkg(rel)
	if i := strings.Index(name, "."); i >= 0 {
		tn, _ := p.Types.Scope().Lookup(name[:i]).(*types.TypeName)
		if tn == nil {
			return nil
		}
		obj, _, _ := types.LookupFieldOrMethod(types.NewPointer(tn.Type()), true, p.Types, name[i+1:])
		f, _ := obj.(*types.Func)
		return f
	}
	f, _ := p.Types.Scope().Lookup(name).(*types.Func)
	return f
}

// MustFunc is LookupFunc that reports an unresolved anchor through the ledger
// and returns nil.
func (c *Ctx) MustFunc(l *Ledger, rule, rel, name string) *types.Func {
	f := c.LookupFunc(rel, name)
	if f == nil {
		l.Add(Obligation{Rule: rule, Key: "anchor:" + rel + "." + name, Status: Undecided,
			Detail: "anchor function " + rel + "." + name + " not found; the rule cannot be evaluated"})
	}
	return f
}

// SSAFunc returns the SSA function for an object.
func (c *Ctx) SSAFunc(f *types.Func) *ssa.Function {
	if f == nil {
		return nil
	}
	return c.Prog.FuncValue(f)
}

// Decl returns the syntax of a function declared in the repository.
func (c *Ctx) Decl(f *types.Func) *ast.FuncDecl { return c.funcDecls[f] }

// DeclPkg returns the package in which f is declared.
func (c *Ctx) DeclPkg(f *types.Func) *packages.Package { return c.declPkg[f] }

// FuncName renders a function as pkg.(T).m relative to the module.
func FuncName(f *types.Func) string {
	if f == nil {
		return "<nil>"
	}
	s := f.FullName()
	if a, has := funcAlias[f]; has && strings.HasSuffix(s, f.Name()) {
		s = s[:len(s)-len(f.Name())] + a
	}
	s = strings.ReplaceAll(s, ModPath+"/", "")
	s = strings.ReplaceAll(s, ModPath+".", "thriftrw.")
	return s
}

// SSAName renders an SSA function relative to the module.
func SSAName(f *ssa.Function) string {
	if f == nil {
		return "<nil>"
	}
	s := f.String()
	if o, ok := f.Object().(*types.Func); ok {
		if a, has := funcAlias[o]; has && strings.HasSuffix(s, f.Name()) {
			s = s[:len(s)-len(f.Name())] + a
		}
	}
	s = strings.ReplaceAll(s, ModPath+"/", "")
	s = strings.ReplaceAll(s, ModPath+".", "thriftrw.")
	return s
}

// IsGenerated reports whether the file carries a "Code generated" header.
func IsGenerated(f *ast.File) bool {
	for _, cg := range f.Comments {
		if cg.Pos() > f.Package {
			break
		}
		for _, cm := range cg.List {
			if strings.HasPrefix(cm.Text, "// Code generated") {
				return true
			}
		}
	}
	return false
}

// funcPkgPath returns the package path an SSA function belongs to, also for
// synthetic wrappers and instantiations (whose Pkg is nil).
func funcPkgPath(f *ssa.Function) string {
	for i := 0; f != nil && i < 10; i++ {
		if f.Pkg != nil {
			return f.Pkg.Pkg.Path()
		}
		if f.Parent() != nil {
			f = f.Parent()
			continue
		}
		if o := f.Origin(); o != nil && o != f {
			f = o
			continue
		}
		if obj := f.Object(); obj != nil && obj.Pkg() != nil {
			return obj.Pkg().Path()
		}
		if r := f.Signature.Recv(); r != nil {
			t := r.Type()
			if p, ok := t.(*types.Pointer); ok {
				t = p.Elem()
			}
			if n, ok := t.(*types.Named); ok && n.Obj().Pkg() != nil {
				return n.Obj().Pkg().Path()
			}
		}
		// bound method closures: "bound method wrapper for func (T).m"; use the free variable's type
		if len(f.FreeVars) == 1 {
			t := f.FreeVars[0].Type()
			if p, ok := t.(*types.Pointer); ok {
				t = p.Elem()
			}
			if n, ok := t.(*types.Named); ok && n.Obj().Pkg() != nil {
				return n.Obj().Pkg().Path()
			}
		}
		return ""
	}
	return ""
}

// InRepo reports whether an SSA function belongs to the analysed module.
func InRepo(f *ssa.Function) bool {
	if f == nil {
		return false
	}
	path := funcPkgPath(f)
	return path == ModPath || strings.HasPrefix(path, ModPath+"/")
}

// PkgRel returns the module-relative package path of an SSA function ("" for
// the root, "?" when outside the module).
func PkgRel(f *ssa.Function) string {
	if f == nil {
		return "?"
	}
	path := funcPkgPath(f)
	if path == ModPath {
		return ""
	}
	if strings.HasPrefix(path, ModPath+"/") {
		return strings.TrimPrefix(path, ModPath+"/")
	}
	return "?"
}

// AllFuncs returns every SSA function (including closures and methods) whose
// package is one of rels (module-relative). Deterministic order.
func (c *Ctx) AllFuncs(rels ...string) []*ssa.Function {
	want := map[string]bool{}
	for _, r := range rels {
		want[r] = true
	}
	var out []*ssa.Function
	for f := range ssautil.AllFunctions(c.Prog) {
		if !InRepo(f) {
			continue
		}
		if len(rels) > 0 && !want[PkgRel(f)] {
			continue
		}
		if f.Synthetic != "" && f.Syntax() == nil {
			continue
		}
		out = append(out, f)
	}
	sort.Slice(out, func(i, j int) bool {
		if out[i].String() != out[j].String() {
			return out[i].String() < out[j].String()
		}
		return out[i].Pos() < out[j].Pos()
	})
	return out
}

// FileOf returns the syntax file containing pos in a repository package.
func (c *Ctx) FileOf(pos token.Pos) (*packages.Package, *ast.File) {
	for _, p := range c.Pkgs {
		for _, f := range p.Syntax {
			if f.FileStart <= pos && pos <= f.FileEnd {
				return p, f
			}
		}
	}
	return nil, nil
}

// IsTestFile reports whether pos lies in a _test.go file.
func (c *Ctx) IsTestFile(pos token.Pos) bool {
	return strings.HasSuffix(c.Fset.Position(pos).Filename, "_test.go")
}

// IsGenerated2 reports whether the function lies in a generated file.
func IsGenerated2(c *Ctx, f *ssa.Function) bool {
	_, file := c.FileOf(f.Pos())
	return file != nil && IsGenerated(file)
}
