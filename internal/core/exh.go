package core

import (
	"go/ast"
	"go/constant"
	"go/token"
	"go/types"
	"golang.org/x/tools/go/ssa"
	"sort"
	"strings"

	"golang.org/x/tools/go/packages"
)

// Implementers returns every package-level named type T declared in
// non-generated, non-test files of the given packages such that T or *T
// implements iface (the type returned is the one that implements it; T is
// preferred when both do).
func (c *Ctx) Implementers(iface *types.Interface, pkgs ...*packages.Package) []types.Type {
	var out []types.Type
	for _, p := range pkgs {
		sc := p.Types.Scope()
		for _, n := range sc.Names() {
			tn, ok := sc.Lookup(n).(*types.TypeName)
			if !ok || tn.IsAlias() {
				continue
			}
			if _, isIface := tn.Type().Underlying().(*types.Interface); isIface {
				continue
			}
			if types.Implements(tn.Type(), iface) {
				out = append(out, tn.Type())
			} else if pt := types.NewPointer(tn.Type()); types.Implements(pt, iface) {
				out = append(out, pt)
			}
		}
	}
	sort.Slice(out, func(i, j int) bool { return out[i].String() < out[j].String() })
	return out
}

// ConstsOf returns the package-level constants of exactly the named type.
func ConstsOf(p *types.Package, named types.Type) []*types.Const {
	var out []*types.Const
	sc := p.Scope()
	for _, n := range sc.Names() {
		if k, ok := sc.Lookup(n).(*types.Const); ok && types.Identical(k.Type(), named) {
			out = append(out, k)
		}
	}
	sort.Slice(out, func(i, j int) bool {
		a, _ := constant.Int64Val(out[i].Val())
		b, _ := constant.Int64Val(out[j].Val())
		return a < b
	})
	return out
}

// Switch describes one switch statement.
type Switch struct {
	Node      ast.Stmt
	IsType    bool
	TagType   types.Type   // static type of the tag / asserted operand
	Tag       ast.Expr     // nil for tagless
	CaseTypes []types.Type // type switch
	CaseVals  []constant.Value
	CaseExprs []ast.Expr
	NilCase   bool
	Default   *ast.CaseClause // nil when absent
	Clauses   []*ast.CaseClause
}

// Switches lists the switch statements directly inside body (function
// literals nested in it are included).
func Switches(info *types.Info, body ast.Node) []*Switch {
	var out []*Switch
	ast.Inspect(body, func(n ast.Node) bool {
		switch s := n.(type) {
		case *ast.TypeSwitchStmt:
			sw := &Switch{Node: s, IsType: true}
			var x ast.Expr
			switch a := s.Assign.(type) {
			case *ast.AssignStmt:
				x = a.Rhs[0].(*ast.TypeAssertExpr).X
			case *ast.ExprStmt:
				x = a.X.(*ast.TypeAssertExpr).X
			}
			sw.Tag = x
			sw.TagType = info.TypeOf(x)
			for _, st := range s.Body.List {
				cc := st.(*ast.CaseClause)
				sw.Clauses = append(sw.Clauses, cc)
				if cc.List == nil {
					sw.Default = cc
					continue
				}
				for _, e := range cc.List {
					if id, ok := e.(*ast.Ident); ok && id.Name == "nil" {
						sw.NilCase = true
						continue
					}
					if t := info.TypeOf(e); t != nil {
						sw.CaseTypes = append(sw.CaseTypes, t)
						sw.CaseExprs = append(sw.CaseExprs, e)
					}
				}
			}
			out = append(out, sw)
		case *ast.SwitchStmt:
			sw := &Switch{Node: s, Tag: s.Tag}
			if s.Tag != nil {
				sw.TagType = info.TypeOf(s.Tag)
			}
			for _, st := range s.Body.List {
				cc := st.(*ast.CaseClause)
				sw.Clauses = append(sw.Clauses, cc)
				if cc.List == nil {
					sw.Default = cc
					continue
				}
				for _, e := range cc.List {
					sw.CaseExprs = append(sw.CaseExprs, e)
					if tv, ok := info.Types[e]; ok && tv.Value != nil {
						sw.CaseVals = append(sw.CaseVals, tv.Value)
					}
				}
			}
			out = append(out, sw)
		}
		return true
	})
	return out
}

// HasCaseType reports whether the switch has a case identical to t, or a case
// of an interface type that t implements.
func (s *Switch) HasCaseType(t types.Type) bool {
	for _, ct := range s.CaseTypes {
		if types.Identical(ct, t) {
			return true
		}
		if it, ok := ct.Underlying().(*types.Interface); ok && types.Implements(t, it) {
			return true
		}
	}
	return false
}

// HasCaseVal reports whether a value switch lists v.
func (s *Switch) HasCaseVal(v constant.Value) bool {
	for _, cv := range s.CaseVals {
		if constant.Compare(cv, token.EQL, v) {
			return true
		}
	}
	return false
}

// ClauseEnd classifies how a case clause body ends: "error" (returns a
// definitely non-nil error expression), "panic", "return" (some other return),
// "fall" (falls out of the switch).
func ClauseEnd(info *types.Info, cc *ast.CaseClause) string {
	if cc == nil || len(cc.Body) == 0 {
		return "fall"
	}
	last := cc.Body[len(cc.Body)-1]
	switch s := last.(type) {
	case *ast.ReturnStmt:
		if len(s.Results) > 0 {
			e := s.Results[len(s.Results)-1]
			if t := info.TypeOf(e); t != nil && IsErrorType(t) || isErrorCtor(info, e) {
				if id, ok := e.(*ast.Ident); ok && id.Name == "nil" {
					return "return"
				}
				if isErrorCtor(info, e) {
					return "error"
				}
				return "return"
			}
		}
		return "return"
	case *ast.ExprStmt:
		if call, ok := s.X.(*ast.CallExpr); ok {
			if id, ok := call.Fun.(*ast.Ident); ok && id.Name == "panic" {
				return "panic"
			}
		}
	}
	return "fall"
}

// isErrorCtor: the expression is a call that builds an error value: a call to
// fmt.Errorf / errors.New, a composite literal, or a call to a function of the
// repository whose result type is a concrete (non-interface) type implementing
// error or that returns error built the same way (name-independent: decided by
// the result type being non-interface).
func isErrorCtor(info *types.Info, e ast.Expr) bool {
	e = ast.Unparen(e)
	switch x := e.(type) {
	case *ast.CompositeLit:
		return true
	case *ast.UnaryExpr:
		if x.Op == token.AND {
			_, ok := ast.Unparen(x.X).(*ast.CompositeLit)
			return ok
		}
	case *ast.CallExpr:
		var obj types.Object
		switch f := ast.Unparen(x.Fun).(type) {
		case *ast.Ident:
			obj = info.Uses[f]
		case *ast.SelectorExpr:
			obj = info.Uses[f.Sel]
		}
		if fn, ok := obj.(*types.Func); ok {
			if fn.Pkg() != nil {
				switch fn.Pkg().Path() + "." + fn.Name() {
				case "fmt.Errorf", "errors.New":
					return true
				}
			}
			if errCtorObjs[fn] {
				return true // an extracted, straight-line error constructor of the repository
			}
			sig := fn.Type().(*types.Signature)
			if sig.Results().Len() == 1 {
				rt := sig.Results().At(0).Type()
				if _, isIface := rt.Underlying().(*types.Interface); !isIface {
					return true // concrete error value (e.g. decodeError, a struct error type)
				}
			}
		}
		// conversion to a concrete error type: T(x)
		if tv, ok := info.Types[x.Fun]; ok && tv.IsType() {
			if _, isIface := tv.Type.Underlying().(*types.Interface); !isIface {
				return true
			}
		}
	}
	return false
}

// TypeLabel renders a type relative to the module.
func TypeLabel(t types.Type) string {
	s := types.TypeString(t, func(p *types.Package) string {
		return strings.TrimPrefix(strings.TrimPrefix(p.Path(), ModPath+"/"), ModPath)
	})
	return s
}

// EnclosingFuncDecl finds the declaration containing pos.
func (c *Ctx) EnclosingFuncDecl(pos token.Pos) (*packages.Package, *ast.FuncDecl) {
	p, f := c.FileOf(pos)
	if f == nil {
		return nil, nil
	}
	for _, d := range f.Decls {
		if fd, ok := d.(*ast.FuncDecl); ok && fd.Pos() <= pos && pos <= fd.End() {
			return p, fd
		}
	}
	return p, nil
}

// DeclName renders a FuncDecl as "Recv.Name" or "Name".
func DeclName(fd *ast.FuncDecl) string {
	if fd.Recv != nil && len(fd.Recv.List) > 0 {
		t := fd.Recv.List[0].Type
		if s, ok := t.(*ast.StarExpr); ok {
			t = s.X
		}
		if ix, ok := t.(*ast.IndexExpr); ok {
			t = ix.X
		}
		if id, ok := t.(*ast.Ident); ok {
			return id.Name + "." + fd.Name.Name
		}
	}
	return fd.Name.Name
}

// errCtorObjs: repository functions recognised as error constructors (filled at load).
var errCtorObjs = map[*types.Func]bool{}

// IsErrCtorFunc: a straight-line function whose only result is an error it
// makes itself (fmt.Errorf, errors.New, or a concrete error value boxed): an
// extracted error constructor. Its call sites are where the error originates.
func IsErrCtorFunc(g *ssa.Function) bool {
	if g == nil || len(g.Blocks) != 1 || g.Signature.Results().Len() != 1 || !IsErrorType(g.Signature.Results().At(0).Type()) {
		return false
	}
	r, ok := g.Blocks[0].Instrs[len(g.Blocks[0].Instrs)-1].(*ssa.Return)
	if !ok || len(r.Results) != 1 {
		return false
	}
	switch x := r.Results[0].(type) {
	case *ssa.Call:
		if o := CalleeObj(x); o != nil && o.Pkg() != nil {
			full := o.Pkg().Path() + "." + o.Name()
			return full == "fmt.Errorf" || full == "errors.New"
		}
	case *ssa.MakeInterface:
		_, isParam := x.X.(*ssa.Parameter)
		return !isParam
	}
	return false
}
