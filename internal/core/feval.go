package core

import (
	"fmt"
	"go/ast"
	"go/constant"
	"go/token"
	"go/types"
	"sort"
	"strings"

	"golang.org/x/tools/go/ssa"
)

// Finite-domain evaluation: polyvariant constant propagation. A function is
// explored path by path with a few designated values ("keys": a type byte, an
// enum value, a count) fixed to one element of a small finite domain; every
// branch condition that depends only on keys, constants and literal tables is
// decided, every other condition is explored both ways and recorded. Nothing
// of the analysed program is executed: this is abstract interpretation with the
// constant-propagation domain, run once per element of the key domain. It makes
// rules about small dispatch functions (switch, if-chain, array or map table,
// with or without guards) independent of which of these forms is used.

// CVal is an abstract value: unknown, or a known constant.
type CVal struct {
	Kind int // 0 unknown, 1 int, 2 string, 3 bool, 4 non-nil pointer/interface, 5 nil
	I    int64
	S    string
	B    bool
}

const (
	CUnknown = iota
	CInt
	CString
	CBool
	CNonNil
	CNil
)

func (v CVal) String() string {
	switch v.Kind {
	case CInt:
		return fmt.Sprintf("%d", v.I)
	case CString:
		return fmt.Sprintf("%q", v.S)
	case CBool:
		return fmt.Sprintf("%v", v.B)
	case CNonNil:
		return "non-nil"
	case CNil:
		return "nil"
	}
	return "?"
}

// FEPath is one explored path to a return (or to a certain panic).
type FEPath struct {
	Ret     *ssa.Return
	Results []CVal   // abstract results
	Syms    []string // symbolic results
	Conds   []string // undecided conditions taken on the way (Sym, "!" for the false edge)
	Calls   []ssa.CallInstruction
	Panic   string // non-empty: the path certainly panics here
}

// FEOpts configures FiniteEval.
type FEOpts struct {
	// Key fixes designated values: returns the abstract value for v, if v is one.
	Key func(v ssa.Value) (CVal, bool)
	// SuccessOnly: at `err != nil` tests follow only the nil edge.
	SuccessOnly bool
	MaxPaths    int
}

type globalLit struct {
	ints    map[int64]CVal
	strs    map[string]CVal
	length  int64 // arrays: length; -1 otherwise
	isMap   bool
	zero    CVal
	scalar  *CVal
	written bool
}

func (c *Ctx) globalLiteral(g *ssa.Global) *globalLit {
	key := "globalLit:" + g.String()
	if v, ok := c.Cache[key]; ok {
		gl, _ := v.(*globalLit)
		return gl
	}
	var out *globalLit
	defer func() { c.Cache[key] = out }()
	obj, ok := g.Object().(*types.Var)
	if !ok || g.Pkg == nil {
		return nil
	}
	p := c.ByPath[g.Pkg.Pkg.Path()]
	if p == nil {
		return nil
	}
	info := p.TypesInfo
	constOf := func(e ast.Expr) (CVal, bool) {
		tv, ok := info.Types[e]
		if !ok || tv.Value == nil {
			return CVal{}, false
		}
		switch tv.Value.Kind() {
		case constant.Int:
			i, ok := constant.Int64Val(tv.Value)
			return CVal{Kind: CInt, I: i}, ok
		case constant.String:
			return CVal{Kind: CString, S: constant.StringVal(tv.Value)}, true
		case constant.Bool:
			return CVal{Kind: CBool, B: constant.BoolVal(tv.Value)}, true
		case constant.Float:
			return CVal{}, false
		}
		return CVal{}, false
	}
	zeroOf := func(t types.Type) CVal {
		if b, ok := t.Underlying().(*types.Basic); ok {
			switch {
			case b.Info()&types.IsInteger != 0:
				return CVal{Kind: CInt}
			case b.Info()&types.IsString != 0:
				return CVal{Kind: CString}
			case b.Info()&types.IsBoolean != 0:
				return CVal{Kind: CBool}
			}
		}
		return CVal{}
	}
	for _, f := range p.Syntax {
		for _, d := range f.Decls {
			gd, ok := d.(*ast.GenDecl)
			if !ok || gd.Tok != token.VAR {
				continue
			}
			for _, sp := range gd.Specs {
				vs := sp.(*ast.ValueSpec)
				for i, nm := range vs.Names {
					if info.Defs[nm] != obj || i >= len(vs.Values) {
						continue
					}
					gl := &globalLit{ints: map[int64]CVal{}, strs: map[string]CVal{}, length: -1}
					if cv, ok := constOf(vs.Values[i]); ok {
						gl.scalar = &cv
						out = gl
						break
					}
					cl, ok := vs.Values[i].(*ast.CompositeLit)
					if !ok {
						return nil
					}
					switch t := obj.Type().Underlying().(type) {
					case *types.Array:
						gl.length = t.Len()
						gl.zero = zeroOf(t.Elem())
					case *types.Map:
						gl.isMap = true
						gl.zero = zeroOf(t.Elem())
					case *types.Slice:
						gl.zero = zeroOf(t.Elem())
					default:
						return nil
					}
					next := int64(0)
					for _, el := range cl.Elts {
						if kv, ok := el.(*ast.KeyValueExpr); ok {
							k, ok1 := constOf(kv.Key)
							v, ok2 := constOf(kv.Value)
							if !ok1 {
								return nil
							}
							if !ok2 {
								v = CVal{}
							}
							if k.Kind == CInt {
								gl.ints[k.I] = v
								next = k.I + 1
							} else if k.Kind == CString {
								gl.strs[k.S] = v
							} else {
								return nil
							}
						} else {
							v, ok2 := constOf(el)
							if !ok2 {
								v = CVal{}
							}
							gl.ints[next] = v
							next++
						}
					}
					if _, isSl := obj.Type().Underlying().(*types.Slice); isSl {
						gl.length = next
					}
					out = gl
				}
			}
		}
	}
	if out == nil {
		return nil
	}
	// written elsewhere?
	for _, f := range c.AllFuncs() {
		Instrs(f, func(in ssa.Instruction) {
			switch x := in.(type) {
			case *ssa.Store:
				addr := x.Addr
				for {
					switch y := addr.(type) {
					case *ssa.IndexAddr:
						addr = y.X
						continue
					case *ssa.FieldAddr:
						addr = y.X
						continue
					}
					break
				}
				if addr == ssa.Value(g) {
					out.written = true
				}
			case *ssa.MapUpdate:
				if ld, ok := x.Map.(*ssa.UnOp); ok && ld.X == ssa.Value(g) {
					out.written = true
				}
			}
		})
	}
	if out.written {
		out = nil
	}
	return out
}

func wrapInt(v int64, t types.Type) int64 {
	b, ok := t.Underlying().(*types.Basic)
	if !ok {
		return v
	}
	switch b.Kind() {
	case types.Int8:
		return int64(int8(v))
	case types.Int16:
		return int64(int16(v))
	case types.Int32:
		return int64(int32(v))
	case types.Uint8:
		return int64(uint8(v))
	case types.Uint16:
		return int64(uint16(v))
	case types.Uint32:
		return int64(uint32(v))
	}
	return v
}

// FiniteEval explores f with the designated keys fixed.
func (c *Ctx) FiniteEval(f *ssa.Function, o FEOpts) ([]FEPath, bool) {
	if len(f.Blocks) == 0 {
		return nil, false
	}
	if o.MaxPaths == 0 {
		o.MaxPaths = 5000
	}
	var paths []FEPath
	ok := true
	type state struct {
		env map[ssa.Value]CVal // phi values of the current path
	}
	var eval func(v ssa.Value, env map[ssa.Value]CVal, d int) (CVal, string)
	eval = func(v ssa.Value, env map[ssa.Value]CVal, d int) (CVal, string) {
		if d > 20 {
			return CVal{}, ""
		}
		if o.Key != nil {
			if cv, ok := o.Key(v); ok {
				return cv, ""
			}
		}
		if cv, ok := env[v]; ok {
			return cv, ""
		}
		switch x := v.(type) {
		case *ssa.Const:
			if x.Value == nil {
				if _, isB := x.Type().Underlying().(*types.Basic); isB {
					return CVal{}, ""
				}
				return CVal{Kind: CNil}, ""
			}
			switch x.Value.Kind() {
			case constant.Int:
				i, ok := constant.Int64Val(x.Value)
				if ok {
					return CVal{Kind: CInt, I: i}, ""
				}
			case constant.String:
				return CVal{Kind: CString, S: constant.StringVal(x.Value)}, ""
			case constant.Bool:
				return CVal{Kind: CBool, B: constant.BoolVal(x.Value)}, ""
			}
			return CVal{}, ""
		case *ssa.Convert:
			cv, p := eval(x.X, env, d+1)
			if cv.Kind == CInt {
				cv.I = wrapInt(cv.I, x.Type())
			}
			return cv, p
		case *ssa.ChangeType:
			return eval(x.X, env, d+1)
		case *ssa.MakeInterface:
			cv, p := eval(x.X, env, d+1)
			if cv.Kind == CUnknown {
				return CVal{Kind: CNonNil}, p
			}
			return cv, p
		case *ssa.Alloc, *ssa.MakeClosure, *ssa.MakeMap, *ssa.MakeSlice, *ssa.Function, *ssa.Global, *ssa.FieldAddr, *ssa.IndexAddr:
			if ia, ok := v.(*ssa.IndexAddr); ok {
				// the address itself is non-nil, but an out-of-range index panics
				if p := indexPanic(c, ia.X, ia.Index, env, eval, d); p != "" {
					return CVal{}, p
				}
			}
			return CVal{Kind: CNonNil}, ""
		case *ssa.UnOp:
			switch x.Op {
			case token.NOT:
				cv, p := eval(x.X, env, d+1)
				if cv.Kind == CBool {
					return CVal{Kind: CBool, B: !cv.B}, p
				}
				return CVal{}, p
			case token.SUB:
				cv, p := eval(x.X, env, d+1)
				if cv.Kind == CInt {
					return CVal{Kind: CInt, I: wrapInt(-cv.I, x.Type())}, p
				}
				return CVal{}, p
			case token.MUL:
				// load
				switch a := x.X.(type) {
				case *ssa.Global:
					if gl := c.globalLiteral(a); gl != nil && gl.scalar != nil {
						return *gl.scalar, ""
					}
				case *ssa.IndexAddr:
					if p := indexPanic(c, a.X, a.Index, env, eval, d); p != "" {
						return CVal{}, p
					}
					if g, ok := rootGlobal(a.X); ok {
						if gl := c.globalLiteral(g); gl != nil && !gl.isMap {
							idx, _ := eval(a.Index, env, d+1)
							if idx.Kind == CInt {
								if cv, has := gl.ints[idx.I]; has {
									return cv, ""
								}
								return gl.zero, ""
							}
						}
					}
				}
				return CVal{}, ""
			}
		case *ssa.BinOp:
			a, p1 := eval(x.X, env, d+1)
			b, p2 := eval(x.Y, env, d+1)
			p := p1
			if p == "" {
				p = p2
			}
			return binop(x.Op, a, b, x.Type()), p
		case *ssa.Lookup:
			return CVal{}, ""
		case *ssa.Extract:
			if lk, ok := x.Tuple.(*ssa.Lookup); ok && lk.CommaOk {
				if ld, ok := lk.X.(*ssa.UnOp); ok {
					if g, ok := ld.X.(*ssa.Global); ok {
						if gl := c.globalLiteral(g); gl != nil && gl.isMap {
							k, _ := eval(lk.Index, env, d+1)
							var cv CVal
							has := false
							switch k.Kind {
							case CInt:
								cv, has = gl.ints[k.I]
							case CString:
								cv, has = gl.strs[k.S]
							default:
								return CVal{}, ""
							}
							if x.Index == 1 {
								return CVal{Kind: CBool, B: has}, ""
							}
							if has {
								return cv, ""
							}
							return gl.zero, ""
						}
					}
				}
			}
			if ta, ok := x.Tuple.(*ssa.TypeAssert); ok && ta.CommaOk {
				_ = ta
			}
			return CVal{}, ""
		case *ssa.Call:
			if b, ok := x.Call.Value.(*ssa.Builtin); ok && b.Name() == "len" && len(x.Call.Args) == 1 {
				arg := x.Call.Args[0]
				if at, ok := arg.Type().Underlying().(*types.Array); ok {
					return CVal{Kind: CInt, I: at.Len()}, ""
				}
				if ld, ok := arg.(*ssa.UnOp); ok {
					if g, ok := ld.X.(*ssa.Global); ok {
						if at, ok := g.Type().(*types.Pointer).Elem().Underlying().(*types.Array); ok {
							return CVal{Kind: CInt, I: at.Len()}, ""
						}
						if gl := c.globalLiteral(g); gl != nil && gl.length >= 0 {
							return CVal{Kind: CInt, I: gl.length}, ""
						}
					}
				}
				if sl, ok := arg.(*ssa.Slice); ok && sl.Low == nil && sl.High == nil {
					if g, ok := rootGlobal(sl.X); ok {
						if at, ok := g.Type().(*types.Pointer).Elem().Underlying().(*types.Array); ok {
							return CVal{Kind: CInt, I: at.Len()}, ""
						}
					}
				}
				cv, _ := eval(arg, env, d+1)
				if cv.Kind == CString {
					return CVal{Kind: CInt, I: int64(len(cv.S))}, ""
				}
			}
			return CVal{}, ""
		}
		return CVal{}, ""
	}
	var walk func(b *ssa.BasicBlock, pred *ssa.BasicBlock, env map[ssa.Value]CVal, count map[*ssa.BasicBlock]int, conds []string, calls []ssa.CallInstruction)
	walk = func(b *ssa.BasicBlock, pred *ssa.BasicBlock, env map[ssa.Value]CVal, count map[*ssa.BasicBlock]int, conds []string, calls []ssa.CallInstruction) {
		if !ok {
			return
		}
		if count[b] >= 2 {
			return
		}
		count[b]++
		defer func() { count[b]-- }()
		// phis
		if pred != nil {
			pi := -1
			for i, p := range b.Preds {
				if p == pred {
					pi = i
				}
			}
			ne := map[ssa.Value]CVal{}
			for k, v := range env {
				ne[k] = v
			}
			for _, in := range b.Instrs {
				ph, isPhi := in.(*ssa.Phi)
				if !isPhi {
					break
				}
				if pi >= 0 {
					cv, _ := eval(ph.Edges[pi], env, 0)
					ne[ph] = cv
				}
			}
			env = ne
		}
		for _, in := range b.Instrs {
			// certain panics: out-of-range index with a decided index
			switch x := in.(type) {
			case *ssa.IndexAddr:
				if p := indexPanic(c, x.X, x.Index, env, eval, 0); p != "" {
					paths = append(paths, FEPath{Panic: p + " at " + c.Rel(in.Pos()), Conds: append([]string{}, conds...)})
					return
				}
			case *ssa.Index:
				if p := indexPanic(c, x.X, x.Index, env, eval, 0); p != "" {
					paths = append(paths, FEPath{Panic: p + " at " + c.Rel(in.Pos()), Conds: append([]string{}, conds...)})
					return
				}
			case ssa.CallInstruction:
				if _, isB := x.Common().Value.(*ssa.Builtin); !isB {
					calls = append(append([]ssa.CallInstruction{}, calls...), x)
				}
			}
			switch x := in.(type) {
			case *ssa.Return:
				if o.SuccessOnly && ReturnsNonNilError(x) {
					return
				}
				p := FEPath{Ret: x, Conds: append([]string{}, conds...), Calls: calls}
				for _, r := range x.Results {
					rv := SpilledResult(x, r)
					cv, _ := eval(rv, env, 0)
					p.Results = append(p.Results, cv)
					p.Syms = append(p.Syms, Sym(rv))
				}
				paths = append(paths, p)
				if len(paths) > o.MaxPaths {
					ok = false
				}
				return
			case *ssa.Panic:
				paths = append(paths, FEPath{Panic: "explicit panic at " + c.Rel(in.Pos()), Conds: append([]string{}, conds...)})
				return
			case *ssa.If:
				if okEdge, is := IsErrCheck(x); is && o.SuccessOnly {
					walk(b.Succs[okEdge], b, env, count, conds, calls)
					return
				}
				cv, _ := eval(x.Cond, env, 0)
				if cv.Kind == CBool {
					idx := 1
					if cv.B {
						idx = 0
					}
					walk(b.Succs[idx], b, env, count, conds, calls)
					return
				}
				s := Sym(x.Cond)
				walk(b.Succs[0], b, env, count, append(append([]string{}, conds...), s), calls)
				walk(b.Succs[1], b, env, count, append(append([]string{}, conds...), "!"+s), calls)
				return
			case *ssa.Jump:
				walk(b.Succs[0], b, env, count, conds, calls)
				return
			}
		}
	}
	walk(f.Blocks[0], nil, map[ssa.Value]CVal{}, map[*ssa.BasicBlock]int{}, nil, nil)
	return paths, ok
}

func rootGlobal(v ssa.Value) (*ssa.Global, bool) {
	for i := 0; i < 6; i++ {
		switch x := v.(type) {
		case *ssa.Global:
			return x, true
		case *ssa.Slice:
			v = x.X
		case *ssa.UnOp:
			v = x.X
		default:
			return nil, false
		}
	}
	return nil, false
}

// indexPanic: the index is decided and lies outside the (statically known)
// length of the indexed array or literal table.
func indexPanic(c *Ctx, x, index ssa.Value, env map[ssa.Value]CVal, eval func(ssa.Value, map[ssa.Value]CVal, int) (CVal, string), d int) string {
	idx, _ := eval(index, env, d+1)
	if idx.Kind != CInt {
		return ""
	}
	var n int64 = -1
	t := x.Type()
	if p, ok := t.Underlying().(*types.Pointer); ok {
		t = p.Elem()
	}
	if at, ok := t.Underlying().(*types.Array); ok {
		n = at.Len()
	} else if g, ok := rootGlobal(x); ok {
		if gl := c.globalLiteral(g); gl != nil && gl.length >= 0 && !gl.isMap {
			n = gl.length
		}
	}
	if n >= 0 && (idx.I < 0 || idx.I >= n) {
		return fmt.Sprintf("index %d out of range [0,%d)", idx.I, n)
	}
	return ""
}

func binop(op token.Token, a, b CVal, t types.Type) CVal {
	bl := func(v bool) CVal { return CVal{Kind: CBool, B: v} }
	switch {
	case a.Kind == CInt && b.Kind == CInt:
		switch op {
		case token.ADD:
			return CVal{Kind: CInt, I: wrapInt(a.I+b.I, t)}
		case token.SUB:
			return CVal{Kind: CInt, I: wrapInt(a.I-b.I, t)}
		case token.MUL:
			return CVal{Kind: CInt, I: wrapInt(a.I*b.I, t)}
		case token.AND:
			return CVal{Kind: CInt, I: wrapInt(a.I&b.I, t)}
		case token.OR:
			return CVal{Kind: CInt, I: wrapInt(a.I|b.I, t)}
		case token.XOR:
			return CVal{Kind: CInt, I: wrapInt(a.I^b.I, t)}
		case token.SHL:
			if b.I >= 0 && b.I < 64 {
				return CVal{Kind: CInt, I: wrapInt(a.I<<uint(b.I), t)}
			}
		case token.SHR:
			if b.I >= 0 && b.I < 64 {
				return CVal{Kind: CInt, I: wrapInt(a.I>>uint(b.I), t)}
			}
		case token.EQL:
			return bl(a.I == b.I)
		case token.NEQ:
			return bl(a.I != b.I)
		case token.LSS:
			return bl(a.I < b.I)
		case token.LEQ:
			return bl(a.I <= b.I)
		case token.GTR:
			return bl(a.I > b.I)
		case token.GEQ:
			return bl(a.I >= b.I)
		}
	case a.Kind == CString && b.Kind == CString:
		switch op {
		case token.EQL:
			return bl(a.S == b.S)
		case token.NEQ:
			return bl(a.S != b.S)
		case token.ADD:
			return CVal{Kind: CString, S: a.S + b.S}
		}
	case a.Kind == CBool && b.Kind == CBool:
		switch op {
		case token.EQL:
			return bl(a.B == b.B)
		case token.NEQ:
			return bl(a.B != b.B)
		}
	case (a.Kind == CNil || a.Kind == CNonNil) && (b.Kind == CNil || b.Kind == CNonNil):
		if a.Kind == CNonNil && b.Kind == CNonNil {
			return CVal{}
		}
		switch op {
		case token.EQL:
			return bl(a.Kind == b.Kind)
		case token.NEQ:
			return bl(a.Kind != b.Kind)
		}
	}
	return CVal{}
}

// FiniteTable evaluates a single-result function of one small-domain parameter
// for every element of dom and returns element -> result (or a problem text).
func (c *Ctx) FiniteTable(f *ssa.Function, param int, dom []int64) (map[int64]CVal, map[int64]string) {
	res := map[int64]CVal{}
	prob := map[int64]string{}
	for _, k := range dom {
		kv := k
		paths, ok := c.FiniteEval(f, FEOpts{Key: func(v ssa.Value) (CVal, bool) {
			if p, isP := v.(*ssa.Parameter); isP && p == f.Params[param] {
				return CVal{Kind: CInt, I: kv}, true
			}
			return CVal{}, false
		}})
		if !ok {
			prob[k] = "too many paths"
			continue
		}
		var vals []string
		seen := map[string]bool{}
		var one CVal
		for _, p := range paths {
			if p.Panic != "" {
				prob[k] = p.Panic
				continue
			}
			if len(p.Results) < 1 {
				continue
			}
			s := p.Results[0].String()
			if !seen[s] {
				seen[s] = true
				vals = append(vals, s)
				one = p.Results[0]
			}
		}
		sort.Strings(vals)
		if _, bad := prob[k]; bad {
			continue
		}
		if len(vals) != 1 || one.Kind == CUnknown {
			prob[k] = "result not decided by the argument alone: " + strings.Join(vals, " | ")
			continue
		}
		res[k] = one
	}
	return res, prob
}

// ConstCond decides a branch condition by constant propagation from the
// designated key values alone (no phi environment): returns the index of the
// successor taken.
func (c *Ctx) ConstCond(ifi *ssa.If, key func(v ssa.Value) (CVal, bool)) (int, bool) {
	var eval func(v ssa.Value, d int) CVal
	eval = func(v ssa.Value, d int) CVal {
		if d > 12 {
			return CVal{}
		}
		if key != nil {
			if cv, ok := key(v); ok {
				return cv
			}
		}
		switch x := v.(type) {
		case *ssa.Const:
			if x.Value == nil {
				return CVal{}
			}
			switch x.Value.Kind() {
			case constant.Int:
				if i, ok := constant.Int64Val(x.Value); ok {
					return CVal{Kind: CInt, I: i}
				}
			case constant.Bool:
				return CVal{Kind: CBool, B: constant.BoolVal(x.Value)}
			case constant.String:
				return CVal{Kind: CString, S: constant.StringVal(x.Value)}
			}
		case *ssa.Convert:
			cv := eval(x.X, d+1)
			if cv.Kind == CInt {
				cv.I = wrapInt(cv.I, x.Type())
			}
			return cv
		case *ssa.ChangeType:
			return eval(x.X, d+1)
		case *ssa.UnOp:
			if x.Op == token.NOT {
				cv := eval(x.X, d+1)
				if cv.Kind == CBool {
					return CVal{Kind: CBool, B: !cv.B}
				}
			}
		case *ssa.BinOp:
			return binop(x.Op, eval(x.X, d+1), eval(x.Y, d+1), x.Type())
		}
		return CVal{}
	}
	cv := eval(ifi.Cond, 0)
	if cv.Kind != CBool {
		return 0, false
	}
	if cv.B {
		return 0, true
	}
	return 1, true
}

// ConstVal folds v to a constant if it is one after following the arguments
// bound by in-place exploration (a helper's parameter is the caller's
// argument) and constant arithmetic; unknown otherwise.
func ConstVal(v ssa.Value) CVal {
	var eval func(v ssa.Value, d int) CVal
	eval = func(v ssa.Value, d int) CVal {
		if d > 16 {
			return CVal{}
		}
		if a, ok := boundArg[v]; ok {
			return eval(a, d+1)
		}
		switch x := v.(type) {
		case *ssa.Const:
			if x.Value == nil {
				return CVal{}
			}
			switch x.Value.Kind() {
			case constant.Int:
				if i, ok := constant.Int64Val(x.Value); ok {
					return CVal{Kind: CInt, I: i}
				}
			case constant.Bool:
				return CVal{Kind: CBool, B: constant.BoolVal(x.Value)}
			case constant.String:
				return CVal{Kind: CString, S: constant.StringVal(x.Value)}
			}
		case *ssa.Convert:
			cv := eval(x.X, d+1)
			if cv.Kind == CInt {
				cv.I = wrapInt(cv.I, x.Type())
			}
			return cv
		case *ssa.ChangeType:
			return eval(x.X, d+1)
		case *ssa.UnOp:
			cv := eval(x.X, d+1)
			if x.Op == token.SUB && cv.Kind == CInt {
				return CVal{Kind: CInt, I: wrapInt(-cv.I, x.Type())}
			}
			if x.Op == token.NOT && cv.Kind == CBool {
				return CVal{Kind: CBool, B: !cv.B}
			}
		case *ssa.BinOp:
			return binop(x.Op, eval(x.X, d+1), eval(x.Y, d+1), x.Type())
		}
		return CVal{}
	}
	return eval(v, 0)
}
