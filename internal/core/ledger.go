package core

import (
	"bufio"
	"encoding/json"
	"fmt"
	"os"
	"path/filepath"
	"regexp"
	"sort"
	"strings"
	"time"
)

// Status of an obligation.
type Status int

const (
	Discharged Status = iota
	Violated
	Undecided
)

func (s Status) String() string {
	switch s {
	case Discharged:
		return "discharged"
	case Violated:
		return "violated"
	}
	return "undecided"
}

// Obligation is one instance of a rule on one construct.
type Obligation struct {
	Rule       string   `json:"rule"`
	Key        string   `json:"key"` // construct key: never contains line numbers
	Status     Status   `json:"-"`
	StatusText string   `json:"status"`
	Pos        string   `json:"pos,omitempty"`
	Detail     string   `json:"detail,omitempty"`
	Trace      []string `json:"trace,omitempty"`
	Trivial    bool     `json:"trivial,omitempty"` // no guard/path had to be examined
}

// Ledger collects the obligations of one property check.
type Ledger struct {
	Prop        string
	Tier        string
	Obls        []Obligation
	floors      map[string]int
	Explanation string
	RuleText    string
	Assumptions []string
	Trusted     []string
	Units       map[string]int
	Exhaustive  bool
	Extra       map[string]interface{}
	seen        map[string]bool
	Infra       []string // infrastructure failures (witness did not fire, ...)
	XRef        []string
}

// NewLedger creates a ledger for a property.
func NewLedger(prop, tier string) *Ledger {
	return &Ledger{Prop: prop, Tier: tier, floors: map[string]int{}, Units: map[string]int{}, Extra: map[string]interface{}{}, seen: map[string]bool{}}
}

// Add records an obligation. Duplicate rule+key pairs get an ordinal suffix.
func (l *Ledger) Add(o Obligation) {
	k := o.Rule + "|" + o.Key
	if l.seen[k] {
		for i := 2; ; i++ {
			k2 := fmt.Sprintf("%s#%d", o.Key, i)
			if !l.seen[o.Rule+"|"+k2] {
				o.Key = k2
				k = o.Rule + "|" + k2
				break
			}
		}
	}
	l.seen[k] = true
	o.StatusText = o.Status.String()
	l.Obls = append(l.Obls, o)
}

// Ok records a discharged obligation.
func (l *Ledger) Ok(rule, key, pos, detail string) {
	l.Add(Obligation{Rule: rule, Key: key, Status: Discharged, Pos: pos, Detail: detail})
}

// Bad records a violated obligation.
func (l *Ledger) Bad(rule, key, pos, detail string, trace ...string) {
	l.Add(Obligation{Rule: rule, Key: key, Status: Violated, Pos: pos, Detail: detail, Trace: trace})
}

// Unk records an undecided obligation (reported like a violation).
func (l *Ledger) Unk(rule, key, pos, detail string, trace ...string) {
	l.Add(Obligation{Rule: rule, Key: key, Status: Undecided, Pos: pos, Detail: detail, Trace: trace})
}

// Check records Ok or Bad depending on cond.
func (l *Ledger) Check(cond bool, rule, key, pos, okDetail, badDetail string) bool {
	if cond {
		l.Ok(rule, key, pos, okDetail)
	} else {
		l.Bad(rule, key, pos, badDetail)
	}
	return cond
}

// Floor states the minimum number of instances a rule must have found.
func (l *Ledger) Floor(rule string, n int) { l.floors[rule] = n }

// Witness records that a positive witness for a zero-expected rule fired.
func (l *Ledger) Witness(rule string, fired bool, detail string) {
	if !fired {
		l.Infra = append(l.Infra, "witness for rule "+rule+" did not fire: "+detail)
	} else {
		l.Units["witnesses_fired"]++
	}
}

// Count returns the number of obligations of a rule.
func (l *Ledger) Count(rule string) int {
	n := 0
	for _, o := range l.Obls {
		if o.Rule == rule {
			n++
		}
	}
	return n
}

// Known finding file handling -------------------------------------------------

type knownEntry struct {
	Prop, Rule, Key, What string
}

var knownRe = regexp.MustCompile(`^known:\s+property=(\S+)\s+rule=(\S+)\s+key=(\S+)\s+::\s+(.*)$`)

// LoadKnown reads /verif/known_findings.txt. Lines starting "fixed:" suppress
// nothing and are ignored here.
func LoadKnown(path string) []knownEntry {
	f, err := os.Open(path)
	if err != nil {
		return nil
	}
	defer f.Close()
	var out []knownEntry
	sc := bufio.NewScanner(f)
	sc.Buffer(make([]byte, 1<<20), 1<<20)
	for sc.Scan() {
		line := strings.TrimSpace(sc.Text())
		if m := knownRe.FindStringSubmatch(line); m != nil {
			out = append(out, knownEntry{m[1], m[2], m[3], m[4]})
		}
	}
	return out
}

var unsafeChars = regexp.MustCompile(`[^A-Za-z0-9_.-]+`)

// Finish evaluates floors, matches known findings, writes evidence and replay
// files and prints the verdict lines. Returns the process exit code.
func (l *Ledger) Finish(verifDir string, start time.Time, seed int64, cmd string) int {
	// floors
	rules := map[string]int{}
	for _, o := range l.Obls {
		rules[o.Rule]++
	}
	var fr []string
	for r := range l.floors {
		fr = append(fr, r)
	}
	sort.Strings(fr)
	for _, r := range fr {
		if rules[r] < l.floors[r] {
			l.Unk(r, "floor", "", fmt.Sprintf("rule matched %d instances, fewer than the %d confirmed by hand: the rule went vacuous (anchors renamed or code removed?)", rules[r], l.floors[r]))
		}
	}
	known := LoadKnown(filepath.Join(verifDir, "known_findings.txt"))
	isKnown := func(o Obligation) *knownEntry {
		for i := range known {
			k := &known[i]
			if k.Prop == l.Prop && k.Rule == o.Rule && k.Key == o.Key {
				return k
			}
		}
		return nil
	}
	replayDir := filepath.Join(verifDir, "out", "replay", l.Prop)
	os.RemoveAll(replayDir)
	nviol, nknown, ndis, nontriv := 0, 0, 0, 0
	distinct := map[string]bool{}
	var lines []string
	for _, o := range l.Obls {
		if !o.Trivial {
			if !distinct[o.Rule+"|"+o.Key] {
				distinct[o.Rule+"|"+o.Key] = true
				nontriv++
			}
		}
		if o.Status == Discharged {
			ndis++
			continue
		}
		if k := isKnown(o); k != nil && o.Status == Violated {
			nknown++
			lines = append(lines, fmt.Sprintf("KNOWN-FINDING: property=%s rule=%s key=%s %s (%s)", l.Prop, o.Rule, o.Key, k.What, o.Pos))
			continue
		}
		nviol++
		os.MkdirAll(replayDir, 0o755)
		name := unsafeChars.ReplaceAllString(o.Rule+"__"+o.Key, "_")
		if len(name) > 180 {
			name = name[:180]
		}
		p := filepath.Join(replayDir, name+".json")
		b, _ := json.MarshalIndent(map[string]interface{}{
			"property": l.Prop, "rule": o.Rule, "key": o.Key, "status": o.Status.String(),
			"pos": o.Pos, "detail": o.Detail, "trace": o.Trace,
			"replay": fmt.Sprintf("./bin/vcheck -p %s -only '%s|%s'", l.Prop, o.Rule, o.Key),
		}, "", " ")
		os.WriteFile(p, b, 0o644)
		fmt.Printf("  %s %s %s at %s: %s\n", strings.ToUpper(o.Status.String()), o.Rule, o.Key, o.Pos, o.Detail)
		for _, t := range o.Trace {
			fmt.Printf("      %s\n", t)
		}
		lines = append(lines, fmt.Sprintf("VIOLATION property=%s replay=%s", l.Prop, p))
	}
	// evidence
	var samples []interface{}
	perRule := map[string]int{}
	for _, o := range l.Obls {
		if perRule[o.Rule] < 3 && len(samples) < 60 {
			perRule[o.Rule]++
			samples = append(samples, o)
		}
	}
	ruleCounts := map[string]int{}
	for _, o := range l.Obls {
		ruleCounts[o.Rule]++
	}
	cov := map[string]interface{}{
		"explanation":         l.Explanation,
		"obligations":         len(l.Obls),
		"discharged":          ndis,
		"known_findings":      nknown,
		"evaluations":         len(l.Obls),
		"distinct_nontrivial": nontriv,
		"rule":                l.RuleText,
		"samples":             samples,
		"exhaustive":          l.Exhaustive,
		"trusted_base":        l.Trusted,
		"checker_cmd":         cmd,
		"units":               l.Units,
		"per_rule":            ruleCounts,
	}
	if len(l.XRef) > 0 {
		cov["cross_reference"] = l.XRef
	}
	for k, v := range l.Extra {
		cov[k] = v
	}
	ev := map[string]interface{}{
		"property_id": l.Prop,
		"tier":        l.Tier,
		"seed":        seed,
		"level":       "other",
		"coverage":    cov,
		"assumptions": append([]string{"go/types, go/ssa and the call graph describe the program that the Go compiler builds from the same sources"}, l.Assumptions...),
		"wall_s":      time.Since(start).Seconds(),
		"violations":  nviol,
	}
	os.MkdirAll(filepath.Join(verifDir, "evidence"), 0o755)
	b, _ := json.MarshalIndent(ev, "", " ")
	if err := os.WriteFile(filepath.Join(verifDir, "evidence", l.Prop+".json"), b, 0o644); err != nil {
		fmt.Fprintf(os.Stderr, "cannot write evidence: %v\n", err)
		return 2
	}
	fmt.Printf("%s tier=%s obligations=%d discharged=%d known=%d alarms=%d rules=%d wall=%.1fs\n",
		l.Prop, l.Tier, len(l.Obls), ndis, nknown, nviol, len(ruleCounts), time.Since(start).Seconds())
	var rn []string
	for r := range ruleCounts {
		rn = append(rn, r)
	}
	sort.Strings(rn)
	for _, r := range rn {
		fmt.Printf("  rule %-22s instances=%d\n", r, ruleCounts[r])
	}
	for _, s := range lines {
		fmt.Println(s)
	}
	if len(l.Infra) > 0 {
		for _, s := range l.Infra {
			fmt.Fprintf(os.Stderr, "INFRASTRUCTURE: %s\n", s)
		}
		return 2
	}
	if nviol > 0 {
		return 1
	}
	return 0
}
