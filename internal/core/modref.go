package core

import (
	"fmt"
	"go/token"
	"go/types"
	"sort"
	"strings"

	"golang.org/x/tools/go/ssa"
)

// Mod-summaries: for every repository function, which roots it may mutate
// (transitively): "p<i>" a parameter (anything reachable from it), "g:<name>"
// a package-level variable, "fv<i>" a captured variable, "fs" the file system,
// "ext:<func>" an unknown external side effect. Mutations of objects allocated
// by the function itself are not recorded (they are fresh).
type ModSummary struct {
	Roots map[string]string // root -> one example (where/what)
	// KeyedMapOnly[root] is true when the only mutation of root is a map
	// insertion whose key is (derived from) another parameter: commutative
	// across calls with distinct keys.
	KeyedMapOnly map[string]bool
	ReturnsFresh bool
}

type modRef struct {
	c    *Ctx
	g    *CG
	sum  map[*ssa.Function]*ModSummary
	work []*ssa.Function
}

var pureExtPkgs = map[string]bool{
	"fmt": true, "strings": true, "strconv": true, "path/filepath": true, "path": true, "errors": true, "unicode": true, "unicode/utf8": true,
	"go.uber.org/multierr": true, "reflect": true, "math": true, "crypto/sha1": true, "encoding/hex": true, "go/token": true, "go/ast": true,
	"go/parser": true, "go/types": true, "regexp": true, "text/template/parse": true, "encoding/json": true, "go.uber.org/atomic": true, "sync/atomic": true,
	"github.com/fatih/structtag": true, "go/printer": true, "bufio": true, "io": true, "go/format": true, "golang.org/x/tools/go/ast/astutil": true,
}

// extEffect classifies a call to a function outside the repository: returns
// the argument indexes it may mutate and special roots.
func extEffect(o *types.Func, nargs int) (args []int, special string) {
	if o == nil || o.Pkg() == nil {
		return nil, ""
	}
	pkg := o.Pkg().Path()
	name := o.Name()
	sig := o.Type().(*types.Signature)
	switch pkg {
	case "os":
		switch name {
		case "WriteFile", "MkdirAll", "Mkdir", "Create", "OpenFile", "Remove", "RemoveAll", "Rename", "Chmod", "Symlink", "Link", "Truncate", "Chtimes", "Chown":
			return nil, "fs"
		}
		return nil, ""
	case "io/ioutil":
		switch name {
		case "WriteFile", "TempDir", "TempFile":
			return nil, "fs"
		}
		return nil, ""
	case "sort":
		return []int{0}, ""
	case "sync":
		return nil, "" // locks / pools / waitgroups are not data effects
	case "bytes":
		if sig.Recv() != nil {
			if strings.HasPrefix(name, "Write") || name == "Reset" || name == "Grow" || name == "Truncate" || name == "ReadFrom" {
				return []int{0}, ""
			}
		}
		return nil, ""
	case "io":
		switch name {
		case "Copy", "CopyN", "WriteString":
			return []int{0}, ""
		}
		if sig.Recv() != nil && (name == "Write" || name == "Close") {
			return []int{0}, ""
		}
		return nil, ""
	case "text/template":
		if name == "Execute" {
			return []int{1}, "" // the functions a template calls are separate (template) call-graph edges
		}
		return nil, ""
	case "log":
		return nil, ""
	case "slices":
		for _, pre := range []string{"Sort", "Reverse", "Compact", "Delete", "Insert", "Replace", "Clip", "Grow"} {
			if strings.HasPrefix(name, pre) {
				return []int{0}, ""
			}
		}
		return nil, "" // Contains, Index, Equal, Clone, Max, BinarySearch, ...: read-only
	case "maps":
		switch name {
		case "Copy", "DeleteFunc", "Insert":
			return []int{0}, ""
		}
		return nil, "" // Keys/Values/All are order sources: see the SOURCES rule
	case "encoding/binary":
		if strings.HasPrefix(name, "Put") || name == "Write" || name == "Read" {
			if sig.Recv() != nil {
				return []int{1}, ""
			}
			return []int{0}, ""
		}
		return nil, ""
	case "cmp", "math/bits", "encoding/base64", "unicode/utf16", "hash/fnv", "context", "iter", "html", "net/url", "mime":
		return nil, ""
	case "time", "math/rand":
		return nil, ""
	case "os/exec":
		return nil, "ext:" + pkg + "." + name
	}
	if pureExtPkgs[pkg] {
		// interface method Write on io.Writer etc.
		if sig.Recv() != nil && (name == "Write" || name == "WriteString") {
			return []int{0}, ""
		}
		return nil, ""
	}
	// zap encoders, mock controllers...: mutate the receiver
	if sig.Recv() != nil {
		return []int{0}, ""
	}
	return nil, "ext:" + pkg + "." + name
}

// rootOf traces an address or reference back to what it is reachable from.
// Returns root descriptors relative to fn: "p<i>", "fv<i>", "g:<name>",
// "local" (allocated in fn), "call" (result of a call: fresh only if callee
// ReturnsFresh), "?" unknown.
func (m *modRef) rootsOf(fn *ssa.Function, v ssa.Value, seen map[ssa.Value]bool) []string {
	if seen[v] {
		return nil
	}
	seen[v] = true
	switch x := v.(type) {
	case *ssa.Parameter:
		for i, p := range fn.Params {
			if p == x {
				return []string{fmt.Sprintf("p%d", i)}
			}
		}
	case *ssa.FreeVar:
		for i, p := range fn.FreeVars {
			if p == x {
				return []string{fmt.Sprintf("fv%d", i)}
			}
		}
	case *ssa.Global:
		return []string{"g:" + x.Pkg.Pkg.Path() + "." + x.Name()}
	case *ssa.Alloc:
		// a local variable holding a pointer: what was stored into it
		var out []string
		stored := false
		if !x.Heap || true {
			for _, r := range *x.Referrers() {
				if st, ok := r.(*ssa.Store); ok && st.Addr == x {
					if isRefType(st.Val.Type()) {
						stored = true
						out = append(out, m.rootsOf(fn, st.Val, seen)...)
					}
				}
			}
		}
		if !stored {
			return []string{"local"}
		}
		return append(out, "local")
	case *ssa.MakeMap, *ssa.MakeSlice, *ssa.MakeChan, *ssa.MakeClosure:
		return []string{"local"}
	case *ssa.FieldAddr:
		return m.rootsOf(fn, x.X, seen)
	case *ssa.IndexAddr:
		return m.rootsOf(fn, x.X, seen)
	case *ssa.Field:
		return m.rootsOf(fn, x.X, seen)
	case *ssa.Index:
		return m.rootsOf(fn, x.X, seen)
	case *ssa.Lookup:
		return m.rootsOf(fn, x.X, seen)
	case *ssa.UnOp:
		if x.Op == token.MUL {
			return m.rootsOf(fn, x.X, seen)
		}
	case *ssa.Slice:
		return m.rootsOf(fn, x.X, seen)
	case *ssa.ChangeType:
		return m.rootsOf(fn, x.X, seen)
	case *ssa.ChangeInterface:
		return m.rootsOf(fn, x.X, seen)
	case *ssa.MakeInterface:
		return m.rootsOf(fn, x.X, seen)
	case *ssa.TypeAssert:
		return m.rootsOf(fn, x.X, seen)
	case *ssa.Convert:
		return m.rootsOf(fn, x.X, seen)
	case *ssa.Extract:
		return m.rootsOf(fn, x.Tuple, seen)
	case *ssa.Phi:
		var out []string
		for _, e := range x.Edges {
			out = append(out, m.rootsOf(fn, e, seen)...)
		}
		return out
	case *ssa.Next:
		return m.rootsOf(fn, x.Iter, seen)
	case *ssa.Range:
		return m.rootsOf(fn, x.X, seen)
	case *ssa.Call:
		if b, ok := x.Call.Value.(*ssa.Builtin); ok {
			if b.Name() == "append" {
				return m.rootsOf(fn, x.Call.Args[0], seen)
			}
			return []string{"local"}
		}
		// result of a call: reachable from its arguments unless the callee returns fresh storage
		fresh := false
		if cal := x.Call.StaticCallee(); cal != nil {
			if s := m.sum[cal]; s != nil && s.ReturnsFresh {
				fresh = true
			}
			if !InRepo(cal) {
				fresh = true // stdlib constructors / pure functions
			}
		}
		if fresh {
			return []string{"local"}
		}
		var out []string
		for _, a := range x.Call.Args {
			if isRefType(a.Type()) {
				out = append(out, m.rootsOf(fn, a, seen)...)
			}
		}
		if x.Call.IsInvoke() {
			out = append(out, m.rootsOf(fn, x.Call.Value, seen)...)
		}
		if len(out) == 0 {
			return []string{"local"}
		}
		return out
	case *ssa.Const:
		return []string{"local"}
	case *ssa.Function:
		return []string{"local"}
	}
	return []string{"?"}
}

func isRefType(t types.Type) bool {
	switch u := t.Underlying().(type) {
	case *types.Pointer, *types.Map, *types.Slice, *types.Interface, *types.Chan, *types.Signature:
		return true
	case *types.Struct:
		for i := 0; i < u.NumFields(); i++ {
			if isRefType(u.Field(i).Type()) {
				return true
			}
		}
	}
	return false
}

// ModSummaries computes (once) the summaries of all repository functions.
func (c *Ctx) ModSummaries() map[*ssa.Function]*ModSummary {
	if s, ok := c.Cache["modref"].(map[*ssa.Function]*ModSummary); ok {
		return s
	}
	g := c.Graph()
	m := &modRef{c: c, g: g, sum: map[*ssa.Function]*ModSummary{}}
	var fns []*ssa.Function
	for _, f := range c.AllFuncs() {
		fns = append(fns, f)
	}
	// also synthetic wrappers with bodies that are repository functions
	for f := range g.Out {
		if InRepo(f) && len(f.Blocks) > 0 {
			dup := false
			for _, x := range fns {
				if x == f {
					dup = true
					break
				}
			}
			if !dup {
				fns = append(fns, f)
			}
		}
	}
	for _, f := range fns {
		m.sum[f] = &ModSummary{Roots: map[string]string{}, KeyedMapOnly: map[string]bool{}}
	}
	// returns-fresh: every returned reference is a local allocation (1 round + fixpoint)
	for iter := 0; iter < 6; iter++ {
		changed := false
		for _, f := range fns {
			s := m.sum[f]
			if s.ReturnsFresh {
				continue
			}
			fresh := true
			nret := 0
			Instrs(f, func(in ssa.Instruction) {
				r, ok := in.(*ssa.Return)
				if !ok {
					return
				}
				nret++
				for _, res := range r.Results {
					if !isRefType(res.Type()) || IsErrorType(res.Type()) {
						continue
					}
					for _, rt := range m.rootsOf(f, SpilledResult(r, res), map[ssa.Value]bool{}) {
						if rt != "local" {
							fresh = false
						}
					}
				}
			})
			if fresh && nret > 0 {
				s.ReturnsFresh = true
				changed = true
			}
		}
		if !changed {
			break
		}
	}
	add := func(s *ModSummary, root, why string, keyed bool) bool {
		if root == "local" {
			return false
		}
		_, had := s.Roots[root]
		if !had {
			s.Roots[root] = why
			s.KeyedMapOnly[root] = keyed
			return true
		}
		if s.KeyedMapOnly[root] && !keyed {
			s.KeyedMapOnly[root] = false
			return true
		}
		return false
	}
	for iter := 0; iter < 30; iter++ {
		changed := false
		for _, f := range fns {
			s := m.sum[f]
			Instrs(f, func(in ssa.Instruction) {
				switch x := in.(type) {
				case *ssa.Store:
					if _, isAlloc := x.Addr.(*ssa.Alloc); isAlloc {
						return // assignment to a local variable
					}
					for _, r := range m.rootsOf(f, x.Addr, map[ssa.Value]bool{}) {
						if add(s, r, "store at "+c.Rel(x.Pos()), false) {
							changed = true
						}
					}
				case *ssa.MapUpdate:
					// commutative only in the strict form m[param] = param|const
					keyed := false
					if _, ok := Unop(x.Key).(*ssa.Parameter); ok {
						switch Unop(x.Value).(type) {
						case *ssa.Parameter, *ssa.Const:
							keyed = true
						}
					}
					for _, r := range m.rootsOf(f, x.Map, map[ssa.Value]bool{}) {
						if add(s, r, "map insert at "+c.Rel(x.Pos()), keyed) {
							changed = true
						}
					}
				case *ssa.Send:
					if add(s, "ext:chan-send", c.Rel(x.Pos()), false) {
						changed = true
					}
				case ssa.CallInstruction:
					cc := x.Common()
					if b, ok := cc.Value.(*ssa.Builtin); ok {
						if b.Name() == "delete" {
							for _, r := range m.rootsOf(f, cc.Args[0], map[ssa.Value]bool{}) {
								if add(s, r, "delete at "+c.Rel(x.Pos()), true) {
									changed = true
								}
							}
						}
						return
					}
					// resolve callees
					var callees []*ssa.Function
					if cal := cc.StaticCallee(); cal != nil {
						callees = []*ssa.Function{cal}
					} else {
						for _, e := range g.Out[f] {
							if e.Site == in {
								callees = append(callees, e.To)
							}
						}
					}
					args := cc.Args
					if cc.IsInvoke() {
						args = append([]ssa.Value{cc.Value}, cc.Args...)
					}
					if len(callees) == 0 {
						// unresolved dynamic / interface call outside the repo
						if cc.IsInvoke() {
							ai, sp := extEffect(cc.Method, len(args))
							for _, i := range ai {
								if i < len(args) {
									for _, r := range m.rootsOf(f, args[i], map[ssa.Value]bool{}) {
										if add(s, r, "via "+cc.Method.Name()+" at "+c.Rel(x.Pos()), false) {
											changed = true
										}
									}
								}
							}
							if sp != "" && add(s, sp, c.Rel(x.Pos()), false) {
								changed = true
							}
						}
						return
					}
					for _, cal := range callees {
						cs := m.sum[cal]
						if cs == nil {
							// external function
							o, _ := cal.Object().(*types.Func)
							ai, sp := extEffect(o, len(args))
							for _, i := range ai {
								if i < len(args) {
									for _, r := range m.rootsOf(f, args[i], map[ssa.Value]bool{}) {
										if add(s, r, "via "+cal.Name()+" at "+c.Rel(x.Pos()), false) {
											changed = true
										}
									}
								}
							}
							if sp != "" && add(s, sp, cal.String()+" at "+c.Rel(x.Pos()), false) {
								changed = true
							}
							continue
						}
						for root, why := range cs.Roots {
							switch {
							case strings.HasPrefix(root, "p"):
								var i int
								fmt.Sscanf(root[1:], "%d", &i)
								if i < len(args) {
									for _, r := range m.rootsOf(f, args[i], map[ssa.Value]bool{}) {
										if add(s, r, "via "+SSAName(cal)+" ("+why+")", cs.KeyedMapOnly[root]) {
											changed = true
										}
									}
								}
							case strings.HasPrefix(root, "fv"):
								// closure's captured variable: map to the binding at the MakeClosure in f (if the closure was made here)
								var i int
								fmt.Sscanf(root[2:], "%d", &i)
								bound := false
								Instrs(f, func(i2 ssa.Instruction) {
									if mc, ok := i2.(*ssa.MakeClosure); ok && mc.Fn == cal && i < len(mc.Bindings) {
										bound = true
										for _, r := range m.rootsOf(f, mc.Bindings[i], map[ssa.Value]bool{}) {
											if add(s, r, "via closure "+SSAName(cal)+" ("+why+")", cs.KeyedMapOnly[root]) {
												changed = true
											}
										}
									}
								})
								if !bound {
									if add(s, "?", "captured state of "+SSAName(cal), false) {
										changed = true
									}
								}
							default:
								if add(s, root, why, false) {
									changed = true
								}
							}
						}
					}
				}
			})
		}
		if !changed {
			break
		}
	}
	c.Cache["modref"] = m.sum
	c.Cache["modref-engine"] = m
	return m.sum
}

// RootsOf exposes the root tracer for rule code.
func (c *Ctx) RootsOf(fn *ssa.Function, v ssa.Value) []string {
	c.ModSummaries()
	m := c.Cache["modref-engine"].(*modRef)
	r := m.rootsOf(fn, v, map[ssa.Value]bool{})
	sort.Strings(r)
	var out []string
	for i, s := range r {
		if i == 0 || s != r[i-1] {
			out = append(out, s)
		}
	}
	return out
}
