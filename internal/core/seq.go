package core

import (
	"go/token"
	"sort"
	"strings"

	"golang.org/x/tools/go/ssa"
)

// IsErrCheck recognises `if err != nil` / `if err == nil` and returns the
// index of the successor on which the error is nil (the success edge).
func IsErrCheck(ifi *ssa.If) (okEdge int, is bool) {
	cond := ifi.Cond
	neg := false
	for {
		if u, ok := cond.(*ssa.UnOp); ok && u.Op == token.NOT {
			cond = u.X
			neg = !neg
			continue
		}
		break
	}
	b, ok := cond.(*ssa.BinOp)
	if !ok || (b.Op != token.NEQ && b.Op != token.EQL) {
		return 0, false
	}
	var other ssa.Value
	if c, ok := b.Y.(*ssa.Const); ok && c.IsNil() {
		other = b.X
	} else if c, ok := b.X.(*ssa.Const); ok && c.IsNil() {
		other = b.Y
	} else {
		return 0, false
	}
	if !IsErrorType(other.Type()) {
		return 0, false
	}
	// NEQ: true edge (0) = error present; success = 1
	idx := 1
	if b.Op == token.EQL {
		idx = 0
	}
	if neg {
		idx = 1 - idx
	}
	return idx, true
}

// CyclicBlocks returns the blocks of f that lie on a CFG cycle.
func CyclicBlocks(f *ssa.Function) map[*ssa.BasicBlock]bool {
	out := map[*ssa.BasicBlock]bool{}
	for _, b := range f.Blocks {
		// b is cyclic if b reachable from one of its successors
		seen := map[*ssa.BasicBlock]bool{}
		st := append([]*ssa.BasicBlock{}, b.Succs...)
		for len(st) > 0 {
			x := st[len(st)-1]
			st = st[:len(st)-1]
			if seen[x] {
				continue
			}
			seen[x] = true
			st = append(st, x.Succs...)
		}
		if seen[b] {
			out[b] = true
		}
	}
	return out
}

// SeqItem is one event on a success path.
type SeqItem struct {
	Text  string
	Instr ssa.Instruction
}

// SeqOpts configures success-path enumeration.
type SeqOpts struct {
	// Classify maps an instruction to zero or more events. inLoop tells whether
	// the instruction lies on a CFG cycle.
	Classify func(in ssa.Instruction, inLoop bool) []string
	// FollowErr: also follow error edges (default: success edges only).
	FollowErr bool
	// EdgeLabel, when set, can add an event for taking an If edge (cond facts).
	EdgeLabel func(ifi *ssa.If, idx int) string
	MaxPaths  int
	// Inline decides whether a statically called function is explored in place.
	Inline func(caller, callee *ssa.Function) bool
	// Decide, when set, may fix the outcome of a branch (the index of the
	// successor taken); undecided branches are explored both ways as usual.
	Decide func(ifi *ssa.If) (idx int, ok bool)
}

// SuccessSeqs enumerates the event sequences along every path from entry to a
// Return (each block at most twice per path, so loop bodies are seen once),
// following only the nil-error successor of error tests. Returned sequences
// are deduplicated and sorted; ok=false if the path cap was hit.
//
// When o.Inline accepts a statically called function, the call is explored in
// place: the callee's own paths are spliced into the caller's (its parameters
// rendered as the caller's arguments, its results bound to the call's results),
// so that extracting a helper — or not — yields the same sequences.
func SuccessSeqs(f *ssa.Function, o SeqOpts) (seqs [][]string, ok bool) {
	if len(f.Blocks) == 0 {
		return nil, false
	}
	if o.MaxPaths == 0 {
		o.MaxPaths = 20000
	}
	cycCache := map[*ssa.Function]map[*ssa.BasicBlock]bool{}
	cycOf := func(fn *ssa.Function) map[*ssa.BasicBlock]bool {
		if m, has := cycCache[fn]; has {
			return m
		}
		m := CyclicBlocks(fn)
		cycCache[fn] = m
		return m
	}
	set := map[string][]string{}
	paths := 0
	ok = true
	type frame struct {
		fn    *ssa.Function
		count map[*ssa.BasicBlock]int
		depth int
		stack []*ssa.Function
		// inLoop: the call this frame was entered through lies on a cycle of its caller
		inLoop bool
		// ret continues the caller after an inlined callee returned
		ret func(x *ssa.Return, acc []string)
	}
	bind := func(m map[ssa.Value]string) (undo func()) {
		old := map[ssa.Value]*string{}
		for k, v := range m {
			if cur, has := symOverride[k]; has {
				c := cur
				old[k] = &c
			} else {
				old[k] = nil
			}
			symOverride[k] = v
		}
		return func() {
			for k, v := range old {
				if v == nil {
					delete(symOverride, k)
				} else {
					symOverride[k] = *v
				}
			}
		}
	}
	var walk func(fr *frame, b *ssa.BasicBlock, start int, acc []string)
	walk = func(fr *frame, b *ssa.BasicBlock, start int, acc []string) {
		if !ok {
			return
		}
		if start == 0 {
			if fr.count[b] >= 2 {
				return
			}
			fr.count[b]++
			defer func() { fr.count[b]-- }()
		}
		for i := start; i < len(b.Instrs); i++ {
			in := b.Instrs[i]
			if call, isCall := in.(*ssa.Call); isCall && o.Inline != nil {
				if h := call.Call.StaticCallee(); h != nil && len(h.Blocks) > 0 && fr.depth < 3 && o.Inline(fr.fn, h) {
					rec := h == fr.fn
					for _, s := range fr.stack {
						if s == h {
							rec = true
						}
					}
					if !rec && len(h.Params) == len(call.Call.Args) {
						pm := map[ssa.Value]string{}
						savedArgs := map[ssa.Value]ssa.Value{}
						for k, p := range h.Params {
							pm[p] = Sym(call.Call.Args[k])
							if cur, has := boundArg[p]; has {
								savedArgs[p] = cur
							}
						}
						for k, p := range h.Params {
							boundArg[p] = call.Call.Args[k]
						}
						restoreArgs := func() {
							for _, p := range h.Params {
								if v, has := savedArgs[p]; has {
									boundArg[p] = v
								} else {
									delete(boundArg, p)
								}
							}
						}
						defer restoreArgs()
						undoParams := bind(pm)
						idx := i
						sub := &frame{fn: h, count: map[*ssa.BasicBlock]int{}, depth: fr.depth + 1, stack: append(append([]*ssa.Function{}, fr.stack...), fr.fn), inLoop: fr.inLoop || cycOf(fr.fn)[b]}
						sub.ret = func(x *ssa.Return, acc2 []string) {
							var rs []string
							var rvals []ssa.Value
							for _, r := range x.Results {
								rs = append(rs, Sym(SpilledResult(x, r)))
								rvals = append(rvals, SpilledResult(x, r))
							}
							undoParams()
							rm := map[ssa.Value]string{}
							rv := map[ssa.Value]ssa.Value{}
							if len(rs) == 1 {
								rm[call] = rs[0]
								rv[call] = rvals[0]
							} else if refs := call.Referrers(); refs != nil {
								for _, r := range *refs {
									if ex, isEx := r.(*ssa.Extract); isEx && ex.Index < len(rs) {
										rm[ex] = rs[ex.Index]
										rv[ex] = rvals[ex.Index]
									}
								}
							}
							undoRes := bind(rm)
							oldRV := map[ssa.Value]ssa.Value{}
							for k, v := range rv {
								if cur, has := boundRet[k]; has {
									oldRV[k] = cur
								}
								boundRet[k] = v
							}
							walk(fr, b, idx+1, acc2)
							for k := range rv {
								if cur, has := oldRV[k]; has {
									boundRet[k] = cur
								} else {
									delete(boundRet, k)
								}
							}
							undoRes()
							undoParams = bind(pm)
						}
						walk(sub, h.Blocks[0], 0, acc)
						undoParams()
						return
					}
				}
			}
			if ret, isRet := in.(*ssa.Return); isRet && fr.ret != nil {
				if !o.FollowErr && ReturnsNonNilError(ret) {
					return
				}
				fr.ret(ret, acc)
				return
			}
			acc = append(acc, o.Classify(in, fr.inLoop || cycOf(fr.fn)[b])...)
			switch x := in.(type) {
			case *ssa.Return:
				if !o.FollowErr && ReturnsNonNilError(x) {
					return
				}
				paths++
				if paths > o.MaxPaths {
					ok = false
					return
				}
				cp := append([]string{}, acc...)
				set[strings.Join(cp, "\x00")] = cp
				return
			case *ssa.Panic:
				return
			case *ssa.If:
				if o.Decide != nil {
					if idx, decided := o.Decide(x); decided {
						walk(fr, b.Succs[idx], 0, acc)
						return
					}
				}
				if okEdge, is := IsErrCheck(x); is {
					// an error bound by an inlined callee decides the branch
					known, val := boundError(x)
					switch {
					case known && val == "c:nil":
						walk(fr, b.Succs[okEdge], 0, acc)
						return
					case known && o.FollowErr:
						walk(fr, b.Succs[1-okEdge], 0, acc)
						return
					case known:
						return
					}
					if !o.FollowErr {
						a := acc
						if o.EdgeLabel != nil {
							if s := o.EdgeLabel(x, okEdge); s != "" {
								a = append(append([]string{}, acc...), s)
							}
						}
						walk(fr, b.Succs[okEdge], 0, a)
						return
					}
				}
				for idx := 0; idx < 2; idx++ {
					a := append([]string{}, acc...)
					if o.EdgeLabel != nil {
						if s := o.EdgeLabel(x, idx); s != "" {
							a = append(a, s)
						}
					}
					walk(fr, b.Succs[idx], 0, a)
				}
				return
			case *ssa.Jump:
				walk(fr, b.Succs[0], 0, acc)
				return
			}
		}
	}
	walk(&frame{fn: f, count: map[*ssa.BasicBlock]int{}}, f.Blocks[0], 0, nil)
	var keys []string
	for k := range set {
		keys = append(keys, k)
	}
	sort.Strings(keys)
	for _, k := range keys {
		seqs = append(seqs, set[k])
	}
	return seqs, ok
}

// boundError: the error tested by ifi was bound by an inlined callee's return.
func boundError(ifi *ssa.If) (bool, string) {
	if len(symOverride) == 0 {
		return false, ""
	}
	cond := ifi.Cond
	for {
		if u, ok := cond.(*ssa.UnOp); ok && u.Op == token.NOT {
			cond = u.X
			continue
		}
		break
	}
	b, ok := cond.(*ssa.BinOp)
	if !ok {
		return false, ""
	}
	v := b.X
	if c, isC := v.(*ssa.Const); isC && c.IsNil() {
		v = b.Y
	}
	s, has := symOverride[v]
	if !has {
		return false, ""
	}
	// only constants decide: nil => success; a constructed error => failure
	if s == "c:nil" {
		return true, s
	}
	if strings.HasPrefix(s, "$") || strings.Contains(s, "#") {
		return false, "" // the callee passed on somebody else's error: not decided here
	}
	if rv, has := boundRet[v]; has && !DefinitelyNonNilError(rv, 2) {
		return false, "" // the callee returned the result of another call: not decided here
	}
	return true, s
}

// boundRet: while a callee is explored in place, the values it returned for
// the call's results (managed by SuccessSeqs).
var boundRet = map[ssa.Value]ssa.Value{}

// SeqString renders a sequence set.
func SeqString(seqs [][]string) string {
	var parts []string
	for _, s := range seqs {
		parts = append(parts, "["+strings.Join(s, " ")+"]")
	}
	return strings.Join(parts, " | ")
}

// CondLabel renders the condition of an If edge symbolically ("" for error tests).
func CondLabel(ifi *ssa.If, idx int) string {
	if _, is := IsErrCheck(ifi); is {
		return ""
	}
	neg := idx == 1
	cond := ifi.Cond
	for {
		if u, ok := cond.(*ssa.UnOp); ok && u.Op == token.NOT {
			cond, neg = u.X, !neg
			continue
		}
		break
	}
	s := Sym(cond)
	// one spelling per comparison: a <= b is !(a > b), a >= b is !(a < b)
	if bo, ok := cond.(*ssa.BinOp); ok && (bo.Op == token.LEQ || bo.Op == token.GEQ) {
		op := ">"
		if bo.Op == token.GEQ {
			op = "<"
		}
		s = "(" + Sym(bo.X) + op + Sym(bo.Y) + ")"
		neg = !neg
	}
	if neg {
		return "!" + s
	}
	return s
}

// TraceSeqs enumerates success paths of f as sequences of: branch conditions
// (symbolic), calls (static: call:Name(args); interface: inv:Method(args);
// dynamic: dyn(args)) accepted by keepCall, and the final return ret(...).
func TraceSeqs(f *ssa.Function, keepCall func(call ssa.CallInstruction) bool) ([][]string, bool) {
	return TraceSeqsInline(f, keepCall, nil)
}

// TraceSeqsInline is TraceSeqs with helper calls accepted by inline explored in place.
func TraceSeqsInline(f *ssa.Function, keepCall func(call ssa.CallInstruction) bool, inline func(caller, callee *ssa.Function) bool) ([][]string, bool) {
	return SuccessSeqs(f, SeqOpts{
		Inline:    inline,
		EdgeLabel: CondLabel,
		Classify: func(in ssa.Instruction, inLoop bool) []string {
			pre := ""
			if inLoop {
				pre = "loop:"
			}
			switch x := in.(type) {
			case ssa.CallInstruction:
				if keepCall != nil && !keepCall(x) {
					return nil
				}
				cc := x.Common()
				var args []string
				for _, a := range cc.Args {
					args = append(args, Sym(a))
				}
				kind := "call:"
				if _, ok := in.(*ssa.Defer); ok {
					kind = "defer:"
				}
				if _, ok := in.(*ssa.Go); ok {
					kind = "go:"
				}
				switch {
				case cc.IsInvoke():
					return []string{pre + kind + "inv:" + cc.Method.Name() + "(" + Sym(cc.Value) + ";" + strings.Join(args, ",") + ")"}
				case cc.StaticCallee() != nil:
					return []string{pre + kind + SSAName(cc.StaticCallee()) + "(" + strings.Join(args, ",") + ")"}
				default:
					if _, isB := cc.Value.(*ssa.Builtin); isB {
						return nil
					}
					return []string{pre + kind + "dyn:" + Sym(cc.Value) + "(" + strings.Join(args, ",") + ")"}
				}
			case *ssa.Return:
				var rs []string
				for _, r := range x.Results {
					rs = append(rs, Sym(SpilledResult(x, r)))
				}
				return []string{"ret(" + strings.Join(rs, ",") + ")"}
			}
			return nil
		},
	})
}

// SpilledResult undoes go/ssa's result spilling in functions with defers: a
// Return operand that is a load of a result Alloc is replaced by the value
// most recently stored to that Alloc on the (unique-predecessor) way to the Return.
func SpilledResult(ret *ssa.Return, r ssa.Value) ssa.Value {
	ld, ok := r.(*ssa.UnOp)
	if !ok || ld.Op != token.MUL {
		return r
	}
	a, ok := ld.X.(*ssa.Alloc)
	if !ok {
		return r
	}
	b := ret.Block()
	idx := len(b.Instrs)
	for i, in := range b.Instrs {
		if in == ssa.Instruction(ld) {
			idx = i
		}
	}
	for hops := 0; hops < 8; hops++ {
		for i := idx - 1; i >= 0; i-- {
			if st, ok := b.Instrs[i].(*ssa.Store); ok && st.Addr == a {
				return st.Val
			}
		}
		if len(b.Preds) != 1 {
			return r
		}
		b = b.Preds[0]
		idx = len(b.Instrs)
	}
	return r
}

// WalkInlined visits the instructions of f in block order; a static call
// accepted by inline is visited in place (the callee's instructions follow,
// with its parameters bound to the caller's arguments for Sym, up to depth 3,
// never recursively). visit receives each instruction and the chain of calls
// it was reached through. ArgOf resolves a bound parameter to the argument
// value of the innermost enclosing inlined call.
func WalkInlined(f *ssa.Function, inline func(caller, callee *ssa.Function) bool, visit func(in ssa.Instruction, via []*ssa.Call)) {
	var rec func(fn *ssa.Function, via []*ssa.Call, stack []*ssa.Function)
	rec = func(fn *ssa.Function, via []*ssa.Call, stack []*ssa.Function) {
		for _, b := range fn.Blocks {
			for _, in := range b.Instrs {
				if call, ok := in.(*ssa.Call); ok && inline != nil && len(via) < 3 {
					if h := call.Call.StaticCallee(); h != nil && len(h.Blocks) > 0 && len(h.Params) == len(call.Call.Args) && inline(fn, h) {
						cyc := h == fn
						for _, s := range stack {
							if s == h {
								cyc = true
							}
						}
						if !cyc {
							old := map[ssa.Value]*string{}
							oldArg := map[ssa.Value]ssa.Value{}
							for _, p := range h.Params {
								if cur, has := symOverride[p]; has {
									c := cur
									old[p] = &c
								} else {
									old[p] = nil
								}
								if cur, has := boundArg[p]; has {
									oldArg[p] = cur
								}
							}
							// evaluate all argument renderings before binding any
							syms := make([]string, len(h.Params))
							for k := range h.Params {
								syms[k] = Sym(call.Call.Args[k])
							}
							for k, p := range h.Params {
								symOverride[p] = syms[k]
								boundArg[p] = call.Call.Args[k]
							}
							rec(h, append(append([]*ssa.Call{}, via...), call), append(append([]*ssa.Function{}, stack...), fn))
							for _, p := range h.Params {
								if old[p] == nil {
									delete(symOverride, p)
								} else {
									symOverride[p] = *old[p]
								}
								if v, has := oldArg[p]; has {
									boundArg[p] = v
								} else {
									delete(boundArg, p)
								}
							}
							continue
						}
					}
				}
				visit(in, via)
			}
		}
	}
	rec(f, nil, nil)
}

var boundArg = map[ssa.Value]ssa.Value{}

// ArgOf follows parameters bound by WalkInlined to the caller's argument value.
func ArgOf(v ssa.Value) ssa.Value {
	for i := 0; i < 5; i++ {
		a, ok := boundArg[v]
		if !ok {
			return v
		}
		v = a
	}
	return v
}
