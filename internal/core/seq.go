package core

import (
	"go/token"
	"sort"
	"strings"

	"golang.org/x/tools/go/ssa"
)

// IsErrCheck recognises `if err != nil` / `if err == nil` and returns the
// index of the successor on which the error is nil (the success edge).
func IsErrCheck(ifi *ssa.If) (okEdge int, is bool) {
	cond := ifi.Cond
	neg := false
	for {
		if u, ok := cond.(*ssa.UnOp); ok && u.Op == token.NOT {
			cond = u.X
			neg = !neg
			continue
		}
		break
	}
	b, ok := cond.(*ssa.BinOp)
	if !ok || (b.Op != token.NEQ && b.Op != token.EQL) {
		return 0, false
	}
	var other ssa.Value
	if c, ok := b.Y.(*ssa.Const); ok && c.IsNil() {
		other = b.X
	} else if c, ok := b.X.(*ssa.Const); ok && c.IsNil() {
		other = b.Y
	} else {
		return 0, false
	}
	if !IsErrorType(other.Type()) {
		return 0, false
	}
	// NEQ: true edge (0) = error present; success = 1
	idx := 1
	if b.Op == token.EQL {
		idx = 0
	}
	if neg {
		idx = 1 - idx
	}
	return idx, true
}

// CyclicBlocks returns the blocks of f that lie on a CFG cycle.
func CyclicBlocks(f *ssa.Function) map[*ssa.BasicBlock]bool {
	out := map[*ssa.BasicBlock]bool{}
	for _, b := range f.Blocks {
		// b is cyclic if b reachable from one of its successors
		seen := map[*ssa.BasicBlock]bool{}
		st := append([]*ssa.BasicBlock{}, b.Succs...)
		for len(st) > 0 {
			x := st[len(st)-1]
			st = st[:len(st)-1]
			if seen[x] {
				continue
			}
			seen[x] = true
			st = append(st, x.Succs...)
		}
		if seen[b] {
			out[b] = true
		}
	}
	return out
}

// SeqItem is one event on a success path.
type SeqItem struct {
	Text  string
	Instr ssa.Instruction
}

// SeqOpts configures success-path enumeration.
type SeqOpts struct {
	// Classify maps an instruction to zero or more events. inLoop tells whether
	// the instruction lies on a CFG cycle.
	Classify func(in ssa.Instruction, inLoop bool) []string
	// FollowErr: also follow error edges (default: success edges only).
	FollowErr bool
	// EdgeLabel, when set, can add an event for taking an If edge (cond facts).
	EdgeLabel func(ifi *ssa.If, idx int) string
	MaxPaths  int
}

// SuccessSeqs enumerates the event sequences along every path from entry to a
// Return (each block at most twice per path, so loop bodies are seen once),
// following only the nil-error successor of error tests. Returned sequences
// are deduplicated and sorted; ok=false if the path cap was hit.
func SuccessSeqs(f *ssa.Function, o SeqOpts) (seqs [][]string, ok bool) {
	if len(f.Blocks) == 0 {
		return nil, false
	}
	if o.MaxPaths == 0 {
		o.MaxPaths = 20000
	}
	cyc := CyclicBlocks(f)
	set := map[string][]string{}
	paths := 0
	ok = true
	var walk func(b *ssa.BasicBlock, count map[*ssa.BasicBlock]int, acc []string)
	walk = func(b *ssa.BasicBlock, count map[*ssa.BasicBlock]int, acc []string) {
		if !ok {
			return
		}
		if count[b] >= 2 {
			return
		}
		count[b]++
		defer func() { count[b]-- }()
		for _, in := range b.Instrs {
			acc = append(acc, o.Classify(in, cyc[b])...)
			switch x := in.(type) {
			case *ssa.Return:
				if !o.FollowErr && ReturnsNonNilError(x) {
					return
				}
				paths++
				if paths > o.MaxPaths {
					ok = false
					return
				}
				cp := append([]string{}, acc...)
				set[strings.Join(cp, "\x00")] = cp
				return
			case *ssa.Panic:
				return
			case *ssa.If:
				if okEdge, is := IsErrCheck(x); is && !o.FollowErr {
					a := acc
					if o.EdgeLabel != nil {
						if s := o.EdgeLabel(x, okEdge); s != "" {
							a = append(append([]string{}, acc...), s)
						}
					}
					walk(b.Succs[okEdge], count, a)
					return
				}
				for idx := 0; idx < 2; idx++ {
					a := append([]string{}, acc...)
					if o.EdgeLabel != nil {
						if s := o.EdgeLabel(x, idx); s != "" {
							a = append(a, s)
						}
					}
					walk(b.Succs[idx], count, a)
				}
				return
			case *ssa.Jump:
				walk(b.Succs[0], count, acc)
				return
			}
		}
	}
	walk(f.Blocks[0], map[*ssa.BasicBlock]int{}, nil)
	var keys []string
	for k := range set {
		keys = append(keys, k)
	}
	sort.Strings(keys)
	for _, k := range keys {
		seqs = append(seqs, set[k])
	}
	return seqs, ok
}

// SeqString renders a sequence set.
func SeqString(seqs [][]string) string {
	var parts []string
	for _, s := range seqs {
		parts = append(parts, "["+strings.Join(s, " ")+"]")
	}
	return strings.Join(parts, " | ")
}

// CondLabel renders the condition of an If edge symbolically ("" for error tests).
func CondLabel(ifi *ssa.If, idx int) string {
	if _, is := IsErrCheck(ifi); is {
		return ""
	}
	s := Sym(ifi.Cond)
	if idx == 1 {
		return "!" + s
	}
	return s
}

// TraceSeqs enumerates success paths of f as sequences of: branch conditions
// (symbolic), calls (static: call:Name(args); interface: inv:Method(args);
// dynamic: dyn(args)) accepted by keepCall, and the final return ret(...).
func TraceSeqs(f *ssa.Function, keepCall func(call ssa.CallInstruction) bool) ([][]string, bool) {
	return SuccessSeqs(f, SeqOpts{
		EdgeLabel: CondLabel,
		Classify: func(in ssa.Instruction, inLoop bool) []string {
			pre := ""
			if inLoop {
				pre = "loop:"
			}
			switch x := in.(type) {
			case ssa.CallInstruction:
				if keepCall != nil && !keepCall(x) {
					return nil
				}
				cc := x.Common()
				var args []string
				for _, a := range cc.Args {
					args = append(args, Sym(a))
				}
				kind := "call:"
				if _, ok := in.(*ssa.Defer); ok {
					kind = "defer:"
				}
				if _, ok := in.(*ssa.Go); ok {
					kind = "go:"
				}
				switch {
				case cc.IsInvoke():
					return []string{pre + kind + "inv:" + cc.Method.Name() + "(" + Sym(cc.Value) + ";" + strings.Join(args, ",") + ")"}
				case cc.StaticCallee() != nil:
					return []string{pre + kind + SSAName(cc.StaticCallee()) + "(" + strings.Join(args, ",") + ")"}
				default:
					if _, isB := cc.Value.(*ssa.Builtin); isB {
						return nil
					}
					return []string{pre + kind + "dyn:" + Sym(cc.Value) + "(" + strings.Join(args, ",") + ")"}
				}
			case *ssa.Return:
				var rs []string
				for _, r := range x.Results {
					rs = append(rs, Sym(SpilledResult(x, r)))
				}
				return []string{"ret(" + strings.Join(rs, ",") + ")"}
			}
			return nil
		},
	})
}

// SpilledResult undoes go/ssa's result spilling in functions with defers: a
// Return operand that is a load of a result Alloc is replaced by the value
// most recently stored to that Alloc on the (unique-predecessor) way to the Return.
func SpilledResult(ret *ssa.Return, r ssa.Value) ssa.Value {
	ld, ok := r.(*ssa.UnOp)
	if !ok || ld.Op != token.MUL {
		return r
	}
	a, ok := ld.X.(*ssa.Alloc)
	if !ok {
		return r
	}
	b := ret.Block()
	idx := len(b.Instrs)
	for i, in := range b.Instrs {
		if in == ssa.Instruction(ld) {
			idx = i
		}
	}
	for hops := 0; hops < 8; hops++ {
		for i := idx - 1; i >= 0; i-- {
			if st, ok := b.Instrs[i].(*ssa.Store); ok && st.Addr == a {
				return st.Val
			}
		}
		if len(b.Preds) != 1 {
			return r
		}
		b = b.Preds[0]
		idx = len(b.Instrs)
	}
	return r
}
