package core

import (
	"go/constant"
	"go/token"
	"go/types"
	"strings"

	"golang.org/x/tools/go/ssa"
)

// Edge is a CFG edge.
type Edge struct{ From, To *ssa.BasicBlock }

// Callee returns the statically resolved callee of a call, following bound
// method closures and function-valued package variables are not followed.
func Callee(call ssa.CallInstruction) *ssa.Function {
	cc := call.Common()
	if f := cc.StaticCallee(); f != nil {
		return f
	}
	return nil
}

// CalleeObj returns the *types.Func being called: the static callee's object,
// or the interface method for an invoke.
func CalleeObj(call ssa.CallInstruction) *types.Func {
	cc := call.Common()
	if cc.IsInvoke() {
		return cc.Method
	}
	if f := cc.StaticCallee(); f != nil {
		if o, ok := f.Object().(*types.Func); ok {
			return o
		}
		if f.Origin() != nil {
			if o, ok := f.Origin().Object().(*types.Func); ok {
				return o
			}
		}
	}
	return nil
}

// IsCallTo reports whether instr calls the function pkgPath.name (for methods
// name is "Type.Method"; for interface methods "Iface.Method").
func IsCallTo(instr ssa.Instruction, pkgPath, name string) bool {
	call, ok := instr.(ssa.CallInstruction)
	if !ok {
		return false
	}
	o := CalleeObj(call)
	return ObjIs(o, pkgPath, name)
}

// ObjIs compares a function object with pkgPath + "Name" / "Type.Method".
func ObjIs(o *types.Func, pkgPath, name string) bool {
	if o == nil || o.Pkg() == nil || o.Pkg().Path() != pkgPath {
		return false
	}
	if i := strings.Index(name, "."); i >= 0 {
		if o.Name() != name[i+1:] {
			return false
		}
		sig := o.Type().(*types.Signature)
		if sig.Recv() == nil {
			return false
		}
		return RecvTypeName(sig.Recv().Type()) == name[:i]
	}
	sig := o.Type().(*types.Signature)
	return sig.Recv() == nil && o.Name() == name
}

// RecvTypeName returns the name of the (pointer to) named type.
func RecvTypeName(t types.Type) string {
	if p, ok := t.(*types.Pointer); ok {
		t = p.Elem()
	}
	if n, ok := t.(*types.Named); ok {
		return n.Obj().Name()
	}
	if a, ok := t.(*types.Alias); ok {
		return a.Obj().Name()
	}
	return ""
}

// Instrs iterates over all instructions of a function.
func Instrs(f *ssa.Function, fn func(ssa.Instruction)) {
	for _, b := range f.Blocks {
		for _, in := range b.Instrs {
			fn(in)
		}
	}
}

// Calls returns all call instructions (call, go, defer) in f.
func Calls(f *ssa.Function) []ssa.CallInstruction {
	var out []ssa.CallInstruction
	Instrs(f, func(in ssa.Instruction) {
		if c, ok := in.(ssa.CallInstruction); ok {
			out = append(out, c)
		}
	})
	return out
}

// WithClosures returns f and all functions nested in it.
func WithClosures(f *ssa.Function) []*ssa.Function {
	out := []*ssa.Function{f}
	for _, a := range f.AnonFuncs {
		out = append(out, WithClosures(a)...)
	}
	return out
}

// reachable computes blocks reachable from start without traversing banned edges.
func reachable(start *ssa.BasicBlock, banned map[Edge]bool) map[*ssa.BasicBlock]bool {
	seen := map[*ssa.BasicBlock]bool{start: true}
	st := []*ssa.BasicBlock{start}
	for len(st) > 0 {
		b := st[len(st)-1]
		st = st[:len(st)-1]
		for _, s := range b.Succs {
			if banned[Edge{b, s}] || seen[s] {
				continue
			}
			seen[s] = true
			st = append(st, s)
		}
	}
	return seen
}

// AllPathsThroughEdges reports whether every feasible path from the function
// entry to block target traverses at least one edge of the set. Feasibility is
// decided for one idiom only: a branch on `p == nil` / `p != nil` where p is a
// phi of the most recent merge block — the incoming value selected by the edge
// the path entered the merge through decides the branch when it is the nil
// constant or a value that cannot be nil (a boxed concrete error, the result of
// an error constructor). This makes "collect the failure in err, test it once"
// equivalent to one early return per failure.
func AllPathsThroughEdges(f *ssa.Function, target *ssa.BasicBlock, edges []Edge) bool {
	if len(f.Blocks) == 0 {
		return false
	}
	banned := map[Edge]bool{}
	for _, e := range edges {
		banned[e] = true
	}
	if len(banned) == 0 {
		return false
	}
	type state struct {
		b     *ssa.BasicBlock
		merge *ssa.BasicBlock
		pred  int
		facts string // ";name=n" (nil) / ";name=v" (non-nil) for values tested on the way
	}
	factOf := func(facts string, v ssa.Value) (isNil, known bool) {
		if k, isK := v.(*ssa.Const); isK && k.IsNil() {
			return true, true
		}
		if DefinitelyNonNilError(v, 2) {
			return false, true
		}
		if strings.Contains(facts, ";"+v.Name()+"=n;") {
			return true, true
		}
		if strings.Contains(facts, ";"+v.Name()+"=v;") {
			return false, true
		}
		return false, false
	}
	start := state{b: f.Blocks[0], pred: -1, facts: ";"}
	seen := map[state]bool{start: true}
	work := []state{start}
	for len(work) > 0 {
		st := work[len(work)-1]
		work = work[:len(work)-1]
		if st.b == target {
			return false
		}
		// decide the branch if possible, or learn from it
		only := -1
		var tested ssa.Value
		testedNilOn := -1 // successor index on which tested is nil
		if ifi, ok := st.b.Instrs[len(st.b.Instrs)-1].(*ssa.If); ok {
			cond, neg := ifi.Cond, false
			for {
				if u, isU := cond.(*ssa.UnOp); isU && u.Op == token.NOT {
					cond, neg = u.X, !neg
					continue
				}
				break
			}
			if bo, isB := cond.(*ssa.BinOp); isB && (bo.Op == token.EQL || bo.Op == token.NEQ) {
				var x ssa.Value
				if k, isK := bo.Y.(*ssa.Const); isK && k.IsNil() {
					x = bo.X
				} else if k, isK := bo.X.(*ssa.Const); isK && k.IsNil() {
					x = bo.Y
				}
				if x != nil && IsErrorType(x.Type()) {
					v := x
					if ph, isPh := x.(*ssa.Phi); isPh && ph.Block() == st.merge && st.pred >= 0 && st.pred < len(ph.Edges) {
						v = ph.Edges[st.pred]
					}
					nilOnTrue := bo.Op == token.EQL
					if neg {
						nilOnTrue = !nilOnTrue
					}
					if isNil, known := factOf(st.facts, v); known {
						if isNil == nilOnTrue {
							only = 0
						} else {
							only = 1
						}
					} else if _, isPh := v.(*ssa.Phi); !isPh {
						tested = v
						if nilOnTrue {
							testedNilOn = 0
						} else {
							testedNilOn = 1
						}
					}
				}
			}
		}
		for i, sc := range st.b.Succs {
			if only >= 0 && i != only {
				continue
			}
			if banned[Edge{st.b, sc}] {
				continue
			}
			ns := state{b: sc, merge: st.merge, pred: st.pred, facts: st.facts}
			if tested != nil && len(ns.facts) < 200 && !strings.Contains(ns.facts, ";"+tested.Name()+"=") {
				if i == testedNilOn {
					ns.facts += tested.Name() + "=n;"
				} else {
					ns.facts += tested.Name() + "=v;"
				}
			}
			if len(sc.Preds) > 1 {
				ns.merge = sc
				ns.pred = -1
				for j2, pb := range sc.Preds {
					if pb == st.b {
						ns.pred = j2
						if i == 0 {
							break // first listing = the true arm when both arms lead here
						}
					}
				}
			}
			if !seen[ns] {
				seen[ns] = true
				work = append(work, ns)
			}
		}
	}
	return true
}

// Unop strips conversions and ChangeType wrappers.
func Unop(v ssa.Value) ssa.Value {
	for {
		switch x := v.(type) {
		case *ssa.Convert:
			v = x.X
		case *ssa.ChangeType:
			v = x.X
		default:
			return v
		}
	}
}

// ConstInt returns the integer value of a constant SSA value.
func ConstInt(v ssa.Value) (int64, bool) {
	c, ok := Unop(v).(*ssa.Const)
	if !ok || c.Value == nil {
		return 0, false
	}
	if c.Value.Kind() != constant.Int {
		if c.Value.Kind() == constant.Float {
			if i, ok := constant.Int64Val(constant.ToInt(c.Value)); ok {
				return i, true
			}
		}
		return 0, false
	}
	if i, ok := constant.Int64Val(c.Value); ok {
		return i, true
	}
	if u, ok := constant.Uint64Val(c.Value); ok {
		return int64(u), true
	}
	return 0, false
}

// Cmp is an atomic comparison fact "X op Y" holding on an edge.
type Cmp struct {
	Op   token.Token
	X, Y ssa.Value
}

func negate(op token.Token) token.Token {
	switch op {
	case token.LSS:
		return token.GEQ
	case token.LEQ:
		return token.GTR
	case token.GTR:
		return token.LEQ
	case token.GEQ:
		return token.LSS
	case token.EQL:
		return token.NEQ
	case token.NEQ:
		return token.EQL
	}
	return token.ILLEGAL
}

// EdgeFacts returns the comparison facts that hold when control takes the edge
// from an If block to its idx-th successor (0=true, 1=false).
func EdgeFacts(ifi *ssa.If, idx int) []Cmp {
	var out []Cmp
	cond := ifi.Cond
	neg := idx == 1
	for {
		if u, ok := cond.(*ssa.UnOp); ok && u.Op == token.NOT {
			cond = u.X
			neg = !neg
			continue
		}
		break
	}
	if b, ok := cond.(*ssa.BinOp); ok {
		op := b.Op
		if neg {
			op = negate(op)
		}
		if op != token.ILLEGAL {
			out = append(out, Cmp{op, b.X, b.Y})
		}
	}
	return out
}

// GuardEdges collects all edges of f on which pred holds for some fact.
func GuardEdges(f *ssa.Function, pred func(Cmp) bool) []Edge {
	var out []Edge
	for _, b := range f.Blocks {
		if len(b.Instrs) == 0 {
			continue
		}
		ifi, ok := b.Instrs[len(b.Instrs)-1].(*ssa.If)
		if !ok {
			continue
		}
		for idx := 0; idx < 2; idx++ {
			for _, c := range EdgeFacts(ifi, idx) {
				if pred(c) {
					out = append(out, Edge{b, b.Succs[idx]})
					break
				}
			}
		}
	}
	return out
}

// SameValue reports whether a and b denote the same run-time value modulo
// conversions (a narrowing conversion is *not* stripped by default; use
// Unop-stripped comparisons only where widening is all that occurs).
func SameValue(a, b ssa.Value) bool {
	return a == b || Unop(a) == Unop(b)
}

// ExitPaths: does a path exist from just after `from` to a function exit
// (Return, or Panic when includePanic) that meets no instruction for which
// barrier is true? Returns the blocks of one such path.
func PathToExitAvoiding(from ssa.Instruction, barrier func(ssa.Instruction) bool, includePanic bool) (bool, []*ssa.BasicBlock) {
	return PathAvoiding(from, barrier, func(in ssa.Instruction) bool {
		switch in.(type) {
		case *ssa.Return:
			return true
		case *ssa.Panic:
			return includePanic
		}
		return false
	})
}

// PathAvoiding: does a path exist from just after `from` to an instruction
// satisfying target that meets no barrier instruction first?
func PathAvoiding(from ssa.Instruction, barrier, target func(ssa.Instruction) bool) (bool, []*ssa.BasicBlock) {
	b0 := from.Block()
	start := -1
	for i, in := range b0.Instrs {
		if in == from {
			start = i + 1
			break
		}
	}
	if start < 0 {
		return false, nil
	}
	type item struct {
		b    *ssa.BasicBlock
		path []*ssa.BasicBlock
	}
	scan := func(b *ssa.BasicBlock, i0 int) (hit, blocked bool) {
		for _, in := range b.Instrs[i0:] {
			if barrier != nil && barrier(in) {
				return false, true
			}
			if target(in) {
				return true, false
			}
		}
		return false, false
	}
	if hit, blocked := scan(b0, start); hit {
		return true, []*ssa.BasicBlock{b0}
	} else if blocked {
		return false, nil
	}
	seen := map[*ssa.BasicBlock]bool{}
	var st []item
	for _, s := range b0.Succs {
		st = append(st, item{s, []*ssa.BasicBlock{b0, s}})
	}
	for len(st) > 0 {
		it := st[len(st)-1]
		st = st[:len(st)-1]
		if seen[it.b] {
			continue
		}
		seen[it.b] = true
		hit, blocked := scan(it.b, 0)
		if hit {
			return true, it.path
		}
		if blocked {
			continue
		}
		for _, s := range it.b.Succs {
			if !seen[s] {
				np := append(append([]*ssa.BasicBlock{}, it.path...), s)
				st = append(st, item{s, np})
			}
		}
	}
	return false, nil
}

// PathFromEntryAvoiding: does a path exist from function entry to target
// without meeting a barrier?
func PathFromEntryAvoiding(f *ssa.Function, barrier, target func(ssa.Instruction) bool) (bool, []*ssa.BasicBlock) {
	if len(f.Blocks) == 0 {
		return false, nil
	}
	type item struct {
		b    *ssa.BasicBlock
		path []*ssa.BasicBlock
	}
	seen := map[*ssa.BasicBlock]bool{}
	st := []item{{f.Blocks[0], []*ssa.BasicBlock{f.Blocks[0]}}}
	for len(st) > 0 {
		it := st[len(st)-1]
		st = st[:len(st)-1]
		if seen[it.b] {
			continue
		}
		seen[it.b] = true
		blocked := false
		for _, in := range it.b.Instrs {
			if barrier != nil && barrier(in) {
				blocked = true
				break
			}
			if target(in) {
				return true, it.path
			}
		}
		if blocked {
			continue
		}
		for _, s := range it.b.Succs {
			if !seen[s] {
				st = append(st, item{s, append(append([]*ssa.BasicBlock{}, it.path...), s)})
			}
		}
	}
	return false, nil
}

// IsNilErrorReturn: does the Return return a nil constant in its last result
// (the error position)?
func IsNilErrorReturn(r *ssa.Return) bool {
	if len(r.Results) == 0 {
		return true
	}
	last := r.Results[len(r.Results)-1]
	if !IsErrorType(last.Type()) {
		return true // function does not return an error
	}
	c, ok := last.(*ssa.Const)
	return ok && c.IsNil()
}

// IsErrorType reports whether t is the predeclared error type.
func IsErrorType(t types.Type) bool {
	n, ok := t.(*types.Named)
	return ok && n.Obj().Pkg() == nil && n.Obj().Name() == "error"
}

// ReturnsNonNilError: the return's error result is definitely non-nil: a
// MakeInterface of a concrete value, or the result of a call to an error
// constructor (fmt.Errorf, errors.New, or a repo function whose every return is
// itself definitely non-nil — depth 1).
func ReturnsNonNilError(r *ssa.Return) bool {
	if len(r.Results) == 0 {
		return false
	}
	last := r.Results[len(r.Results)-1]
	if !IsErrorType(last.Type()) {
		return false
	}
	return DefinitelyNonNilError(last, 2)
}

// DefinitelyNonNilError reports whether v (of type error) cannot be nil.
func DefinitelyNonNilError(v ssa.Value, depth int) bool {
	switch x := v.(type) {
	case *ssa.MakeInterface:
		return true
	case *ssa.Call:
		if f := x.Call.StaticCallee(); f != nil {
			if f.Pkg != nil {
				switch f.Pkg.Pkg.Path() + "." + f.Name() {
				case "fmt.Errorf", "errors.New":
					return true
				}
			}
			if depth > 0 && len(f.Blocks) > 0 {
				all := true
				n := 0
				Instrs(f, func(in ssa.Instruction) {
					if r, ok := in.(*ssa.Return); ok {
						n++
						if len(r.Results) == 0 || !DefinitelyNonNilError(r.Results[len(r.Results)-1], depth-1) {
							all = false
						}
					}
				})
				return all && n > 0
			}
		}
	case *ssa.Phi:
		for _, e := range x.Edges {
			if !DefinitelyNonNilError(e, depth) {
				return false
			}
		}
		return len(x.Edges) > 0
	}
	return false
}

// BlockTrace renders a block path as file:line list.
func (c *Ctx) BlockTrace(path []*ssa.BasicBlock) []string {
	var out []string
	for _, b := range path {
		pos := token.NoPos
		for _, in := range b.Instrs {
			if in.Pos().IsValid() {
				pos = in.Pos()
				break
			}
		}
		out = append(out, "block "+itoa(b.Index)+" ("+b.Comment+") "+c.Rel(pos))
	}
	return out
}

func itoa(i int) string {
	if i == 0 {
		return "0"
	}
	neg := i < 0
	if neg {
		i = -i
	}
	var b []byte
	for i > 0 {
		b = append([]byte{byte('0' + i%10)}, b...)
		i /= 10
	}
	if neg {
		b = append([]byte{'-'}, b...)
	}
	return string(b)
}

// FieldOf returns the struct field addressed/read by v (FieldAddr or Field), or nil.
func FieldOf(v ssa.Value) *types.Var {
	switch x := v.(type) {
	case *ssa.FieldAddr:
		st := x.X.Type().Underlying().(*types.Pointer).Elem().Underlying().(*types.Struct)
		return st.Field(x.Field)
	case *ssa.Field:
		st := x.X.Type().Underlying().(*types.Struct)
		return st.Field(x.Field)
	}
	return nil
}

// LoadedField: if v is a load (*p) of a FieldAddr, or a Field extraction,
// returns the field variable and the base object.
func LoadedField(v ssa.Value) (*types.Var, ssa.Value) {
	switch x := v.(type) {
	case *ssa.UnOp:
		if x.Op == token.MUL {
			if fa, ok := x.X.(*ssa.FieldAddr); ok {
				return FieldOf(fa), fa.X
			}
		}
	case *ssa.Field:
		return FieldOf(x), x.X
	}
	return nil, nil
}

// Unspill: a load of a local cell (a named result or captured variable) is
// replaced by the value most recently stored to it earlier in the same block.
func Unspill(v ssa.Value) ssa.Value {
	u, ok := v.(*ssa.UnOp)
	if !ok || u.Op != token.MUL {
		return v
	}
	if _, isA := u.X.(*ssa.Alloc); !isA {
		return v
	}
	var last ssa.Value
	for _, in := range u.Block().Instrs {
		if in == ssa.Instruction(u) {
			break
		}
		if st, ok := in.(*ssa.Store); ok && st.Addr == u.X {
			last = st.Val
		}
		if _, isCall := in.(ssa.CallInstruction); isCall {
			last = nil
		}
	}
	if last != nil {
		return last
	}
	return v
}

// CallSuccessEdges returns the nil-error successor edges of the error tests on
// the (last, error-typed) result of call.
func CallSuccessEdges(f *ssa.Function, call *ssa.Call) []Edge {
	var out []Edge
	for _, b := range f.Blocks {
		ifi, ok := b.Instrs[len(b.Instrs)-1].(*ssa.If)
		if !ok {
			continue
		}
		okEdge, is := IsErrCheck(ifi)
		if !is {
			continue
		}
		cond := ifi.Cond
		for {
			if u, ok := cond.(*ssa.UnOp); ok && u.Op == token.NOT {
				cond = u.X
				continue
			}
			break
		}
		bo := cond.(*ssa.BinOp)
		errv := bo.X
		if k, isC := errv.(*ssa.Const); isC && k.IsNil() {
			errv = bo.Y
		}
		errv = Unspill(errv)
		var src *ssa.Call
		switch x := errv.(type) {
		case *ssa.Call:
			src = x
		case *ssa.Extract:
			src, _ = x.Tuple.(*ssa.Call)
		}
		if src == call {
			out = append(out, Edge{From: b, To: b.Succs[okEdge]})
		}
	}
	return out
}

// GuardEdgesDeep collects the edges of f on which a fact accepted by pred is
// established: branch edges of f itself, plus the success edges of static
// calls to repository functions whose every success return is, inside the
// callee, reached only through such edges (recursively, bounded depth). This
// makes dominance rules indifferent to whether a group of checks lives in the
// function or in a helper it calls.
func GuardEdgesDeep(f *ssa.Function, pred func(Cmp) bool, depth int) []Edge {
	out := GuardEdges(f, pred)
	if depth <= 0 {
		return out
	}
	Instrs(f, func(in ssa.Instruction) {
		call, ok := in.(*ssa.Call)
		if !ok {
			return
		}
		h := call.Call.StaticCallee()
		if h == nil || h == f || !InRepo(h) || len(h.Blocks) == 0 {
			return
		}
		res := h.Signature.Results()
		if res.Len() == 0 || !IsErrorType(res.At(res.Len()-1).Type()) {
			return
		}
		inner := GuardEdgesDeep(h, pred, depth-1)
		if len(inner) == 0 {
			return
		}
		all, n := true, 0
		Instrs(h, func(i2 ssa.Instruction) {
			r, isR := i2.(*ssa.Return)
			if !isR || ReturnsNonNilError(r) {
				return
			}
			n++
			if !AllPathsThroughEdges(h, r.Block(), inner) {
				all = false
			}
		})
		if all && n > 0 {
			out = append(out, CallSuccessEdges(f, call)...)
		}
	})
	return out
}

// CallGuardEdgesDeep collects the edges of f that are only taken after one of
// the target calls succeeded: the success edges of target calls in f, plus the
// success edges of calls to repository helpers all of whose success returns
// are, inside the helper, reached only through such edges (bounded depth).
func CallGuardEdgesDeep(f *ssa.Function, isTarget func(*ssa.Call) bool, depth int) []Edge {
	var out []Edge
	Instrs(f, func(in ssa.Instruction) {
		call, ok := in.(*ssa.Call)
		if !ok {
			return
		}
		if isTarget(call) {
			out = append(out, CallSuccessEdges(f, call)...)
			return
		}
		if depth <= 0 {
			return
		}
		h := call.Call.StaticCallee()
		if h == nil || h == f || !InRepo(h) || len(h.Blocks) == 0 {
			return
		}
		res := h.Signature.Results()
		if res.Len() == 0 || !IsErrorType(res.At(res.Len()-1).Type()) {
			return
		}
		inner := CallGuardEdgesDeep(h, isTarget, depth-1)
		if len(inner) == 0 {
			return
		}
		all, n := true, 0
		Instrs(h, func(i2 ssa.Instruction) {
			r, isR := i2.(*ssa.Return)
			if !isR || ReturnsNonNilError(r) {
				return
			}
			// returns on the failure edge of an error test are not successes
			fail := GuardEdges(h, func(cm Cmp) bool {
				k, isK := cm.Y.(*ssa.Const)
				return cm.Op == token.NEQ && isK && k.IsNil() && IsErrorType(cm.X.Type())
			})
			if len(fail) > 0 && AllPathsThroughEdges(h, r.Block(), fail) {
				return
			}
			n++
			if !AllPathsThroughEdges(h, r.Block(), inner) {
				all = false
			}
		})
		if all && n > 0 {
			out = append(out, CallSuccessEdges(f, call)...)
		}
	})
	return out
}

// IsFullRead: the instruction is io.ReadFull(r, b), or io.ReadAtLeast(r, b, min)
// with min equal to the length of b (len(b) itself, or the constant width of a
// constant-bounded slice) — which is the definition of ReadFull.
func IsFullRead(in ssa.Instruction) bool {
	if IsCallTo(in, "io", "ReadFull") {
		return true
	}
	if !IsCallTo(in, "io", "ReadAtLeast") {
		return false
	}
	args := in.(ssa.CallInstruction).Common().Args
	if len(args) != 3 {
		return false
	}
	if Sym(args[2]) == "len("+Sym(args[1])+")" {
		return true
	}
	if w, ok := ConstSliceWidth(args[1]); ok {
		if k, isK := ConstInt(args[2]); isK && k == w {
			return true
		}
	}
	return false
}
