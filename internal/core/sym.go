package core

import (
	"fmt"
	"go/token"
	"go/types"
	"strings"

	"golang.org/x/tools/go/ssa"
)

// Sym renders an SSA value as a symbolic expression over the parameters of
// its function: parameters are $0,$1,... (receiver first), constants are
// c:<v>, conversions are transparent. Used to compare *what* is written or
// where a read value goes, independent of local names.
func Sym(v ssa.Value) string { return sym(v, 0) }

// SymInvokeRecv: render the receiver of interface method calls as first argument
// (off by default: most frozen renderings predate it).
var SymInvokeRecv bool

func paramIdx(p *ssa.Parameter) int {
	for i, q := range p.Parent().Params {
		if q == p {
			return i
		}
	}
	return -1
}

// allocInit: if a is an Alloc with exactly one Store whose value is val,
// return that value (the spilled parameter idiom).
func allocInit(a *ssa.Alloc) ssa.Value {
	var val ssa.Value
	n := 0
	for _, r := range *a.Referrers() {
		if st, ok := r.(*ssa.Store); ok && st.Addr == a {
			val = st.Val
			n++
		}
	}
	if n == 1 {
		return val
	}
	return nil
}

// symOverride binds values to a fixed rendering while a callee is explored
// inline (its parameters are rendered as the caller's arguments, the call's
// results as what the callee returned). Managed by SuccessSeqs only.
var symOverride = map[ssa.Value]string{}

func sym(v ssa.Value, d int) string {
	if d > 12 {
		return "…"
	}
	if len(symOverride) > 0 {
		if s, ok := symOverride[v]; ok {
			return s
		}
	}
	switch x := v.(type) {
	case *ssa.Parameter:
		return fmt.Sprintf("$%d", paramIdx(x))
	case *ssa.Const:
		if x.Value == nil {
			return "c:nil"
		}
		return "c:" + x.Value.ExactString()
	case *ssa.Convert:
		return sym(x.X, d+1)
	case *ssa.ChangeType:
		return sym(x.X, d+1)
	case *ssa.MakeInterface:
		return sym(x.X, d+1)
	case *ssa.Field:
		return sym(x.X, d+1) + "." + FieldName(FieldOf(x))
	case *ssa.FieldAddr:
		return sym(x.X, d+1) + "." + FieldName(FieldOf(x))
	case *ssa.Alloc:
		if iv := allocInit(x); iv != nil {
			return sym(iv, d+1)
		}
		if s, ok := litSym(x, d); ok {
			return "&" + RecvTypeName(x.Type()) + ":" + s
		}
		return "alloc:" + x.Comment
	case *ssa.UnOp:
		if x.Op == token.MUL {
			if fa, ok := x.X.(*ssa.FieldAddr); ok {
				if a, ok := fa.X.(*ssa.Alloc); ok && allocInit(a) == nil {
					if v := fieldInit(a, fa.Field); v != nil {
						return sym(v, d+1)
					}
				}
			}
			if a, ok := x.X.(*ssa.Alloc); ok && allocInit(a) == nil {
				if s, ok := litSym(a, d); ok {
					return s
				}
			}
			return sym(x.X, d+1)
		}
		return x.Op.String() + sym(x.X, d+1)
	case *ssa.BinOp:
		return "(" + sym(x.X, d+1) + x.Op.String() + sym(x.Y, d+1) + ")"
	case *ssa.Extract:
		return sym(x.Tuple, d+1) + "#" + fmt.Sprint(x.Index)
	case *ssa.Call:
		name := "?"
		if b, ok := x.Call.Value.(*ssa.Builtin); ok {
			name = b.Name()
		} else if o := CalleeObj(x); o != nil {
			name = FuncName(o)
		}
		var args []string
		if SymInvokeRecv && x.Call.IsInvoke() {
			args = append(args, sym(x.Call.Value, d+1))
		}
		for _, a := range x.Call.Args {
			args = append(args, sym(a, d+1))
		}
		if k := callOrdinal(x); k > 1 {
			// the k-th call of the same function with the same operands in this function: a different value
			name += fmt.Sprintf("@%d", k)
		}
		return name + "(" + strings.Join(args, ",") + ")"
	case *ssa.Slice:
		s := sym(x.X, d+1) + "["
		if x.Low != nil {
			s += sym(x.Low, d+1)
		}
		s += ":"
		if x.High != nil {
			s += sym(x.High, d+1)
		}
		return s + "]"
	case *ssa.IndexAddr:
		return sym(x.X, d+1) + "[" + idxSym(x.Index, d+1) + "]"
	case *ssa.Index:
		return sym(x.X, d+1) + "[" + idxSym(x.Index, d+1) + "]"
	case *ssa.Phi:
		var parts []string
		for _, e := range x.Edges {
			parts = append(parts, sym(e, d+1))
		}
		return "phi(" + strings.Join(parts, ",") + ")"
	case *ssa.Global:
		return "g:" + x.Name()
	case *ssa.Function:
		return "fn:" + x.Name()
	case *ssa.FreeVar:
		return "free:" + x.Name()
	case *ssa.TypeAssert:
		return sym(x.X, d+1) + ".(" + TypeLabel(x.AssertedType) + ")"
	case *ssa.MakeSlice:
		return "make(" + sym(x.Len, d+1) + ")"
	case *ssa.Lookup:
		return sym(x.X, d+1) + "[" + sym(x.Index, d+1) + "]"
	}
	return fmt.Sprintf("%T", v)
}

// ConstSliceWidth: v is buffer[lo:hi] with constant bounds; returns hi-lo.
func ConstSliceWidth(v ssa.Value) (int64, bool) {
	s, ok := v.(*ssa.Slice)
	if !ok {
		return 0, false
	}
	lo := int64(0)
	if s.Low != nil {
		l, ok := ConstInt(s.Low)
		if !ok {
			return 0, false
		}
		lo = l
	}
	if s.High == nil {
		// whole array
		if pt, ok := s.X.Type().Underlying().(*types.Pointer); ok {
			if at, ok := pt.Elem().Underlying().(*types.Array); ok {
				return at.Len() - lo, true
			}
		}
		return 0, false
	}
	hi, ok := ConstInt(s.High)
	if !ok {
		return 0, false
	}
	return hi - lo, true
}

func idxSym(v ssa.Value, d int) string {
	switch v.(type) {
	case *ssa.Phi, *ssa.BinOp:
		return "i"
	}
	return sym(v, d)
}

// fieldInit: the unique value stored to field idx of a local struct alloc.
func fieldInit(a *ssa.Alloc, idx int) ssa.Value {
	var val ssa.Value
	n := 0
	for _, r := range *a.Referrers() {
		if fa, ok := r.(*ssa.FieldAddr); ok && fa.Field == idx {
			for _, rr := range *fa.Referrers() {
				if st, ok := rr.(*ssa.Store); ok && st.Addr == fa {
					val = st.Val
					n++
				}
			}
		}
	}
	if n == 1 {
		return val
	}
	return nil
}

// litSym renders a local struct built field by field as lit{F=v;G=w}.
func litSym(a *ssa.Alloc, d int) (string, bool) {
	st, ok := a.Type().Underlying().(*types.Pointer).Elem().Underlying().(*types.Struct)
	if !ok {
		return "", false
	}
	var parts []string
	for i := 0; i < st.NumFields(); i++ {
		if v := fieldInit(a, i); v != nil {
			parts = append(parts, FieldName(st.Field(i))+"="+sym(v, d+1))
		}
	}
	if len(parts) == 0 {
		return "", false
	}
	return "lit{" + strings.Join(parts, ";") + "}", true
}

// ResolveLit rewrites every "lit{A=x;B=y}.A" in s to "x".
func ResolveLit(s string) string {
	for {
		i := strings.Index(s, "lit{")
		if i < 0 {
			return s
		}
		// find matching brace
		depth, j := 0, i+3
		for ; j < len(s); j++ {
			if s[j] == '{' || s[j] == '(' {
				depth++
			} else if s[j] == '}' || s[j] == ')' {
				depth--
				if depth == 0 {
					break
				}
			}
		}
		if j >= len(s) {
			return s
		}
		body := s[i+4 : j]
		rest := s[j+1:]
		if !strings.HasPrefix(rest, ".") {
			s = s[:i] + "LIT{" + body + "}" + rest
			continue
		}
		k := 1
		for k < len(rest) && (rest[k] == '_' || rest[k] >= 'a' && rest[k] <= 'z' || rest[k] >= 'A' && rest[k] <= 'Z' || rest[k] >= '0' && rest[k] <= '9') {
			k++
		}
		field := rest[1:k]
		// split body at top-level ';'
		val := "?" + field
		depth = 0
		start := 0
		for p := 0; p <= len(body); p++ {
			if p == len(body) || (body[p] == ';' && depth == 0) {
				part := body[start:p]
				if strings.HasPrefix(part, field+"=") {
					val = part[len(field)+1:]
				}
				start = p + 1
				continue
			}
			if body[p] == '{' || body[p] == '(' {
				depth++
			} else if body[p] == '}' || body[p] == ')' {
				depth--
			}
		}
		s = s[:i] + val + rest[k:]
	}
}

var callOrdCache = map[*ssa.Function]map[*ssa.Call]int{}

// callOrdinal numbers, in program order, the calls of one function that have
// the same callee and the very same operands (1 for the first).
func callOrdinal(c *ssa.Call) int {
	f := c.Parent()
	if f == nil {
		return 1
	}
	m, ok := callOrdCache[f]
	if !ok {
		m = map[*ssa.Call]int{}
		type key struct {
			callee interface{}
			args   string
		}
		count := map[key]int{}
		for _, b := range f.Blocks {
			for _, in := range b.Instrs {
				call, ok := in.(*ssa.Call)
				if !ok {
					continue
				}
				var callee interface{}
				switch {
				case call.Call.IsInvoke():
					callee = call.Call.Method
				case call.Call.StaticCallee() != nil:
					callee = call.Call.StaticCallee()
				default:
					continue
				}
				as := fmt.Sprintf("%p", call.Call.Value)
				if call.Call.IsInvoke() {
					as = fmt.Sprintf("%p", call.Call.Value)
				}
				for _, a := range call.Call.Args {
					as += fmt.Sprintf("|%p", a)
				}
				k := key{callee, as}
				count[k]++
				m[call] = count[k]
			}
		}
		callOrdCache[f] = m
	}
	if k, ok := m[c]; ok {
		return k
	}
	return 1
}
