package core

import (
	"go/token"
	"go/types"
	"sort"

	"golang.org/x/tools/go/ssa"
)

// Taint is a forward, field-based, interprocedural (bounded) data-flow over
// SSA. Tainted values carry the set of "roots" (values of the current
// function at which the taint entered it) so that a dominating guard on a root
// sanitises everything derived from it.
type Taint struct {
	C *Ctx
	// Scope: functions the flow may enter / whose field loads are considered.
	Scope func(*ssa.Function) bool
	// Sanitized: are all paths to block `at` of fn guarded w.r.t. root?
	Sanitized func(fn *ssa.Function, root ssa.Value, at *ssa.BasicBlock) bool
	// Sink classifies a use of a tainted operand.
	Sink func(in ssa.Instruction, operand ssa.Value) (kind string, isSink bool)
	// Through: extra propagation through calls to functions outside the scope
	// (e.g. len()); default none.
	MaxDepth int

	Hits    []TaintHit
	visited map[ssa.Value]bool
	fields  map[*types.Var]bool
	Steps   int
}

// TaintHit is a tainted operand reaching a sink.
type TaintHit struct {
	Fn        *ssa.Function
	Instr     ssa.Instruction
	Kind      string
	Roots     []ssa.Value
	Sanitized bool
	Trail     []string
}

type tstate struct {
	fn    *ssa.Function
	v     ssa.Value
	roots []ssa.Value
	depth int
	trail []string
}

// Aliases returns root and the values that are conversions of it (value
// preserving for the purpose of sign tests: integer conversions that do not
// narrow below the source width).
func Aliases(root ssa.Value) []ssa.Value {
	out := []ssa.Value{root}
	seen := map[ssa.Value]bool{root: true}
	for i := 0; i < len(out); i++ {
		v := out[i]
		// go/ssa does not CSE loads: other loads of the same field of the same
		// object are the same value provided the function never stores to that field
		for _, o := range sameLocationLoads(v) {
			if !seen[o] {
				seen[o] = true
				out = append(out, o)
			}
		}
		// upward
		switch x := v.(type) {
		case *ssa.Convert:
			if !seen[x.X] && widthOf(x.Type()) >= widthOf(x.X.Type()) {
				seen[x.X] = true
				out = append(out, x.X)
			}
		case *ssa.ChangeType:
			if !seen[x.X] {
				seen[x.X] = true
				out = append(out, x.X)
			}
		}
		if refs := v.Referrers(); refs != nil {
			for _, r := range *refs {
				switch x := r.(type) {
				case *ssa.Convert:
					if !seen[x] && widthOf(x.Type()) >= widthOf(v.Type()) {
						seen[x] = true
						out = append(out, x)
					}
				case *ssa.ChangeType:
					if !seen[x] {
						seen[x] = true
						out = append(out, x)
					}
				}
			}
		}
	}
	return out
}

func widthOf(t types.Type) int {
	b, ok := t.Underlying().(*types.Basic)
	if !ok {
		return 0
	}
	switch b.Kind() {
	case types.Int8, types.Uint8:
		return 8
	case types.Int16, types.Uint16:
		return 16
	case types.Int32, types.Uint32:
		return 32
	case types.Int64, types.Uint64, types.Int, types.Uint, types.Uintptr:
		return 64
	}
	return 0
}

// Run propagates from the sources (each given with its function).
func (t *Taint) Run(sources []ssa.Value) {
	if t.MaxDepth == 0 {
		t.MaxDepth = 4
	}
	t.visited = map[ssa.Value]bool{}
	t.fields = map[*types.Var]bool{}
	var work []tstate
	for _, s := range sources {
		fn := valueFunc(s)
		if fn == nil {
			continue
		}
		work = append(work, tstate{fn, s, []ssa.Value{s}, 0, []string{"source " + t.C.Rel(s.Pos()) + " in " + SSAName(fn)}})
	}
	allSan := func(st tstate, at *ssa.BasicBlock) bool {
		for _, r := range st.roots {
			if !t.Sanitized(st.fn, r, at) {
				return false
			}
		}
		return true
	}
	for len(work) > 0 {
		st := work[len(work)-1]
		work = work[:len(work)-1]
		if t.visited[st.v] {
			continue
		}
		t.visited[st.v] = true
		t.Steps++
		refs := st.v.Referrers()
		if refs == nil {
			continue
		}
		for _, r := range *refs {
			if kind, is := t.Sink(r, st.v); is {
				t.Hits = append(t.Hits, TaintHit{Fn: st.fn, Instr: r, Kind: kind, Roots: st.roots, Sanitized: allSan(st, r.Block()),
					Trail: append(append([]string{}, st.trail...), kind+" at "+t.C.Rel(r.Pos()))})
			}
			next := func(v ssa.Value) {
				work = append(work, tstate{st.fn, v, st.roots, st.depth, st.trail})
			}
			switch x := r.(type) {
			case *ssa.Convert:
				next(x)
			case *ssa.ChangeType:
				next(x)
			case *ssa.Phi:
				next(x)
			case *ssa.UnOp:
				if x.Op == token.SUB || x.Op == token.XOR {
					next(x)
				}
			case *ssa.BinOp:
				switch x.Op {
				case token.ADD, token.SUB, token.MUL, token.QUO, token.REM, token.SHL, token.SHR, token.AND, token.OR, token.XOR, token.AND_NOT:
					next(x)
				}
			case *ssa.Store:
				if x.Val != st.v {
					continue
				}
				if allSan(st, x.Block()) {
					continue
				}
				switch a := x.Addr.(type) {
				case *ssa.Alloc:
					for _, rr := range *a.Referrers() {
						if ld, ok := rr.(*ssa.UnOp); ok && ld.Op == token.MUL {
							next(ld)
						}
					}
				case *ssa.FieldAddr:
					fld := FieldOf(a)
					if !t.fields[fld] {
						t.fields[fld] = true
						for _, ld := range t.fieldLoads(fld) {
							fn := valueFunc(ld)
							work = append(work, tstate{fn, ld, []ssa.Value{ld}, st.depth + 1,
								append(append([]string{}, st.trail...), "stored unguarded into field "+FieldName(fld)+" at "+t.C.Rel(x.Pos())+", loaded at "+t.C.Rel(ld.Pos()))})
						}
					}
				}
			case *ssa.Return:
				if allSan(st, x.Block()) || st.depth >= t.MaxDepth {
					continue
				}
				idx := -1
				for i, res := range x.Results {
					if res == st.v {
						idx = i
					}
				}
				for _, site := range t.callSites(st.fn) {
					call, ok := site.(*ssa.Call)
					if !ok {
						continue
					}
					var nv ssa.Value
					if st.fn.Signature.Results().Len() == 1 {
						nv = call
					} else {
						for _, rr := range *call.Referrers() {
							if ex, ok := rr.(*ssa.Extract); ok && ex.Index == idx {
								nv = ex
							}
						}
					}
					if nv != nil {
						work = append(work, tstate{call.Parent(), nv, []ssa.Value{nv}, st.depth + 1,
							append(append([]string{}, st.trail...), "returned unguarded from "+SSAName(st.fn)+" to "+t.C.Rel(call.Pos()))})
					}
				}
			case ssa.CallInstruction:
				cc := x.Common()
				callee := cc.StaticCallee()
				if callee == nil || !t.Scope(callee) || len(callee.Blocks) == 0 {
					continue
				}
				if allSan(st, x.Block()) || st.depth >= t.MaxDepth {
					continue
				}
				for i, a := range cc.Args {
					if a == st.v && i < len(callee.Params) {
						p := callee.Params[i]
						work = append(work, tstate{callee, p, []ssa.Value{p}, st.depth + 1,
							append(append([]string{}, st.trail...), "passed unguarded to "+SSAName(callee)+" at "+t.C.Rel(x.Pos()))})
					}
				}
			}
		}
	}
	sort.Slice(t.Hits, func(i, j int) bool { return t.Hits[i].Instr.Pos() < t.Hits[j].Instr.Pos() })
}

func valueFunc(v ssa.Value) *ssa.Function {
	if in, ok := v.(ssa.Instruction); ok {
		return in.Parent()
	}
	if p, ok := v.(*ssa.Parameter); ok {
		return p.Parent()
	}
	return nil
}

var fieldLoadCache = map[*Ctx]map[*types.Var][]ssa.Value{}

// fieldLoads returns every load (pointer load of a FieldAddr, or Field
// extraction) of the struct field in functions of the scope.
func (t *Taint) fieldLoads(fld *types.Var) []ssa.Value {
	idx := fieldLoadCache[t.C]
	if idx == nil {
		idx = map[*types.Var][]ssa.Value{}
		for _, f := range t.C.AllFuncs() {
			Instrs(f, func(in ssa.Instruction) {
				switch x := in.(type) {
				case *ssa.UnOp:
					if fv, _ := LoadedField(x); fv != nil {
						idx[fv] = append(idx[fv], x)
					}
				case *ssa.Field:
					idx[FieldOf(x)] = append(idx[FieldOf(x)], x)
				}
			})
		}
		fieldLoadCache[t.C] = idx
	}
	var out []ssa.Value
	for _, v := range idx[fld] {
		if fn := valueFunc(v); fn != nil && t.Scope(fn) {
			out = append(out, v)
		}
	}
	return out
}

var callSiteCache = map[*Ctx]map[*ssa.Function][]ssa.CallInstruction{}

// callSites returns the static call sites of fn in the repository.
func (t *Taint) callSites(fn *ssa.Function) []ssa.CallInstruction {
	idx := callSiteCache[t.C]
	if idx == nil {
		idx = map[*ssa.Function][]ssa.CallInstruction{}
		for _, f := range t.C.AllFuncs() {
			for _, c := range Calls(f) {
				if cal := c.Common().StaticCallee(); cal != nil {
					idx[cal] = append(idx[cal], c)
				}
			}
		}
		callSiteCache[t.C] = idx
	}
	return idx[fn]
}

// StaticCallSites is the exported form of the call-site index.
func (c *Ctx) StaticCallSites(fn *ssa.Function) []ssa.CallInstruction {
	t := &Taint{C: c}
	return t.callSites(fn)
}

// NonNegGuard reports whether every path to block `at` passes an edge on which
// some alias of root is known to be >= 0 (root < 0 false, root >= K / > K true
// for K >= -1 resp. 0, root == K true for K >= 0).
func NonNegGuard(fn *ssa.Function, root ssa.Value, at *ssa.BasicBlock) bool {
	al := map[ssa.Value]bool{}
	for _, a := range Aliases(root) {
		al[a] = true
	}
	edges := GuardEdges(fn, func(c Cmp) bool {
		x, y, op := c.X, c.Y, c.Op
		if !al[x] && al[y] { // flip
			x, y = y, x
			switch op {
			case token.LSS:
				op = token.GTR
			case token.LEQ:
				op = token.GEQ
			case token.GTR:
				op = token.LSS
			case token.GEQ:
				op = token.LEQ
			}
		}
		if !al[x] {
			return false
		}
		k, ok := ConstInt(y)
		if !ok {
			return false
		}
		switch op {
		case token.GEQ:
			return k >= 0
		case token.GTR:
			return k >= -1
		case token.EQL:
			return k >= 0
		}
		return false
	})
	return AllPathsThroughEdges(fn, at, edges)
}

// UpperBoundGuard reports whether every path to block `at` passes an edge on
// which some alias of root is bounded above by a compile-time constant or by
// a value accepted by isConstLike.
func UpperBoundGuard(fn *ssa.Function, root ssa.Value, at *ssa.BasicBlock, isConstLike func(ssa.Value) bool) bool {
	al := map[ssa.Value]bool{}
	for _, a := range Aliases(root) {
		al[a] = true
	}
	edges := GuardEdges(fn, func(c Cmp) bool {
		x, y, op := c.X, c.Y, c.Op
		if !al[x] && al[y] {
			x, y = y, x
			switch op {
			case token.LSS:
				op = token.GTR
			case token.LEQ:
				op = token.GEQ
			case token.GTR:
				op = token.LSS
			case token.GEQ:
				op = token.LEQ
			}
		}
		if !al[x] {
			return false
		}
		if _, ok := ConstInt(y); !ok && (isConstLike == nil || !isConstLike(y)) {
			return false
		}
		switch op {
		case token.LSS, token.LEQ, token.EQL:
			return true
		}
		return false
	})
	return AllPathsThroughEdges(fn, at, edges)
}

// sameLocationLoads: v is a load of &base.field; returns the other loads of
// the same field of the same base value in the function, provided the
// function contains no store to that field (of any object) and no call
// between them is considered (fields of AST/spec inputs are not mutated by
// callees in the analysed code; stated assumption of the rules using this).
func sameLocationLoads(v ssa.Value) []ssa.Value {
	ld, ok := v.(*ssa.UnOp)
	if !ok || ld.Op != token.MUL {
		return nil
	}
	fa, ok := ld.X.(*ssa.FieldAddr)
	if !ok {
		return nil
	}
	fld := FieldOf(fa)
	fn := ld.Parent()
	var out []ssa.Value
	stored := false
	Instrs(fn, func(in ssa.Instruction) {
		switch x := in.(type) {
		case *ssa.Store:
			if fa2, ok := x.Addr.(*ssa.FieldAddr); ok && FieldOf(fa2) == fld {
				stored = true
			}
		case *ssa.UnOp:
			if x != ld && x.Op == token.MUL {
				if fa2, ok := x.X.(*ssa.FieldAddr); ok && FieldOf(fa2) == fld && Unop(fa2.X) == Unop(fa.X) {
					out = append(out, x)
				}
			}
		}
	})
	if stored {
		return nil
	}
	return out
}
