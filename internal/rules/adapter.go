package rules

import (
	"fmt"
	"go/types"
	"os"
	"strings"

	"golang.org/x/tools/go/packages"
	"golang.org/x/tools/go/ssa"
	"golang.org/x/tools/go/ssa/ssautil"

	"verif/internal/core"
)

// isReaderRead: f implements io.Reader.Read.
func isReaderRead(f *ssa.Function) bool {
	if f == nil || f.Name() != "Read" || f.Signature.Recv() == nil {
		return false
	}
	sig := f.Signature
	if sig.Params().Len() != 1 || sig.Results().Len() != 2 {
		return false
	}
	sl, ok := sig.Params().At(0).Type().Underlying().(*types.Slice)
	if !ok {
		return false
	}
	b, ok := sl.Elem().Underlying().(*types.Basic)
	return ok && b.Kind() == types.Uint8 && sig.Results().At(1).Type().String() == "error"
}

// passThroughRead: call is `inner.Read(p)` inside an io.Reader implementation
// whose (n, err) are returned to the caller unchanged — the adapter hands the
// short-read contract on instead of consuming it.
func passThroughRead(call ssa.CallInstruction) bool {
	f := call.Parent()
	if !isReaderRead(f) {
		return false
	}
	cc := call.Common()
	if len(cc.Args) != 1 || cc.Args[0] != ssa.Value(f.Params[1]) {
		return false
	}
	v, ok := call.(ssa.Value)
	if !ok {
		return false
	}
	for _, r := range *v.Referrers() {
		switch x := r.(type) {
		case *ssa.Return:
		case *ssa.Extract:
			for _, rr := range *x.Referrers() {
				switch y := rr.(type) {
				case *ssa.Return:
				case *ssa.Store:
					// spilled named results
					if _, isAlloc := y.Addr.(*ssa.Alloc); !isAlloc {
						return false
					}
				case *ssa.DebugRef:
				default:
					return false
				}
			}
		case *ssa.DebugRef:
		default:
			return false
		}
	}
	return true
}

// adapterProblems: in an io.Reader implementation that serves bytes from its
// own state with copy(p, buffered), every update of the receiver's state must
// depend on the number of bytes copied (data dependence, or control dependence
// on a test of it); otherwise buffered bytes are retired that were never
// delivered (the caller asked for fewer) and the stream shifts.
func adapterProblems(fns []*ssa.Function) map[*ssa.Function]string {
	out := map[*ssa.Function]string{}
	for _, f := range fns {
		if !isReaderRead(f) || len(f.Blocks) == 0 {
			continue
		}
		recv := f.Params[0]
		var copies []ssa.Value
		core.Instrs(f, func(in ssa.Instruction) {
			if call, ok := in.(*ssa.Call); ok {
				if b, isB := call.Call.Value.(*ssa.Builtin); isB && b.Name() == "copy" && len(call.Call.Args) == 2 && call.Call.Args[0] == ssa.Value(f.Params[1]) {
					// source derives from receiver state
					if strings.Contains(core.Sym(call.Call.Args[1]), "$0.") {
						copies = append(copies, call)
					}
				}
			}
		})
		if len(copies) == 0 {
			continue
		}
		srcs := map[ssa.Value]bool{}
		for _, cp := range copies {
			srcs[cp] = true
		}
		out[f] = ""
		core.Instrs(f, func(in ssa.Instruction) {
			st, ok := in.(*ssa.Store)
			if !ok {
				return
			}
			fa, ok := st.Addr.(*ssa.FieldAddr)
			if !ok || fa.X != ssa.Value(recv) {
				return
			}
			if dependsOn(st.Val, srcs, map[ssa.Value]bool{}) {
				return
			}
			// control dependence: nested under a test that depends on the copy count
			for b := in.Block(); len(b.Preds) == 1; b = b.Preds[0] {
				if ifi, ok := b.Preds[0].Instrs[len(b.Preds[0].Instrs)-1].(*ssa.If); ok && dependsOn(ifi.Cond, srcs, map[ssa.Value]bool{}) {
					return
				}
			}
			out[f] = fmt.Sprintf("the reader's state (%s) is updated independently of the number of bytes copied to the caller: when the caller's buffer is shorter than what is buffered, undelivered bytes are dropped", core.FieldName(core.FieldOf(fa)))
		})
	}
	return out
}

// checkReaderAdapters arms the rule on the given packages, with a witness.
func checkReaderAdapters(c *core.Ctx, l *core.Ledger, rule string, rels []string) {
	cfg := &packages.Config{Mode: packages.LoadAllSyntax, Dir: witnessDir(), Env: append(os.Environ(), "GOWORK=off", "GOFLAGS=-mod=mod", "GOPROXY=off")}
	pkgs, err := packages.Load(cfg, "./testdata/witness/adapter")
	fired := false
	if err == nil && len(pkgs) == 1 && len(pkgs[0].Errors) == 0 {
		prog, sp := ssautil.AllPackages(pkgs, 0)
		prog.Build()
		var fns []*ssa.Function
		for _, m := range sp[0].Members {
			if tm, ok := m.(*ssa.Type); ok {
				ms := prog.MethodSets.MethodSet(types.NewPointer(tm.Type()))
				for i := 0; i < ms.Len(); i++ {
					if fn := prog.MethodValue(ms.At(i)); fn != nil {
						fns = append(fns, fn)
					}
				}
			}
		}
		bad, good := false, false
		for fn, why := range adapterProblems(fns) {
			switch recvNamed(fn) {
			case "badReader":
				bad = why != ""
			case "goodReader":
				good = why == ""
			}
		}
		fired = bad && good
		if !fired && os.Getenv("VDEBUG") != "" {
			fmt.Fprintln(os.Stderr, "adapter witness: fns", len(fns), "bad", bad, "good", good, adapterProblems(fns))
		}
	} else if os.Getenv("VDEBUG") != "" {
		fmt.Fprintln(os.Stderr, "adapter witness load:", err, len(pkgs))
		for _, p := range pkgs {
			fmt.Fprintln(os.Stderr, p.Errors)
		}
	}
	l.Witness(rule, fired, "the matcher must flag badReader.Read and accept goodReader.Read in testdata/witness/adapter")
	var fns []*ssa.Function
	for _, f := range c.AllFuncs(rels...) {
		if !c.IsTestFile(f.Pos()) {
			fns = append(fns, f)
		}
	}
	probs := adapterProblems(fns)
	for _, f := range fns {
		why, ok := probs[f]
		if !ok {
			continue
		}
		l.Check(why == "", rule, core.SSAName(f), c.Rel(f.Pos()), "buffered bytes are retired in step with the number of bytes delivered", why)
	}
	l.Add(core.Obligation{Rule: rule, Key: "scan", Status: core.Discharged, Detail: fmt.Sprintf("%d functions of %v scanned for io.Reader implementations serving from their own buffer (%d found)", len(fns), rels, len(probs))})
}
