package rules

import (
	"go/types"

	"golang.org/x/tools/go/ssa"

	"verif/internal/core"
)

// checkAnnotCarry: go.redact / go.nolog are presence-based — the generator
// asks only whether the key is in FieldSpec.Annotations — so the property
// depends on the compile layer carrying every annotation of the IDL into that
// map, whatever its value. In compile.compileAnnotations: every iteration of
// the loop over the parsed annotations that is completed (control returns to
// the loop header) passes through the store `m[a.Name] = a.Value` into the map
// the function returns. An iteration that can `continue` around the store
// (a filter on the name or on the value) is reported.
func checkAnnotCarry(c *core.Ctx, l *core.Ledger, rule string) {
	f := c.SSAFunc(c.LookupFunc("compile", "compileAnnotations"))
	if f == nil {
		l.Unk(rule, "compile.compileAnnotations", "", "function not found")
		l.Floor(rule, 1)
		return
	}
	fieldLoad := func(v ssa.Value, name string) bool {
		u, ok := v.(*ssa.UnOp)
		if !ok {
			return false
		}
		fa, ok := u.X.(*ssa.FieldAddr)
		if !ok {
			return false
		}
		pt, ok := fa.X.Type().Underlying().(*types.Pointer)
		if !ok {
			return false
		}
		st, ok := pt.Elem().Underlying().(*types.Struct)
		return ok && st.Field(fa.Field).Name() == name
	}
	key := "compile.compileAnnotations:store"
	pos := c.Rel(f.Pos())
	loops := loopsOf(f)
	stores, found := map[*ssa.BasicBlock]bool{}, 0
	var hdr *ssa.BasicBlock
	for h, body := range loops {
		for b := range body {
			for _, in := range b.Instrs {
				mu, ok := in.(*ssa.MapUpdate)
				if !ok {
					continue
				}
				if _, isMap := mu.Map.Type().Underlying().(*types.Map); !isMap {
					continue
				}
				if fieldLoad(mu.Key, "Name") && fieldLoad(mu.Value, "Value") {
					stores[b] = true
					found++
					if hdr == nil || len(body) < len(loops[hdr]) {
						hdr = h // innermost loop containing the store
					}
				}
			}
		}
	}
	if found == 0 || hdr == nil {
		l.Bad(rule, key, pos, "no loop of compileAnnotations stores the annotation's value under the annotation's name: annotations of the IDL do not reach FieldSpec.Annotations")
		l.Floor(rule, 1)
		return
	}
	body := loops[hdr]
	// can the header be reached again from inside the body without crossing a store block?
	seen := map[*ssa.BasicBlock]bool{}
	var st []*ssa.BasicBlock
	for _, s := range hdr.Succs {
		if body[s] && s != hdr {
			st = append(st, s)
		}
	}
	skip := ""
	for len(st) > 0 && skip == "" {
		b := st[len(st)-1]
		st = st[:len(st)-1]
		if seen[b] || stores[b] || !body[b] {
			continue
		}
		seen[b] = true
		for _, s := range b.Succs {
			if s == hdr {
				skip = c.Rel(firstPos(b))
				break
			}
			st = append(st, s)
		}
	}
	l.Check(skip == "", rule, key, pos,
		"every completed iteration over the parsed annotations stores annotations[a.Name] = a.Value",
		"an iteration can return to the loop header from "+skip+" without storing the annotation: an annotation present in the IDL (go.redact, go.nolog with some value) is absent from the compiled map")
	l.Floor(rule, 1)
}
