package rules

import (
	"fmt"
	"go/ast"
	"go/constant"
	"go/token"
	"go/types"
	"regexp"
	"sort"
	"strconv"
	"strings"

	"golang.org/x/tools/go/ssa"

	"verif/internal/core"
	"verif/internal/tmpl"
)

func init() { Registry["C01"] = checkC01 }

// dispatchLiterals: for the (first) type switch over compile.TypeSpec in a
// function of package gen, map each case kind to the string literals of its clause.
func dispatchLiterals(c *core.Ctx, fn string) (map[string][]string, *tsReport) {
	for _, r := range typeSwitches(c, []string{"gen"}, []string{"compile.TypeSpec"}) {
		if r.Func != fn {
			continue
		}
		out := map[string][]string{}
		for _, st := range r.Node.Body.List {
			cc := st.(*ast.CaseClause)
			var lits []string
			for _, b := range cc.Body {
				ast.Inspect(b, func(n ast.Node) bool {
					if bl, ok := n.(*ast.BasicLit); ok && bl.Kind == token.STRING {
						if s, err := strconv.Unquote(bl.Value); err == nil {
							lits = append(lits, s)
						}
					}
					return true
				})
			}
			if cc.List == nil {
				out["default"] = lits
				continue
			}
			for _, e := range cc.List {
				if t := r.Info.TypeOf(e); t != nil {
					out[core.RecvTypeName(t)] = lits
				}
			}
		}
		rr := r
		return out, &rr
	}
	return nil, nil
}

var reMember = regexp.MustCompile(`\.([A-Z]\w*)`)

func firstMember(lits []string) string {
	for _, l := range lits {
		if m := reMember.FindStringSubmatch(l); m != nil {
			return m[1]
		}
	}
	return ""
}

// baseKinds: Thrift base types with their frozen wire code and Go representation.
var baseKinds = []struct {
	kind   string
	code   int64
	goType string
}{
	{"BoolSpec", 2, "bool"}, {"I8Spec", 3, "int8"}, {"DoubleSpec", 4, "float64"}, {"I16Spec", 6, "int16"},
	{"I32Spec", 8, "int32"}, {"I64Spec", 10, "int64"}, {"StringSpec", 11, "string"}, {"BinarySpec", 11, "[]byte"},
}

func methodSig(c *core.Ctx, rel, typ, name string) *types.Signature {
	p := c.Pkg(rel)
	tn, _ := p.Types.Scope().Lookup(typ).(*types.TypeName)
	if tn == nil {
		return nil
	}
	var obj types.Object
	if it, ok := tn.Type().Underlying().(*types.Interface); ok {
		for i := 0; i < it.NumMethods(); i++ {
			if it.Method(i).Name() == name {
				obj = it.Method(i)
			}
		}
	} else {
		obj, _, _ = types.LookupFieldOrMethod(types.NewPointer(tn.Type()), true, p.Types, name)
	}
	if f, ok := obj.(*types.Func); ok {
		return f.Type().(*types.Signature)
	}
	return nil
}

func checkC01(c *core.Ctx, l *core.Ledger) {
	l.Explanation = "Static clauses of C01: (TAB) the generator's per-kind dispatch tables compose into a closed chain with the runtime codec for every base type: typeName[K] = parameter type of the wire constructor ToWire[K] emits = result type of the getter FromWire[K] emits = parameter/result type of the stream method Encode[K]/Decode[K] emits, the constructor stores the type code TypeCode[K] names, and that code equals the frozen Thrift code (objects and types are compared, never names alone); the pointer variants dereference the same kinds on both paths; (DELEGATE) kinds that reach a 'call the value's own method' default are only those for which the generator declares that method (finite-domain path analysis + skeleton inspection); (ENC) on every feasible shape class of the ToWire and Encode struct templates: each field is written under its own id and the wire type of its declared type, a required field of a nillable type is rejected when nil before anything is written for it, an optional field is written exactly when set, an unset defaulted field is written as its default, union arity is enforced, struct framing is paired; container encoders reject nil elements and frame with the header of their own element type(s); (ACCESSOR) Get<F> returns the field when set, else the declared default, else the zero value; Default_<T> assigns every defaulted field. Decode-side clauses are under C05, path agreement under C04. (CONST-RENDER) scalar IDL constants (bool, integer, double, string) reach the generated text only through formatters that are injective on their type (fmt.Sprint, %v/%d/%q/%g without precision, strconv.Quote/Itoa/FormatFloat(-1,64)) and without a narrowing conversion, so the printed literal denotes exactly the IDL value. (PRED-MODEL) the template predicate isNotNil, which these rules read as 'a default is declared', answers false only for a nil value. (W-FAIL-CAUSES) the serializers of protocol/binary (StreamWriter, Writer and everything they reach in the package) originate an error only when re-wording one they received or for a wire type outside the protocol — no condition on the content or shape of a valid value (nesting depth, string content) makes a serializer fail. (PRED-ROOT) every predicate of gen that classifies a TypeSpec and is bound as a template function answers the same for a type and for a typedef of it, for every root kind — so typedef'd fields take the same serializer branches (nil slice as empty list, pointer or not, hashable or not) as plain ones. (ERR-KEEP) no error value is lost: none is assigned to a variable that is never read (an inner declaration shadowing the checked one), none is overwritten by the next loop iteration unseen, and no deferred function replaces the error result without regard to the error already there. (DEFAULT-CTOR) the default constructor is declared exactly when some field has a default: DefineDefaultConstructor evaluated over every default pattern of up to three fields. NOT decided: byte equality with an independent codec; rendering of composite constants beyond dispatch exhaustiveness; go.* annotations; option sets other than those that are template predicates."
	l.RuleText = "one obligation per table row / (template, shape class)"
	l.Assumptions = []string{"generated helper expressions have the shape of their format strings (fmt.Sprintf with %s holes)"}
	l.Exhaustive = true
	mod := tmpl.Extract(c)
	checkPredModels(c, l, mod, "PRED-MODEL")
	elems := 1
	if l.Tier == "thorough" {
		elems = 2
	}
	xs := expansions(c, elems)

	// ---- TAB
	toWire, _ := dispatchLiterals(c, "WireGenerator.ToWire")
	fromWire, _ := dispatchLiterals(c, "WireGenerator.FromWire")
	encode, _ := dispatchLiterals(c, "StreamGenerator.Encode")
	decode, _ := dispatchLiterals(c, "StreamGenerator.Decode")
	typeCode, tcRep := dispatchLiterals(c, "TypeCode")
	typeNameT, _ := dispatchLiterals(c, "typeName")
	if toWire == nil || fromWire == nil || encode == nil || decode == nil || typeCode == nil || typeNameT == nil {
		l.Unk("TAB", "anchors", "", "one of the dispatchers ToWire/FromWire/Encode/Decode/TypeCode/typeName was not found in package gen")
	} else {
		vt := valueTable(c, l)
		wirePkg := c.Pkg("wire").Types
		for _, bk := range baseKinds {
			key := bk.kind
			var why []string
			// typeName
			gt := ""
			if len(typeNameT[bk.kind]) > 0 {
				gt = typeNameT[bk.kind][0]
			}
			if gt != bk.goType {
				why = append(why, fmt.Sprintf("typeName gives %q, Thrift maps it to %s", gt, bk.goType))
			}
			// ToWire constructor
			ctorName := firstMember(toWire[bk.kind])
			ctor, _ := wirePkg.Scope().Lookup(ctorName).(*types.Func)
			if ctor == nil {
				why = append(why, "ToWire emits unknown constructor wire."+ctorName)
			} else {
				sig := ctor.Type().(*types.Signature)
				if sig.Params().Len() != 1 || core.TypeLabel(sig.Params().At(0).Type()) != bk.goType {
					why = append(why, fmt.Sprintf("wire.%s takes %s, but the Go representation is %s", ctorName, sig.Params().String(), bk.goType))
				}
				// code stored by the constructor
				stored := int64(-1)
				for code, row := range vt {
					for _, ct := range row.ctors {
						if ct == ctor {
							stored = code
						}
					}
				}
				if stored != bk.code {
					why = append(why, fmt.Sprintf("wire.%s stores type code %d, Thrift prescribes %d", ctorName, stored, bk.code))
				}
			}
			// TypeCode constant
			tcName := firstMember(typeCode[bk.kind])
			if k, _ := wirePkg.Scope().Lookup(tcName).(*types.Const); k == nil {
				why = append(why, "TypeCode emits unknown constant wire."+tcName)
			} else if v, _ := constant.Int64Val(k.Val()); v != bk.code {
				why = append(why, fmt.Sprintf("TypeCode emits wire.%s = %d, Thrift prescribes %d", tcName, v, bk.code))
			}
			// FromWire getter
			getName := firstMember(fromWire[bk.kind])
			if sig := methodSig(c, "wire", "Value", getName); sig == nil {
				why = append(why, "FromWire emits unknown getter Value."+getName)
			} else if sig.Results().Len() != 1 || core.TypeLabel(sig.Results().At(0).Type()) != bk.goType {
				why = append(why, fmt.Sprintf("Value.%s returns %s, expected %s", getName, sig.Results().String(), bk.goType))
			} else {
				// the getter belongs to the same code's row
				ok := false
				if row := vt[bk.code]; row != nil {
					for _, g := range row.getters {
						if g.Name() == getName {
							ok = true
						}
					}
					// string shares the binary row through GetString
					if getName == "GetString" && bk.code == 11 {
						ok = true
					}
				}
				if !ok {
					why = append(why, "Value."+getName+" does not read the payload that the constructor of this type code stores")
				}
			}
			// Encode / Decode stream methods
			wName := firstMember(encode[bk.kind])
			if sig := methodSig(c, "protocol/stream", "Writer", wName); sig == nil {
				why = append(why, "Encode emits unknown stream.Writer method "+wName)
			} else if sig.Params().Len() != 1 || core.TypeLabel(sig.Params().At(0).Type()) != bk.goType {
				why = append(why, fmt.Sprintf("stream.Writer.%s takes %s, expected %s", wName, sig.Params().String(), bk.goType))
			}
			rName := firstMember(decode[bk.kind])
			if sig := methodSig(c, "protocol/stream", "Reader", rName); sig == nil {
				why = append(why, "Decode emits unknown stream.Reader method "+rName)
			} else if sig.Results().Len() != 2 || core.TypeLabel(sig.Results().At(0).Type()) != bk.goType {
				why = append(why, fmt.Sprintf("stream.Reader.%s returns %s, expected (%s, error)", rName, sig.Results().String(), bk.goType))
			}
			// writer/reader method pair is the pair of the same row in the binary codec (W<X>/R<X>)
			if strings.TrimPrefix(wName, "Write") != strings.TrimPrefix(rName, "Read") {
				why = append(why, "Encode uses "+wName+" but Decode uses "+rName)
			}
			sort.Strings(why)
			l.Check(len(why) == 0, "TAB", key, c.Rel(tcRep.Decl.Pos()),
				fmt.Sprintf("%s ↔ %s: wire.%s / Value.%s / Writer.%s / Reader.%s / wire.%s=%d agree", bk.kind, bk.goType, ctorName, getName, wName, rName, tcName, bk.code), strings.Join(why, "; "))
		}
		// containers, enum, struct: TypeCode literals
		for kind, want := range map[string]string{"MapSpec": "TMap", "ListSpec": "TList", "SetSpec": "TSet", "EnumSpec": "TI32", "StructSpec": "TStruct"} {
			got := firstMember(typeCode[kind])
			l.Check(got == want, "TAB", "TypeCode["+kind+"]", c.Rel(tcRep.Decl.Pos()), "wire."+got, "TypeCode maps "+kind+" to wire."+got+", Thrift prescribes wire."+want)
		}
		// pointer variants dereference the same kinds on both paths, all of them scalar base kinds
		twp, _ := dispatchLiterals(c, "WireGenerator.ToWirePtr")
		ep, _ := dispatchLiterals(c, "StreamGenerator.EncodePtr")
		kindsOf := func(m map[string][]string) string {
			var ks []string
			for k := range m {
				if k != "default" {
					ks = append(ks, k)
				}
			}
			sort.Strings(ks)
			return strings.Join(ks, ",")
		}
		wantDeref := "BoolSpec,DoubleSpec,I16Spec,I32Spec,I64Spec,I8Spec,StringSpec"
		l.Check(kindsOf(twp) == wantDeref && kindsOf(ep) == wantDeref, "TAB", "Ptr-deref-kinds", "", "ToWirePtr and EncodePtr dereference exactly the scalar base kinds (those whose optional Go representation is a pointer to a builtin)", "ToWirePtr dereferences {"+kindsOf(twp)+"}, EncodePtr {"+kindsOf(ep)+"}, expected {"+wantDeref+"}")
	}
	l.Floor("TAB", 13)

	checkDelegates(c, l, mod, xs)

	// ---- ENC
	for _, spec := range []struct {
		id     string
		stream bool
		rule   string
	}{{"fieldGroupGenerator.ToWire#1", false, "ENC-VALUE"}, {"fieldGroupGenerator.Encode#1", true, "ENC-STREAM"}} {
		t := findTemplate(mod, spec.id)
		if t == nil {
			l.Unk(spec.rule, "anchor", "", "template "+spec.id+" not found")
			continue
		}
		for _, v := range xs[t].Variants {
			key := spec.id + ":[" + v.AtomString() + "]"
			if v.File == nil {
				l.Bad(spec.rule, key, c.Rel(t.Pos), "shape class does not parse")
				continue
			}
			if infeasibleEncoderVariant(v) {
				continue
			}
			m := parseEncoder(v, spec.stream)
			bad := checkEncoderVariant(v, m, spec.stream)
			sort.Strings(bad)
			if len(bad) > 0 {
				l.Bad(spec.rule, key, c.Rel(t.Pos), bad[0], bad...)
			} else {
				var fs []string
				for _, f := range m.Fields {
					fs = append(fs, f.summary())
				}
				l.Add(core.Obligation{Rule: spec.rule, Key: key, Pos: c.Rel(t.Pos), Status: core.Discharged, Trivial: len(v.Atoms) == 0, Detail: strings.Join(fs, " | ") + " union=" + m.Union})
			}
		}
	}
	l.Floor("ENC-VALUE", 4)
	l.Floor("ENC-STREAM", 4)
	checkContainerEncoders(c, l, mod, xs)
	checkAccessors(c, l, mod, xs)
}

// infeasibleEncoderVariant: predicate combinations that no field can have
// (a type is not both a list and a primitive; unions have no required fields
// and no defaults — compile.compileStruct sets noRequiredFields and
// disallowDefaultValue for unions, and result structs are built without
// either).
func infeasibleEncoderVariant(v *tmpl.Variant) bool {
	for _, e := range variantElems(v) {
		if v.Atoms["ƒisPrimitiveTypeʃ"+e+"ˑType"] && v.Atoms["ƒisListTypeʃ"+e+"ˑType"] {
			return true
		}
		if v.Atoms["δˑIsUnion"] && (elemRequired(v, e) || elemHasDefault(v, e)) {
			return true
		}
	}
	return false
}

// checkDelegates: ToWire / Encode / Equals fall back to calling the value's
// own method; the kinds that reach that fallback must all have the method.
func checkDelegates(c *core.Ctx, l *core.Ledger, mod *tmpl.Model, xs map[*tmpl.Template]*tmpl.Expansion) {
	ka := newKindAnalysis(c)
	// which kinds declare which methods (from the declaration templates)
	declares := map[string]map[string]bool{"EnumSpec": {}, "StructSpec": {}, "TypedefSpec": {}}
	scan := func(kind string, prefixes ...string) {
		for _, t := range mod.Templates {
			hit := false
			for _, p := range prefixes {
				if strings.HasPrefix(t.ID, p) {
					hit = true
				}
			}
			if !hit {
				continue
			}
			for _, v := range xs[t].Variants {
				if v.File == nil {
					continue
				}
				for _, d := range v.File.Decls {
					if fd, ok := d.(*ast.FuncDecl); ok && fd.Recv != nil {
						declares[kind][fd.Name.Name] = true
					}
				}
			}
		}
	}
	scan("EnumSpec", "enum#")
	scan("StructSpec", "fieldGroupGenerator.")
	scan("TypedefSpec", "typedef#")
	for _, d := range []struct{ fn, method string }{{"WireGenerator.ToWire", "ToWire"}, {"StreamGenerator.Encode", "Encode"}, {"equalsGenerator.Equals", "Equals"}} {
		f := c.SSAFunc(c.LookupFunc("gen", d.fn))
		if f == nil {
			l.Unk("DELEGATE", d.fn, "", "dispatcher not found")
			continue
		}
		// the delegating return: a Return whose value is fmt.Sprintf of a literal containing "."+method+"("
		var target ssa.Instruction
		core.Instrs(f, func(in ssa.Instruction) {
			r, ok := in.(*ssa.Return)
			if !ok || len(r.Results) == 0 {
				return
			}
			s := core.Sym(r.Results[0])
			if strings.Contains(s, "."+d.method+"(") {
				target = in
			}
		})
		if target == nil {
			l.Unk("DELEGATE", d.fn, c.Rel(f.Pos()), "no fallback that calls the value's own "+d.method+" method was found")
			continue
		}
		kinds, _ := ka.KindsReaching(f, target, nil)
		var bad []string
		for k := range kinds {
			base := k
			if strings.HasPrefix(k, "typedef→") {
				base = "TypedefSpec"
			}
			if declares[base] == nil || !declares[base][d.method] {
				bad = append(bad, k)
			}
		}
		sort.Strings(bad)
		l.Check(len(bad) == 0, "DELEGATE", d.fn, c.Rel(target.Pos()), fmt.Sprintf("kinds reaching the fallback %v all have a generated %s method", kinds.names(), d.method),
			"values of kind "+strings.Join(bad, ", ")+" reach a fallback that calls their "+d.method+" method, which the generator does not declare for them")
	}
	l.Floor("DELEGATE", 3)
}
