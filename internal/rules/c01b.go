package rules

import (
	"fmt"
	"go/ast"
	"regexp"
	"sort"
	"strings"

	"verif/internal/core"
	"verif/internal/tmpl"
)

var reWriteCall = regexp.MustCompile(`ƒ(toWire|encode)\((δˑSpecˑ\w+), (\w+)`)

// checkContainerEncoders: list/set/map ValueList/ItemList (value path) and
// Encoder (stream path) templates.
func checkContainerEncoders(c *core.Ctx, l *core.Ledger, mod *tmpl.Model, xs map[*tmpl.Template]*tmpl.Expansion) {
	specs := []struct {
		id, kind string
		stream   bool
	}{
		{"listGenerator.ValueList#1", "list", false}, {"setGenerator.ValueList#1", "set", false}, {"mapGenerator.ItemList#1", "map", false},
		{"listGenerator.Encoder#1", "list", true}, {"setGenerator.Encoder#1", "set", true}, {"mapGenerator.Encoder#1", "map", true},
	}
	for _, sp := range specs {
		t := findTemplate(mod, sp.id)
		if t == nil {
			l.Unk("ENC-CONTAINER", sp.id, "", "template not found")
			continue
		}
		for _, v := range xs[t].Variants {
			key := sp.id + ":[" + v.AtomString() + "]"
			if v.File == nil {
				l.Bad("ENC-CONTAINER", key, c.Rel(t.Pos), "does not parse")
				continue
			}
			bad := containerEncoderProblems(v, sp.kind, sp.stream)
			if len(bad) > 0 {
				l.Bad("ENC-CONTAINER", key, c.Rel(t.Pos), bad[0], bad...)
			} else {
				l.Ok("ENC-CONTAINER", key, c.Rel(t.Pos), "every element of a nillable type is rejected when nil before it is written; elements are written with the declared element type(s); the header/type accessors announce the same type(s) and the length of the collection")
			}
		}
	}
	l.Floor("ENC-CONTAINER", 12)
}

func containerEncoderProblems(v *tmpl.Variant, kind string, stream bool) []string {
	var bad []string
	fset := v.Fset
	wantTypes := map[string][]string{"list": {"δˑSpecˑValueSpec"}, "set": {"δˑSpecˑValueSpec"}, "map": {"δˑSpecˑKeySpec", "δˑSpecˑValueSpec"}}[kind]
	// loop body: the statement list containing the write calls
	var loopBody []ast.Stmt
	var whole string
	for _, d := range v.File.Decls {
		fd, ok := d.(*ast.FuncDecl)
		if !ok {
			continue
		}
		if !(fd.Name.Name == "ForEach" || (stream && fd.Recv == nil)) {
			continue
		}
		whole = nodeStr(fset, fd)
		ast.Inspect(fd.Body, func(n ast.Node) bool {
			switch x := n.(type) {
			case *ast.RangeStmt:
				if loopBody == nil {
					loopBody = x.Body.List
				}
			case *ast.ForStmt:
				if loopBody == nil {
					loopBody = x.Body.List
				}
			}
			return true
		})
	}
	if loopBody == nil {
		return []string{"no element loop found"}
	}
	seenTypes := []string{}
	for i, s := range loopBody {
		str := nodeStr(fset, s)
		m := reWriteCall.FindStringSubmatch(str)
		if m == nil {
			continue
		}
		typ, val := m[2], m[3]
		seenTypes = append(seenTypes, typ)
		if (m[1] == "encode") != stream {
			bad = append(bad, "element is written with "+m[1]+" on the "+map[bool]string{true: "stream", false: "value"}[stream]+" path")
		}
		prim := v.Atoms["ƒisPrimitiveTypeʃ"+typ]
		guarded := false
		for _, p := range loopBody[:i] {
			if is, ok := p.(*ast.IfStmt); ok && is.Init == nil && nodeStr(fset, is.Cond) == val+" == nil" && len(is.Body.List) == 1 && isNewErrorReturnAny(nil, is.Body.List[0]) {
				guarded = true
			}
		}
		if !prim && !guarded {
			bad = append(bad, "an element ("+val+") of the nillable type "+typ+" is written without a nil check that returns an error")
		}
		// error propagated
		if !strings.Contains(str, "err") {
			bad = append(bad, "the write of "+val+" does not propagate its error")
		}
	}
	if strings.Join(seenTypes, ",") != strings.Join(wantTypes, ",") {
		bad = append(bad, fmt.Sprintf("elements are written as %v, the declared element types are %v (in wire order)", seenTypes, wantTypes))
	}
	if stream {
		hdrType := map[string]string{"list": "ListHeader", "set": "SetHeader", "map": "MapHeader"}[kind]
		wantHdr := map[string]map[string]string{
			"list": {"Type": "ƒtypeCode(δˑSpecˑValueSpec)"},
			"set":  {"Type": "ƒtypeCode(δˑSpecˑValueSpec)"},
			"map":  {"KeyType": "ƒtypeCode(δˑSpecˑKeySpec)", "ValueType": "ƒtypeCode(δˑSpecˑValueSpec)"},
		}[kind]
		found := false
		ast.Inspect(v.File, func(n ast.Node) bool {
			cl, ok := n.(*ast.CompositeLit)
			if !ok || !strings.HasSuffix(nodeStr(fset, cl.Type), "."+hdrType) {
				return true
			}
			found = true
			got := map[string]string{}
			for _, el := range cl.Elts {
				if kv, ok := el.(*ast.KeyValueExpr); ok {
					got[nodeStr(fset, kv.Key)] = nodeStr(fset, kv.Value)
				}
			}
			for k, w := range wantHdr {
				if got[k] != w {
					bad = append(bad, "header announces "+k+"="+got[k]+" instead of "+w)
				}
			}
			if !strings.HasPrefix(got["Length"], "len(") {
				bad = append(bad, "header Length is not the length of the collection: "+got["Length"])
			}
			return true
		})
		if !found {
			bad = append(bad, "no stream."+hdrType+" header is built")
		}
		begin := map[string]string{"list": "WriteListBegin(", "set": "WriteSetBegin(", "map": "WriteMapBegin("}[kind]
		end := map[string]string{"list": "WriteListEnd()", "set": "WriteSetEnd()", "map": "WriteMapEnd()"}[kind]
		if !strings.Contains(whole, "."+begin) || !strings.Contains(whole, "return sw."+end) && !strings.Contains(whole, "."+end) {
			bad = append(bad, "container is not framed by "+begin+"..."+end)
		}
	} else {
		full := nodeStr(fset, v.File)
		acc := map[string][]string{
			"list": {"ValueType() wire.Type { return ƒtypeCode(δˑSpecˑValueSpec) }", "Size() int { return len("},
			"set":  {"ValueType() wire.Type { return ƒtypeCode(δˑSpecˑValueSpec) }", "Size() int { return len("},
			"map":  {"KeyType() wire.Type { return ƒtypeCode(δˑSpecˑKeySpec) }", "ValueType() wire.Type { return ƒtypeCode(δˑSpecˑValueSpec) }", "Size() int { return len("},
		}[kind]
		for _, a := range acc {
			if !strings.Contains(full, a) {
				bad = append(bad, "value-list accessor missing or wrong: "+a)
			}
		}
	}
	sort.Strings(bad)
	return bad
}

// checkAccessors: Get<F> and Default_<T>.
func checkAccessors(c *core.Ctx, l *core.Ledger, mod *tmpl.Model, xs map[*tmpl.Template]*tmpl.Expansion) {
	t := findTemplate(mod, "fieldGroupGenerator.Accessors#1")
	if t == nil {
		l.Unk("ACCESSOR", "anchor", "", "Accessors template not found")
		return
	}
	for _, v := range xs[t].Variants {
		key := t.ID + ":[" + v.AtomString() + "]"
		if v.File == nil {
			l.Bad("ACCESSOR", key, c.Rel(t.Pos), "does not parse")
			continue
		}
		var bad []string
		els := variantElems(v)
		for _, e := range els {
			name := "Getƒ" + "goNameʃ" + e
			fd := skelFunc(v, name)
			if fd == nil {
				bad = append(bad, "no getter for "+e)
				continue
			}
			body := nodeStr(v.Fset, fd.Body)
			recv := recvName(fd)
			F := recv + ".ƒgoNameʃ" + e
			out := ""
			if fd.Type.Results != nil && len(fd.Type.Results.List) == 1 && len(fd.Type.Results.List[0].Names) == 1 {
				out = fd.Type.Results.List[0].Names[0].Name
			}
			if rt := nodeStr(v.Fset, fd.Type.Results.List[0].Type); rt != "ƬtypeReferenceʃ"+e+"ˑType" {
				bad = append(bad, "getter of "+e+" returns "+rt+" instead of the field's value type")
			}
			switch {
			case elemRequired(v, e):
				if !strings.Contains(body, "if "+recv+" != nil { "+out+" = "+F+" }") {
					bad = append(bad, "getter of required "+e+" does not return the field (nil-safe): "+body)
				}
			default:
				deref := F
				if v.Atoms["ƒisPrimitiveTypeʃ"+e+"ˑType"] {
					deref = "*" + F
				}
				if !strings.Contains(body, "if "+recv+" != nil && "+F+" != nil { return "+deref+" }") {
					bad = append(bad, "getter of optional "+e+" does not return the set value (dereferenced iff primitive): "+body)
				}
				hasDef := strings.Contains(body, out+" = ƒconstantValue("+e+"ˑDefault, "+e+"ˑType)")
				if hasDef != elemHasDefault(v, e) {
					bad = append(bad, fmt.Sprintf("getter of %s returns the declared default: %v, field has a default: %v", e, hasDef, elemHasDefault(v, e)))
				}
			}
		}
		sort.Strings(bad)
		if len(bad) > 0 {
			l.Bad("ACCESSOR", key, c.Rel(t.Pos), bad[0], bad...)
		} else {
			l.Ok("ACCESSOR", key, c.Rel(t.Pos), "getter returns the field when set, else the declared default when there is one, else the zero value")
		}
	}
	// Default_ constructor
	if t := findTemplate(mod, "fieldGroupGenerator.DefineDefaultConstructor#1"); t != nil {
		for _, v := range xs[t].Variants {
			key := t.ID + ":[" + v.AtomString() + "]"
			if v.File == nil {
				l.Bad("ACCESSOR", key, c.Rel(t.Pos), "does not parse")
				continue
			}
			src := nodeStr(v.Fset, v.File)
			ok := true
			for _, e := range variantElems(v) {
				has := strings.Contains(src, ".ƒgoNameʃ"+e+" = ƒconstantValuePtr("+e+"ˑDefault, "+e+"ˑType)")
				if has != elemHasDefault(v, e) {
					ok = false
				}
			}
			l.Check(ok && strings.Contains(src, "return &v"), "ACCESSOR", key, c.Rel(t.Pos), "the default constructor assigns exactly the fields that declare a default", "Default_<T> does not assign exactly the defaulted fields: "+src)
		}
	} else {
		l.Unk("ACCESSOR", "anchor:ctor", "", "default constructor template not found")
	}
	l.Floor("ACCESSOR", 6)
	checkConstRender(c, l)
	// decoded binaries and strings must not be views of memory the (pooled) reader keeps and reuses
	checkFreshResults(c, l, "FRESH-RESULT", []string{"protocol/binary"})
	checkWriteFailCauses(c, l)
	errSide = "write"
	checkErrKeep(c, l, "ERR-KEEP", []string{"protocol/binary", "wire", "protocol", "envelope"})
	errSide = ""
	checkDefaultCtorExists(c, l, "DEFAULT-CTOR")
	checkTypedefTransparent(c, l, "PRED-ROOT")
}

var _ = core.ModPath
