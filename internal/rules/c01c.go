package rules

import (
	"fmt"
	"go/types"
	"sort"
	"strings"

	"golang.org/x/tools/go/ssa"

	"verif/internal/core"
)

// checkConstRender: a scalar constant of the IDL (bool, integer, double,
// string) reaches the generated text only through a formatter that is
// injective on its type — the printed literal denotes exactly the value:
// fmt.Sprint/%v/%d/%t/%q/%s/%g without precision, strconv.Quote/Itoa/FormatInt/
// FormatBool, strconv.FormatFloat(x, _, -1, 64). %f, %e, any precision, a
// narrowing conversion before formatting, or an unknown sink lose information.
func checkConstRender(c *core.Ctx, l *core.Ledger) {
	scalar := map[string]bool{"compile.ConstantBool": true, "compile.ConstantDouble": true, "compile.ConstantInt": true, "compile.ConstantString": true}
	n := 0
	seenKinds := map[string]bool{}
	negZero := map[*ssa.Function]bool{}
	negZeroPos := map[*ssa.Function]string{}
	defer func() {
		var bad []string
		pos := ""
		for f, aware := range negZero {
			if !aware {
				bad = append(bad, core.SSAName(f))
				pos = negZeroPos[f]
			}
		}
		sort.Strings(bad)
		if len(negZero) > 0 {
			l.Check(len(bad) == 0, "CONST-RENDER", "ConstantDouble:negative-zero", pos, "the sign of a zero constant is handled separately from the numeric literal",
				"a double constant is printed as a Go numeric literal without looking at its sign bit ("+strings.Join(bad, ", ")+"): the IDL constant -0.0 is rendered as '-0', which Go reads as the constant +0")
		}
	}()
	for _, f := range c.AllFuncs("gen") {
		if c.IsTestFile(f.Pos()) || len(f.Blocks) == 0 {
			continue
		}
		// sources: parameters of scalar constant type, and type-switch bindings (TypeAssert to a scalar constant type)
		var srcs []ssa.Value
		for _, p := range f.Params {
			if scalar[core.TypeLabel(p.Type())] {
				srcs = append(srcs, p)
			}
		}
		core.Instrs(f, func(in ssa.Instruction) {
			if ta, ok := in.(*ssa.TypeAssert); ok && scalar[core.TypeLabel(ta.AssertedType)] {
				if ta.CommaOk {
					for _, r := range *ta.Referrers() {
						if ex, ok := r.(*ssa.Extract); ok && ex.Index == 0 {
							srcs = append(srcs, ex)
						}
					}
				} else {
					srcs = append(srcs, ta)
				}
			}
		})
		for _, src := range srcs {
			kind := core.TypeLabel(src.Type())
			// derived values: conversions and interface boxing
			type dv struct {
				v     ssa.Value
				lossy string
			}
			derived := map[ssa.Value]string{src: ""}
			work := []ssa.Value{src}
			k := 0
			for len(work) > 0 {
				v := work[len(work)-1]
				work = work[:len(work)-1]
				refs := v.Referrers()
				if refs == nil {
					continue
				}
				for _, r := range *refs {
					switch x := r.(type) {
					case *ssa.Convert:
						lossy := derived[v]
						if why := narrowingConv(x.X.Type(), x.Type()); why != "" {
							lossy = why
						}
						if _, seen := derived[x]; !seen {
							derived[x] = lossy
							work = append(work, x)
						}
					case *ssa.ChangeType, *ssa.MakeInterface:
						xv := r.(ssa.Value)
						if _, seen := derived[xv]; !seen {
							derived[xv] = derived[v]
							work = append(work, xv)
						}
					case *ssa.Store:
						// element of a varargs array
						if ia, ok := x.Addr.(*ssa.IndexAddr); ok && x.Val == v {
							if al, ok := ia.X.(*ssa.Alloc); ok {
								for _, ar := range *al.Referrers() {
									if sl, ok := ar.(*ssa.Slice); ok {
										if _, seen := derived[sl]; !seen {
											derived[sl] = derived[v]
											// remember the element index for verb lookup
											if kc, ok := ia.Index.(*ssa.Const); ok {
												varargIndex[sl] = append(varargIndex[sl], int(kc.Int64()))
											}
											work = append(work, sl)
										}
									}
								}
							}
						}
					case *ssa.Call:
						k++
						n++
						seenKinds[kind] = true
						key := fmt.Sprintf("%s:%s#%d", core.SSAName(f), kind, k)
						why := formatLoss(x, v, derived[v])
						l.Check(why == "", "CONST-RENDER", key, c.Rel(x.Pos()), "the constant is rendered by a formatter that is injective on its type", why)
						if o := core.CalleeObj(x); kind == "compile.ConstantDouble" && why == "" && o != nil && o.Pkg() != nil && (o.Pkg().Path() == "fmt" || o.Pkg().Path() == "strconv") {
							// a Go numeric literal cannot denote negative zero: "-0" is the constant +0
							if _, seen := negZero[f]; !seen {
								signAware := false
								core.Instrs(f, func(in2 ssa.Instruction) {
									if c2, ok := in2.(ssa.CallInstruction); ok {
										if o := core.CalleeObj(c2); o != nil && o.Pkg() != nil && o.Pkg().Path() == "math" && (o.Name() == "Signbit" || o.Name() == "Float64bits" || o.Name() == "Copysign") {
											signAware = true
										}
									}
								})
								negZero[f] = signAware
								negZeroPos[f] = c.Rel(x.Pos())
							}
						}
					case *ssa.If, *ssa.BinOp, *ssa.UnOp, *ssa.DebugRef, *ssa.Phi:
						// tests on the value (e.g. `if v {`), no rendering
					case *ssa.Return, *ssa.MapUpdate, *ssa.Send:
						k++
						n++
						l.Bad("CONST-RENDER", fmt.Sprintf("%s:%s#%d", core.SSAName(f), kind, k), c.Rel(r.Pos()), "the constant's value escapes unformatted; its rendering cannot be decided")
					}
				}
			}
		}
	}
	for kind := range scalar {
		if kind == "compile.ConstantBool" {
			continue // rendered by a test on the value, not by a formatter
		}
		if !seenKinds[kind] {
			l.Unk("CONST-RENDER", "kind:"+kind, "", "no rendering site found for this kind of constant")
		}
	}
	// booleans: constantBool returns "true" on the true edge and "false" otherwise
	if f := c.SSAFunc(c.LookupFunc("gen", "constantBool")); f != nil {
		ok := false
		core.Instrs(f, func(in ssa.Instruction) {
			if ph, isPhi := in.(*ssa.Phi); isPhi && len(ph.Edges) == 2 {
				a, b := core.Sym(ph.Edges[0]), core.Sym(ph.Edges[1])
				// edge i comes from Preds[i]; the edge from the block entered on the true branch carries "true"
				blk := ph.Block()
				for i, e := range []string{a, b} {
					pred := blk.Preds[i]
					if ifi, isIf := pred.Instrs[len(pred.Instrs)-1].(*ssa.If); isIf && core.Sym(ifi.Cond) == "$1" {
						// pred is the branching block itself: this is the false edge (falls through)
						if e == `c:"false"` {
							ok = true
						}
					}
				}
				if !(strings.Contains(a+b, `c:"true"`) && strings.Contains(a+b, `c:"false"`)) {
					ok = false
				}
			}
		})
		// or by the library formatter applied to the value itself
		core.Instrs(f, func(in ssa.Instruction) {
			if call, isCall := in.(*ssa.Call); isCall && core.IsCallTo(call, "strconv", "FormatBool") && len(call.Call.Args) == 1 && core.Sym(call.Call.Args[0]) == "$1" {
				ok = true
			}
		})
		l.Check(ok, "CONST-RENDER", "gen.constantBool", c.Rel(f.Pos()), "true renders as true and false as false", "boolean constants are not rendered as their own value")
	}
	l.Floor("CONST-RENDER", 4)
}

var varargIndex = map[ssa.Value][]int{}

// narrowingConv: converting from -> to can change the value.
func narrowingConv(from, to types.Type) string {
	fb, ok1 := from.Underlying().(*types.Basic)
	tb, ok2 := to.Underlying().(*types.Basic)
	if !ok1 || !ok2 {
		return ""
	}
	size := func(b *types.Basic) int {
		switch b.Kind() {
		case types.Int8, types.Uint8:
			return 8
		case types.Int16, types.Uint16:
			return 16
		case types.Int32, types.Uint32, types.Float32:
			return 32
		case types.Int, types.Uint, types.Int64, types.Uint64, types.Float64, types.Uintptr:
			return 64
		}
		return 0
	}
	isF := func(b *types.Basic) bool { return b.Info()&types.IsFloat != 0 }
	isI := func(b *types.Basic) bool { return b.Info()&types.IsInteger != 0 }
	switch {
	case isF(fb) && isI(tb):
		return "a floating-point constant is converted to an integer before formatting"
	case isF(fb) && isF(tb) && size(tb) < size(fb), isI(fb) && isI(tb) && size(tb) < size(fb):
		return fmt.Sprintf("the constant is narrowed from %s to %s before formatting", fb.Name(), tb.Name())
	case isI(fb) && isF(tb) && size(fb) >= 64:
		return "a 64-bit integer constant is converted to floating point before formatting"
	}
	return ""
}

// formatLoss decides whether call renders arg v without loss ("" = lossless).
func formatLoss(call *ssa.Call, v ssa.Value, already string) string {
	if already != "" {
		return already
	}
	cal := call.Call.StaticCallee()
	if cal == nil || cal.Pkg == nil {
		if call.Call.IsInvoke() {
			return "the constant is passed to " + call.Call.Method.FullName() + ": rendering cannot be decided"
		}
		return "the constant is passed to a dynamic call: rendering cannot be decided"
	}
	name := cal.Pkg.Pkg.Path() + "." + cal.Name()
	isFloat := func(t types.Type) bool {
		b, ok := t.Underlying().(*types.Basic)
		return ok && b.Info()&types.IsFloat != 0
	}
	elemType := func() types.Type {
		// the boxed operand's type (through MakeInterface / varargs)
		for x := v; ; {
			switch y := x.(type) {
			case *ssa.MakeInterface:
				return y.X.Type()
			case *ssa.Slice:
				// varargs: find the element boxed
				if al, ok := y.X.(*ssa.Alloc); ok {
					for _, r := range *al.Referrers() {
						if ia, ok := r.(*ssa.IndexAddr); ok {
							for _, rr := range *ia.Referrers() {
								if st, ok := rr.(*ssa.Store); ok {
									if mi, ok := st.Val.(*ssa.MakeInterface); ok {
										return mi.X.Type()
									}
								}
							}
						}
					}
				}
				return nil
			default:
				_ = y
				return x.Type()
			}
		}
	}
	switch name {
	case "fmt.Sprint", "fmt.Sprintln", "strconv.Quote", "strconv.Itoa", "strconv.FormatInt", "strconv.FormatBool", "strconv.FormatUint", "strconv.QuoteToASCII":
		return ""
	case "strconv.FormatFloat":
		args := call.Call.Args
		if len(args) == 4 {
			p, ok1 := args[2].(*ssa.Const)
			b, ok2 := args[3].(*ssa.Const)
			if ok1 && ok2 && p.Int64() == -1 && b.Int64() == 64 {
				return ""
			}
		}
		return "strconv.FormatFloat with a fixed precision (or 32 bits) does not print the exact value"
	case "fmt.Sprintf", "fmt.Fprintf", "fmt.Errorf":
		fi := 0
		if name == "fmt.Fprintf" {
			fi = 1
		}
		fc, ok := call.Call.Args[fi].(*ssa.Const)
		if !ok || fc.Value == nil {
			return "format string is not a constant"
		}
		if name == "fmt.Errorf" {
			return "" // an error message, not generated code
		}
		format := strings.Trim(fc.Value.ExactString(), `"`)
		verbs := parseVerbs(format)
		idxs := varargIndex[v]
		if len(idxs) == 0 {
			return "position of the constant among the format arguments not resolved"
		}
		et := elemType()
		for _, i := range idxs {
			if i >= len(verbs) {
				return "no verb for the constant in the format string"
			}
			vb := verbs[i]
			switch vb.verb {
			case 'v', 'd', 't', 'q', 's', 'x', 'X':
				if vb.prec {
					return fmt.Sprintf("verb %%%c with a precision truncates the value", vb.verb)
				}
			case 'g', 'G':
				if vb.prec {
					return "%g with a precision rounds the value"
				}
			case 'f', 'F', 'e', 'E':
				return fmt.Sprintf("%%%c prints a fixed number of digits (default 6): doubles are rounded in the generated code", vb.verb)
			default:
				return fmt.Sprintf("verb %%%c is not known to print the exact value", vb.verb)
			}
			if et != nil && isFloat(et) && (vb.verb == 'd' || vb.verb == 'x') {
				return "integer verb applied to a floating-point constant"
			}
		}
		return ""
	}
	if core.InRepo(cal) {
		// handing the scalar to another repository function: that function's own parameter is analysed there
		for _, p := range cal.Params {
			if core.TypeLabel(p.Type()) == core.TypeLabel(v.Type()) {
				return ""
			}
		}
	}
	return "the constant is passed to " + name + ", which is not a known exact formatter"
}

type fmtVerb struct {
	verb rune
	prec bool
}

func parseVerbs(format string) []fmtVerb {
	var out []fmtVerb
	rs := []rune(format)
	for i := 0; i < len(rs); i++ {
		if rs[i] != '%' {
			continue
		}
		i++
		if i < len(rs) && rs[i] == '%' {
			continue
		}
		prec := false
		for i < len(rs) && strings.ContainsRune("+-# 0123456789.*[]", rs[i]) {
			if rs[i] == '.' {
				prec = true
			}
			i++
		}
		if i < len(rs) {
			out = append(out, fmtVerb{rs[i], prec})
		}
	}
	return out
}
