package rules

import (
	"fmt"
	"go/ast"
	"go/constant"
	"go/types"
	"os"
	"regexp"
	"sort"
	"strings"

	"golang.org/x/tools/go/ssa"

	"verif/internal/core"
)

func init() { Registry["C02"] = withErrRules(checkC02, "", "protocol/binary", "wire", "protocol") }

// wireTypeCodes is the frozen Thrift binary-protocol type-code table.
var wireTypeCodes = map[string]int64{
	"TBool": 2, "TI8": 3, "TDouble": 4, "TI16": 6, "TI32": 8, "TI64": 10,
	"TBinary": 11, "TStruct": 12, "TMap": 13, "TSet": 14, "TList": 15,
}

var (
	reField = regexp.MustCompile(`^\$1\.(\w+)$`)
	reConst = regexp.MustCompile(`^c:(-?\d+)$`)
)

// shape abstracts one extracted event to "kind[:binding]" so that writer and
// reader events can be compared with each other and with the frozen table.
func shape(ev string) string {
	loop := ""
	for strings.HasPrefix(ev, "loop:") {
		loop = "loop:"
		ev = ev[5:]
	}
	if strings.HasPrefix(ev, "alt{") && strings.HasSuffix(ev, "}") {
		var alts []string
		for _, a := range splitTop(ev[4:len(ev)-1], '|') {
			alts = append(alts, shapeSeq(splitTop(a, ' ')))
		}
		sort.Strings(alts)
		var ded []string
		for i, a := range alts {
			if i == 0 || a != alts[i-1] {
				ded = append(ded, a)
			}
		}
		if len(ded) == 1 && !strings.Contains(ded[0], " ") {
			if loop != "" && ded[0] != "" {
				return loop + ded[0]
			}
			return ded[0]
		}
		return loop + "alt{" + strings.Join(ded, "|") + "}"
	}
	if strings.HasPrefix(ev, "case:") || strings.HasPrefix(ev, "if(") {
		return ev
	}
	// reader form kind→dests
	if i := strings.Index(ev, "→"); i >= 0 {
		kind, ds := ev[:i], ev[i+len("→"):]
		if j := strings.Index(kind, "("); j >= 0 { // readfull(make(X))
			kind = "bytes"
		}
		var bind []string
		for _, d := range strings.Split(ds, ",") {
			switch {
			case d == "":
			case strings.HasPrefix(d, "res."):
				bind = append(bind, d[4:])
			case strings.HasPrefix(d, "."):
				bind = append(bind, d[1:])
			case strings.HasPrefix(d, "f64frombits:ret"):
				bind = append(bind, "f64")
			case strings.HasPrefix(d, "ret"):
				bind = append(bind, "val")
			default:
				bind = append(bind, d)
			}
		}
		if kind == "bytes" {
			return loop + "bytes"
		}
		if len(bind) == 0 {
			return loop + kind
		}
		return loop + kind + ":" + strings.Join(bind, ",")
	}
	// writer form kind(expr)
	if i := strings.Index(ev, "("); i >= 0 && strings.HasSuffix(ev, ")") {
		kind, ex := ev[:i], ev[i+1:len(ev)-1]
		switch kind {
		case "bytes", "copyN":
			return loop + "bytes"
		case "discard", "seek":
			return loop + "skip(" + ex + ")"
		case "u8", "be16", "be32", "be64", "le16", "le32", "le64":
			switch {
			case reField.MatchString(ex):
				return loop + kind + ":" + reField.FindStringSubmatch(ex)[1]
			case reConst.MatchString(ex):
				return loop + kind + "=" + reConst.FindStringSubmatch(ex)[1]
			case strings.HasPrefix(ex, "len("):
				return loop + kind + ":len"
			case strings.HasPrefix(ex, "math.Float64bits("):
				return loop + kind + ":f64"
			case strings.Contains(ex, "|"):
				return loop + kind + ":" + ex
			default:
				return loop + kind + ":val"
			}
		}
	}
	return loop + ev
}

func shapeSeq(evs []string) string {
	var out []string
	for _, e := range evs {
		if e != "" {
			out = append(out, shape(e))
		}
	}
	return strings.Join(out, " ")
}

func shapeSeqs(seqs [][]string) string {
	var parts []string
	for _, s := range seqs {
		parts = append(parts, "["+shapeSeq(s)+"]")
	}
	sort.Strings(parts)
	return normRepl.Replace(strings.Join(parts, " | "))
}

// splitTop splits at sep outside parentheses/braces.
func splitTop(s string, sep byte) []string {
	var out []string
	depth, start := 0, 0
	for i := 0; i < len(s); i++ {
		switch s[i] {
		case '(', '{':
			depth++
		case ')', '}':
			depth--
		default:
			if s[i] == sep && depth == 0 {
				out = append(out, s[start:i])
				start = i + 1
			}
		}
	}
	return append(out, s[start:])
}

// thriftTable: the frozen rows of the Thrift binary protocol, as shapes.
// Writer rows: the bytes produced; reader rows: the bytes consumed and the
// header field each value is bound to. This table is the implementation-
// independent oracle (Thrift binary protocol specification).
var thriftWriterRows = map[string]string{
	"WriteBool":                "[if(!$1) u8=0] | [if($1) u8=1]",
	"WriteInt8":                "[u8:val]",
	"WriteInt16":               "[be16:val]",
	"WriteInt32":               "[be32:val]",
	"WriteInt64":               "[be64:val]",
	"WriteDouble":              "[be64:f64]",
	"WriteBinary":              "[be32:len bytes]",
	"WriteString":              "[be32:len bytes]",
	"WriteStructBegin":         "[]",
	"WriteStructEnd":           "[u8=0]",
	"WriteFieldBegin":          "[u8:Type be16:ID]",
	"WriteFieldEnd":            "[]",
	"WriteListBegin":           "[u8:Type be32:Length]",
	"WriteListEnd":             "[]",
	"WriteSetBegin":            "[u8:Type be32:Length]",
	"WriteSetEnd":              "[]",
	"WriteMapBegin":            "[u8:KeyType u8:ValueType be32:Length]",
	"WriteMapEnd":              "[]",
	"WriteEnvelopeBegin":       "[be32:(c:2147549184|$1.Type) be32:len bytes be32:SeqID]",
	"WriteEnvelopeEnd":         "[]",
	"WriteLegacyEnvelopeBegin": "[be32:len bytes u8:Type be32:SeqID]",
	"WriteLegacyEnvelopeEnd":   "[]",
}

var thriftReaderRows = map[string]string{
	"ReadBool":        "[u8]",
	"ReadInt8":        "[u8:val]",
	"ReadInt16":       "[be16:val]",
	"ReadInt32":       "[be32:val]",
	"ReadInt64":       "[be64:val]",
	"ReadDouble":      "[be64:f64]",
	"ReadBinary":      "[be32 bytes] | [be32 bytes] | [be32]", // rendered after dedup below
	"ReadStructBegin": "[]",
	"ReadStructEnd":   "[]",
	"ReadFieldBegin":  "[u8:Type be16:ID] | [u8:Type]",
	"ReadFieldEnd":    "[]",
	"ReadListBegin":   "[u8:Type be32:Length]",
	"ReadListEnd":     "[]",
	"ReadSetBegin":    "[u8:Type be32:Length]",
	"ReadSetEnd":      "[]",
	"ReadMapBegin":    "[u8:KeyType u8:ValueType be32:Length]",
	"ReadMapEnd":      "[]",
	"ReadEnvelopeEnd": "[]",
}

func dedupShapes(s string) string {
	parts := strings.Split(s, " | ")
	set := map[string]bool{}
	var out []string
	for _, p := range parts {
		if !set[p] {
			set[p] = true
			out = append(out, p)
		}
	}
	sort.Strings(out)
	return strings.Join(out, " | ")
}

// wireSwitchExhaustive checks a value switch over wire.Type in fn.
func wireSwitchExhaustive(c *core.Ctx, l *core.Ledger, rule, rel, fname string, extraCovered func(k *types.Const) bool, needErrorDefault bool) {
	fobj := c.MustFunc(l, rule, rel, fname)
	if fobj == nil {
		return
	}
	fd := c.Decl(fobj)
	pkg := c.DeclPkg(fobj)
	wireT := c.Pkg("wire").Types.Scope().Lookup("Type").Type()
	consts := core.ConstsOf(c.Pkg("wire").Types, wireT)
	found := false
	for _, sw := range core.Switches(pkg.TypesInfo, fd.Body) {
		if sw.IsType || sw.TagType == nil || !types.Identical(sw.TagType, wireT) {
			continue
		}
		found = true
		var missing []string
		for _, k := range consts {
			if !sw.HasCaseVal(k.Val()) && (extraCovered == nil || !extraCovered(k)) {
				missing = append(missing, k.Name())
			}
		}
		end := core.ClauseEnd(pkg.TypesInfo, sw.Default)
		key := rel + "." + fname
		pos := c.Rel(sw.Node.Pos())
		switch {
		case len(missing) > 0 && !(sw.Default != nil && end == "error"):
			l.Bad(rule, key, pos, fmt.Sprintf("switch over wire.Type does not handle %v and its default does not return an error (default: %s)", missing, end))
		case len(missing) > 0:
			l.Bad(rule, key, pos, fmt.Sprintf("switch over wire.Type does not handle %v (they fall to the error default, but all 11 wire types are valid)", missing))
		case needErrorDefault && (sw.Default == nil || end != "error"):
			l.Bad(rule, key, pos, fmt.Sprintf("default of switch over wire.Type must return an error on unknown type codes, but it %ss", end))
		case sw.Default == nil:
			l.Bad(rule, key, pos, "switch over wire.Type has no default for unknown type codes")
		default:
			l.Ok(rule, key, pos, fmt.Sprintf("all %d wire types handled; default ends in %s", len(consts), end))
		}
	}
	if !found {
		if reportWireDispatchSSA(c, l, rule, rel+"."+fname, c.Rel(fd.Pos()), c.SSAFunc(fobj), consts, wireT, needErrorDefault) {
			return
		}
		l.Unk(rule, rel+"."+fname, c.Rel(fd.Pos()), "no switch over wire.Type found and the per-code evaluation did not finish: dispatch shape not recognised")
	}
}

func checkC02(c *core.Ctx, l *core.Ledger) {
	l.Explanation = "Static clauses of C02 decided on protocol/binary and wire: (TYPECODE) the 11 wire type codes equal the Thrift table; (EXH) every dispatch over wire.Type handles all 11 codes and has a default; (WSEQ/RSEQ) the ordered sequence of primitive writes/reads on the success path of every StreamWriter/StreamReader method, extracted from SSA with symbolic payloads (width, byte order via the statically resolved encoding/binary method, header field bound), equals the frozen Thrift binary-protocol row; (PAIR) writer and reader rows agree; (VALUE-TAB, DISPATCH) wire.Value constructor/getter pairs and the per-type dispatch of Writer.WriteValue / reader.ReadValue compose to the same rows; (CONTAINER) struct/list/set/map framing sequences and lazy-list header def-use; (OWN) the underlying io.Writer is written only by the one write primitive; (ORDER) ForEach implementations iterate forward once. (W-FAIL-CAUSES) the serializers of protocol/binary (StreamWriter, Writer and everything they reach in the package) originate an error only when re-wording one they received or for a wire type outside the protocol — no condition on the content or shape of a valid value (nesting depth, string content) makes a serializer fail. (FAIL-CAUSES) both decoders originate errors only for the protocol's own reasons (negative length, unknown type code, non-canonical bool, envelope version/type, premature end of input); a cause present on one path only is reported. NOT decided: value-level round-trip equality, NaN bit patterns at run time, behaviour of unsafe string/byte aliasing, stdlib correctness."
	l.RuleText = "one obligation per (rule, function/row); non-trivial = an SSA path enumeration, def-use chain or switch was actually examined"
	l.Assumptions = []string{"encoding/binary.BigEndian.{Put,}UintN and math.Float64bits/frombits behave as documented", "io.ReadFull / io.CopyN read exactly the requested number of bytes or fail"}
	m := newWireModel(c)
	if os.Getenv("VDEBUG") != "" {
		for _, f := range c.AllFuncs("protocol/binary") {
			switch recvNamed(f) {
			case "StreamWriter", "Writer":
				fmt.Printf("{%q, %q, %q},\n", recvNamed(f), f.Name(), shapeSeqs(m.WSeqs(f)))
			case "StreamReader", "reader", "Reader":
				fmt.Printf("{%q, %q, %q},\n", recvNamed(f), f.Name(), shapeSeqs(m.RSeqs(f)))
			}
		}
	}
	wirePkg := c.Pkg("wire")
	wireT := wirePkg.Types.Scope().Lookup("Type").Type()

	// 1. TYPECODE
	consts := core.ConstsOf(wirePkg.Types, wireT)
	for name, want := range wireTypeCodes {
		k, _ := wirePkg.Types.Scope().Lookup(name).(*types.Const)
		if k == nil {
			l.Unk("TYPECODE", name, "", "constant wire."+name+" not found")
			continue
		}
		got, _ := constant.Int64Val(k.Val())
		l.Check(got == want, "TYPECODE", name, c.Rel(k.Pos()), fmt.Sprintf("wire.%s = %d as in the Thrift table", name, got),
			fmt.Sprintf("wire.%s = %d, the Thrift binary protocol prescribes %d", name, got, want))
	}
	if len(consts) != len(wireTypeCodes) {
		l.Bad("TYPECODE", "count", "", fmt.Sprintf("%d constants of type wire.Type declared, the Thrift table has %d", len(consts), len(wireTypeCodes)))
	}
	l.Floor("TYPECODE", 11)

	// 2. EXH
	fw := c.LookupFunc("protocol/binary", "fixedWidth")
	fixedCovered := func(k *types.Const) bool { // Skip handles fixed-width types through fixedWidth(t) > 0
		if fw == nil {
			return false
		}
		return fixedWidthOf(c, k) > 0
	}
	wireSwitchExhaustive(c, l, "EXH", "protocol/binary", "Writer.WriteValue", nil, true)
	wireSwitchExhaustive(c, l, "EXH", "protocol/binary", "reader.ReadValue", nil, true)
	wireSwitchExhaustive(c, l, "EXH", "protocol/binary", "StreamReader.Skip", fixedCovered, true)
	wireSwitchExhaustive(c, l, "EXH", "wire", "EvaluateValue", nil, true)
	wireSwitchExhaustive(c, l, "EXH", "wire", "ValuesAreEqual", nil, false)
	wireSwitchExhaustive(c, l, "EXH", "wire", "Value.Get", nil, false)
	wireSwitchExhaustive(c, l, "EXH", "wire", "Value.String", nil, false)
	l.Floor("EXH", 7)
	// decoded binaries and strings must not be views of memory the (pooled) reader keeps and reuses
	checkFreshResults(c, l, "FRESH-RESULT", []string{"protocol/binary"})
	checkWriteFailCauses(c, l)
	checkFailCauses(c, l)

	// 3/4. WSEQ / RSEQ against the frozen table
	if m.wprim == nil {
		l.Unk("WSEQ", "primitive", "", "no StreamWriter method invoking io.Writer.Write on a field was found")
	}
	if m.rprim == nil {
		l.Unk("RSEQ", "primitive", "", "no StreamReader method calling io.ReadFull(field, param) was found")
	}
	wshape := map[string]string{}
	for name, want := range thriftWriterRows {
		f := m.method("StreamWriter", name)
		if f == nil {
			l.Unk("WSEQ", name, "", "method StreamWriter."+name+" not found")
			continue
		}
		got := dedupShapes(shapeSeqs(m.WSeqs(f)))
		wshape[name] = got
		l.Add(core.Obligation{Rule: "WSEQ", Key: "StreamWriter." + name, Pos: c.Rel(f.Pos()), Status: st(got == dedupShapes(want)),
			Detail: fmt.Sprintf("success-path write sequence %s; Thrift row %s; extracted events: %s", got, want, normSeqs(m.WSeqs(f)))})
	}
	l.Floor("WSEQ", 22)
	rshape := map[string]string{}
	for name, want := range thriftReaderRows {
		f := m.method("StreamReader", name)
		if f == nil {
			l.Unk("RSEQ", name, "", "method StreamReader."+name+" not found")
			continue
		}
		got := dedupShapes(shapeSeqs(m.RSeqs(f)))
		rshape[name] = got
		l.Add(core.Obligation{Rule: "RSEQ", Key: "StreamReader." + name, Pos: c.Rel(f.Pos()), Status: st(got == dedupShapes(want)),
			Detail: fmt.Sprintf("success-path read sequence %s; Thrift row %s; extracted events: %s", got, dedupShapes(want), normSeqs(m.RSeqs(f)))})
	}
	l.Floor("RSEQ", 18)
	// ReadBinary / ReadString: the number of bytes consumed is the value of the length just read
	for _, name := range []string{"ReadBinary", "ReadString"} {
		f := m.method("StreamReader", name)
		if f == nil {
			continue
		}
		ok := true
		why := ""
		for _, s := range m.RSeqs(f) {
			for _, e := range flattenAlts(s) {
				if strings.HasPrefix(e, "copyN(") || strings.HasPrefix(e, "readfull(") {
					if !strings.Contains(e, "ReadInt32($0)#0") {
						ok = false
						why = e
					}
				}
			}
		}
		l.Check(ok, "RSEQ-LEN", "StreamReader."+name, c.Rel(f.Pos()), "every bulk read consumes exactly the length returned by the preceding ReadInt32", "bulk read size is not the length just read: "+why)
	}
	// envelope begin (strict): shape with nested alt; checked in C12 in detail; here only the leading i32 and trailing seqid
	// 5. PAIR
	pairs := [][2]string{{"WriteInt8", "ReadInt8"}, {"WriteInt16", "ReadInt16"}, {"WriteInt32", "ReadInt32"}, {"WriteInt64", "ReadInt64"},
		{"WriteDouble", "ReadDouble"}, {"WriteListBegin", "ReadListBegin"}, {"WriteSetBegin", "ReadSetBegin"}, {"WriteMapBegin", "ReadMapBegin"}}
	for _, p := range pairs {
		w, r := wshape[p[0]], rshape[p[1]]
		l.Check(w != "" && w == r, "PAIR", p[0]+"/"+p[1], "", "writer and reader rows agree: "+w, "writer row "+w+" differs from reader row "+r)
	}
	// field header: the reader's long path equals the writer row; the short path is the stop byte written by WriteStructEnd
	{
		w := wshape["WriteFieldBegin"]
		r := rshape["ReadFieldBegin"]
		stop := wshape["WriteStructEnd"]
		l.Check(strings.Contains(r, w) && stop == "[u8=0]" && strings.Contains(r, "[u8:Type]"), "PAIR", "WriteFieldBegin+WriteStructEnd/ReadFieldBegin", "",
			"field header "+w+" and stop byte "+stop+" match reader paths "+r, "field header "+w+" / stop "+stop+" do not match reader paths "+r)
		// the reader's stop test compares the type byte with 0 before reading an id
		f := m.method("StreamReader", "ReadFieldBegin")
		if f != nil {
			l.Check(stopTestOnTypeByte(f), "PAIR", "ReadFieldBegin.stop-test", c.Rel(f.Pos()), "the path that returns ok=false without reading an id is taken exactly when the type byte equals 0",
				"ReadFieldBegin does not decide end-of-struct by comparing the type byte with 0")
		}
	}
	l.Floor("PAIR", 9)

	checkFixedWidth(c, l, "FIXEDWIDTH")
	checkValueTab(c, l, m)
	checkContainers(c, l, m)
	checkWriterOwn(c, l, m)
	checkForEachOrder(c, l)
}

func st(ok bool) core.Status {
	if ok {
		return core.Discharged
	}
	return core.Violated
}

func flattenAlts(evs []string) []string {
	var out []string
	for _, e := range evs {
		e = strings.TrimPrefix(e, "loop:")
		if strings.HasPrefix(e, "alt{") && strings.HasSuffix(e, "}") {
			for _, a := range splitTop(e[4:len(e)-1], '|') {
				out = append(out, flattenAlts(splitTop(a, ' '))...)
			}
		} else if e != "" {
			out = append(out, e)
		}
	}
	return out
}

// stopTestOnTypeByte: in ReadFieldBegin some If compares the first value read
// (ReadInt8 result) with constant 0, and on its true edge no further read occurs
// before a return with ok=false.
func stopTestOnTypeByte(f *ssa.Function) bool {
	for _, b := range f.Blocks {
		ifi, ok := b.Instrs[len(b.Instrs)-1].(*ssa.If)
		if !ok {
			continue
		}
		for idx := 0; idx < 2; idx++ {
			for _, cmp := range core.EdgeFacts(ifi, idx) {
				if cmp.Op.String() != "==" {
					continue
				}
				k, isC := core.ConstInt(cmp.Y)
				if !isC || k != 0 {
					continue
				}
				ex, ok := core.Unop(cmp.X).(*ssa.Extract)
				if !ok || ex.Index != 0 {
					continue
				}
				call, ok := ex.Tuple.(*ssa.Call)
				if !ok || call.Call.StaticCallee() == nil || core.CanonName(call.Call.StaticCallee()) != "ReadInt8" {
					continue
				}
				// true edge block: returns with ok=false and nil error, no calls
				tb := b.Succs[idx]
				clean := true
				var ret *ssa.Return
				for _, in := range tb.Instrs {
					if _, isCall := in.(*ssa.Call); isCall {
						clean = false
					}
					if r, ok := in.(*ssa.Return); ok {
						ret = r
					}
				}
				if clean && ret != nil && len(ret.Results) == 3 {
					if kc, ok := ret.Results[1].(*ssa.Const); ok && kc.Value != nil && !constant.BoolVal(kc.Value) && core.IsNilErrorReturn(ret) {
						return true
					}
				}
			}
		}
	}
	return false
}

// ---- VALUE-TAB and DISPATCH ----------------------------------------------------

type valueRow struct {
	code    int64
	ctors   []*types.Func
	field   string // payload field of wire.Value
	goType  string
	getters []*types.Func
}

// valueTable derives, from wire/value.go, for each constructor NewValueX the
// type code it stores and the payload field, and for each getter the field it
// reads; constructor and getter are associated by (field, Go type).
func valueTable(c *core.Ctx, l *core.Ledger) map[int64]*valueRow {
	rows := map[int64]*valueRow{}
	wp := c.SSAPkg("wire")
	valueT := c.Pkg("wire").Types.Scope().Lookup("Value").Type()
	type getter struct {
		f      *types.Func
		field  string
		goType string
	}
	var getters []getter
	var names []string
	for n := range wp.Members {
		names = append(names, n)
	}
	sort.Strings(names)
	for _, n := range names {
		fn, ok := wp.Members[n].(*ssa.Function)
		if !ok || fn.Signature.Recv() != nil || fn.Signature.Results().Len() != 1 || !types.Identical(fn.Signature.Results().At(0).Type(), valueT) || fn.Signature.Params().Len() != 1 {
			continue
		}
		// constructor: stores typ const and one payload field
		var code int64 = -1
		field := ""
		payload := ""
		core.Instrs(fn, func(in ssa.Instruction) {
			st, ok := in.(*ssa.Store)
			if !ok {
				return
			}
			fa, ok := st.Addr.(*ssa.FieldAddr)
			if !ok {
				return
			}
			fld := core.FieldOf(fa)
			if k, ok := core.ConstInt(st.Val); ok && core.TypeLabel(fld.Type()) == "wire.Type" {
				code = k
			} else {
				field = core.FieldName(fld)
				payload = core.Sym(st.Val)
			}
		})
		if code < 0 || field == "" {
			continue
		}
		// the payload is the argument itself (through a total, bit-preserving conversion): a constructor that
		// looks at the value — to canonicalise NaNs, to clamp, to default — changes what is encoded
		if code == 2 || code == 3 || code == 4 || code == 6 || code == 8 || code == 10 {
			okPayload := payload == "$0" || payload == "math.Float64bits($0)" || len(fn.Blocks) > 1 && core.TypeLabel(fn.Signature.Params().At(0).Type()) == "bool"
			if core.TypeLabel(fn.Signature.Params().At(0).Type()) != "bool" && len(fn.Blocks) != 1 {
				okPayload = false
			}
			l.Check(okPayload, "VALUE-TAB", "ctor-payload:"+n, c.Rel(fn.Pos()), "the constructor stores its argument unconditionally: "+payload, "the constructor does not store its argument as it is (payload "+payload+fmt.Sprintf(", %d basic blocks): some values are altered before they are encoded", len(fn.Blocks)))
		}
		r := rows[code]
		if r == nil {
			r = &valueRow{code: code, field: field}
			rows[code] = r
		}
		if r.field != field {
			l.Bad("VALUE-TAB", "ctor:"+n, c.Rel(fn.Pos()), fmt.Sprintf("constructors for type code %d store different payload fields (%s vs %s)", code, r.field, field))
		}
		r.ctors = append(r.ctors, fn.Object().(*types.Func))
		if r.goType == "" {
			r.goType = core.TypeLabel(fn.Signature.Params().At(0).Type())
		}
	}
	// getters: methods of *Value with no params and one result reading exactly one payload field
	ms := c.Prog.MethodSets.MethodSet(types.NewPointer(valueT))
	for i := 0; i < ms.Len(); i++ {
		fn := c.Prog.MethodValue(ms.At(i))
		if fn == nil || fn.Signature.Params().Len() != 0 || fn.Signature.Results().Len() != 1 || len(fn.Blocks) == 0 {
			continue
		}
		fields := map[string]bool{}
		calls := 0
		core.Instrs(fn, func(in ssa.Instruction) {
			if fa, ok := in.(*ssa.FieldAddr); ok {
				fields[core.FieldName(core.FieldOf(fa))] = true
			}
			if call, ok := in.(*ssa.Call); ok && call.Call.StaticCallee() != nil && core.InRepo(call.Call.StaticCallee()) && recvNamed(call.Call.StaticCallee()) == "Value" {
				calls++
			}
		})
		if len(fields) != 1 || calls > 0 {
			continue
		}
		for fld := range fields {
			if fld == "typ" {
				continue
			}
			getters = append(getters, getter{fn.Object().(*types.Func), fld, core.TypeLabel(fn.Signature.Results().At(0).Type())})
		}
	}
	for _, r := range rows {
		for _, g := range getters {
			if g.field == r.field && g.goType == r.goType {
				r.getters = append(r.getters, g.f)
			}
		}
	}
	return rows
}

func checkValueTab(c *core.Ctx, l *core.Ledger, m *wireModel) {
	rows := valueTable(c, l)
	// frozen: type code -> Go representation and protocol row kind
	want := map[int64][2]string{
		2: {"bool", "u8"}, 3: {"int8", "u8"}, 4: {"float64", "be64"}, 6: {"int16", "be16"}, 8: {"int32", "be32"}, 10: {"int64", "be64"},
		11: {"[]byte", "be32 bytes"}, 12: {"wire.Struct", ""}, 13: {"wire.MapItemList", ""}, 14: {"wire.ValueList", ""}, 15: {"wire.ValueList", ""},
	}
	for code, w := range want {
		r := rows[code]
		key := fmt.Sprintf("code%d", code)
		if r == nil {
			l.Bad("VALUE-TAB", key, "", fmt.Sprintf("no wire.Value constructor stores type code %d", code))
			continue
		}
		ok := r.goType == w[0] && len(r.getters) > 0
		l.Check(ok, "VALUE-TAB", key, c.Rel(r.ctors[0].Pos()),
			fmt.Sprintf("code %d: constructor %s(%s) stores field %s; getter(s) %s read the same field with the same Go type", code, r.ctors[0].Name(), r.goType, r.field, funcNames(r.getters)),
			fmt.Sprintf("code %d: constructor takes %s (Thrift maps it to %s) / no getter reads field %s as %s", code, r.goType, w[0], r.field, r.goType))
	}
	l.Floor("VALUE-TAB", 11)

	// DISPATCH-W: Writer.WriteValue path per case K writes getter(K) with the row kind of K
	wv := m.method("Writer", "WriteValue")
	rv := m.method("reader", "ReadValue")
	if wv == nil || rv == nil {
		l.Unk("DISPATCH", "anchors", "", "Writer.WriteValue / reader.ReadValue not found")
		return
	}
	wpaths := map[int64][]string{}
	for _, s := range m.WSeqs(wv) {
		if len(s) > 0 && strings.HasPrefix(s[0], "case:") {
			var k int64
			fmt.Sscanf(s[0], "case:%d", &k)
			wpaths[k] = s[1:]
		}
	}
	rpaths := map[int64][]string{}
	for _, s := range m.RSeqs(rv) {
		if len(s) > 0 && strings.HasPrefix(s[0], "case:") {
			var k int64
			fmt.Sscanf(s[0], "case:%d", &k)
			rpaths[k] = s[1:]
		}
	}
	containerFn := map[int64][2]string{12: {"writeStruct", "readStructStream"}, 13: {"writeMap", "readMapStream"}, 14: {"writeSet", "readSetStream"}, 15: {"writeList", "readListStream"}}
	for code, w := range want {
		r := rows[code]
		if r == nil {
			continue
		}
		key := fmt.Sprintf("code%d", code)
		ws, ok := wpaths[code]
		if !ok {
			l.Bad("DISPATCH-W", key, c.Rel(wv.Pos()), "Writer.WriteValue has no success path selected by this type code")
		} else {
			flat := normRepl.Replace(strings.Join(ws, " "))
			usesGetter := false
			for _, g := range r.getters {
				if strings.Contains(flat, "v."+g.Name()+"($1)") {
					usesGetter = true
				}
			}
			kindOK := true
			if w[1] != "" {
				var kinds []string
				for _, e := range flattenAlts(ws) {
					if strings.HasPrefix(e, "if(") {
						continue
					}
					kinds = append(kinds, strings.SplitN(strings.SplitN(shape(e), ":", 2)[0], "=", 2)[0])
				}
				got := strings.Join(kinds, " ")
				if code == 2 {
					kindOK = got == "u8 u8"
				} else {
					kindOK = got == w[1]
				}
			} else {
				kindOK = len(ws) == 1 && strings.HasPrefix(ws[0], "call:"+containerFn[code][0]+"(")
			}
			l.Check(usesGetter && kindOK, "DISPATCH-W", key, c.Rel(wv.Pos()),
				fmt.Sprintf("type code %d is written as %s from %s", code, shapeSeq(ws), funcNames(r.getters)),
				fmt.Sprintf("type code %d: events %s — expected kind %q fed by one of the getters %s of that code", code, flat, w[1], funcNames(r.getters)))
		}
		rs, ok := rpaths[code]
		if !ok {
			l.Bad("DISPATCH-R", key, c.Rel(rv.Pos()), "reader.ReadValue has no success path selected by this type code")
			continue
		}
		flat := normRepl.Replace(strings.Join(rs, " "))
		kindOK := true
		if w[1] != "" {
			var kinds []string
			seen := map[string]bool{}
			for _, e := range flattenAlts(rs) {
				k := strings.SplitN(shape(e), ":", 2)[0]
				if w[1] == "be32 bytes" {
					if !seen[k] {
						seen[k] = true
						kinds = append(kinds, k)
					}
				} else {
					kinds = append(kinds, k)
				}
			}
			kindOK = strings.Join(kinds, " ") == w[1]
		} else {
			kindOK = len(rs) == 1 && strings.HasPrefix(rs[0], "call:"+containerFn[code][1]+"(")
		}
		// constructor used in the case clause
		ctorOK := caseUsesCtor(c, rv, code, r.ctors)
		l.Check(kindOK && ctorOK, "DISPATCH-R", key, c.Rel(rv.Pos()),
			fmt.Sprintf("type code %d is read as %s and wrapped by %s", code, shapeSeq(rs), funcNames(r.ctors)),
			fmt.Sprintf("type code %d: events %s (expected kind %q) / constructor for that code used: %v", code, flat, w[1], ctorOK))
	}
	l.Floor("DISPATCH-W", 11)
	l.Floor("DISPATCH-R", 11)
}

func funcNames(fs []*types.Func) string {
	var out []string
	for _, f := range fs {
		out = append(out, f.Name())
	}
	sort.Strings(out)
	return strings.Join(out, "/")
}

// caseUsesCtor: in fn's declaration, the case clause for constant `code`
// of the switch over wire.Type calls one of ctors.
func caseUsesCtor(c *core.Ctx, fn *ssa.Function, code int64, ctors []*types.Func) bool {
	obj, _ := fn.Object().(*types.Func)
	fd := c.Decl(obj)
	if fd == nil {
		return false
	}
	info := c.DeclPkg(obj).TypesInfo
	for _, sw := range core.Switches(info, fd.Body) {
		if sw.IsType {
			continue
		}
		for _, cc := range sw.Clauses {
			match := false
			for _, e := range cc.List {
				if tv, ok := info.Types[e]; ok && tv.Value != nil {
					if k, ok := constant.Int64Val(tv.Value); ok && k == code {
						match = true
					}
				}
			}
			if !match {
				continue
			}
			found := false
			for _, s := range cc.Body {
				ast.Inspect(s, func(n ast.Node) bool {
					if call, ok := n.(*ast.CallExpr); ok {
						var id *ast.Ident
						switch f := call.Fun.(type) {
						case *ast.Ident:
							id = f
						case *ast.SelectorExpr:
							id = f.Sel
						}
						if id != nil {
							for _, ct := range ctors {
								if info.Uses[id] == ct {
									found = true
								}
							}
						}
					}
					return true
				})
			}
			return found
		}
	}
	return false
}

// ---- containers -----------------------------------------------------------------

func checkContainers(c *core.Ctx, l *core.Ledger, m *wireModel) {
	if os.Getenv("VDEBUG") != "" {
		for _, code := range []int64{2, 3, 4, 6, 8, 10, 11, 12, 13, 14, 15} {
			fmt.Fprintln(os.Stderr, "WSIG", code, m.writeSignature(code))
		}
	}
	// WRITE-SIG: what Writer.WriteValue puts on the wire per container wire type, helpers explored in
	// place and ForEach callbacks resolved through the stores that bind them (names do not occur)
	want := map[int64]string{
		11: "be32(len((*wire.Value).GetBinary($1))) bytes((*wire.Value).GetBinary($1))",
		12: "loop:u8((*wire.Value).Type((*wire.Value).GetStruct($1).Fields[i].Value)) loop:be16((*wire.Value).GetStruct($1).Fields[i].ID) loop:call:WriteValue((*wire.Value).GetStruct($1).Fields[i].Value) u8(c:0) | u8(c:0)",
		13: "u8((wire.MapItemList).KeyType((*wire.Value).GetMap($1))) u8((wire.MapItemList).ValueType((*wire.Value).GetMap($1))) be32((wire.MapItemList).Size((*wire.Value).GetMap($1))) foreach:(*wire.Value).GetMap($1){call:WriteValue($1.Key) call:WriteValue($1.Value)}",
		14: "u8((wire.ValueList).ValueType((*wire.Value).GetSet($1))) be32((wire.ValueList).Size((*wire.Value).GetSet($1))) foreach:(*wire.Value).GetSet($1){call:WriteValue($1)}",
		15: "u8((wire.ValueList).ValueType((*wire.Value).GetList($1))) be32((wire.ValueList).Size((*wire.Value).GetList($1))) foreach:(*wire.Value).GetList($1){call:WriteValue($1)}",
	}
	names := map[int64]string{11: "TBinary", 12: "TStruct", 13: "TMap", 14: "TSet", 15: "TList"}
	for _, code := range []int64{11, 12, 13, 14, 15} {
		got := m.writeSignature(code)
		l.Check(got == want[code], "CONTAINER-W", "WriteValue("+names[code]+")", "", "the value-based serializer frames this wire type per the protocol: "+got, "framing of this wire type is ["+got+"]; the protocol row is ["+want[code]+"]")
	}
	// reader side
	rexp := []struct{ name, want string }{
		{"readStructStream", "[alt{u8:Type|u8:Type be16:ID}] | [alt{u8:Type|u8:Type be16:ID} loop:call:ReadValue loop:alt{u8:Type|u8:Type be16:ID}]"},
		{"readListStream", "[u8:Type be32:Length call:skipListItems]"},
		{"readSetStream", "[u8:Type be32:Length call:skipListItems]"},
		{"readMapStream", "[u8:KeyType u8:ValueType be32:Length call:skipMapItems]"},
	}
	for _, e := range rexp {
		f := m.method("reader", e.name)
		if f == nil {
			l.Unk("CONTAINER-R", "reader."+e.name, "", "function not found")
			continue
		}
		got := shapeSeqs(m.RSeqs(f))
		got = stripCallArgs(got)
		// whether the header read sits before the loop and at its end, or once at its top, is the same
		// sequence of reads: the repetition is carried by the value read in between
		got = dedupShapes(strings.ReplaceAll(got, "loop:alt{", "alt{"))
		want := strings.ReplaceAll(e.want, "loop:alt{", "alt{")
		l.Add(core.Obligation{Rule: "CONTAINER-R", Key: "reader." + e.name, Pos: c.Rel(f.Pos()), Status: st(got == dedupShapes(want)),
			Detail: "framing sequence " + got + "; expected " + dedupShapes(want) + "; events " + normSeqs(m.RSeqs(f))})
	}
	// the skip pass is called with the header's own types and length
	skipArgs := map[string]string{
		"readListStream": "call:skipListItems(sr.ReadListBegin($0.sr)#0.Type,sr.ReadListBegin($0.sr)#0.Length)",
		"readSetStream":  "call:skipListItems(sr.ReadSetBegin($0.sr)#0.Type,sr.ReadSetBegin($0.sr)#0.Length)",
		"readMapStream":  "call:skipMapItems(sr.ReadMapBegin($0.sr)#0.KeyType,sr.ReadMapBegin($0.sr)#0.ValueType,sr.ReadMapBegin($0.sr)#0.Length)",
	}
	for name, want := range skipArgs {
		f := m.method("reader", name)
		if f == nil {
			continue
		}
		s := normSeqs(m.RSeqs(f))
		l.Check(strings.Contains(s, want), "CONTAINER-HDR", "reader."+name, c.Rel(f.Pos()), "items are validated by skipping exactly (type, length) of the header just read", "skip pass arguments are not the header's own element type(s) and length: "+s)
	}
	// struct: the value is read with the type of the field header just read
	if f := m.method("reader", "readStructStream"); f != nil {
		s := normSeqs(m.RSeqs(f))
		l.Check(regexp.MustCompile(`call:ReadValue\(alloc:\w+\.Type,`).MatchString(s) || strings.Contains(s, ".Type,$0.or.offset)"), "CONTAINER-HDR", "reader.readStructStream", c.Rel(f.Pos()),
			"each field value is read with the wire type of its own header", "field value is not read with the header's type: "+s)
	}
	checkLazyHeader(c, l, m)
	l.Floor("CONTAINER-W", 5)
	l.Floor("CONTAINER-R", 4)
	l.Floor("CONTAINER-HDR", 4)
}

var reCallArgs = regexp.MustCompile(`call:(\w+)\(`)

// stripCallArgs removes the argument lists of call: events.
func stripCallArgs(s string) string {
	var b strings.Builder
	for {
		loc := reCallArgs.FindStringIndex(s)
		if loc == nil {
			b.WriteString(s)
			return b.String()
		}
		b.WriteString(s[:loc[1]-1])
		depth := 0
		i := loc[1] - 1
		for ; i < len(s); i++ {
			if s[i] == '(' {
				depth++
			} else if s[i] == ')' {
				depth--
				if depth == 0 {
					break
				}
			}
		}
		if i >= len(s) {
			return b.String()
		}
		s = s[i+1:]
	}
}

// checkLazyHeader: in read{List,Set,Map}Stream the lazy container's count and
// type fields are stored from the header just read and its startOffset from
// the reader offset loaded *before* the skip pass.
func checkLazyHeader(c *core.Ctx, l *core.Ledger, m *wireModel) {
	want := map[string]map[string]string{
		"readListStream": {"count": "ReadListBegin($0.sr)#0.Length", "typ": "ReadListBegin($0.sr)#0.Type"},
		"readSetStream":  {"count": "ReadSetBegin($0.sr)#0.Length", "typ": "ReadSetBegin($0.sr)#0.Type"},
		"readMapStream":  {"count": "ReadMapBegin($0.sr)#0.Length", "ktype": "ReadMapBegin($0.sr)#0.KeyType", "vtype": "ReadMapBegin($0.sr)#0.ValueType"},
	}
	for name, flds := range want {
		f := m.method("reader", name)
		if f == nil {
			continue
		}
		got := map[string]string{}
		var startLoad ssa.Instruction
		var skipCall ssa.Instruction
		readerAtOK := false
		core.WalkInlined(f, inlineHelpers("skipListItems", "skipMapItems", "skipStruct", "skipMap", "skipList"), func(in ssa.Instruction, via []*ssa.Call) {
			if call, ok := in.(*ssa.Call); ok && call.Call.StaticCallee() != nil && strings.HasPrefix(core.CanonName(call.Call.StaticCallee()), "skip") && len(via) == 0 {
				skipCall = in
			}
			st, ok := in.(*ssa.Store)
			if !ok {
				return
			}
			fa, ok := st.Addr.(*ssa.FieldAddr)
			if !ok {
				return
			}
			n := lazyFieldRole(c, fa)
			if n == "" {
				return
			}
			got[n] = normRepl.Replace(core.Sym(st.Val))
			if n == "startOffset" || n == "readerAt" {
				// the reader's own cursor / source: a field of a struct-typed field of the receiver ($0.x.y)
				if regexp.MustCompile(`^\$0\.\w+\.\w+$`).MatchString(got[n]) {
					if n == "startOffset" && core.TypeLabel(stripConv(st.Val).Type()) == "int64" {
						got[n] = "$0.or.offset"
					} else if n == "readerAt" && core.TypeLabel(st.Val.Type()) == "io.ReaderAt" {
						got[n] = "$0.or.reader"
					}
				}
			}
			if n == "startOffset" {
				v := st.Val
				for {
					if cv, isCv := v.(*ssa.Convert); isCv {
						v = cv.X
						continue
					}
					break
				}
				if ld, ok := core.ArgOf(v).(*ssa.UnOp); ok {
					startLoad = ld
				}
			}
			if n == "readerAt" && strings.HasSuffix(got[n], ".or.reader") {
				readerAtOK = true
			}
		})
		ok := true
		var why []string
		for fld, w := range flds {
			if !strings.Contains(got[fld], w) {
				ok = false
				why = append(why, fld+"="+got[fld]+" (want "+w+")")
			}
		}
		if !strings.HasSuffix(got["startOffset"], ".or.offset") {
			ok = false
			why = append(why, "startOffset="+got["startOffset"])
		}
		if !readerAtOK {
			ok = false
			why = append(why, "readerAt="+got["readerAt"])
		}
		// the offset load precedes the skip call
		if startLoad == nil || skipCall == nil || !(startLoad.Block() == skipCall.Block() && indexIn(startLoad) < indexIn(skipCall) || startLoad.Block().Dominates(skipCall.Block()) && startLoad.Block() != skipCall.Block()) {
			ok = false
			why = append(why, "start offset is not captured before the skip pass")
		}
		l.Check(ok, "LAZY-HDR", "reader."+name, c.Rel(f.Pos()), "lazy container fields come from the header just read; start offset captured before the skip pass; same ReaderAt", strings.Join(why, "; "))
	}
	l.Floor("LAZY-HDR", 3)
}

func indexIn(in ssa.Instruction) int {
	for i, x := range in.Block().Instrs {
		if x == in {
			return i
		}
	}
	return -1
}

// ---- ownership of the underlying writer ------------------------------------------

func checkWriterOwn(c *core.Ctx, l *core.Ledger, m *wireModel) {
	n := 0
	for _, f := range c.AllFuncs("protocol/binary") {
		core.Instrs(f, func(in ssa.Instruction) {
			call, ok := in.(ssa.CallInstruction)
			if ok && call.Common().IsInvoke() && call.Common().Method.Name() == "Write" && core.TypeLabel(call.Common().Value.Type()) == "io.Writer" {
				n++
				l.Check(f == m.wprim, "OWN-WRITE", core.SSAName(f), c.Rel(in.Pos()), "the only io.Writer.Write call of the package is the write primitive",
					"io.Writer.Write is called outside the single write primitive: bytes can bypass the StreamWriter rows")
			}
			// loads of StreamWriter.writer
			if ld, ok := in.(*ssa.UnOp); ok {
				if fld, _ := core.LoadedField(ld); fld != nil && core.FieldName(fld) == "writer" && core.TypeLabel(fld.Type()) == "io.Writer" {
					if f != m.wprim {
						l.Bad("OWN-WRITE", core.SSAName(f)+":load", c.Rel(in.Pos()), "the wrapped io.Writer is read outside the write primitive")
					}
				}
			}
		})
	}
	l.Floor("OWN-WRITE", 1)
	// Writer reaches bytes only through its StreamWriter: Writer methods call no io function at all
	for _, f := range c.AllFuncs("protocol/binary") {
		if recvNamed(f) != "Writer" {
			continue
		}
		bad := ""
		core.Instrs(f, func(in ssa.Instruction) {
			if call, ok := in.(ssa.CallInstruction); ok {
				if o := core.CalleeObj(call); o != nil && o.Pkg() != nil && (o.Pkg().Path() == "io" || o.Pkg().Path() == "bytes" || o.Pkg().Path() == "bufio") {
					bad = o.FullName()
				}
			}
		})
		l.Check(bad == "", "OWN-WRITER", core.SSAName(f), c.Rel(f.Pos()), "value writer emits bytes only through StreamWriter methods", "value writer calls "+bad+" directly")
	}
}

// ---- ForEach order -----------------------------------------------------------------

func checkForEachOrder(c *core.Ctx, l *core.Ledger) {
	cases := []struct{ rel, typ string }{
		{"wire", "sliceValueList"}, {"wire", "sliceMapItemList"},
		{"protocol/binary", "lazyValueList"}, {"protocol/binary", "lazyMapItemList"},
	}
	for _, cs := range cases {
		fobj := c.LookupFunc(cs.rel, cs.typ+".ForEach")
		key := cs.rel + "." + cs.typ + ".ForEach"
		if fobj == nil {
			l.Unk("ORDER", key, "", "ForEach implementation not found")
			continue
		}
		fd := c.Decl(fobj)
		info := c.DeclPkg(fobj).TypesInfo
		var loops []ast.Stmt
		ast.Inspect(fd.Body, func(n ast.Node) bool {
			switch n.(type) {
			case *ast.RangeStmt, *ast.ForStmt:
				loops = append(loops, n.(ast.Stmt))
			}
			return true
		})
		if len(loops) != 1 {
			l.Bad("ORDER", key, c.Rel(fd.Pos()), fmt.Sprintf("expected exactly one loop, found %d", len(loops)))
			continue
		}
		ok := false
		why := ""
		switch lp := loops[0].(type) {
		case *ast.RangeStmt:
			t := info.TypeOf(lp.X)
			if _, isSlice := t.Underlying().(*types.Slice); isSlice {
				ok = true
				why = "range over a slice visits indices in ascending order"
			} else {
				why = "range over " + t.String() + " has no defined order"
			}
		case *ast.ForStmt:
			// counted ascending loop: i := 0; i < n; i++
			inc, isInc := lp.Post.(*ast.IncDecStmt)
			cond, isCond := lp.Cond.(*ast.BinaryExpr)
			if isInc && inc.Tok.String() == "++" && isCond && cond.Op.String() == "<" {
				ok = true
				why = "counted ascending loop; offsets are threaded through successive reads"
			} else {
				why = "loop is not a counted ascending loop"
			}
		}
		// no break/continue/goto reordering inside
		ast.Inspect(loops[0], func(n ast.Node) bool {
			if b, isB := n.(*ast.BranchStmt); isB {
				ok = false
				why = "loop body contains " + b.Tok.String()
			}
			return true
		})
		l.Check(ok, "ORDER", key, c.Rel(loops[0].Pos()), why, why)
	}
	l.Floor("ORDER", 4)
}

// checkFixedWidth: the table behind the skip fast paths maps each fixed-width
// wire type to the byte width of its row and everything else to a value <= 0.
func checkFixedWidth(c *core.Ctx, l *core.Ledger, rule string) {
	want := map[int64]int64{2: 1, 3: 1, 4: 8, 6: 2, 8: 4, 10: 8}
	fobj := c.MustFunc(l, rule, "protocol/binary", "fixedWidth")
	if fobj == nil {
		return
	}
	fd := c.Decl(fobj)
	got, defaultVal, why := fixedWidthTable(c)
	if why != "" {
		l.Unk(rule, "shape", c.Rel(fd.Pos()), why)
		return
	}
	for code := range wireTypeCodes {
		k := wireTypeCodes[code]
		g, listed := got[k]
		if !listed {
			g = defaultVal
		}
		w, fixed := want[k]
		key := "fixedWidth[" + code + "]"
		if fixed {
			l.Check(g == w, rule, key, c.Rel(fd.Pos()), fmt.Sprintf("width %d equals the width of the type's protocol row", g), fmt.Sprintf("fixedWidth(%s)=%d but the Thrift row is %d bytes wide: skipping consumes a different number of bytes than reading", code, g, w))
		} else {
			l.Check(g <= 0, rule, key, c.Rel(fd.Pos()), "variable-width type is not on the fixed-width fast path", fmt.Sprintf("fixedWidth(%s)=%d but the type has no fixed width", code, g))
		}
	}
	l.Floor(rule, 11)
}

// fixedWidthTable extracts the function protocol/binary.fixedWidth as a finite
// table: either a single value switch whose clauses return constants, or a
// lookup `return T[t]` in a package-level array/map initialised by a literal
// with constant keys and values (optionally behind guards that return a
// constant). Anything else is reported as not extractable.
func fixedWidthTable(c *core.Ctx) (got map[int64]int64, def int64, why string) {
	fobj := c.LookupFunc("protocol/binary", "fixedWidth")
	f := c.SSAFunc(fobj)
	if f == nil || len(f.Params) != 1 {
		return nil, 0, "fixedWidth not found"
	}
	// every value of the parameter's type (wire.Type is a one-byte integer)
	var dom []int64
	lo, hi := int64(-128), int64(127)
	if b, ok := f.Params[0].Type().Underlying().(*types.Basic); ok && b.Kind() == types.Uint8 {
		lo, hi = 0, 255
	}
	for k := lo; k <= hi; k++ {
		dom = append(dom, k)
	}
	res, prob := c.FiniteTable(f, 0, dom)
	if len(prob) > 0 {
		var ks []int64
		for k := range prob {
			ks = append(ks, k)
		}
		sort.Slice(ks, func(i, j int) bool { return ks[i] < ks[j] })
		return nil, 0, fmt.Sprintf("fixedWidth(%d): %s", ks[0], prob[ks[0]])
	}
	got = map[int64]int64{}
	// the default is the value for an arbitrary code outside the Thrift table
	def = res[hi].I
	for k, v := range res {
		if v.Kind != core.CInt {
			return nil, 0, "fixedWidth does not return an integer constant"
		}
		if v.I != def {
			got[k] = v.I
		}
	}
	return got, def, ""
}

// tableWrittenElsewhere reports a store into the package-level variable v
// outside its initialiser.
func tableWrittenElsewhere(c *core.Ctx, v *types.Var) string {
	for _, f := range c.AllFuncs(strings.TrimPrefix(strings.TrimPrefix(v.Pkg().Path(), core.ModPath), "/")) {
		bad := ""
		core.Instrs(f, func(in ssa.Instruction) {
			st, ok := in.(*ssa.Store)
			if !ok {
				return
			}
			addr := st.Addr
			for {
				switch x := addr.(type) {
				case *ssa.IndexAddr:
					addr = x.X
					continue
				case *ssa.FieldAddr:
					addr = x.X
					continue
				}
				break
			}
			if g, ok := addr.(*ssa.Global); ok && g.Object() == v {
				bad = "fixedWidth's table is written at " + c.Rel(in.Pos())
			}
		})
		if bad != "" {
			return bad
		}
	}
	return ""
}

// fixedWidthOf: the value fixedWidth returns for a wire type constant (0 when
// the table cannot be extracted).
func fixedWidthOf(c *core.Ctx, k *types.Const) int64 {
	got, def, why := fixedWidthTable(c)
	if why != "" {
		return 0
	}
	kv, _ := constant.Int64Val(k.Val())
	if v, ok := got[kv]; ok {
		return v
	}
	return def
}

func stripConv(v ssa.Value) ssa.Value {
	for {
		if cv, ok := v.(*ssa.Convert); ok {
			v = cv.X
			continue
		}
		return v
	}
}

// lazyFieldRole names a field of a lazy container by what it is used for: the
// field its Size / ValueType / KeyType accessor returns (count, typ or vtype,
// ktype), its io.ReaderAt (readerAt) and its int64 (startOffset). "" for fields
// of other structs.
func lazyFieldRole(c *core.Ctx, fa *ssa.FieldAddr) string {
	fld := core.FieldOf(fa)
	if fld == nil {
		return ""
	}
	pt, ok := fa.X.Type().Underlying().(*types.Pointer)
	if !ok {
		return ""
	}
	named, ok := pt.Elem().(*types.Named)
	if !ok || named.Obj().Pkg() == nil || !strings.HasSuffix(named.Obj().Pkg().Path(), "protocol/binary") {
		return ""
	}
	isMap := false
	accessor := map[string]string{"Size": "count", "ValueType": "typ", "KeyType": "ktype"}
	ms := types.NewMethodSet(types.NewPointer(named))
	has := map[string]bool{}
	for i := 0; i < ms.Len(); i++ {
		has[ms.At(i).Obj().Name()] = true
	}
	if !has["Size"] || !has["ForEach"] {
		return "" // not a lazy container
	}
	if has["KeyType"] {
		isMap = true
		accessor["ValueType"] = "vtype"
	}
	_ = isMap
	for i := 0; i < ms.Len(); i++ {
		role, tracked := accessor[ms.At(i).Obj().Name()]
		if !tracked {
			continue
		}
		fn, _ := ms.At(i).Obj().(*types.Func)
		f := c.SSAFunc(fn)
		if f == nil {
			continue
		}
		hit := false
		core.Instrs(f, func(in ssa.Instruction) {
			if r, isR := in.(*ssa.Return); isR && len(r.Results) == 1 {
				if f2, _ := core.LoadedField(stripConv(r.Results[0])); f2 == fld {
					hit = true
				}
			}
		})
		if hit {
			return role
		}
	}
	switch core.TypeLabel(fld.Type()) {
	case "io.ReaderAt":
		return "readerAt"
	case "int64":
		return "startOffset"
	}
	return core.FieldName(fld)
}
