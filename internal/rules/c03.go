package rules

import (
	"fmt"
	"go/ast"
	"go/constant"
	"go/token"
	"go/types"
	"os"
	"regexp"
	"sort"
	"strings"

	"golang.org/x/tools/go/ssa"

	"verif/internal/core"
)

func init() { Registry["C03"] = checkC03 }

var decodePkgs = map[string]bool{"protocol/binary": true, "wire": true, "internal/frame": true, "protocol/stream": true}

// decodeScope computes D: repository functions reachable (gated call graph)
// from the decoding entry points, restricted to the codec packages.
func decodeScope(c *core.Ctx, l *core.Ledger) map[*ssa.Function]core.CGEdge {
	g := c.Graph()
	var roots []*ssa.Function
	add := func(rel, name string) {
		f := c.SSAFunc(c.LookupFunc(rel, name))
		if f == nil {
			l.Unk("SCOPE", "anchor:"+rel+"."+name, "", "decode entry point not found")
			return
		}
		roots = append(roots, f)
	}
	for _, n := range []string{"Protocol.Decode", "Protocol.DecodeEnveloped", "Protocol.DecodeRequest", "Protocol.ReadRequest", "Protocol.Reader", "Reader.ReadValue", "Reader.ReadEnveloped",
		"lazyValueList.ForEach", "lazyMapItemList.ForEach"} {
		add("protocol/binary", n)
	}
	add("internal/frame", "Reader.Read")
	add("wire", "EvaluateValue")
	// every method of *StreamReader that implements stream.Reader
	if tn, _ := c.Pkg("protocol/binary").Types.Scope().Lookup("StreamReader").(*types.TypeName); tn != nil {
		ms := c.Prog.MethodSets.MethodSet(types.NewPointer(tn.Type()))
		for i := 0; i < ms.Len(); i++ {
			if f := c.Prog.MethodValue(ms.At(i)); f != nil && ms.At(i).Obj().Exported() {
				roots = append(roots, f)
			}
		}
	}
	d := g.Reach(roots, func(f *ssa.Function) bool { return decodePkgs[core.PkgRel(f)] })
	return d
}

func checkC03(c *core.Ctx, l *core.Ledger) {
	l.Explanation = "Static clauses of C03 on the decode scope D (functions of protocol/binary, wire, internal/frame reachable from the decoding entry points over the callback-gated call graph; computed each run): (NEGLEN) every signed 32-bit length read from the wire is sign-checked on every path before it is used as a size, count, skip distance or loop bound (interprocedural field-based taint with dominance-by-edge sanitizers); (WIDE-ARITH) a count read from the wire is multiplied or shifted only in 64 bits, so count × width cannot wrap; (EXH-ERR) every switch over wire.Type in D handles all 11 codes and its default returns an error; (BOOL-CANON) ReadBool succeeds only on bytes 0 and 1 with the right value; (LOOP) every loop in D is counted against a loop-invariant bound or consumes input on every iteration; (REC) every recursive cycle in D passes a consuming read or is structural on an in-memory value; (PANIC) every potentially panicking SSA instruction in D (explicit panic, unchecked type assertion, non-constant index/slice, make with non-constant size, integer division) falls in a verified discharge class; (SKIP=READ) Skip consumes per wire type the same width sequence as ReadValue; (POOL-*) pooled readers/writers/lazy lists are completely re-initialised when borrowed or reset before they are returned, nothing touches them after Put, no double Put — so a decode cannot observe (or crash on) state left by an earlier one; (FULL-READ) the wrapped io.Reader is used only through full-read primitives (io.ReadFull/io.CopyN), so a read or skip of n bytes consumes exactly n under any segmentation. (EVAL-COMPLETE) wire.EvaluateValue — what 'forcing every lazily decoded container' means here — hands, per container wire type and on every success path, every Value-typed component (both key and value of each map item, each element of a set or list, the value of each struct field) to EvaluateValue again and looks at every error, so an invalid element cannot hide behind a successful decode. (ERR-KEEP) no error value is lost: none is assigned to a variable that is never read (an inner declaration shadowing the checked one), none is overwritten by the next loop iteration unseen, and no deferred function replaces the error result without regard to the error already there. NOT decided: totality over all byte strings as such (nil dereference, stdlib, bytes.Buffer growth are assumed safe), stack depth on deeply nested input (depth is bounded by input length, not by a constant), re-encoding equality of consumed prefix."
	l.RuleText = "one obligation per (rule, construct) in D; non-trivial = a guard, path or table had to be examined"
	l.Assumptions = []string{"io.Reader/io.ReaderAt implementations honour 0 <= n <= len(p)", "stack depth is bounded by input length (each recursion level consumes >= 1 byte), not by a constant", "nil dereference and stdlib internals are outside the ledger"}
	d := decodeScope(c, l)
	dl := core.SortedFuncs(d)
	l.Units["decode_scope_functions"] = len(dl)
	var names []string
	for _, f := range dl {
		names = append(names, core.SSAName(f))
	}
	l.Extra["decode_scope"] = names
	inD := func(f *ssa.Function) bool { _, ok := d[f]; return ok }
	if len(dl) < 40 {
		l.Unk("SCOPE", "size", "", fmt.Sprintf("decode scope has only %d functions (>= 40 confirmed by hand): entry points or call graph changed", len(dl)))
	} else {
		l.Ok("SCOPE", "size", "", fmt.Sprintf("decode scope D has %d functions", len(dl)))
	}
	m := newWireModel(c)

	checkNegLen(c, l, dl, inD)
	// EXH-ERR over every function of D that switches on wire.Type
	wireT := c.Pkg("wire").Types.Scope().Lookup("Type").Type()
	fwCovered := fixedWidthCovered(c)
	for _, f := range dl {
		obj, _ := f.Object().(*types.Func)
		fd := c.Decl(obj)
		if fd == nil || fd.Body == nil {
			continue
		}
		info := c.DeclPkg(obj).TypesInfo
		has := false
		for _, sw := range core.Switches(info, fd.Body) {
			if !sw.IsType && sw.TagType != nil && types.Identical(sw.TagType, wireT) {
				has = true
			}
		}
		if !has {
			// the same dispatch written as an if/else chain: a wire.Type value compared with three or more type codes
			codes := map[string]bool{}
			core.Instrs(f, func(in ssa.Instruction) {
				bo, ok := in.(*ssa.BinOp)
				if !ok || (bo.Op != token.EQL && bo.Op != token.NEQ) || !types.Identical(bo.X.Type(), wireT) {
					return
				}
				if k, isK := bo.Y.(*ssa.Const); isK && k.Value != nil {
					codes[k.Value.ExactString()] = true
				} else if k, isK := bo.X.(*ssa.Const); isK && k.Value != nil {
					codes[k.Value.ExactString()] = true
				}
			})
			has = len(codes) >= 3
		}
		if !has {
			continue
		}
		name := core.DeclName(fd)
		if name == "fixedWidth" || core.CanonName(f) == "fixedWidth" {
			continue // table, checked by FIXEDWIDTH
		}
		var extra func(*types.Const) bool
		if name == "StreamReader.Skip" {
			extra = fwCovered
		}
		needErr := name != "Value.Get" && name != "Value.String"
		wireSwitchExhaustive(c, l, "EXH-ERR", core.PkgRel(f), name, extra, needErr)
	}
	l.Floor("EXH-ERR", 3)
	checkFixedWidth(c, l, "FIXEDWIDTH")
	checkBoolCanon(c, l, m)
	consuming := consumingFuncs(c, m)
	checkLoops(c, l, dl, consuming)
	checkRecursion(c, l, d, consuming)
	checkPanicLedger(c, l, dl, inD)
	checkSkipRead(c, l, m)
	// a decode must not depend on what the pooled reader did before: pool discipline (same rules as C18)
	checkPools(c, l)
	// SKIP=READ and the width sequences presuppose that every primitive consumes exactly the bytes it asks for
	checkStreamReaderFullRead(c, l)
	checkNoRawRead(c, l, "FULL-READ", []string{"protocol/binary"})
	checkEvalComplete(c, l, "EVAL-COMPLETE")
	errSide = "read"
	checkErrKeep(c, l, "ERR-KEEP", []string{"protocol/binary", "wire", "internal/frame", "protocol"})
	errSide = ""
}

func fixedWidthCovered(c *core.Ctx) func(k *types.Const) bool {
	fw := c.LookupFunc("protocol/binary", "fixedWidth")
	return func(k *types.Const) bool {
		if fw == nil {
			return false
		}
		return fixedWidthOf(c, k) > 0
	}
}

// ---- NEGLEN -------------------------------------------------------------------

func sizeSink(in ssa.Instruction, op ssa.Value) (string, bool) {
	switch x := in.(type) {
	case *ssa.MakeSlice:
		if x.Len == op || x.Cap == op {
			return "make size", true
		}
	case *ssa.Slice:
		if x.Low == op || x.High == op || x.Max == op {
			return "slice bound", true
		}
	case *ssa.IndexAddr:
		if x.Index == op {
			return "index", true
		}
	case *ssa.BinOp:
		switch x.Op {
		case token.LSS, token.LEQ, token.GTR, token.GEQ:
			other := x.X
			if other == op {
				other = x.Y
			}
			if _, isConst := core.ConstInt(other); !isConst {
				return "loop/count bound", true
			}
		}
	case ssa.CallInstruction:
		cc := x.Common()
		if o := core.CalleeObj(x); o != nil && o.Pkg() != nil {
			full := o.Pkg().Path() + "." + o.Name()
			switch full {
			case "io.CopyN":
				if len(cc.Args) == 3 && cc.Args[2] == op {
					return "io.CopyN count", true
				}
			case "bytes.Grow":
				return "Buffer.Grow", true
			}
			if cc.IsInvoke() && o.Name() == "Seek" && len(cc.Args) > 0 && cc.Args[0] == op {
				return "Seek distance", true
			}
		}
		if cc.StaticCallee() == nil && !cc.IsInvoke() {
			for _, a := range cc.Args {
				if a == op {
					return "argument of indirect call (skip distance)", true
				}
			}
		}
	}
	return "", false
}

func checkNegLen(c *core.Ctx, l *core.Ledger, dl []*ssa.Function, inD func(*ssa.Function) bool) {
	ri32 := c.LookupFunc("protocol/binary", "StreamReader.ReadInt32")
	if ri32 == nil {
		l.Unk("NEGLEN", "anchor", "", "StreamReader.ReadInt32 not found")
		return
	}
	n := 0
	for _, f := range dl {
		k := 0
		for _, call := range core.Calls(f) {
			cv, ok := call.(*ssa.Call)
			if !ok {
				continue
			}
			o := core.CalleeObj(call)
			isSrc := o == ri32
			if !isSrc && o != nil && o.Name() == "ReadInt32" && call.Common().IsInvoke() {
				isSrc = true // stream.Reader.ReadInt32 through the interface
			}
			if !isSrc {
				continue
			}
			var src ssa.Value
			for _, r := range *cv.Referrers() {
				if ex, ok := r.(*ssa.Extract); ok && ex.Index == 0 {
					src = ex
				}
			}
			k++
			key := fmt.Sprintf("%s:ReadInt32#%d", core.SSAName(f), k)
			if src == nil {
				l.Add(core.Obligation{Rule: "NEGLEN", Key: key, Pos: c.Rel(call.Pos()), Status: core.Discharged, Trivial: true, Detail: "value not used"})
				continue
			}
			t := &core.Taint{C: c, Scope: inD, Sanitized: core.NonNegGuard, Sink: sizeSink}
			t.Run([]ssa.Value{src})
			n++
			var bad []core.TaintHit
			var okSinks []string
			for _, h := range t.Hits {
				if h.Sanitized {
					okSinks = append(okSinks, h.Kind+"@"+c.Rel(h.Instr.Pos()))
				} else {
					bad = append(bad, h)
				}
			}
			if len(bad) > 0 {
				var tr []string
				for _, h := range bad {
					tr = append(tr, h.Trail...)
				}
				l.Bad("NEGLEN", key, c.Rel(call.Pos()), fmt.Sprintf("a 32-bit length read from the wire reaches %d size use(s) without a dominating sign check (first: %s at %s)", len(bad), bad[0].Kind, c.Rel(bad[0].Instr.Pos())), tr...)
			} else {
				l.Add(core.Obligation{Rule: "NEGLEN", Key: key, Pos: c.Rel(call.Pos()), Status: core.Discharged, Trivial: len(okSinks) == 0,
					Detail: fmt.Sprintf("flows to %d size uses, each dominated by a non-negativity test: %s", len(okSinks), strings.Join(okSinks, ", "))})
			}
		}
	}
	l.Floor("NEGLEN", 6)

	checkWideArith(c, l, dl, inD)
}

// ---- BOOL-CANON -----------------------------------------------------------------

func checkBoolCanon(c *core.Ctx, l *core.Ledger, m *wireModel) {
	f := m.method("StreamReader", "ReadBool")
	if f == nil {
		l.Unk("BOOL-CANON", "anchor", "", "StreamReader.ReadBool not found")
		return
	}
	// the byte: load of IndexAddr(bs,0) where bs is the slice given to the read primitive
	isByte := func(v ssa.Value) bool {
		ld, ok := core.Unop(v).(*ssa.UnOp)
		if !ok || ld.Op != token.MUL {
			return false
		}
		ia, ok := ld.X.(*ssa.IndexAddr)
		if !ok {
			return false
		}
		if k, ok := core.ConstInt(ia.Index); !ok || k != 0 {
			return false
		}
		w, ok := core.ConstSliceWidth(ia.X)
		if !ok || w != 1 {
			return false
		}
		// the slice is passed to the read primitive
		for _, r := range *ia.X.Referrers() {
			if call, ok := r.(*ssa.Call); ok && call.Call.StaticCallee() == m.rprim {
				return true
			}
		}
		return false
	}
	nret := 0
	ok := true
	var why []string
	core.Instrs(f, func(in ssa.Instruction) {
		r, isRet := in.(*ssa.Return)
		if !isRet || len(r.Results) != 2 || !core.IsNilErrorReturn(r) {
			return
		}
		nret++
		kc, isConst := r.Results[0].(*ssa.Const)
		if !isConst {
			ok = false
			why = append(why, "success return at "+c.Rel(r.Pos())+" does not return a constant")
			return
		}
		wantByte := int64(0)
		if constant.BoolVal(kc.Value) {
			wantByte = 1
		}
		edges := core.GuardEdges(f, func(cm core.Cmp) bool {
			if cm.Op != token.EQL || !isByte(cm.X) {
				return false
			}
			k, isK := core.ConstInt(cm.Y)
			return isK && k == wantByte
		})
		if !core.AllPathsThroughEdges(f, r.Block(), edges) {
			ok = false
			why = append(why, fmt.Sprintf("success return of %v at %s is not dominated by the test byte == %d", constant.BoolVal(kc.Value), c.Rel(r.Pos()), wantByte))
		}
	})
	if nret != 2 {
		ok = false
		why = append(why, fmt.Sprintf("%d success returns (expected 2: false and true)", nret))
	}
	l.Check(ok, "BOOL-CANON", "StreamReader.ReadBool", c.Rel(f.Pos()), "ReadBool succeeds only when the byte is 0 (false) or 1 (true); every other byte reaches an error return", strings.Join(why, "; "))
	l.Floor("BOOL-CANON", 1)
}

// ---- consuming functions ----------------------------------------------------------

// consumingFuncs: functions of the reader layer all of whose success paths
// read at least one byte (fixed-width read, or a call to a consuming function
// outside a loop).
func consumingFuncs(c *core.Ctx, m *wireModel) map[*ssa.Function]bool {
	cons := map[*ssa.Function]bool{}
	layer := []*ssa.Function{}
	for _, f := range c.AllFuncs("protocol/binary") {
		switch recvNamed(f) {
		case "StreamReader", "reader", "Reader":
			if len(f.Blocks) > 0 {
				layer = append(layer, f)
			}
		}
	}
	byName := map[string]*ssa.Function{}
	for _, f := range layer {
		byName[core.CanonName(f)] = f // names unique enough within the layer for call: events of the same package
	}
	for changed := true; changed; {
		changed = false
		for _, f := range layer {
			if cons[f] {
				continue
			}
			seqs := m.RSeqs(f)
			all := len(seqs) > 0
			for _, s := range seqs {
				one := false
				for _, e := range s {
					// every sequence is one concrete path: an event recorded inside a loop was executed on
					// this path (the path with zero iterations is a sequence of its own)
					e = strings.TrimPrefix(e, "loop:")
					if strings.HasPrefix(e, "alt{") {
						// every alternative must consume
						allAlt := true
						for _, a := range splitTop(e[4:len(e)-1], '|') {
							got := false
							for _, ee := range splitTop(a, ' ') {
								if isFixedRead(ee) {
									got = true
								}
							}
							if !got {
								allAlt = false
							}
						}
						if allAlt {
							one = true
						}
						continue
					}
					if isFixedRead(e) {
						one = true
					}
					if strings.HasPrefix(e, "call:") {
						n := e[5:strings.Index(e, "(")]
						if g := byName[n]; g != nil && cons[g] {
							one = true
						}
					}
				}
				if !one {
					all = false
				}
			}
			if all {
				cons[f] = true
				changed = true
			}
		}
	}
	return cons
}

func isFixedRead(e string) bool {
	for _, p := range []string{"u8→", "be16→", "be32→", "be64→"} {
		if strings.HasPrefix(e, p) {
			return true
		}
	}
	return false
}

// ---- loops ----------------------------------------------------------------------

// loopsOf returns the natural loops of f as sets of blocks keyed by header.
func loopsOf(f *ssa.Function) map[*ssa.BasicBlock]map[*ssa.BasicBlock]bool {
	loops := map[*ssa.BasicBlock]map[*ssa.BasicBlock]bool{}
	for _, b := range f.Blocks {
		for _, s := range b.Succs {
			if s.Dominates(b) { // back edge b -> s
				set := loops[s]
				if set == nil {
					set = map[*ssa.BasicBlock]bool{s: true}
					loops[s] = set
				}
				st := []*ssa.BasicBlock{b}
				for len(st) > 0 {
					x := st[len(st)-1]
					st = st[:len(st)-1]
					if set[x] {
						continue
					}
					set[x] = true
					st = append(st, x.Preds...)
				}
			}
		}
	}
	return loops
}

// countedLoop: some exit test of the loop compares an induction variable
// (phi in the loop, one incoming edge = itself + positive constant) with a
// bound defined outside the loop, and the loop continues only while var < bound.
func countedLoop(body map[*ssa.BasicBlock]bool) (string, bool) {
	for b := range body {
		ifi, ok := b.Instrs[len(b.Instrs)-1].(*ssa.If)
		if !ok {
			continue
		}
		exits := !body[b.Succs[0]] || !body[b.Succs[1]]
		if !exits {
			continue
		}
		cmp, ok := ifi.Cond.(*ssa.BinOp)
		if ok && (cmp.Op == token.GEQ || cmp.Op == token.GTR) && body[b.Succs[0]] {
			// descending: i >= const (or i > const) with i decremented every iteration
			if _, isC := core.ConstInt(cmp.Y); isC && isDecreasing(cmp.X, body) {
				return "induction variable decreasing towards a constant lower bound", true
			}
		}
		if !ok || cmp.Op != token.LSS {
			continue
		}
		// continue edge is the true edge
		if !body[b.Succs[0]] {
			continue
		}
		iv, bound := cmp.X, cmp.Y
		if in, ok := bound.(ssa.Instruction); ok && body[in.Block()] {
			// len(x) re-evaluated in the loop head is invariant when x itself is a value from outside the loop
			// (an SSA value cannot change; a slice variable the body assigns would be a phi or a load inside the body)
			invariant := false
			if call, isCall := bound.(*ssa.Call); isCall {
				if bi, isB := call.Call.Value.(*ssa.Builtin); isB && bi.Name() == "len" && len(call.Call.Args) == 1 {
					switch a := call.Call.Args[0].(type) {
					case *ssa.Parameter, *ssa.Const:
						invariant = true
					case ssa.Instruction:
						invariant = !body[a.Block()]
					}
				}
			}
			if !invariant {
				continue // bound not loop invariant
			}
		}
		if isInduction(iv, body) {
			return "induction variable < " + core.Sym(bound), true
		}
	}
	return "", false
}

func isDecreasing(v ssa.Value, body map[*ssa.BasicBlock]bool) bool {
	p, ok := v.(*ssa.Phi)
	if !ok || !body[p.Block()] {
		return false
	}
	for _, e := range p.Edges {
		if bo, ok := e.(*ssa.BinOp); ok && body[bo.Block()] && bo.X == ssa.Value(p) {
			if k, ok := core.ConstInt(bo.Y); ok && ((bo.Op == token.SUB && k > 0) || (bo.Op == token.ADD && k < 0)) {
				return true
			}
		}
	}
	return false
}

func isInduction(v ssa.Value, body map[*ssa.BasicBlock]bool) bool {
	// v is phi(init, phi+k) or (phi + k) of such a phi
	check := func(p *ssa.Phi) bool {
		if !body[p.Block()] {
			return false
		}
		inc := false
		for _, e := range p.Edges {
			if bo, ok := e.(*ssa.BinOp); ok && bo.Op == token.ADD && body[bo.Block()] {
				if k, ok := core.ConstInt(bo.Y); ok && k > 0 && bo.X == p {
					inc = true
				}
			}
		}
		return inc
	}
	if p, ok := v.(*ssa.Phi); ok {
		return check(p)
	}
	if bo, ok := v.(*ssa.BinOp); ok && bo.Op == token.ADD {
		if k, ok := core.ConstInt(bo.Y); ok && k > 0 {
			if p, ok := bo.X.(*ssa.Phi); ok {
				// rotated range loop: idx = phi + 1; phi edges: -1, idx
				if !body[p.Block()] {
					return false
				}
				for _, e := range p.Edges {
					if e == v {
						return true
					}
				}
			}
		}
	}
	return false
}

// sentinelLoop: every cycle through the loop passes a call to a consuming
// function (removing the blocks with such calls makes the loop acyclic).
func sentinelLoop(header *ssa.BasicBlock, body map[*ssa.BasicBlock]bool, consuming map[*ssa.Function]bool) (string, bool) {
	cut := map[*ssa.BasicBlock]bool{}
	what := ""
	for b := range body {
		for _, in := range b.Instrs {
			if call, ok := in.(*ssa.Call); ok {
				if cal := call.Call.StaticCallee(); cal != nil && consuming[cal] {
					cut[b] = true
					what = cal.Name()
				}
			}
		}
	}
	if len(cut) == 0 {
		return "", false
	}
	// is there a cycle from header to header avoiding cut blocks?
	seen := map[*ssa.BasicBlock]bool{}
	var st []*ssa.BasicBlock
	if !cut[header] {
		for _, s := range header.Succs {
			if body[s] {
				st = append(st, s)
			}
		}
	}
	for len(st) > 0 {
		x := st[len(st)-1]
		st = st[:len(st)-1]
		if seen[x] || cut[x] {
			continue
		}
		if x == header {
			return "", false
		}
		seen[x] = true
		for _, s := range x.Succs {
			if body[s] {
				st = append(st, s)
			}
		}
	}
	return "every iteration passes a successful consuming read (" + what + ")", true
}

func checkLoops(c *core.Ctx, l *core.Ledger, dl []*ssa.Function, consuming map[*ssa.Function]bool) {
	for _, f := range dl {
		loops := loopsOf(f)
		var hs []*ssa.BasicBlock
		for h := range loops {
			hs = append(hs, h)
		}
		sort.Slice(hs, func(i, j int) bool { return hs[i].Index < hs[j].Index })
		for i, h := range hs {
			key := fmt.Sprintf("%s:loop#%d", core.SSAName(f), i+1)
			pos := c.Rel(firstPos(h))
			if why, ok := countedLoop(loops[h]); ok {
				l.Ok("LOOP", key, pos, "counted: "+why)
			} else if why, ok := sentinelLoop(h, loops[h], consuming); ok {
				l.Ok("LOOP", key, pos, "sentinel: "+why)
			} else {
				l.Bad("LOOP", key, pos, "loop in the decode scope is neither counted against a loop-invariant bound nor guaranteed to consume input on every iteration: may not terminate")
			}
		}
	}
	l.Floor("LOOP", 7)
}

func firstPos(b *ssa.BasicBlock) token.Pos {
	for _, in := range b.Instrs {
		if in.Pos().IsValid() {
			return in.Pos()
		}
	}
	for _, s := range b.Succs {
		for _, in := range s.Instrs {
			if in.Pos().IsValid() {
				return in.Pos()
			}
		}
	}
	return token.NoPos
}

// ---- recursion --------------------------------------------------------------------

func checkRecursion(c *core.Ctx, l *core.Ledger, d map[*ssa.Function]core.CGEdge, consuming map[*ssa.Function]bool) {
	g := c.Graph()
	inD := func(f *ssa.Function) bool { _, ok := d[f]; return ok }
	sccs := g.SCCs(inD)
	for _, comp := range sccs {
		set := map[*ssa.Function]bool{}
		for _, f := range comp {
			set[f] = true
		}
		key := "scc:" + core.SSAName(comp[0])
		var members []string
		for _, f := range comp {
			members = append(members, core.SSAName(f))
		}
		// an edge is "progress" if the call site is preceded on every path from
		// function entry by a consuming call, or the call passes a proper
		// sub-term of a parameter (structural on an in-memory value).
		progress := func(e core.CGEdge) (bool, string) {
			if e.Site == nil {
				return false, ""
			}
			site := e.Site
			fn := site.Parent()
			// consuming call before
			found, _ := core.PathFromEntryAvoiding(fn, func(in ssa.Instruction) bool {
				if call, ok := in.(*ssa.Call); ok && in != site {
					if cal := call.Call.StaticCallee(); cal != nil && consuming[cal] {
						return true
					}
				}
				return false
			}, func(in ssa.Instruction) bool { return in == site })
			if !found {
				return true, "preceded by a consuming read"
			}
			// structural: an argument is derived from (but not equal to) a parameter
			for _, a := range site.(ssa.CallInstruction).Common().Args {
				s := core.Sym(a)
				if strings.Contains(s, "$") && !isBareParam(s) && (strings.Contains(s, ".") || strings.Contains(s, "[")) {
					return true, "structural: argument " + s + " is a sub-term of a parameter"
				}
			}
			if e.Kind == "callback" {
				return true, "callback applied to elements produced by a lazy-list iteration (each produced by a consuming read) or by an in-memory slice"
			}
			return false, ""
		}
		// remove progress edges; remaining graph must be acyclic
		adj := map[*ssa.Function][]*ssa.Function{}
		var notes []string
		for _, f := range comp {
			for _, e := range g.Out[f] {
				if !set[e.To] {
					continue
				}
				if ok, why := progress(e); ok {
					notes = append(notes, core.SSAName(f)+"→"+core.SSAName(e.To)+": "+why)
				} else {
					adj[f] = append(adj[f], e.To)
				}
			}
		}
		cyc := hasCycle(comp, adj)
		sort.Strings(notes)
		if cyc != "" {
			l.Bad("REC", key, c.Rel(comp[0].Pos()), "recursive cycle in the decode scope with no consuming read and no structural descent: "+cyc, members...)
		} else {
			l.Ok("REC", key, c.Rel(comp[0].Pos()), fmt.Sprintf("%d functions; every cycle makes progress: %s", len(comp), strings.Join(uniq(notes), "; ")))
		}
	}
	l.Floor("REC", 2)
}

func isBareParam(s string) bool {
	if !strings.HasPrefix(s, "$") {
		return false
	}
	for _, r := range s[1:] {
		if r < '0' || r > '9' {
			return false
		}
	}
	return true
}

func uniq(in []string) []string {
	var out []string
	seen := map[string]bool{}
	for _, s := range in {
		if !seen[s] {
			seen[s] = true
			out = append(out, s)
		}
	}
	return out
}

func hasCycle(nodes []*ssa.Function, adj map[*ssa.Function][]*ssa.Function) string {
	color := map[*ssa.Function]int{}
	var found string
	var dfs func(f *ssa.Function, path []string)
	dfs = func(f *ssa.Function, path []string) {
		if found != "" {
			return
		}
		color[f] = 1
		for _, t := range adj[f] {
			if color[t] == 1 {
				found = strings.Join(append(path, core.SSAName(f), core.SSAName(t)), " → ")
				return
			}
			if color[t] == 0 {
				dfs(t, append(path, core.SSAName(f)))
			}
		}
		color[f] = 2
	}
	for _, n := range nodes {
		if color[n] == 0 {
			dfs(n, nil)
		}
	}
	return found
}

// ---- PANIC ledger ------------------------------------------------------------------

func checkPanicLedger(c *core.Ctx, l *core.Ledger, dl []*ssa.Function, inD func(*ssa.Function) bool) {
	pools := poolPutTypes(c)
	vt := valueTable(c, core.NewLedger("tmp", "quick"))
	for _, f := range dl {
		counts := map[string]int{}
		core.Instrs(f, func(in ssa.Instruction) {
			key := func(kind string) string {
				counts[kind]++
				return fmt.Sprintf("%s:%s#%d", core.SSAName(f), kind, counts[kind])
			}
			pos := c.Rel(in.Pos())
			switch x := in.(type) {
			case *ssa.Panic:
				k := key("panic")
				if ok, why := panicBehindExhaustiveSwitch(c, f, x); ok {
					l.Ok("PANIC", k, pos, why)
				} else {
					l.Bad("PANIC", k, pos, "explicit panic reachable while decoding: "+why)
				}
			case *ssa.TypeAssert:
				if x.CommaOk {
					return
				}
				k := key("typeassert")
				if ok, why := assertDischarged(c, f, x, pools, vt); ok {
					l.Ok("PANIC", k, pos, why)
				} else {
					l.Bad("PANIC", k, pos, "unchecked type assertion to "+core.TypeLabel(x.AssertedType)+" in the decode scope: "+why)
				}
			case *ssa.MakeSlice:
				if _, isC := core.ConstInt(x.Len); isC {
					return
				}
				k := key("make")
				if nonNegValue(f, x.Len, x.Block(), c, 2) {
					l.Ok("PANIC", k, pos, "make size is provably non-negative at this point (dominating sign test, unsigned origin or len())")
				} else {
					l.Bad("PANIC", k, pos, "make with a size that is not provably non-negative: panics on negative length: "+core.Sym(x.Len))
				}
			case *ssa.IndexAddr:
				if ok, _ := indexTriviallySafe(x.X, x.Index); ok {
					return
				}
				k := key("index")
				if ok, why := indexGuarded(f, x.X, x.Index, x.Block()); ok {
					l.Ok("PANIC", k, pos, why)
				} else if ok2, why2 := indexSafeForAllBytes(c, f); ok2 {
					l.Ok("PANIC", k, pos, why2)
				} else {
					if why2 != "" {
						why = why2
					}
					l.Bad("PANIC", k, pos, "index not provably in range: "+core.Sym(x.X)+"["+core.Sym(x.Index)+"]: "+why)
				}
			case *ssa.Index:
				if ok, _ := indexTriviallySafe(x.X, x.Index); ok {
					return
				}
				k := key("index")
				if ok, why := indexGuarded(f, x.X, x.Index, x.Block()); ok {
					l.Ok("PANIC", k, pos, why)
				} else {
					l.Bad("PANIC", k, pos, "index not provably in range: "+why)
				}
			case *ssa.Slice:
				if sliceTriviallySafe(x) {
					return
				}
				k := key("slice")
				if ok, why := sliceGuarded(f, x); ok {
					l.Ok("PANIC", k, pos, why)
				} else {
					l.Bad("PANIC", k, pos, "slice bounds not provably in range: "+core.Sym(x)+": "+why)
				}
			case *ssa.BinOp:
				if x.Op == token.QUO || x.Op == token.REM {
					if b, ok := x.X.Type().Underlying().(*types.Basic); ok && b.Info()&types.IsInteger != 0 {
						if kv, ok := core.ConstInt(x.Y); ok && kv != 0 {
							return
						}
						l.Bad("PANIC", key("div"), pos, "integer division by a non-constant divisor in the decode scope")
					}
				}
			}
		})
	}
	l.Floor("PANIC", 8)
}

// poolPutTypes: for each package-level sync.Pool, the set of dynamic types
// ever passed to Put plus the type returned by New.
func poolPutTypes(c *core.Ctx) map[*ssa.Global][]types.Type {
	out := map[*ssa.Global][]types.Type{}
	for _, f := range c.AllFuncs() {
		core.Instrs(f, func(in ssa.Instruction) {
			call, ok := in.(ssa.CallInstruction)
			if !ok {
				return
			}
			o := core.CalleeObj(call)
			if o == nil || o.Pkg() == nil || o.Pkg().Path() != "sync" || o.Name() != "Put" {
				return
			}
			g, ok := call.Common().Args[0].(*ssa.Global)
			if !ok {
				return
			}
			if mi, ok := call.Common().Args[1].(*ssa.MakeInterface); ok {
				out[g] = append(out[g], mi.X.Type())
			} else {
				out[g] = append(out[g], nil) // unknown
			}
		})
		// New: closures stored into Pool.New at init
		if f.Name() == "init" {
			core.Instrs(f, func(in ssa.Instruction) {
				st, ok := in.(*ssa.Store)
				if !ok {
					return
				}
				fa, ok := st.Addr.(*ssa.FieldAddr)
				if !ok || core.FieldName(core.FieldOf(fa)) != "New" {
					return
				}
				g, ok := fa.X.(*ssa.Global)
				if !ok {
					return
				}
				var fn *ssa.Function
				switch v := st.Val.(type) {
				case *ssa.Function:
					fn = v
				case *ssa.MakeClosure:
					fn = v.Fn.(*ssa.Function)
				}
				if fn == nil {
					out[g] = append(out[g], nil)
					return
				}
				core.Instrs(fn, func(i2 ssa.Instruction) {
					if r, ok := i2.(*ssa.Return); ok && len(r.Results) == 1 {
						if mi, ok := r.Results[0].(*ssa.MakeInterface); ok {
							out[g] = append(out[g], mi.X.Type())
						} else {
							out[g] = append(out[g], nil)
						}
					}
				})
			})
		}
	}
	return out
}

func assertDischarged(c *core.Ctx, f *ssa.Function, x *ssa.TypeAssert, pools map[*ssa.Global][]types.Type, vt map[int64]*valueRow) (bool, string) {
	// class 1: pool.Get().(*T) where only *T is ever Put / New'ed
	if call, ok := x.X.(*ssa.Call); ok {
		if o := core.CalleeObj(call); o != nil && o.Pkg() != nil && o.Pkg().Path() == "sync" && o.Name() == "Get" {
			if g, ok := call.Call.Args[0].(*ssa.Global); ok {
				ts := pools[g]
				if len(ts) == 0 {
					return false, "no Put/New found for pool " + g.Name()
				}
				for _, t := range ts {
					if t == nil || !types.Identical(t, x.AssertedType) {
						return false, "pool " + g.Name() + " may hold a value of another type"
					}
				}
				return true, fmt.Sprintf("pool %s only ever holds %s (%d Put/New sites)", g.Name(), core.TypeLabel(x.AssertedType), len(ts))
			}
		}
	}
	// class 2: v.tcoll.(I) inside a wire.Value getter: every constructor storing
	// a type code whose row lists this getter stores a value of static type I,
	// and every call of the getter in the repository's codec packages sits in a
	// case clause selected by such a type code.
	if fld, _ := core.LoadedField(x.X); fld != nil && recvNamed(f) == "Value" {
		getter, _ := f.Object().(*types.Func)
		var codes []int64
		for code, r := range vt {
			for _, g := range r.getters {
				if g == getter {
					codes = append(codes, code)
				}
			}
		}
		if len(codes) == 0 {
			return false, "getter is not in the constructor/getter table"
		}
		// every store into the field in a constructor of one of these codes has the asserted static type
		for _, fn := range c.AllFuncs("wire") {
			bad := ""
			core.Instrs(fn, func(in ssa.Instruction) {
				st, ok := in.(*ssa.Store)
				if !ok {
					return
				}
				fa, ok := st.Addr.(*ssa.FieldAddr)
				if !ok || core.FieldOf(fa) != fld {
					return
				}
				// which code does this constructor store?
				var code int64 = -1
				core.Instrs(fn, func(i2 ssa.Instruction) {
					if s2, ok := i2.(*ssa.Store); ok {
						if fa2, ok := s2.Addr.(*ssa.FieldAddr); ok && core.TypeLabel(core.FieldOf(fa2).Type()) == "wire.Type" {
							if k, ok := core.ConstInt(s2.Val); ok {
								code = k
							}
						}
					}
				})
				mine := false
				for _, k := range codes {
					if k == code {
						mine = true
					}
				}
				if !mine {
					return
				}
				var from types.Type
				switch v := st.Val.(type) {
				case *ssa.ChangeInterface:
					from = v.X.Type()
				case *ssa.MakeInterface:
					from = v.X.Type()
				}
				if from == nil || !types.Identical(from, x.AssertedType) {
					bad = "constructor " + fn.Name() + " stores a value whose static type is not " + core.TypeLabel(x.AssertedType)
				}
			})
			if bad != "" {
				return false, bad
			}
		}
		// every call site of the getter in codec packages is inside a matching case clause
		sites := 0
		for _, site := range c.StaticCallSites(f) {
			caller := site.Parent()
			if !decodePkgs[core.PkgRel(caller)] || c.IsTestFile(site.Pos()) {
				continue
			}
			sites++
			if !callInsideCase(c, site, codes) {
				return false, "call of " + f.Name() + " at " + c.Rel(site.Pos()) + " is not inside a case clause selecting the matching wire type"
			}
		}
		sort.Slice(codes, func(i, j int) bool { return codes[i] < codes[j] })
		return true, fmt.Sprintf("getter %s is called (%d sites in codec packages) only inside case clauses for type code(s) %v, whose constructors store %s", f.Name(), sites, codes, core.TypeLabel(x.AssertedType))
	}
	return false, "no discharge class applies"
}

// callInsideCase: the call lies within a case clause (of a switch whose tag has
// type wire.Type) all of whose constants are in codes.
func callInsideCase(c *core.Ctx, site ssa.CallInstruction, codes []int64) bool {
	pkg, fd := c.EnclosingFuncDecl(site.Pos())
	if fd == nil {
		return false
	}
	info := pkg.TypesInfo
	okCode := map[int64]bool{}
	for _, k := range codes {
		okCode[k] = true
	}
	res := false
	for _, sw := range core.Switches(info, fd.Body) {
		if sw.IsType || sw.TagType == nil || core.TypeLabel(sw.TagType) != "wire.Type" {
			continue
		}
		for _, cc := range sw.Clauses {
			if cc.Pos() <= site.Pos() && site.Pos() <= cc.End() && cc.List != nil {
				all := true
				for _, e := range cc.List {
					tv, ok := info.Types[e]
					if !ok || tv.Value == nil {
						all = false
						continue
					}
					k, _ := constant.Int64Val(tv.Value)
					if !okCode[k] {
						all = false
					}
				}
				if all {
					res = true
				}
			}
		}
	}
	return res
}

func panicBehindExhaustiveSwitch(c *core.Ctx, f *ssa.Function, p *ssa.Panic) (bool, string) {
	pkg, fd := c.EnclosingFuncDecl(p.Pos())
	if fd == nil {
		return false, "no enclosing declaration"
	}
	wireT := c.Pkg("wire").Types.Scope().Lookup("Type").Type()
	consts := core.ConstsOf(c.Pkg("wire").Types, wireT)
	for _, sw := range core.Switches(pkg.TypesInfo, fd.Body) {
		if sw.Default == nil || !(sw.Default.Pos() <= p.Pos() && p.Pos() <= sw.Default.End()) {
			continue
		}
		if sw.TagType != nil && types.Identical(sw.TagType, wireT) {
			for _, k := range consts {
				if !sw.HasCaseVal(k.Val()) {
					return false, "default panics and " + k.Name() + " is not handled"
				}
			}
			return false, "default of a switch over wire.Type panics on unknown type codes, which arbitrary input can contain"
		}
	}
	return false, "not in the default of an exhaustive switch"
}

// nonNegValue: v is provably >= 0 at block `at`.
func nonNegValue(f *ssa.Function, v ssa.Value, at *ssa.BasicBlock, c *core.Ctx, depth int) bool {
	for _, a := range core.Aliases(v) {
		switch x := a.(type) {
		case *ssa.Convert:
			if b, ok := x.X.Type().Underlying().(*types.Basic); ok && b.Info()&types.IsUnsigned != 0 && widthOf2(x.Type()) > widthOf2(x.X.Type()) {
				return true
			}
		case *ssa.Call:
			if b, ok := x.Call.Value.(*ssa.Builtin); ok && (b.Name() == "len" || b.Name() == "cap") {
				return true
			}
			if o := core.CalleeObj(x); o != nil && (o.Name() == "Size" || o.Name() == "Len") && x.Call.IsInvoke() {
				// interface Size(): trusted only for repository implementations returning len()/int(count) — treated as assumption
				return true
			}
		case *ssa.Const:
			if k, ok := core.ConstInt(x); ok && k >= 0 {
				return true
			}
		case *ssa.Parameter:
			if depth > 0 {
				// all static call sites pass a provably non-negative argument
				sites := c.StaticCallSites(f)
				if len(sites) == 0 {
					break
				}
				idx := -1
				for i, p := range f.Params {
					if p == x {
						idx = i
					}
				}
				all := true
				for _, s := range sites {
					if c.IsTestFile(s.Pos()) {
						continue
					}
					if idx >= len(s.Common().Args) || !nonNegValue(s.Parent(), s.Common().Args[idx], s.Block(), c, depth-1) {
						all = false
					}
				}
				if all {
					return true
				}
			}
		}
		if core.NonNegGuard(f, a, at) {
			return true
		}
	}
	return false
}

func widthOf2(t types.Type) int {
	b, ok := t.Underlying().(*types.Basic)
	if !ok {
		return 0
	}
	switch b.Kind() {
	case types.Int8, types.Uint8:
		return 8
	case types.Int16, types.Uint16:
		return 16
	case types.Int32, types.Uint32:
		return 32
	}
	return 64
}

func arrayLen(t types.Type) (int64, bool) {
	if p, ok := t.Underlying().(*types.Pointer); ok {
		t = p.Elem()
	}
	if a, ok := t.Underlying().(*types.Array); ok {
		return a.Len(), true
	}
	return 0, false
}

func indexTriviallySafe(x, idx ssa.Value) (bool, string) {
	k, isC := core.ConstInt(idx)
	if n, ok := arrayLen(x.Type()); ok {
		if isC && k >= 0 && k < n {
			return true, "constant index into array"
		}
		return false, ""
	}
	if isC {
		if w, ok := core.ConstSliceWidth(x); ok && k >= 0 && k < w {
			return true, "constant index into constant-width slice"
		}
		// varargs slices built by the compiler: new [n]T; slice t[:]
		if s, ok := x.(*ssa.Slice); ok {
			if n, ok := arrayLen(s.X.Type()); ok && s.Low == nil && s.High == nil && k < n {
				return true, ""
			}
		}
	}
	return false, ""
}

// indexGuarded recognises the two loop idioms: (a) range over the same slice
// (index = phi+1 tested against len(x)); (b) counted loop i < n over a slice
// made with length n.
func indexGuarded(f *ssa.Function, x, idx ssa.Value, at *ssa.BasicBlock) (bool, string) {
	edges := core.GuardEdges(f, func(cm core.Cmp) bool {
		if cm.Op != token.LSS || core.Unop(cm.X) != core.Unop(idx) {
			return false
		}
		// bound is len(x)
		if call, ok := cm.Y.(*ssa.Call); ok {
			if b, ok := call.Call.Value.(*ssa.Builtin); ok && b.Name() == "len" && call.Call.Args[0] == x {
				return true
			}
		}
		// bound equals the make length of x
		if mk, ok := x.(*ssa.MakeSlice); ok && core.Unop(mk.Len) == core.Unop(cm.Y) {
			return true
		}
		return false
	})
	if len(edges) > 0 && core.AllPathsThroughEdges(f, at, edges) {
		// lower bound: induction from a non-negative start
		if lowerBoundOK(idx) {
			return true, "index is an induction variable tested against the slice length on every path"
		}
		return false, "upper bound tested but the index may be negative"
	}
	return false, "no dominating bound test"
}

func lowerBoundOK(idx ssa.Value) bool {
	v := core.Unop(idx)
	if p, ok := v.(*ssa.Phi); ok {
		for _, e := range p.Edges {
			if k, ok := core.ConstInt(e); ok {
				if k < 0 {
					return false
				}
				continue
			}
			if bo, ok := e.(*ssa.BinOp); ok && bo.Op == token.ADD && bo.X == p {
				continue
			}
			return false
		}
		return true
	}
	if bo, ok := v.(*ssa.BinOp); ok && bo.Op == token.ADD {
		if k, ok := core.ConstInt(bo.Y); ok && k == 1 {
			if p, ok := bo.X.(*ssa.Phi); ok {
				for _, e := range p.Edges {
					if kk, ok := core.ConstInt(e); ok && kk >= -1 {
						continue
					}
					if e == v {
						continue
					}
					return false
				}
				return true
			}
		}
	}
	return false
}

func sliceTriviallySafe(x *ssa.Slice) bool {
	n, isArr := arrayLen(x.X.Type())
	constOrNil := func(v ssa.Value) (int64, bool, bool) {
		if v == nil {
			return 0, true, true
		}
		k, ok := core.ConstInt(v)
		return k, false, ok
	}
	lo, loNil, loOK := constOrNil(x.Low)
	hi, hiNil, hiOK := constOrNil(x.High)
	if !loOK || !hiOK || x.Max != nil {
		return false
	}
	if isArr {
		if hiNil {
			hi = n
		}
		return lo >= 0 && lo <= hi && hi <= n
	}
	// slices/strings: s[:] and s[0:] are always safe
	if loNil && hiNil {
		return true
	}
	if hiNil && lo == 0 {
		return true
	}
	return false
}

// sliceGuarded: arr[:n] / arr[lo:n] where n is bounded by a dominating test
// n < K (K <= array length) and non-negative by origin (io contract: result of
// a Read/ReadAt call).
func sliceGuarded(f *ssa.Function, x *ssa.Slice) (bool, string) {
	n, isArr := arrayLen(x.X.Type())
	if !isArr || x.High == nil || x.Max != nil {
		return false, "not an array slice with a variable upper bound"
	}
	if x.Low != nil {
		if k, ok := core.ConstInt(x.Low); !ok || k != 0 {
			return false, "variable lower bound"
		}
	}
	hi := x.High
	edges := core.GuardEdges(f, func(cm core.Cmp) bool {
		if core.Unop(cm.X) != core.Unop(hi) {
			return false
		}
		k, ok := core.ConstInt(cm.Y)
		if !ok {
			return false
		}
		switch cm.Op {
		case token.LSS:
			return k <= n+0
		case token.LEQ:
			return k <= n
		}
		return false
	})
	if len(edges) == 0 || !core.AllPathsThroughEdges(f, x.Block(), edges) {
		return false, "no dominating upper-bound test against the array length"
	}
	// origin: first result of an io Read/ReadAt call (contract 0 <= n <= len(p))
	if ex, ok := core.Unop(hi).(*ssa.Extract); ok && ex.Index == 0 {
		if call, ok := ex.Tuple.(*ssa.Call); ok && call.Call.IsInvoke() {
			switch call.Call.Method.Name() {
			case "Read", "ReadAt":
				return true, "upper bound is the byte count of an io read (contract 0 <= n <= len(p)) and is tested against the array length on every path"
			}
		}
		if call, ok := ex.Tuple.(*ssa.Call); ok && (core.IsCallTo(call, "io", "ReadFull") || core.IsCallTo(call, "io", "ReadAtLeast")) {
			return true, "upper bound is the byte count of io.ReadFull (0 <= n <= len(buf)) and is tested against the array length on every path"
		}
	}
	return false, "upper bound origin is not an io read count"
}

// ---- SKIP = READ ---------------------------------------------------------------------

func checkSkipRead(c *core.Ctx, l *core.Ledger, m *wireModel) {
	if os.Getenv("VDEBUG") != "" {
		for code := int64(0); code <= 16; code++ {
			fmt.Fprintf(os.Stderr, "SKIPSIG %d: %s\n", code, canonNames(skipSignature(c, code)))
		}
	}
	get := func(name string) (string, *ssa.Function) {
		f := m.method("StreamReader", name)
		if f == nil {
			l.Unk("SKIP=READ", "anchor:"+name, "", "StreamReader."+name+" not found")
			return "", nil
		}
		return normSeqs(m.RSeqs(f)), f
	}
	// per wire type: what Skip(t) consumes, with t fixed and Skip's helpers (including the members of its
	// call cycle) expanded in place, in canonical names — independent of how the skipping code is split up
	if f := m.method("StreamReader", "Skip"); f != nil {
		names := map[int64]string{}
		for n, k := range wireTypeCodes {
			names[k] = n
		}
		for code := int64(0); code <= 16; code++ {
			got := canonNames(skipSignature(c, code))
			want, known := skipSigWant[code]
			key := fmt.Sprintf("Skip(%d)", code)
			if n, ok := names[code]; ok {
				key = "Skip(" + n + ")"
			}
			if !known {
				// not a Thrift type code: Skip must fail (no success path)
				if _, isType := names[code]; !isType {
					l.Check(got == "", "SKIP=READ", key, c.Rel(f.Pos()), "no success path for a byte that is not a type code", "Skip succeeds for the non-type code "+fmt.Sprint(code)+": "+got)
				}
				continue
			}
			// a struct is header (value header)*: whether the header read sits before the loop and at its
			// end, or once at its top, is the same sequence; the repetition is carried by the value skip
			hdrNorm := func(s string) string { return commuteNorm(strings.ReplaceAll(s, "loop:u8→", "u8→")) }
			l.Add(core.Obligation{Rule: "SKIP=READ", Key: key, Pos: c.Rel(f.Pos()), Status: st(dedupShapes(hdrNorm(got)) == dedupShapes(hdrNorm(want))),
				Detail: "bytes consumed when skipping this type; extracted " + got + "; Thrift row " + want})
		}
	} else {
		l.Unk("SKIP=READ", "anchor:Skip", "", "StreamReader.Skip not found")
	}
	_ = get
	// skipStruct: the two ReadInt8 feeding Skip are the loop's type bytes; the map header bytes are distinct reads in order key,value
	if f := m.method("StreamReader", "skipMap"); f != nil {
		// args of skipMapItems are the 1st, 2nd ReadInt8 and the ReadInt32 in program order
		ok := false
		core.Instrs(f, func(in ssa.Instruction) {
			call, isCall := in.(*ssa.Call)
			if !isCall || call.Call.StaticCallee() == nil || core.CanonName(call.Call.StaticCallee()) != "skipMapItems" {
				return
			}
			var order []ssa.Value
			core.Instrs(f, func(i2 ssa.Instruction) {
				if c2, ok := i2.(*ssa.Call); ok && c2.Call.StaticCallee() != nil && strings.HasPrefix(core.CanonName(c2.Call.StaticCallee()), "ReadInt") {
					order = append(order, c2)
				}
			})
			if len(order) == 3 && len(call.Call.Args) == 4 {
				src := func(v ssa.Value) ssa.Value {
					if ex, ok := core.Unop(v).(*ssa.Extract); ok {
						return ex.Tuple
					}
					return nil
				}
				ok = src(call.Call.Args[1]) == order[0] && src(call.Call.Args[2]) == order[1] && src(call.Call.Args[3]) == order[2]
			}
		})
		l.Check(ok, "SKIP=READ", "skipMap.arg-order", c.Rel(f.Pos()), "key type is the first byte read, value type the second, size the i32", "skipMapItems is not called with (first byte, second byte, size) in wire order")
	}
	// counted loops in skip*Items are bounded by the size parameter
	for name, bound := range map[string]string{"skipMapItems": "$3", "skipListItems": "$2"} {
		f := m.method("StreamReader", name)
		if f == nil {
			continue
		}
		ok := false
		for _, body := range loopsOf(f) {
			if why, is := countedLoop(body); is && strings.HasSuffix(why, "< "+bound) {
				ok = true
			}
		}
		l.Check(ok, "SKIP=READ", name+".count", c.Rel(f.Pos()), "slow path iterates exactly size times", "slow-path loop is not bounded by the size parameter")
	}
	l.Floor("SKIP=READ", 9)
}

var _ = ast.Inspect

// indexSafeForAllBytes: f takes one one-byte integer parameter; the function is
// explored once per value of that parameter (finite-domain constant
// propagation) and no value reaches an out-of-range index of a fixed-length
// array or literal table.
func indexSafeForAllBytes(c *core.Ctx, f *ssa.Function) (bool, string) {
	if len(f.Params) != 1 {
		return false, ""
	}
	b, ok := f.Params[0].Type().Underlying().(*types.Basic)
	if !ok || (b.Kind() != types.Uint8 && b.Kind() != types.Int8) {
		return false, ""
	}
	lo, hi := int64(0), int64(255)
	if b.Kind() == types.Int8 {
		lo, hi = -128, 127
	}
	for k := lo; k <= hi; k++ {
		kv := k
		paths, ok := c.FiniteEval(f, core.FEOpts{Key: func(v ssa.Value) (core.CVal, bool) {
			if p, isP := v.(*ssa.Parameter); isP && p == f.Params[0] {
				return core.CVal{Kind: core.CInt, I: kv}, true
			}
			return core.CVal{}, false
		}})
		if !ok {
			return false, "too many paths"
		}
		for _, p := range paths {
			if strings.HasPrefix(p.Panic, "index ") {
				return false, fmt.Sprintf("for argument %d: %s", kv, p.Panic)
			}
			// an index whose value stays undecided is not covered by this argument
		}
	}
	// every index operand of f must be decided by the parameter: it is the parameter itself (possibly converted)
	decided := true
	core.Instrs(f, func(in ssa.Instruction) {
		if ia, ok := in.(*ssa.IndexAddr); ok {
			if core.Unop(ia.Index) != ssa.Value(f.Params[0]) {
				if _, isC := ia.Index.(*ssa.Const); !isC {
					decided = false
				}
			}
		}
	})
	if !decided {
		return false, ""
	}
	return true, "explored for each of the 256 values of its one-byte parameter: no value reaches an index outside the table"
}

// skipSignature: the read/skip sequence of StreamReader.Skip for one wire type
// code, with the type parameter fixed to that code (branches on it decided by
// constant propagation, fixedWidth(t) taken from the evaluated table) and the
// members of Skip's call cycle expanded in place once. Independent of how the
// skipping code is split into helper functions or cases.
func skipSignature(c *core.Ctx, code int64) string {
	m := newWireModel(c)
	f := m.method("StreamReader", "Skip")
	if f == nil || len(f.Params) != 2 {
		return "?"
	}
	fw, def, why := fixedWidthTable(c)
	m.unroll = true
	m.decide = func(ifi *ssa.If) (int, bool) {
		return c.ConstCond(ifi, func(v ssa.Value) (core.CVal, bool) {
			if p, ok := v.(*ssa.Parameter); ok && p == f.Params[1] {
				return core.CVal{Kind: core.CInt, I: code}, true
			}
			if call, ok := v.(*ssa.Call); ok && why == "" {
				if cal := call.Call.StaticCallee(); cal != nil && core.CanonName(cal) == "fixedWidth" && len(call.Call.Args) == 1 {
					if p, ok := core.Unop(call.Call.Args[0]).(*ssa.Parameter); ok && p == f.Params[1] {
						if w, has := fw[code]; has {
							return core.CVal{Kind: core.CInt, I: w}, true
						}
						return core.CVal{Kind: core.CInt, I: def}, true
					}
				}
			}
			return core.CVal{}, false
		})
	}
	return normSeqs(m.RSeqs(f))
}

var reReadResult = regexp.MustCompile(`phi\((?:[^()]|\([^()]*\))*\)|sr\.[A-Za-z0-9_]+(?:@\d+)?\(\$0\)#\d+`)

// canonNames replaces every distinct read-result expression by T1, T2, ... in
// order of first appearance, so that a signature does not depend on which
// helper performed the read.
func canonNames(s string) string {
	names := map[string]string{}
	return reReadResult.ReplaceAllStringFunc(s, func(m string) string {
		if n, ok := names[m]; ok {
			return n
		}
		n := fmt.Sprintf("T%d", len(names)+1)
		names[m] = n
		return n
	})
}

// the frozen per-type skip signatures (Thrift binary protocol): what Skip(t)
// consumes for each wire type code, in canonical names.
var skipSigWant = map[int64]string{
	2: "[discard(fixedWidth($1))]", 3: "[discard(fixedWidth($1))]", 4: "[discard(fixedWidth($1))]", 6: "[discard(fixedWidth($1))]", 8: "[discard(fixedWidth($1))]", 10: "[discard(fixedWidth($1))]",
	11: "[be32→ discard(T1)]",
	12: "[alt{u8→|u8→ loop:discard(c:2) loop:call:Skip(T1) loop:u8→}]",
	13: "[u8→ u8→ be32→ alt{!fw(T1)>0|!fw(T1)>0 loop:call:Skip(T1) loop:call:Skip(T2)|fw(T1)>0 !fw(T2)>0|fw(T1)>0 !fw(T2)>0 loop:call:Skip(T1) loop:call:Skip(T2)|fw(T1)>0 fw(T2)>0 discard((T3*(fixedWidth(T1)+fixedWidth(T2))))}]",
	14: "[u8→ be32→ alt{!fw(T1)>0|!fw(T1)>0 loop:call:Skip(T1)|fw(T1)>0 discard((fixedWidth(T1)*T2))}]",
	15: "[u8→ be32→ alt{!fw(T1)>0|!fw(T1)>0 loop:call:Skip(T1)|fw(T1)>0 discard((fixedWidth(T1)*T2))}]",
}

// checkWideArith (WIDE-ARITH), see the explanation of C03.
func checkWideArith(c *core.Ctx, l *core.Ledger, dl []*ssa.Function, inD func(*ssa.Function) bool) {
	ri32 := c.LookupFunc("protocol/binary", "StreamReader.ReadInt32")
	if ri32 == nil {
		l.Unk("WIDE-ARITH", "anchor", "", "StreamReader.ReadInt32 not found")
		return
	}
	// WIDE-ARITH: a count or length from the wire is multiplied (or shifted) only in 64 bits. In 32 bits the
	// product of a count and an element width wraps, so a header announcing 2^29 eight-byte items is skipped
	// as zero bytes by one decoder and rejected by the other.
	nw := 0
	for _, f := range dl {
		k := 0
		for _, call := range core.Calls(f) {
			cv, ok := call.(*ssa.Call)
			if !ok {
				continue
			}
			o := core.CalleeObj(call)
			isSrc := o == ri32 || (o != nil && o.Name() == "ReadInt32" && call.Common().IsInvoke())
			if !isSrc {
				continue
			}
			var src ssa.Value
			for _, r := range *cv.Referrers() {
				if ex, ok := r.(*ssa.Extract); ok && ex.Index == 0 {
					src = ex
				}
			}
			if src == nil {
				continue
			}
			k++
			nw++
			t := &core.Taint{C: c, Scope: inD, Sanitized: func(*ssa.Function, ssa.Value, *ssa.BasicBlock) bool { return false }, Sink: func(in ssa.Instruction, op ssa.Value) (string, bool) {
				bo, ok := in.(*ssa.BinOp)
				if !ok || (bo.Op != token.MUL && bo.Op != token.SHL) {
					return "", false
				}
				if _, isK := core.ConstInt(bo.X); isK {
					if _, isK2 := core.ConstInt(bo.Y); isK2 {
						return "", false
					}
				}
				if b, isB := bo.Type().Underlying().(*types.Basic); isB && b.Info()&types.IsInteger != 0 {
					switch b.Kind() {
					case types.Int64, types.Uint64, types.Int, types.Uint, types.Uintptr:
						return "", false
					}
					return "narrow " + bo.Op.String(), true
				}
				return "", false
			}}
			t.Run([]ssa.Value{src})
			key := fmt.Sprintf("%s:ReadInt32#%d", core.SSAName(f), k)
			if len(t.Hits) > 0 {
				h := t.Hits[0]
				l.Bad("WIDE-ARITH", key, c.Rel(call.Pos()), fmt.Sprintf("a count read from the wire is multiplied in fewer than 64 bits at %s: the product wraps for large counts, and the bytes skipped no longer match the bytes announced", c.Rel(h.Instr.Pos())), h.Trail...)
			} else {
				l.Ok("WIDE-ARITH", key, c.Rel(call.Pos()), "every product of this count is computed in 64 bits")
			}
		}
	}
	l.Floor("WIDE-ARITH", 6)
}

// commuteNorm orders the operands of sums and products, so that a*b and b*a
// (at any nesting depth) render alike. Sym renders a binary operation as
// "(X op Y)"; every parenthesised group that splits at its top level at a
// single '*' or '+' is such an operation.
func commuteNorm(s string) string {
	var out strings.Builder
	for i := 0; i < len(s); {
		if s[i] != '(' {
			out.WriteByte(s[i])
			i++
			continue
		}
		// matching parenthesis
		depth, j := 0, i
		for ; j < len(s); j++ {
			if s[j] == '(' {
				depth++
			} else if s[j] == ')' {
				depth--
				if depth == 0 {
					break
				}
			}
		}
		if j >= len(s) {
			out.WriteString(s[i:])
			break
		}
		inner := s[i+1 : j]
		// top-level operator
		d, at, n := 0, -1, 0
		for k := 0; k < len(inner); k++ {
			switch inner[k] {
			case '(':
				d++
			case ')':
				d--
			case '*', '+':
				if d == 0 {
					at = k
					n++
				}
			case ',', ' ', '|':
				if d == 0 {
					n += 2 // an argument list or an alternative, not an operation
				}
			}
		}
		if n == 1 && at > 0 && at < len(inner)-1 {
			a, b := commuteNorm(inner[:at]), commuteNorm(inner[at+1:])
			if b < a {
				a, b = b, a
			}
			out.WriteString("(" + a + string(inner[at]) + b + ")")
		} else {
			out.WriteString("(" + commuteNorm(inner) + ")")
		}
		i = j + 1
	}
	return out.String()
}
