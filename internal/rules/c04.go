package rules

import (
	"fmt"
	"go/ast"
	"go/token"
	"go/types"
	"os"
	"regexp"
	"sort"
	"strings"

	"golang.org/x/tools/go/ssa"

	"verif/internal/core"
	"verif/internal/tmpl"
)

func init() { Registry["C04"] = checkC04 }

func variantsByAtoms(x *tmpl.Expansion) map[string]*tmpl.Variant {
	out := map[string]*tmpl.Variant{}
	for _, v := range x.Variants {
		out[v.AtomString()] = v
	}
	return out
}

var (
	reReadVal   = regexp.MustCompile(`ƒfromWire\(([^,()]+), [^()]*?(\([^()]*\))?[^()]*?\)`)
	reReadStr   = regexp.MustCompile(`ƒdecode\(([^,()]+), \w+\)`)
	reWriteVal  = regexp.MustCompile(`ƒtoWire\(([^,()]+), `)
	reWriteStr  = regexp.MustCompile(`ƒencode\(([^,()]+), `)
	reReadTypes = regexp.MustCompile(`ƒ(?:fromWire|decode)\((δˑSpecˑ\w+)`)
)

func checkC04(c *core.Ctx, l *core.Ledger) {
	l.Explanation = "Static clauses of C04 (sibling agreement), on every feasible shape class of each template pair: (SIB-DECODE) FromWire and Decode of struct-like types have the same field arms (id guard, type guard, assignment target, required/optional form, presence flags) and the same post-loop checks; (SIB-ENCODE) ToWire and Encode write each field under the same guard, nil-check, default substitution and arity check; (SIB-CONTAINER) the value and stream forms of list/set/map readers decode the same element types in the same order and build the collection the same way, and of the writers check and write the same elements; the one intentional asymmetry (type-mismatched container: absent vs. skip exactly Length elements) is the CONTAINER-MISMATCH rule of C05; (SIB-WRAPPER) typedef, enum and struct helper pairs are identical up to the path-specific primitive; (SIB-REQUEST) the two request decoders have identical classification arms (with C12); (FULL-READ) every use of the StreamReader's wrapped io.Reader is an argument of io.ReadFull or io.CopyN (or a reset/type test), so how the byte stream is split into reads cannot influence what is decoded. (WIDE-ARITH) a count read from the wire is multiplied only in 64 bits: a 32-bit product wraps, and the pre-scan of the value-based reader then accepts a container header the streaming decoder rejects. (W-FAIL-CAUSES) the serializers of protocol/binary (StreamWriter, Writer and everything they reach in the package) originate an error only when re-wording one they received or for a wire type outside the protocol — no condition on the content or shape of a valid value (nesting depth, string content) makes a serializer fail. (ERR-KEEP) no error value is lost: none is assigned to a variable that is never read (an inner declaration shadowing the checked one), none is overwritten by the next loop iteration unseen, and no deferred function replaces the error result without regard to the error already there. (POOL-*) pooled stream readers are completely re-initialised when borrowed, so the streaming result cannot depend on what the reader was used for before. NOT decided: equality of the decoded Go values; behaviour on invalid Go values."
	l.RuleText = "one obligation per (template pair, shape class)"
	l.Exhaustive = true
	mod := tmpl.Extract(c)
	elems := 1
	if l.Tier == "thorough" {
		elems = 2
	}
	xs := expansions(c, elems)

	// SIB-DECODE
	tf, td := findTemplate(mod, "fieldGroupGenerator.FromWire#1"), findTemplate(mod, "fieldGroupGenerator.Decode#1")
	if tf == nil || td == nil {
		l.Unk("SIB-DECODE", "anchor", "", "struct decoder templates not found")
	} else {
		vf, vd := variantsByAtoms(xs[tf]), variantsByAtoms(xs[td])
		keys := map[string]bool{}
		for k := range vf {
			keys[k] = true
		}
		for k := range vd {
			keys[k] = true
		}
		var ks []string
		for k := range keys {
			ks = append(ks, k)
		}
		sort.Strings(ks)
		for _, k := range ks {
			a, b := vf[k], vd[k]
			key := "struct:[" + k + "]"
			if a == nil || b == nil || a.File == nil || b.File == nil {
				l.Bad("SIB-DECODE", key, c.Rel(tf.Pos), "the two decoder templates do not branch on the same schema predicates: shape class missing on one side")
				continue
			}
			ma, mb := parseWireDecoder(a), parseStreamDecoder(b)
			var sa, sb []string
			for _, arm := range ma.Arms {
				sa = append(sa, arm.summary())
			}
			for _, arm := range mb.Arms {
				sb = append(sb, arm.summary())
			}
			sort.Strings(sa)
			sort.Strings(sb)
			pa, pb := ma.Post, mb.Post
			if len(pb) > 0 && strings.HasPrefix(pb[0], "check:") {
				pb = pb[1:]
			}
			var why []string
			if strings.Join(sa, "\n") != strings.Join(sb, "\n") {
				why = append(why, fmt.Sprintf("field arms differ: value path %v, stream path %v", sa, sb))
			}
			if strings.Join(pa, "|") != strings.Join(pb, "|") {
				why = append(why, fmt.Sprintf("post-loop checks differ: value path %v, stream path %v", pa, pb))
			}
			l.Check(len(why) == 0, "SIB-DECODE", key, c.Rel(td.Pos), fmt.Sprintf("%d arms and %d post-loop clauses agree", len(sa), len(pa)), strings.Join(why, "; "))
		}
	}
	l.Floor("SIB-DECODE", 4)

	// SIB-ENCODE
	tw, te := findTemplate(mod, "fieldGroupGenerator.ToWire#1"), findTemplate(mod, "fieldGroupGenerator.Encode#1")
	if tw == nil || te == nil {
		l.Unk("SIB-ENCODE", "anchor", "", "struct encoder templates not found")
	} else {
		vw, ve := variantsByAtoms(xs[tw]), variantsByAtoms(xs[te])
		var ks []string
		for k := range vw {
			ks = append(ks, k)
		}
		for k := range ve {
			if vw[k] == nil {
				ks = append(ks, k)
			}
		}
		sort.Strings(ks)
		for _, k := range ks {
			a, b := vw[k], ve[k]
			key := "struct:[" + k + "]"
			if a == nil || b == nil || a.File == nil || b.File == nil {
				l.Bad("SIB-ENCODE", key, c.Rel(tw.Pos), "the two encoder templates do not branch on the same schema predicates: shape class missing on one side")
				continue
			}
			if infeasibleEncoderVariant(a) {
				continue
			}
			ma, mb := parseEncoder(a, false), parseEncoder(b, true)
			norm := func(m *encoderModel) []string {
				var out []string
				for _, f := range m.Fields {
					g := append([]string{}, f.Guards...)
					out = append(out, fmt.Sprintf("%s ptr=%v value=%s guards=%v nilErr=%v default=%v id=%s", f.Elem, strings.HasSuffix(f.WriteFn, "Ptr"), f.Value, g, f.NilError, f.DefaultOK, f.HeaderID))
				}
				sort.Strings(out)
				return out
			}
			na, nb := norm(ma), norm(mb)
			var why []string
			if strings.Join(na, "\n") != strings.Join(nb, "\n") {
				why = append(why, fmt.Sprintf("fields are written differently: value path %v, stream path %v", na, nb))
			}
			if ma.Union != mb.Union {
				why = append(why, "arity checks differ: value path '"+ma.Union+"', stream path '"+mb.Union+"'")
			}
			l.Check(len(why) == 0, "SIB-ENCODE", key, c.Rel(te.Pos), fmt.Sprintf("%d fields written identically; arity check '%s'", len(na), ma.Union), strings.Join(why, "; "))
		}
	}
	l.Floor("SIB-ENCODE", 4)

	// SIB-CONTAINER
	pairs := [][3]string{
		{"listGenerator.Reader#1", "listGenerator.Decoder#1", "list-read"}, {"setGenerator.Reader#1", "setGenerator.Decoder#1", "set-read"}, {"mapGenerator.Reader#1", "mapGenerator.Decoder#1", "map-read"},
		{"listGenerator.ValueList#1", "listGenerator.Encoder#1", "list-write"}, {"setGenerator.ValueList#1", "setGenerator.Encoder#1", "set-write"}, {"mapGenerator.ItemList#1", "mapGenerator.Encoder#1", "map-write"},
	}
	for _, p := range pairs {
		ta, tb := findTemplate(mod, p[0]), findTemplate(mod, p[1])
		if ta == nil || tb == nil {
			l.Unk("SIB-CONTAINER", p[2], "", "container template pair not found")
			continue
		}
		va, vb := variantsByAtoms(xs[ta]), variantsByAtoms(xs[tb])
		var ks []string
		for k := range va {
			ks = append(ks, k)
		}
		for k := range vb {
			if va[k] == nil {
				ks = append(ks, k)
			}
		}
		sort.Strings(ks)
		for _, k := range ks {
			a, b := va[k], vb[k]
			key := p[2] + ":[" + k + "]"
			if a == nil || b == nil || a.File == nil || b.File == nil {
				l.Bad("SIB-CONTAINER", key, c.Rel(ta.Pos), "the value-path and stream-path templates do not branch on the same predicates")
				continue
			}
			sa, sb := containerClauses(a, strings.HasSuffix(p[2], "write")), containerClauses(b, strings.HasSuffix(p[2], "write"))
			l.Check(sa == sb, "SIB-CONTAINER", key, c.Rel(tb.Pos), "same element clauses: "+sa, "value path {"+sa+"} vs stream path {"+sb+"}")
		}
	}
	l.Floor("SIB-CONTAINER", 12)

	// SIB-WRAPPER: typedef / enum / struct helpers
	checkWrapperPairs(c, l, mod, xs)

	// SIB-REQUEST
	dr := c.SSAFunc(c.LookupFunc("protocol/binary", "Protocol.DecodeRequest"))
	rr := c.SSAFunc(c.LookupFunc("protocol/binary", "Protocol.ReadRequest"))
	if dr == nil || rr == nil {
		l.Unk("SIB-REQUEST", "anchor", "", "request decoders not found")
	} else {
		a1, _ := classifyArms(dr, 1)
		a2, _ := classifyArms(rr, 0)
		t1, u1 := armTable(a1)
		t2, u2 := armTable(a2)
		ds := compareArmTables(t1, t2)
		l.Check(len(ds) == 0 && len(u1) == 0 && len(u2) == 0 && len(a1) >= 3, "SIB-REQUEST", "DecodeRequest/ReadRequest", c.Rel(rr.Pos()), "for every first byte and number of available bytes both request decoders select the same responder (conditions evaluated, not compared as text)", "request decoders classify differently: "+strings.Join(append(append(ds, u1...), u2...), "; "))
	}

	// FULL-READ
	checkFailCausesMode(c, l, false)
	// the streaming result must not depend on what the pooled reader was used for before
	checkPools(c, l)
	// decoded binaries and strings must not be views of memory the (pooled) reader keeps and reuses
	checkFreshResults(c, l, "FRESH-RESULT", []string{"protocol/binary"})
	{
		// the two decoders agree on container headers only if count × width is computed without wrapping
		sub := core.NewLedger("C03", "quick")
		d := decodeScope(c, sub)
		checkWideArith(c, l, core.SortedFuncs(d), func(f *ssa.Function) bool { _, ok := d[f]; return ok })
	}
	checkWriteFailCauses(c, l)
	checkErrKeep(c, l, "ERR-KEEP", []string{"protocol/binary", "wire", "protocol"})
	checkStreamReaderFullRead(c, l)
	checkNoRawRead(c, l, "FULL-READ", []string{"protocol/binary"})
	checkReaderAdapters(c, l, "READER-ADAPTER", []string{"protocol/binary", "protocol", "envelope", "internal/envelope"})
}

// containerClauses summarises a container reader/writer skeleton: the element
// types processed in order, which of them are nil-checked, and how the
// collection is built.
func containerClauses(v *tmpl.Variant, write bool) string {
	fset := v.Fset
	var parts []string
	src := ""
	for _, d := range v.File.Decls {
		if fd, ok := d.(*ast.FuncDecl); ok && fd.Body != nil {
			if fd.Name.Name == "ForEach" || fd.Recv == nil {
				src = nodeStr(fset, fd.Body)
				// nil checks
				ast.Inspect(fd.Body, func(n ast.Node) bool {
					if is, ok := n.(*ast.IfStmt); ok && is.Init == nil && strings.HasSuffix(nodeStr(fset, is.Cond), " == nil") && len(is.Body.List) == 1 && isNewErrorReturnAny(nil, is.Body.List[0]) {
						parts = append(parts, "nilcheck")
					}
					return true
				})
			}
		}
	}
	if write {
		for _, m := range regexp.MustCompile(`ƒ(?:toWire|encode)\((δˑSpecˑ\w+)`).FindAllStringSubmatch(src, -1) {
			parts = append(parts, "write:"+m[1])
		}
	} else {
		for _, m := range reReadTypes.FindAllStringSubmatch(src, -1) {
			parts = append(parts, "read:"+m[1])
		}
		switch {
		case strings.Contains(src, "] = "):
			parts = append(parts, "build:map-insert")
		case strings.Contains(src, "append("):
			parts = append(parts, "build:append")
		}
		if strings.Contains(src, "struct{}{}") {
			parts = append(parts, "set-as-map")
		}
	}
	return strings.Join(parts, " ")
}

func methodBody(v *tmpl.Variant, name string) string {
	fd := skelFunc(v, name)
	if fd == nil {
		return ""
	}
	return nodeStr(v.Fset, fd.Body)
}

func checkWrapperPairs(c *core.Ctx, l *core.Ledger, mod *tmpl.Model, xs map[*tmpl.Template]*tmpl.Expansion) {
	// typedef: bodies identical after replacing the path-specific call
	if t := findTemplate(mod, "typedef#1"); t != nil {
		for _, v := range xs[t].Variants {
			if v.File == nil {
				continue
			}
			key := "typedef:[" + v.AtomString() + "]"
			r1 := regexp.MustCompile(`ƒfromWire\((\S+), \w+\)`).ReplaceAllString(methodBody(v, "FromWire"), "ƒREAD($1)")
			r2 := regexp.MustCompile(`ƒdecode\((\S+), \w+\)`).ReplaceAllString(methodBody(v, "Decode"), "ƒREAD($1)")
			r1 = regexp.MustCompile(`\.FromWire\(\w+\)`).ReplaceAllString(r1, ".READ()")
			r2 = regexp.MustCompile(`\.Decode\(\w+\)`).ReplaceAllString(r2, ".READ()")
			w1 := regexp.MustCompile(`ƒtoWire\((\S+), (\w+)\)`).ReplaceAllString(methodBody(v, "ToWire"), "ƒWRITE($1, $2)")
			w2 := regexp.MustCompile(`ƒencode\((\S+), (\w+), \w+\)`).ReplaceAllString(methodBody(v, "Encode"), "ƒWRITE($1, $2)")
			ok := r1 != "" && r1 == r2 && w1 != "" && w1 == w2
			l.Check(ok, "SIB-WRAPPER", key, c.Rel(t.Pos), "typedef FromWire/Decode and ToWire/Encode only cast and delegate to the target type, identically", fmt.Sprintf("typedef wrappers differ: read {%s} vs {%s}; write {%s} vs {%s}", r1, r2, w1, w2))
		}
	} else {
		l.Unk("SIB-WRAPPER", "typedef", "", "typedef template not found")
	}
	// enum: both paths go through int32 and the I32 primitives
	if t := findTemplate(mod, "enum#1"); t != nil {
		n := 0
		for _, v := range xs[t].Variants {
			if v.File == nil || n > 0 {
				continue
			}
			n++
			tw, en, fw, de := methodBody(v, "ToWire"), methodBody(v, "Encode"), methodBody(v, "FromWire"), methodBody(v, "Decode")
			ok := strings.Contains(tw, "wire.NewValueI32(int32(v))") && strings.Contains(en, ".WriteInt32(int32(v))") &&
				strings.Contains(fw, ".GetI32())") && strings.Contains(de, ".ReadInt32()") &&
				regexp.MustCompile(`\*v = \(\S+\)\(\w+\)`).MatchString(de) && regexp.MustCompile(`\*v = \(\S+\)\(\w+\.GetI32\(\)\)`).MatchString(fw)
			l.Check(ok, "SIB-WRAPPER", "enum", c.Rel(t.Pos), "enum values travel as i32 on both paths (NewValueI32/GetI32 and WriteInt32/ReadInt32) with the same conversions", "enum codec methods are not the same i32 conversion on both paths: "+tw+" | "+en+" | "+fw+" | "+de)
		}
	} else {
		l.Unk("SIB-WRAPPER", "enum", "", "enum template not found")
	}
	// struct / enum / typedef reader helpers: allocate, call the method of the matching path, return
	for _, p := range [][3]string{{"structGenerator.Reader#1", "structGenerator.Decoder#1", "struct"}, {"enumGenerator.Reader#1", "enumGenerator.Decoder#1", "enum-helper"}, {"typedefGenerator.Reader#1", "typedefGenerator.Decoder#1", "typedef-helper"}} {
		ta, tb := findTemplate(mod, p[0]), findTemplate(mod, p[1])
		if ta == nil || tb == nil {
			l.Unk("SIB-WRAPPER", p[2], "", "helper template pair not found")
			continue
		}
		va, vb := variantsByAtoms(xs[ta]), variantsByAtoms(xs[tb])
		for k, a := range va {
			b := vb[k]
			key := p[2] + ":[" + k + "]"
			if b == nil || a.File == nil || b.File == nil {
				l.Bad("SIB-WRAPPER", key, c.Rel(ta.Pos), "helper pair does not branch on the same predicates")
				continue
			}
			body := func(v *tmpl.Variant) string {
				for _, d := range v.File.Decls {
					if fd, ok := d.(*ast.FuncDecl); ok {
						s := nodeStr(v.Fset, fd.Body)
						s = regexp.MustCompile(`\.FromWire\(\w+\)`).ReplaceAllString(s, ".READ()")
						s = regexp.MustCompile(`\.Decode\(\w+\)`).ReplaceAllString(s, ".READ()")
						return s
					}
				}
				return ""
			}
			sa, sb := body(a), body(b)
			l.Check(sa != "" && sa == sb, "SIB-WRAPPER", key, c.Rel(tb.Pos), "helpers are identical up to FromWire vs Decode: "+sa, "helpers differ: {"+sa+"} vs {"+sb+"}")
		}
	}
	l.Floor("SIB-WRAPPER", 5)
}

// checkStreamReaderFullRead: R-OWN on the field StreamReader.reader.
func checkStreamReaderFullRead(c *core.Ctx, l *core.Ledger) {
	n := 0
	for _, f := range c.AllFuncs("protocol/binary") {
		if c.IsTestFile(f.Pos()) {
			continue
		}
		k := 0
		core.Instrs(f, func(in ssa.Instruction) {
			ld, ok := in.(*ssa.UnOp)
			if !ok {
				return
			}
			fld, _ := core.LoadedField(ld)
			if fld == nil || core.FieldName(fld) != "reader" || core.TypeLabel(fld.Type()) != "io.Reader" {
				return
			}
			n++
			k++
			key := fmt.Sprintf("%s:reader-use#%d", core.SSAName(f), k)
			ok2 := true
			why := ""
			for _, r := range *ld.Referrers() {
				switch x := r.(type) {
				case *ssa.Call:
					if o := core.CalleeObj(x); o != nil && o.Pkg() != nil && o.Pkg().Path() == "io" && (o.Name() == "CopyN" || core.IsFullRead(x)) {
						continue
					}
					// io.LimitReader(r, n) drained by io.Copy / io.CopyBuffer / io.ReadAll: reads until n bytes or the end
					if core.IsCallTo(x, "io", "LimitReader") && x.Referrers() != nil {
						drained := len(*x.Referrers()) > 0
						for _, r2 := range *x.Referrers() {
							switch y := r2.(type) {
							case *ssa.DebugRef:
							case *ssa.Call:
								if !(core.IsCallTo(y, "io", "Copy") || core.IsCallTo(y, "io", "CopyBuffer") || core.IsCallTo(y, "io", "ReadAll")) {
									drained = false
								}
							default:
								drained = false
							}
						}
						if drained {
							continue
						}
					}
					ok2 = false
					why = "passed to " + core.Sym(x)
				case *ssa.TypeAssert, *ssa.DebugRef:
				default:
					ok2 = false
					why = fmt.Sprintf("used by %T", r)
				}
			}
			l.Check(ok2, "FULL-READ", key, c.Rel(in.Pos()), "the wrapped reader is only handed to io.ReadFull / io.CopyN", "the wrapped io.Reader is used outside a full-read primitive ("+why+"): short reads become visible")
		})
	}
	l.Floor("FULL-READ", 3)
	_ = n
}

// errorOrigins lists the instructions of f at which an error value comes into
// being (as opposed to being passed on from a callee): calls of error
// constructors (fmt.Errorf, errors.New, functions and conversions yielding a
// concrete error type) and loads of package-level error variables that are
// used as a value (returned, stored, merged) rather than only compared.
func errorOrigins(f *ssa.Function) []ssa.Instruction {
	var out []ssa.Instruction
	errIface := types.Universe.Lookup("error").Type().Underlying().(*types.Interface)
	isErrIface := func(t types.Type) bool {
		it, ok := t.Underlying().(*types.Interface)
		return ok && types.Identical(it, errIface)
	}
	concreteErr := func(t types.Type) bool {
		if _, isI := t.Underlying().(*types.Interface); isI {
			return false
		}
		return types.Implements(t, errIface) || types.Implements(types.NewPointer(t), errIface)
	}
	usedAsValue := func(v ssa.Value) bool {
		refs := v.Referrers()
		if refs == nil {
			return false
		}
		for _, r := range *refs {
			switch x := r.(type) {
			case *ssa.BinOp, *ssa.DebugRef:
			case *ssa.Call:
				// errors.Is(err, io.EOF) and the like only compare
				if o := core.CalleeObj(x); o != nil && o.Pkg() != nil && o.Pkg().Path() == "errors" {
					continue
				}
				return true
			default:
				return true
			}
		}
		return false
	}
	counted := map[ssa.Value]bool{}
	core.Instrs(f, func(in ssa.Instruction) {
		switch x := in.(type) {
		case *ssa.Call:
			o := core.CalleeObj(x)
			if o == nil || o.Pkg() == nil {
				return
			}
			full := o.Pkg().Path() + "." + o.Name()
			sig, _ := o.Type().(*types.Signature)
			if full == "fmt.Errorf" || full == "errors.New" || (sig != nil && sig.Results().Len() == 1 && concreteErr(sig.Results().At(0).Type())) || isErrCtor(x.Call.StaticCallee()) {
				out = append(out, in)
				counted[x] = true
			}
		case *ssa.UnOp:
			if g, ok := x.X.(*ssa.Global); ok && x.Op == token.MUL && isErrIface(x.Type()) && usedAsValue(x) {
				_ = g
				out = append(out, in)
			}
		case *ssa.MakeInterface:
			if isErrIface(x.Type()) && concreteErr(x.X.Type()) && !counted[x.X] {
				if _, isParam := x.X.(*ssa.Parameter); !isParam {
					out = append(out, in)
				}
			}
		}
	})
	return out
}

func isErrCtor(g *ssa.Function) bool { return core.IsErrCtorFunc(g) }

// failCauses: for each function of the given layer, the kinds of conditions
// under which it *originates* an error (as opposed to passing one on).
func failCauses(c *core.Ctx, recvs ...string) map[string][]string {
	return failCausesExcept(c, nil, recvs...)
}

// layerFuncs: the methods of the named receiver types in protocol/binary plus
// every function of the package they reach through static calls, closures and
// function values (so that a cause moved into a free helper stays in scope).
func layerFuncs(c *core.Ctx, recvs ...string) map[*ssa.Function]bool {
	want := map[string]bool{}
	for _, r := range recvs {
		want[r] = true
	}
	in := map[*ssa.Function]bool{}
	var work []*ssa.Function
	var pkg *ssa.Package
	for _, f := range c.AllFuncs("protocol/binary") {
		if c.IsTestFile(f.Pos()) || len(f.Blocks) == 0 {
			continue
		}
		if want[recvNamed(f)] {
			in[f] = true
			work = append(work, f)
			pkg = f.Pkg
		}
	}
	add := func(g *ssa.Function) {
		if g == nil || len(g.Blocks) == 0 || in[g] {
			return
		}
		gp := g.Pkg
		if gp == nil && g.Parent() != nil {
			gp = g.Parent().Pkg
		}
		if gp != pkg {
			return
		}
		in[g] = true
		work = append(work, g)
	}
	for len(work) > 0 {
		f := work[len(work)-1]
		work = work[:len(work)-1]
		core.Instrs(f, func(i ssa.Instruction) {
			for _, op := range i.Operands(nil) {
				if op == nil || *op == nil {
					continue
				}
				switch x := (*op).(type) {
				case *ssa.Function:
					add(x)
				case *ssa.MakeClosure:
					if g, ok := x.Fn.(*ssa.Function); ok {
						add(g)
					}
				}
			}
			if mc, ok := i.(*ssa.MakeClosure); ok {
				if g, ok := mc.Fn.(*ssa.Function); ok {
					add(g)
				}
			}
		})
	}
	return in
}

// originFunc: position of an error origin → the function it is in.
var originFunc = map[string]*ssa.Function{}

func failCausesExcept(c *core.Ctx, except map[*ssa.Function]bool, recvs ...string) map[string][]string {
	out := map[string][]string{}
	layer := layerFuncs(c, recvs...)
	var fns []*ssa.Function
	for f := range layer {
		if !except[f] {
			fns = append(fns, f)
		}
	}
	sort.Slice(fns, func(i, j int) bool { return fns[i].Pos() < fns[j].Pos() })
	for _, f := range fns {
		if isErrCtor(f) {
			continue
		}
		for _, in := range errorOrigins(f) {
			conds := nestingConds(in.Block())
			for _, cc := range controlConds(f, in.Block()) {
				dup := false
				for _, x := range conds {
					dup = dup || x == cc
				}
				if !dup {
					conds = append(conds, cc)
				}
			}
			class := "unconditional"
			allTypeCmp := len(conds) > 0
			for _, s := range conds {
				t := strings.TrimPrefix(s, "!")
				// conditions on the wire type parameter only (switch arms, the fixed-width test)
				if !strings.Contains(t, "$1") || strings.Contains(t, "$0") {
					allTypeCmp = false
				}
			}
			first := ""
			if len(conds) > 0 {
				first = conds[0]
				class = "other:" + first
			}
			if allTypeCmp {
				class = "unknown-type"
			} else if isErrNilTest(in.Block()) {
				class = "wrap"
			} else {
				for _, cd := range conds {
					// the deciding condition is the innermost one that is not the "no error so far" guard of an earlier read
					if strings.HasPrefix(cd, "!") && strings.HasSuffix(cd, "!=c:nil)") {
						continue
					}
					k := ""
					switch {
					case strings.Contains(cd, "<c:0)") && !strings.HasPrefix(cd, "!") && lengthSignTest(in.Block()):
						k = "negative-length"
					case strings.Contains(cd, "c:4294901760"):
						k = "envelope-version"
					case strings.Contains(cd, ".Type!="):
						k = "envelope-type"
					case strings.Contains(cd, "ReadInt8") || strings.Contains(cd, "readByte") || strings.Contains(cd, ".buffer["):
						k = "byte-domain"
					case strings.Contains(cd, "g:EOF") && !strings.HasPrefix(cd, "!"):
						k = "eof-translation"
					}
					if k != "" {
						class = k
						break
					}
					if strings.Contains(cd, "<c:0)") && !strings.HasPrefix(cd, "!") {
						// a sign test on something that is not a length decides the origin by itself
						class = "other:" + cd
						break
					}
				}
			}
			if os.Getenv("VDEBUG") != "" {
				fmt.Fprintln(os.Stderr, "origin", core.SSAName(f), c.Rel(in.Pos()), class, conds)
			}
			out[class] = append(out[class], c.Rel(in.Pos()))
			originFunc[c.Rel(in.Pos())] = f
		}
	}
	return out
}

// lengthSignTest: b lies under the true arm of a test "x < 0" whose x is a
// 32-bit (or int) quantity — the width of every length and count of the
// protocol. A sign test on a narrower value (a field id, a type byte) is not
// a length check, whatever its spelling.
func lengthSignTest(b *ssa.BasicBlock) bool {
	for d := b.Idom(); d != nil; d = d.Idom() {
		ifi, ok := d.Instrs[len(d.Instrs)-1].(*ssa.If)
		if !ok {
			continue
		}
		bo, ok := ifi.Cond.(*ssa.BinOp)
		if !ok || bo.Op != token.LSS {
			continue
		}
		if k, isK := core.ConstInt(bo.Y); !isK || k != 0 {
			continue
		}
		t := d.Succs[0]
		if !(t == b || (len(t.Preds) == 1 && t.Dominates(b))) {
			continue
		}
		if bt, isB := bo.X.Type().Underlying().(*types.Basic); isB && (bt.Kind() == types.Int32 || bt.Kind() == types.Int) {
			return true
		}
	}
	return false
}

// isErrNilTest: the block is entered only through the non-nil edge of a test
// of an error value against nil (the origin re-words an error it received).
func isErrNilTest(b *ssa.BasicBlock) bool {
	for i := 0; i < 8 && len(b.Preds) == 1; i++ {
		p := b.Preds[0]
		if ifi, ok := p.Instrs[len(p.Instrs)-1].(*ssa.If); ok {
			if okEdge, is := core.IsErrCheck(ifi); is {
				return p.Succs[1-okEdge] == b
			}
			return false
		}
		b = p
	}
	return false
}

// checkFailCauses: the streaming reader and the random-access reader originate
// decode errors for the same kinds of reasons. A cause that exists on one path
// only (for instance a nesting-depth limit in Skip) makes that path reject
// inputs the other accepts.
func checkFailCauses(c *core.Ctx, l *core.Ledger) { checkFailCausesMode(c, l, true) }

// checkFailCausesMode: with protocolOnly every cause must also be one of the
// protocol's own classes (C02, C05: a well-formed input is never rejected);
// without it (C04: the two paths agree) a cause of any kind is acceptable
// when it sits in a primitive both paths go through.
func checkFailCausesMode(c *core.Ctx, l *core.Ledger, protocolOnly bool) {
	stream := failCauses(c, "StreamReader")
	value := failCausesExcept(c, layerFuncs(c, "StreamReader"), "reader", "Reader")
	// the random-access reader delegates primitives to the stream reader: its own causes must be a subset,
	// and neither side may have a cause class outside the protocol's own (length sign, type domain, byte domain, envelope)
	known := map[string]bool{"negative-length": true, "unknown-type": true, "envelope-version": true, "envelope-type": true, "byte-domain": true, "eof-translation": true}
	var classes []string
	for k := range stream {
		classes = append(classes, "stream:"+k)
	}
	for k := range value {
		classes = append(classes, "value:"+k)
	}
	sort.Strings(classes)
	for _, sk := range classes {
		side, k := sk[:strings.Index(sk, ":")], sk[strings.Index(sk, ":")+1:]
		sites := stream[k]
		other := value
		if side == "value" {
			sites = value[k]
			other = stream
		}
		_, both := other[k]
		ok := known[k] || both
		if !ok && !protocolOnly && side == "stream" {
			// every site of the class lies in a parameterless primitive (it reads one fixed element of the grammar —
			// a field header, a list header — the same way in every context) that the random-access reader calls
			// directly for that element too. A type-dispatched function (Skip) is not such a primitive: the two
			// decoders reach it for different sets of values.
			valueOwn := map[*ssa.Function]bool{}
			streamLayer := layerFuncs(c, "StreamReader")
			for f := range layerFuncs(c, "reader", "Reader") {
				if !streamLayer[f] {
					valueOwn[f] = true
				}
			}
			shared := len(sites) > 0
			for _, p := range sites {
				f := originFunc[p]
				if f == nil || len(f.Params) != 1 {
					shared = false
					continue
				}
				called := false
				for vf := range valueOwn {
					core.Instrs(vf, func(in ssa.Instruction) {
						if call, isC := in.(ssa.CallInstruction); isC && call.Common().StaticCallee() == f {
							called = true
						}
					})
				}
				if !called {
					shared = false
				}
			}
			ok = shared
		}
		l.Check(ok, "FAIL-CAUSES", sk, sites[0], fmt.Sprintf("decode errors of this kind are part of the protocol (%d site(s))", len(sites)), map[bool]string{true: "the " + side + " path originates a decode error for a reason that is not one of the protocol's (" + k + "): a well-formed encoding is refused", false: "the " + side + " path originates a decode error under a condition the other path does not have (" + k + "): an input accepted by one path is rejected by the other"}[protocolOnly])
	}
	l.Floor("FAIL-CAUSES", 3)
}

// checkWriteFailCauses: the serializers of protocol/binary originate an error
// only when re-wording one they received (nested under the non-nil edge of an
// error test) or for a wire type outside the protocol. Any other cause — a
// nesting limit, a test on the content of a string — makes a serializer refuse
// a valid value, and makes the streaming and the value-based serializer
// disagree when only one of them passes through it.
func checkWriteFailCauses(c *core.Ctx, l *core.Ledger) {
	causes := failCauses(c, "StreamWriter", "Writer", "writer")
	known := map[string]bool{"wrap": true, "unknown-type": true}
	var classes []string
	for k := range causes {
		classes = append(classes, k)
	}
	sort.Strings(classes)
	for _, k := range classes {
		l.Check(known[k], "W-FAIL-CAUSES", "write:"+k, causes[k][0], fmt.Sprintf("serializer errors of this kind are not about the value's content (%d site(s))", len(causes[k])), "a serializer originates an error under a condition on the value ("+k+"): a valid value is refused (and only by the serializer that passes through this code)")
	}
	n := len(layerFuncs(c, "StreamWriter", "Writer", "writer"))
	l.Add(core.Obligation{Rule: "W-FAIL-CAUSES", Key: "scan", Status: core.Discharged, Detail: fmt.Sprintf("%d functions of the serializer layer scanned for error origins", n)})
	if n < 20 {
		l.Unk("W-FAIL-CAUSES", "scope", "", fmt.Sprintf("only %d functions found in the serializer layer (expected the StreamWriter and Writer methods)", n))
	}
}

// controlConds: the conditions of the branches that decide whether block b is
// reached: If-blocks from which b is reachable through exactly one successor.
// Unlike nestingConds this sees through short-circuit conditions whose arms
// merge before b.
func controlConds(f *ssa.Function, b *ssa.BasicBlock) []string {
	reach := func(from *ssa.BasicBlock) bool {
		seen := map[*ssa.BasicBlock]bool{from: true}
		st := []*ssa.BasicBlock{from}
		for len(st) > 0 {
			x := st[len(st)-1]
			st = st[:len(st)-1]
			if x == b {
				return true
			}
			for _, sc := range x.Succs {
				if !seen[sc] {
					seen[sc] = true
					st = append(st, sc)
				}
			}
		}
		return false
	}
	var out []string
	for _, blk := range f.Blocks {
		if blk == b {
			continue
		}
		ifi, ok := blk.Instrs[len(blk.Instrs)-1].(*ssa.If)
		if !ok {
			continue
		}
		r0, r1 := reach(blk.Succs[0]), reach(blk.Succs[1])
		if r0 == r1 {
			continue
		}
		cond, neg := ifi.Cond, r1
		for {
			if u, isU := cond.(*ssa.UnOp); isU && u.Op == token.NOT {
				cond, neg = u.X, !neg
				continue
			}
			break
		}
		s := condSym(cond)
		if neg {
			s = "!" + s
		}
		out = append(out, s)
	}
	return out
}
