package rules

import (
	"fmt"
	"regexp"
	"sort"
	"strings"

	"verif/internal/core"
	"verif/internal/tmpl"
)

func init() { Registry["C05"] = withErrRules(checkC05, "read", "protocol/binary", "wire") }

func findTemplate(mod *tmpl.Model, id string) *tmpl.Template {
	for _, t := range mod.Templates {
		if t.ID == id {
			return t
		}
	}
	return nil
}

var reFieldBegin = regexp.MustCompile(`^(\w+), (\w+), err := (\w+)\.ReadFieldBegin\(\)$`)

// checkDecoderVariant evaluates the schema-evolution clauses on one variant of
// a struct decoder. stream=true for Decode, false for FromWire.
func checkDecoderVariant(v *tmpl.Variant, m *decoderModel, stream bool) []string {
	var bad []string
	bad = append(bad, m.Problems...)
	els := variantElems(v)
	if !v.Atoms["lenʃδˑFields"] {
		els = nil
	}
	fd := skelFunc(v, map[bool]string{true: "Decode", false: "FromWire"}[stream])
	if fd == nil {
		return append(bad, "method missing")
	}
	recv := recvName(fd)
	// arms
	byElem := map[string][]decodeArm{}
	for _, a := range m.Arms {
		byElem[a.Elem] = append(byElem[a.Elem], a)
	}
	if len(m.Arms) != len(els) {
		bad = append(bad, fmt.Sprintf("%d field arms for %d fields", len(m.Arms), len(els)))
	}
	for _, e := range els {
		if !v.Consulted[e+"ˑRequired"] {
			bad = append(bad, "the template does not distinguish required from optional for field "+e)
		}
		if !v.Consulted["ƒisNotNilʃ"+e+"ˑDefault"] {
			bad = append(bad, "the template does not consult the declared default of field "+e)
		}
		as := byElem[e]
		if len(as) != 1 {
			bad = append(bad, fmt.Sprintf("field %s has %d arms", e, len(as)))
			continue
		}
		a := as[0]
		if !a.IDGuard {
			bad = append(bad, "arm of "+e+" is not selected by the field's own id")
		}
		if !a.TypeGuard {
			bad = append(bad, "arm of "+e+" is not guarded by the wire type of the field's declared type (a field of another type would be decoded as this one)")
		}
		wantAssign := map[bool]map[bool]string{true: {true: "decode", false: "decodePtr"}, false: {true: "fromWire", false: "fromWirePtr"}}[stream][elemRequired(v, e)]
		if a.Assign != wantAssign {
			bad = append(bad, fmt.Sprintf("arm of %s assigns through %q, expected %q for required=%v", e, a.Assign, wantAssign, elemRequired(v, e)))
		}
		if a.Target != recv+".ƒgoNameʃ"+e {
			bad = append(bad, "arm of "+e+" assigns "+a.Target+" instead of the field's own struct member")
		}
		if !a.ErrCheck {
			bad = append(bad, "arm of "+e+" does not propagate a decoding error")
		}
		wantSet := []string(nil)
		if elemRequired(v, e) {
			wantSet = []string{e + "ˑNameIsSet"}
		}
		if strings.Join(a.IsSet, ",") != strings.Join(wantSet, ",") {
			bad = append(bad, fmt.Sprintf("arm of %s sets presence flags %v, expected %v", e, a.IsSet, wantSet))
		}
		if len(a.Extra) > 0 {
			bad = append(bad, "arm of "+e+" has unexpected statements: "+strings.Join(a.Extra, "; "))
		}
	}
	if stream {
		// locate reader / header names
		sr, fh, ok := "", "", ""
		for _, p := range m.Pre {
			if mm := reFieldBegin.FindStringSubmatch(p); mm != nil {
				fh, ok, sr = mm[1], mm[2], mm[3]
			}
		}
		if sr == "" {
			bad = append(bad, "the first ReadFieldBegin before the loop was not found")
		} else {
			if !m.HasDefault || len(m.DefaultBody) != 1 || m.DefaultBody[0] != "check:err:="+sr+".Skip("+fh+".Type)" {
				bad = append(bad, fmt.Sprintf("unknown or mistyped fields are not skipped with the header's own type: default arm = %v", m.DefaultBody))
			}
			wantTail := []string{"err:=" + sr + ".ReadFieldEnd()", fh + "," + ok + ",err=" + sr + ".ReadFieldBegin()"}
			if strings.Join(m.LoopTail, " ; ") != strings.Join(wantTail, " ; ") {
				bad = append(bad, fmt.Sprintf("after the switch every iteration must end the field and read the next header: got %v", m.LoopTail))
			}
			havePre := strings.Join(m.Pre, " ; ")
			if !strings.Contains(havePre, "check:err:="+sr+".ReadStructBegin()") {
				bad = append(bad, "ReadStructBegin is not called before the first field")
			}
			if len(m.Post) == 0 || m.Post[0] != "check:err:="+sr+".ReadStructEnd()" {
				bad = append(bad, "ReadStructEnd does not directly follow the field loop")
			}
		}
	} else {
		if m.HasDefault {
			bad = append(bad, "value-path decoder has a default arm (unknown fields must simply be ignored)")
		}
	}
	// presence flags declared false before the loop exactly for required fields
	for _, e := range els {
		decl := e + "ˑNameIsSet := false"
		has := false
		for _, p := range m.Pre {
			if p == decl {
				has = true
			}
		}
		if has != elemRequired(v, e) {
			bad = append(bad, fmt.Sprintf("presence flag of %s declared=%v but required=%v", e, has, elemRequired(v, e)))
		}
	}
	// post-loop clauses
	post := m.Post
	if stream && len(post) > 0 && strings.HasPrefix(post[0], "check:") {
		post = post[1:]
	}
	want := expectedPost(v, recv)
	if strings.Join(post, " | ") != strings.Join(want, " | ") {
		bad = append(bad, fmt.Sprintf("post-loop checks %v differ from what the schema requires %v (required-without-default ⇒ error if unset; default ⇒ assigned when unset; union arity last; no other failure)", post, want))
	}
	return bad
}

func checkC05(c *core.Ctx, l *core.Ledger) {
	l.Explanation = "Static clauses of C05, evaluated on every feasible shape class (abstract expansion) of the two struct decoder templates (FromWire, Decode): each field arm is selected by the field's own id AND by the wire type of its declared type; unknown ids and mistyped fields fall to a default that skips with the header's own type (stream path) or are ignored (value path); after every arm the field is ended and the next header read; a required field's presence flag is set only inside its guarded arm; after the loop an error is returned iff a required field without default is unset, an unset defaulted field is assigned its default, union arity is checked last, and no other failure exit exists; (TYPECODE-ROOT) the wire type used in guards is computed on the typedef's root type; (CONTAINER-MISMATCH) container readers/decoders treat an element-type mismatch as 'absent' (value path) or skip exactly Length elements of the header's own type (stream path). (FAIL-CAUSES) the stream reader originates decode errors only for protocol reasons (negative length, unknown type code, byte outside its domain, envelope version/type) — in particular skipping has no nesting limit of its own, so unknown fields of any depth are skipped; (FULL-READ) the stream reader touches its wrapped io.Reader only through full-read primitives, so skipping an unknown field consumes exactly its width under any segmentation. (PRED-MODEL) the template predicate isNotNil, which these rules read as 'a default is declared', answers false only for a nil value. (POOL-SITES/RESET/PUT) pooled stream readers are completely re-initialised when borrowed or reset before they are returned — including the function bound for skipping — so skipping an unknown field cannot run on state left by an earlier decode. (PTR-FRESH) the ptr helpers generated code uses for defaults return the address of a cell allocated by the call, never a shared variable. NOT decided: behaviour on concrete evolved schema pairs; nesting depth; that the skipped width per wire type is right (C03 SKIP=READ)."
	l.RuleText = "one obligation per (template, shape class)"
	l.Assumptions = []string{"decode/fromWire helper fragments assign exactly their target and err (C01 dispatch tables)"}
	l.Exhaustive = true
	mod := tmpl.Extract(c)
	checkPredModels(c, l, mod, "PRED-MODEL")
	elems := 1
	if l.Tier == "thorough" {
		elems = 2
	}
	xs := expansions(c, elems)
	for _, spec := range []struct {
		id     string
		stream bool
		rule   string
	}{{"fieldGroupGenerator.FromWire#1", false, "EVOLVE-VALUE"}, {"fieldGroupGenerator.Decode#1", true, "EVOLVE-STREAM"}} {
		t := findTemplate(mod, spec.id)
		if t == nil {
			l.Unk(spec.rule, "anchor", "", "template "+spec.id+" not found")
			continue
		}
		for _, v := range xs[t].Variants {
			key := spec.id + ":[" + v.AtomString() + "]"
			if v.File == nil {
				l.Bad(spec.rule, key, c.Rel(t.Pos), "shape class does not parse: "+fmt.Sprint(v.Err))
				continue
			}
			var m *decoderModel
			if spec.stream {
				m = parseStreamDecoder(v)
			} else {
				m = parseWireDecoder(v)
			}
			bad := checkDecoderVariant(v, m, spec.stream)
			sort.Strings(bad)
			if len(bad) > 0 {
				l.Bad(spec.rule, key, c.Rel(t.Pos), bad[0], bad...)
			} else {
				l.Add(core.Obligation{Rule: spec.rule, Key: key, Pos: c.Rel(t.Pos), Status: core.Discharged, Trivial: len(v.Atoms) == 0,
					Detail: fmt.Sprintf("%d arms, default=%v, post=%v", len(m.Arms), m.HasDefault, m.Post)})
			}
		}
	}
	l.Floor("EVOLVE-VALUE", 4)
	l.Floor("EVOLVE-STREAM", 4)
	// skipping an unknown field fails only for reasons the protocol defines (no depth or size limit of its own)
	checkFailCauses(c, l)
	// a pooled reader carries nothing over from its previous user (the function bound to skip unknown fields included)
	checkPools(c, l)
	checkPtrFresh(c, l, "PTR-FRESH")
	// the skip of an unknown or mistyped field consumes exactly its width only if the reader's primitives are full reads
	checkStreamReaderFullRead(c, l)
	checkNoRawRead(c, l, "FULL-READ", []string{"protocol/binary"})
	// TYPECODE-ROOT
	for _, r := range typeSwitches(c, []string{"gen"}, []string{"compile.TypeSpec"}) {
		if r.Func == "TypeCode" {
			l.Check(r.TagIsRoot, "TYPECODE-ROOT", "gen.TypeCode", r.Pos, "the wire type code is computed on compile.RootTypeSpec(spec): a typedef field is compared with its root's wire type", "TypeCode does not resolve typedefs to their root before dispatching")
		}
	}
	l.Floor("TYPECODE-ROOT", 1)
	checkContainerMismatch(c, l, mod, xs)
}
