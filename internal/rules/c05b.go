package rules

import (
	"fmt"
	"go/ast"
	"strings"

	"verif/internal/core"
	"verif/internal/tmpl"
)

// checkContainerMismatch: element-type mismatch handling of the container
// Reader (value path) and Decoder (stream path) templates.
func checkContainerMismatch(c *core.Ctx, l *core.Ledger, mod *tmpl.Model, xs map[*tmpl.Template]*tmpl.Expansion) {
	type spec struct {
		id, kind string
		stream   bool
	}
	specs := []spec{
		{"listGenerator.Reader#1", "list", false}, {"setGenerator.Reader#1", "set", false}, {"mapGenerator.Reader#1", "map", false},
		{"listGenerator.Decoder#1", "list", true}, {"setGenerator.Decoder#1", "set", true}, {"mapGenerator.Decoder#1", "map", true},
	}
	for _, sp := range specs {
		t := findTemplate(mod, sp.id)
		if t == nil {
			l.Unk("CONTAINER-MISMATCH", sp.id, "", "template not found")
			continue
		}
		for _, v := range xs[t].Variants {
			key := sp.id + ":[" + v.AtomString() + "]"
			if v.File == nil {
				l.Bad("CONTAINER-MISMATCH", key, c.Rel(t.Pos), "does not parse")
				continue
			}
			var fd *ast.FuncDecl
			for _, d := range v.File.Decls {
				if f, ok := d.(*ast.FuncDecl); ok {
					fd = f
				}
			}
			if fd == nil || len(fd.Body.List) < 2 {
				l.Bad("CONTAINER-MISMATCH", key, c.Rel(t.Pos), "no function body")
				continue
			}
			why := containerMismatch(v, fd, sp.kind, sp.stream)
			if why != "" {
				l.Bad("CONTAINER-MISMATCH", key, c.Rel(t.Pos), why)
			} else {
				l.Ok("CONTAINER-MISMATCH", key, c.Rel(t.Pos), map[bool]string{false: "a header whose element type(s) differ from the declared ones yields (nil, nil): the field is treated as absent", true: "on a mismatch exactly header.Length elements of the header's own type(s) are skipped, then the container is ended and (nil, end-error) returned"}[sp.stream])
			}
		}
	}
	l.Floor("CONTAINER-MISMATCH", 6)
}

func containerMismatch(v *tmpl.Variant, fd *ast.FuncDecl, kind string, stream bool) string {
	fset := v.Fset
	// the guard: one if, or consecutive ifs (one per header type), comparing the header's
	// element type(s) with typeCode of the declared ones
	var guards []*ast.IfStmt
	for _, s := range fd.Body.List {
		if is, ok := s.(*ast.IfStmt); ok && strings.Contains(nodeStr(fset, is.Cond), "ƒtypeCode(") && is.Init == nil {
			guards = append(guards, is)
		} else if len(guards) > 0 {
			break
		}
	}
	if len(guards) == 0 {
		return "no element-type guard on the container header"
	}
	cond := ""
	for _, g := range guards {
		cond += nodeStr(fset, g.Cond) + " || "
	}
	wantParts := map[string][]string{
		"list": {"!= ƒtypeCode(δˑSpecˑValueSpec)"},
		"set":  {"!= ƒtypeCode(δˑSpecˑValueSpec)"},
		"map":  {"!= ƒtypeCode(δˑSpecˑKeySpec)", "!= ƒtypeCode(δˑSpecˑValueSpec)"},
	}[kind]
	for _, w := range wantParts {
		if !strings.Contains(cond, w) {
			return "the header guard does not compare with the declared element type: " + cond
		}
	}
	if kind == "map" && strings.Count(cond, "||") < 2 {
		return "the map guard must reject when either key or value type differs: " + cond
	}
	if strings.Contains(cond, "&&") {
		return "the guard must reject when any header type differs, not only when all do: " + cond
	}
	guard := guards[0]
	if !stream {
		for _, g := range guards {
			if len(g.Body.List) != 1 || nodeStr(fset, g.Body.List[0]) != "return nil, nil" {
				return "value path: a mismatched container must be treated as absent (return nil, nil); got " + nodeStr(fset, g.Body)
			}
		}
		return ""
	}
	if len(guards) != 1 {
		return "stream path: the mismatch test must be a single guard so that one skip pass covers every mismatch"
	}
	body := guard.Body.List
	// stream: for i := 0; i < H.Length; i++ { Skip(H.Type) [Skip(H.ValueType)] }; return nil, sr.Read<K>End()
	if len(body) != 2 {
		return fmt.Sprintf("stream path: mismatch arm has %d statements (expected skip loop and return)", len(body))
	}
	fs, ok := body[0].(*ast.ForStmt)
	if !ok {
		return "stream path: mismatch arm does not start with a counted skip loop"
	}
	loopHdr := nodeStr(fset, fs.Init) + "; " + nodeStr(fset, fs.Cond) + "; " + nodeStr(fset, fs.Post)
	if !(strings.HasPrefix(loopHdr, "i := 0; i < ") && strings.HasSuffix(nodeStr(fset, fs.Cond), ".Length") && strings.HasSuffix(loopHdr, "; i++")) {
		return "stream path: the skip loop is not counted from 0 to header.Length: " + loopHdr
	}
	hdr := strings.TrimSuffix(strings.TrimPrefix(nodeStr(fset, fs.Cond), "i < "), ".Length")
	var skips []string
	for _, s := range fs.Body.List {
		call, ok := isCheckedCall(fset, s)
		if !ok {
			// "return nil, err" form
			if is, ok2 := s.(*ast.IfStmt); ok2 && is.Init != nil {
				call = nodeStr(fset, is.Init)
				call = strings.ReplaceAll(call, " ", "")
			} else {
				return "stream path: unexpected statement in skip loop: " + nodeStr(fset, s)
			}
		}
		skips = append(skips, call)
	}
	want := map[string][]string{
		"list": {"err:=sr.Skip(" + hdr + ".Type)"},
		"set":  {"err:=sr.Skip(" + hdr + ".Type)"},
		"map":  {"err:=sr.Skip(" + hdr + ".KeyType)", "err:=sr.Skip(" + hdr + ".ValueType)"},
	}[kind]
	norm := func(xs []string) string {
		var o []string
		for _, x := range xs {
			// reader variable name is whatever precedes ".Skip("
			if i := strings.Index(x, ".Skip("); i >= 0 {
				x = "err:=sr" + x[i:]
			}
			o = append(o, x)
		}
		return strings.Join(o, ";")
	}
	if norm(skips) != strings.Join(want, ";") {
		return fmt.Sprintf("stream path: each skipped element must skip the header's own type(s) in wire order: got %v want %v", skips, want)
	}
	ret := nodeStr(fset, body[1])
	endName := map[string]string{"list": "ReadListEnd()", "set": "ReadSetEnd()", "map": "ReadMapEnd()"}[kind]
	if !(strings.HasPrefix(ret, "return nil, ") && strings.HasSuffix(ret, "."+endName)) {
		return "stream path: after skipping, the container must be ended and (nil, end error) returned: " + ret
	}
	return ""
}
