package rules

import (
	"fmt"
	"go/ast"
	"go/token"
	"os"
	"regexp"
	"sort"
	"strings"

	"go/types"

	"golang.org/x/tools/go/packages"
	"golang.org/x/tools/go/ssa"
	"golang.org/x/tools/go/ssa/ssautil"

	"verif/internal/core"
	"verif/internal/tmpl"
)

func init() { Registry["C06"] = withErrRules(checkC06, "", "gen", "internal/goast") }

var reElemName = regexp.MustCompile(`^ƒ(\w+?)ʃ(ε\d+[\pL\pN_ˑ]*?)(ˑName)?$`)

// fieldNameUses lists identifiers in field-selecting positions (selector,
// composite-literal key) of a skeleton that are computed from a range element.
type fieldUse struct {
	fn     string // template function used (goName, goCase, ...)
	elem   string
	viaStr bool // applied to .Name (a string) rather than to the entity
	pos    string
	kind   string
}

func fieldNameUses(v *tmpl.Variant) []fieldUse {
	var out []fieldUse
	add := func(id *ast.Ident, kind string) {
		m := reElemName.FindStringSubmatch(id.Name)
		if m == nil {
			return
		}
		out = append(out, fieldUse{fn: m[1], elem: m[2], viaStr: m[3] != "", pos: v.Fset.Position(id.Pos()).String(), kind: kind})
	}
	ast.Inspect(v.File, func(n ast.Node) bool {
		switch x := n.(type) {
		case *ast.SelectorExpr:
			add(x.Sel, "selector")
		case *ast.KeyValueExpr:
			if id, ok := x.Key.(*ast.Ident); ok {
				add(id, "literal key")
			}
		}
		return true
	})
	return out
}

func checkC06(c *core.Ctx, l *core.Ledger) {
	l.Explanation = "Static clauses of C06 on the generator: (SKELETON-PARSE) every declaration template, abstractly expanded over all feasible assignments of its schema predicates (finite: every field-shape class the generator can emit), parses as Go; (FIELD-NAME) wherever a template selects a field of a generated struct (selector or composite-literal key) with a name computed from a field specification, it uses the same naming function as the struct declaration (goName, which honours go.name), never one applied to the raw Thrift name; (RESERVE) a declaration is appended to the output only after its top-level name was reserved (or the conflict was deliberately ignored by EnsureDeclared); (NO-INPLACE) no function compacts a slice parameter in place (the caller's data, e.g. spec.Items, is read again later); (PANIC-DEFAULT) every type switch over compile.TypeSpec / compile.ConstantValue in gen whose default panics is exhaustive, so accepted programs cannot crash the generator. (RESERVED-UNIVERSE) every Go keyword, and every predeclared identifier that the checked-in generated code refers to by its bare name, is answered 'reserved' by goast.IsReservedKeyword (the set is extracted from the predicate and its initialisers), and both name allocators consult it — so an import alias derived from a user-chosen file name cannot shadow a name the generated file relies on. (NAME-AGREE) constants, user-defined types and enum items are referred to through the same naming function that names their declaration. (CONSTPTR-AGREE) for every TypeSpec kind and typedef-of-kind, the default expression ConstantValuePtr produces has the pointer depth of the optional field it is assigned to (typeReferencePtr) — finite-domain path analysis of ConstantValuePtr, typeReference and typeReferencePtr. (METHOD-RESERVE) the accessor template reserves the field name and every accessor name it declares (Get<F>, IsSet<F>) in one namespace before declaring them, so a field whose Go name equals another field's accessor is rejected at generation time. (ZAP-CAST) the zap code generated for a typedef without marshal methods casts the field to the typedef's root type — the type the encoder method is chosen by. (FRESH-CLAIM) every fresh-name search (mangler, namespace, plugin import names) records as taken exactly the candidate that left the search, in a set the search consults. NOT decided: that every valid program is accepted or that accepted programs type-check in general (import aliasing, package layout)."
	l.RuleText = "one obligation per template (all its variants) / selector use / call site / switch"
	l.Assumptions = []string{"helper functions return a syntactic fragment of the category their abstract model assumes (table funcCategory; corroborated by the checked-in generated files parsing)"}
	mod := tmpl.Extract(c)
	elems := 1
	if l.Tier == "thorough" {
		elems = 2
	}
	xs := expansions(c, elems)
	l.Exhaustive = true

	// SKELETON-PARSE
	nvar := 0
	for _, t := range mod.Templates {
		x := xs[t]
		key := t.ID
		pos := c.Rel(t.Pos)
		if x.Capped {
			l.Unk("SKELETON-PARSE", key, pos, fmt.Sprintf("template branches on %d schema predicates (cap 12): not enumerated", len(x.Atoms)))
			l.Exhaustive = false
			continue
		}
		if len(x.Unknown) > 0 {
			l.Unk("SKELETON-PARSE", key, pos, "no abstract model for: "+strings.Join(x.Unknown, ", "))
			continue
		}
		bad := 0
		var first *tmpl.Variant
		for _, v := range x.Variants {
			nvar++
			if v.Err != nil {
				bad++
				if first == nil {
					first = v
				}
			}
		}
		if bad > 0 {
			var tr []string
			for i, ln := range strings.Split(first.Src, "\n") {
				if strings.TrimSpace(ln) != "" {
					tr = append(tr, fmt.Sprintf("%3d %s", i+2, ln))
				}
			}
			l.Bad("SKELETON-PARSE", key, pos, fmt.Sprintf("%d of %d shape classes yield text that does not parse as Go; first: [%s]: %v", bad, len(x.Variants), first.AtomString(), first.Err), tr...)
		} else {
			l.Add(core.Obligation{Rule: "SKELETON-PARSE", Key: key, Pos: pos, Status: core.Discharged, Trivial: len(x.Atoms) == 0,
				Detail: fmt.Sprintf("%d predicates %v, %d feasible shape classes, all parse", len(x.Atoms), x.Atoms, len(x.Variants))})
		}
	}
	if len(mod.Dynamic) > 0 {
		l.Unk("SKELETON-PARSE", "dynamic-templates", "", "templates whose text is not a compile-time constant: "+strings.Join(mod.Dynamic, "; "))
	}
	l.Units["template_variants_checked"] = nvar
	l.Floor("SKELETON-PARSE", 60)

	// FIELD-NAME
	nuse := 0
	for _, t := range mod.Templates {
		x := xs[t]
		type agg struct {
			use fieldUse
			n   int
		}
		seen := map[string]*agg{}
		for _, v := range x.Variants {
			if v.File == nil {
				continue
			}
			for _, u := range fieldNameUses(v) {
				k := u.fn + "|" + u.elem + "|" + u.kind + fmt.Sprint(u.viaStr)
				if seen[k] == nil {
					seen[k] = &agg{use: u}
				}
				seen[k].n++
			}
		}
		var ks []string
		for k := range seen {
			ks = append(ks, k)
		}
		sort.Strings(ks)
		for _, k := range ks {
			a := seen[k]
			u := a.use
			// only elements that are field specifications matter
			et := elemType(c, t, u.elem)
			if !strings.HasSuffix(et, "compile.FieldSpec") {
				continue
			}
			nuse++
			key := fmt.Sprintf("%s:%s(%s)", t.ID, u.kind, strings.TrimLeft(u.elem, "ε0123456789"))
			ok := (u.fn == "goName" || u.fn == "declFieldName") && !u.viaStr
			l.Check(ok, "FIELD-NAME", key, c.Rel(t.Pos),
				fmt.Sprintf("%s uses %s on the field specification (%d variants)", u.kind, u.fn, a.n),
				fmt.Sprintf("%s of a generated struct is computed with %s applied to %s, but the struct's fields are declared with goName (which honours go.name): the generated code refers to a field that does not exist when the annotation is present", u.kind, u.fn, map[bool]string{true: "the raw .Name", false: "the entity"}[u.viaStr]))
		}
	}
	l.Units["field_name_uses"] = nuse
	l.Floor("FIELD-NAME", 12)

	checkReserve(c, l)
	checkNoInplace(c, l)

	checkConstPtrAgree(c, l, "CONSTPTR-AGREE")
	checkMethodReserve(c, l, mod)
	checkZapCast(c, l)
	checkFreshClaim(c, l, "FRESH-CLAIM", []string{"gen", "plugin"}, 3)
	checkNamespaceChain(c, l, "NS-CHAIN")

	// PANIC-DEFAULT
	checkSwitchPanics(c, l, "PANIC-DEFAULT", []string{"gen"})
	l.Floor("PANIC-DEFAULT", 6)
	checkReservedUniverse(c, l)
	checkNameAgree(c, l, mod)
	if os.Getenv("VDEBUG") != "" {
		for _, r := range typeSwitches(c, []string{"gen", "compile"}, []string{"compile.TypeSpec", "compile.ConstantValue"}) {
			fmt.Printf("TS %s.%s %s iface=%s default=%s afterPanic=%v root=%v missing=%v\n", r.PkgRel, r.Func, r.Pos, r.Iface, r.Default, r.AfterPanic, r.TagIsRoot, r.Missing)
		}
	}
}

// elemType resolves the static Go type of a range element placeholder
// (ε<i><chain>) of template t from the type of the template's data argument.
func elemType(c *core.Ctx, t *tmpl.Template, elem string) string {
	chain := strings.TrimLeft(elem, "ε0123456789")
	parts := strings.Split(strings.Trim(chain, "ˑ"), "ˑ")
	typ := t.DataType
	for _, p := range parts {
		if p == "" {
			continue
		}
		typ = fieldOrMethodType(typ, p)
		if typ == nil {
			return "?"
		}
	}
	return core.TypeLabel(elemOf(typ))
}

func checkReserve(c *core.Ctx, l *core.Ledger) {
	// the places where the generator's declaration list grows: stores of append(g.decls, ...) into g.decls.
	// A function that does nothing else (a one-line appender) is represented by its call sites.
	type site struct {
		in ssa.Instruction
		f  *ssa.Function
	}
	var sites []site
	for _, f := range c.AllFuncs("gen") {
		if c.IsTestFile(f.Pos()) || len(f.Blocks) == 0 {
			continue
		}
		core.Instrs(f, func(in ssa.Instruction) {
			st, ok := in.(*ssa.Store)
			if !ok {
				return
			}
			fa, ok := st.Addr.(*ssa.FieldAddr)
			if !ok || core.FieldOf(fa) == nil || core.FieldName(core.FieldOf(fa)) != "decls" {
				return
			}
			if k, isC := st.Val.(*ssa.Const); isC && k.IsNil() {
				return // reset after writing
			}
			if !strings.HasPrefix(core.Sym(st.Val), "append(") {
				l.Bad("RESERVE", core.SSAName(f)+":decls-store", c.Rel(st.Pos()), "the declaration list is overwritten rather than appended to")
				return
			}
			if len(f.Blocks) == 1 && len(f.Params) == 2 {
				// a bare appender: its callers are the sites
				for _, cs := range c.StaticCallSites(f) {
					if !c.IsTestFile(cs.Pos()) {
						sites = append(sites, site{cs, cs.Parent()})
					}
				}
				return
			}
			sites = append(sites, site{in, f})
		})
	}
	if len(sites) == 0 {
		l.Unk("RESERVE", "anchor", "", "no place found where the generator's declaration list grows")
		return
	}
	isRes := func(call *ssa.Call) bool {
		if call.Call.IsInvoke() && call.Call.Method.Name() == "Reserve" {
			return true
		}
		cal := call.Call.StaticCallee()
		return cal != nil && c.Named(cal, "Reserve", "recordGenDeclNames")
	}
	for i, s := range sites {
		key := fmt.Sprintf("%s:append-decl#%d", core.SSAName(s.f), i+1)
		edges := successEdges(s.f, isRes)
		// declarations that are neither functions nor general declarations carry no name
		for _, b := range s.f.Blocks {
			if ifi, ok := b.Instrs[len(b.Instrs)-1].(*ssa.If); ok {
				if ex, ok := ifi.Cond.(*ssa.Extract); ok && ex.Index == 1 {
					if ta, ok := ex.Tuple.(*ssa.TypeAssert); ok && strings.HasSuffix(ta.AssertedType.String(), "ast.GenDecl") {
						edges = append(edges, core.Edge{From: b, To: b.Succs[1]})
					}
				}
			}
		}
		l.Check(len(edges) > 0 && core.AllPathsThroughEdges(s.f, s.in.Block(), edges), "RESERVE", key, c.Rel(s.in.Pos()), "reached only after the declaration's names were reserved successfully (a conflict either aborts or, for EnsureDeclared, skips the declaration)",
			"a declaration can be appended without its name having been reserved: duplicate top-level names reach the output")
	}
	l.Floor("RESERVE", 1)
}

// inplaceSites finds "p[:0]" of a slice parameter feeding an append.
func inplaceSites(fns []*ssa.Function) []ssa.Instruction {
	var out []ssa.Instruction
	for _, f := range fns {
		core.Instrs(f, func(in ssa.Instruction) {
			sl, ok := in.(*ssa.Slice)
			if !ok {
				return
			}
			if _, isParam := sl.X.(*ssa.Parameter); !isParam {
				return
			}
			if sl.High == nil {
				return
			}
			if k, isC := core.ConstInt(sl.High); !isC || k != 0 {
				return
			}
			// flows into append's first argument (directly or through a phi)
			feeds := false
			seen := map[ssa.Value]bool{}
			var walk func(v ssa.Value)
			walk = func(v ssa.Value) {
				if seen[v] {
					return
				}
				seen[v] = true
				for _, r := range *v.Referrers() {
					switch x := r.(type) {
					case *ssa.Phi:
						walk(x)
					case *ssa.Call:
						if b, ok := x.Call.Value.(*ssa.Builtin); ok && b.Name() == "append" && x.Call.Args[0] == v {
							feeds = true
						}
					}
				}
			}
			walk(sl)
			if feeds {
				out = append(out, in)
			}
		})
	}
	return out
}

func checkNoInplace(c *core.Ctx, l *core.Ledger) {
	// witness
	cfg := &packages.Config{Mode: packages.LoadAllSyntax, Dir: witnessDir(), Env: append(os.Environ(), "GOWORK=off", "GOFLAGS=-mod=mod", "GOPROXY=off")}
	pkgs, err := packages.Load(cfg, "./testdata/witness/inplace")
	fired := false
	if err == nil && len(pkgs) == 1 && len(pkgs[0].Errors) == 0 {
		prog, sp := ssautil.AllPackages(pkgs, 0)
		prog.Build()
		var fns []*ssa.Function
		for _, m := range sp[0].Members {
			if f, ok := m.(*ssa.Function); ok {
				fns = append(fns, f)
			}
		}
		hits := inplaceSites(fns)
		fired = len(hits) == 1 && hits[0].Parent().Name() == "filterInPlace"
	}
	l.Witness("NO-INPLACE", fired, "the matcher must flag filterInPlace (and only it) in testdata/witness/inplace")
	var fns []*ssa.Function
	for _, f := range c.AllFuncs("gen", "compile") {
		if !c.IsTestFile(f.Pos()) && !core.IsGenerated2(c, f) {
			fns = append(fns, f)
		}
	}
	for i, in := range inplaceSites(fns) {
		l.Bad("NO-INPLACE", fmt.Sprintf("%s:inplace#%d", core.SSAName(in.Parent()), i+1), c.Rel(in.Pos()), "a slice parameter is compacted in place (p[:0] + append): the caller's slice is overwritten while the caller keeps using it")
	}
	l.Add(core.Obligation{Rule: "NO-INPLACE", Key: "scan", Status: core.Discharged, Detail: fmt.Sprintf("%d functions of gen and compile scanned", len(fns))})
}

func witnessDir() string {
	exe, _ := os.Executable()
	d := exe
	for i := 0; i < 2; i++ {
		d = d[:strings.LastIndex(d, "/")]
	}
	return d
}

var _ = token.NoPos

// moduleTypesKinds: the kinds of TypeSpec that can be stored in
// compile.Module.Types: static types of the values inserted by the compiler,
// closed under "Link returns its receiver".
func moduleTypesKinds(c *core.Ctx) kindSet {
	ks := kindSet{}
	linkResult := false
	for _, f := range c.AllFuncs("compile") {
		if c.IsTestFile(f.Pos()) {
			continue
		}
		core.Instrs(f, func(in ssa.Instruction) {
			mu, ok := in.(*ssa.MapUpdate)
			if !ok {
				return
			}
			fld, _ := core.LoadedField(mu.Map)
			if fld == nil || core.FieldName(fld) != "Types" {
				return
			}
			switch v := mu.Value.(type) {
			case *ssa.MakeInterface:
				ks[core.RecvTypeName(v.X.Type())] = true
			case *ssa.Extract:
				if call, ok := v.Tuple.(*ssa.Call); ok && call.Call.IsInvoke() && call.Call.Method.Name() == "Link" {
					linkResult = true
					return
				}
				ks["?"] = true
			default:
				ks["?"] = true
			}
		})
	}
	if linkResult {
		// every Link method of the kinds present returns its receiver as first result
		for k := range ks {
			lm := c.SSAFunc(c.LookupFunc("compile", k+".Link"))
			if lm == nil {
				ks["?"] = true
				continue
			}
			core.Instrs(lm, func(in ssa.Instruction) {
				if r, ok := in.(*ssa.Return); ok && len(r.Results) == 2 {
					mi, ok := r.Results[0].(*ssa.MakeInterface)
					if !ok || mi.X != ssa.Value(lm.Params[0]) {
						if k2, isC := r.Results[0].(*ssa.Const); !(isC && k2.IsNil()) {
							ks["?"] = true
						}
					}
				}
			})
		}
	}
	return ks
}

// checkSwitchPanics: every explicit panic in the given packages that sits in
// a function dispatching on a compile.TypeSpec must be unreachable for every
// kind of TypeSpec its callers can pass (finite-domain path analysis), or sit
// in the default of an exhaustive switch over another tracked interface.
func checkSwitchPanics(c *core.Ctx, l *core.Ledger, rule string, rels []string) {
	ka := newKindAnalysis(c)
	reports := typeSwitches(c, rels, []string{"compile.TypeSpec", "compile.ConstantValue", "ast.Type", "ast.ConstantValue", "ast.Definition"})
	mtk := moduleTypesKinds(c)
	for _, f := range c.AllFuncs(rels...) {
		if c.IsTestFile(f.Pos()) || core.IsGenerated2(c, f) {
			continue
		}
		k := 0
		core.Instrs(f, func(in ssa.Instruction) {
			p, ok := in.(*ssa.Panic)
			if !ok {
				return
			}
			k++
			key := fmt.Sprintf("%s:panic#%d", core.SSAName(f), k)
			pos := c.Rel(p.Pos())
			// default of an exhaustive switch over another tracked interface
			for _, r := range reports {
				if r.Iface != "compile.TypeSpec" && r.Default == "panic" && r.Node.Body != nil {
					var def *ast.CaseClause
					for _, st := range r.Node.Body.List {
						if cc := st.(*ast.CaseClause); cc.List == nil {
							def = cc
						}
					}
					if def != nil && def.Pos() <= p.Pos() && p.Pos() <= def.End() {
						l.Check(len(r.Missing) == 0, rule, key, pos, "default of a switch over "+r.Iface+" that lists every implementer", "switch over "+r.Iface+" panics for "+strings.Join(r.Missing, ", "))
						return
					}
				}
			}
			hasTS := false
			for _, prm := range f.Params {
				if types.Identical(prm.Type(), ka.tsType) {
					hasTS = true
				}
			}
			if hasTS {
				var init kindSet
				note := ""
				if f.Name() == "TypeDefinition" && core.PkgRel(f) == "gen" {
					// called with values of Module.Types only
					onlyTypes := true
					for _, site := range c.StaticCallSites(f) {
						if c.IsTestFile(site.Pos()) {
							continue
						}
						arg := site.Common().Args[1]
						lk, isLk := arg.(*ssa.Lookup)
						if !isLk {
							onlyTypes = false
							continue
						}
						if fld, _ := core.LoadedField(lk.X); fld == nil || core.FieldName(fld) != "Types" {
							onlyTypes = false
						}
					}
					if onlyTypes && !mtk["?"] {
						init = mtk
						note = " (callers pass elements of Module.Types, which only ever holds " + strings.Join(mtk.names(), ", ") + ")"
					}
				}
				kinds, ok := ka.KindsReaching(f, p, init)
				if !ok {
					l.Unk(rule, key, pos, "could not analyse")
					return
				}
				if len(kinds) == 0 {
					l.Ok(rule, key, pos, "no kind of TypeSpec can reach this panic: all "+fmt.Sprint(len(ka.kinds))+" kinds are handled on the way"+note)
				} else {
					l.Bad(rule, key, pos, "a TypeSpec of kind "+strings.Join(kinds.names(), ", ")+" reaches this panic: an accepted program of that shape crashes instead of producing an error")
				}
				return
			}
			// other panics are classified by C08 (argument validation etc.)
		})
	}
}
