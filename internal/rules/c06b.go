package rules

import (
	"go/token"
	"go/types"
	"sort"
	"strings"

	"golang.org/x/tools/go/ssa"

	"verif/internal/core"
)

// checkReservedUniverse: generated code refers to Go keywords and predeclared
// identifiers by their bare names. Every such name that generated code uses
// must therefore be unavailable to the generator's name allocators (import
// aliases are derived from user-chosen file names), i.e. be answered "reserved"
// by goast.IsReservedKeyword, and both allocators must consult that predicate.
func checkReservedUniverse(c *core.Ctx, l *core.Ledger) {
	f := c.SSAFunc(c.LookupFunc("internal/goast", "IsReservedKeyword"))
	if f == nil {
		l.Unk("RESERVED-UNIVERSE", "anchor", "", "goast.IsReservedKeyword not found")
		return
	}
	// the reserved set, over-approximated: string constants of the package's initialisers and of the
	// predicate itself, plus the Go keyword table / the universe scope if the predicate consults them
	reserved := map[string]bool{}
	addConsts := func(fn *ssa.Function) {
		if fn == nil {
			return
		}
		core.Instrs(fn, func(in ssa.Instruction) {
			for _, op := range in.Operands(nil) {
				if *op == nil {
					continue
				}
				if k, ok := (*op).(*ssa.Const); ok && k.Value != nil && k.Value.Kind().String() == "String" {
					reserved[strings.Trim(k.Value.ExactString(), `"`)] = true
				}
			}
		})
	}
	sp := c.SSAPkg("internal/goast")
	if sp != nil {
		for name, m := range sp.Members {
			if fn, ok := m.(*ssa.Function); ok && (name == "init" || strings.HasPrefix(name, "init#")) {
				addConsts(fn)
			}
		}
	}
	addConsts(f)
	core.Instrs(f, func(in ssa.Instruction) {
		if core.IsCallTo(in, "go/token", "IsKeyword") || core.IsCallTo(in, "go/token", "Lookup") {
			for t := token.BREAK; t <= token.VAR; t++ {
				if t.IsKeyword() {
					reserved[t.String()] = true
				}
			}
		}
		for _, op := range in.Operands(nil) {
			if *op == nil {
				continue
			}
			if g, ok := (*op).(*ssa.Global); ok && g.Pkg.Pkg.Path() == "go/types" && g.Name() == "Universe" {
				for _, n := range types.Universe.Names() {
					reserved[n] = true
				}
			}
		}
	})
	// names used by generated code
	used := map[string]string{}
	ngen := 0
	for _, p := range c.Pkgs {
		for _, file := range p.Syntax {
			if !core.IsGenerated(file) || c.IsTestFile(file.Pos()) {
				continue
			}
			fn := c.Fset.Position(file.Pos()).Filename
			if strings.HasSuffix(fn, "y.go") || strings.HasSuffix(fn, "lex.go") || strings.Contains(fn, "_string.go") || strings.Contains(fn, "mock") {
				continue
			}
			ngen++
			for id, obj := range p.TypesInfo.Uses {
				if obj.Parent() == types.Universe && file.Pos() <= id.Pos() && id.Pos() <= file.End() {
					if _, ok := used[id.Name]; !ok {
						used[id.Name] = c.Rel(id.Pos())
					}
				}
			}
		}
	}
	l.Units["generated_files_scanned"] = ngen
	var names []string
	for n := range used {
		names = append(names, n)
	}
	sort.Strings(names)
	for _, n := range names {
		l.Check(reserved[n], "RESERVED-UNIVERSE", "universe:"+n, used[n], "the predeclared identifier is used by generated code and is reserved, so no generated import alias or variable can shadow it", "generated code uses the predeclared identifier `"+n+"` (e.g. "+used[n]+") but the name allocators do not reserve it: including a file named "+n+".thrift imports its package as `"+n+"` and the generated file no longer builds")
	}
	for t := token.BREAK; t <= token.VAR; t++ {
		if t.IsKeyword() {
			l.Check(reserved[t.String()], "RESERVED-UNIVERSE", "keyword:"+t.String(), c.Rel(f.Pos()), "keyword is reserved", "the Go keyword `"+t.String()+"` is not reserved: it can be chosen as a generated name")
		}
	}
	// both allocators consult the predicate
	for _, a := range []struct{ rel, fn string }{{"gen", "namespace.isTaken"}, {"plugin", "goFileGenerator.isGlobalTaken"}} {
		af := c.SSAFunc(c.LookupFunc(a.rel, a.fn))
		if af == nil {
			l.Unk("RESERVED-UNIVERSE", "allocator:"+a.fn, "", "not found")
			continue
		}
		l.Check(len(callsIn(af, "IsReservedKeyword")) >= 1, "RESERVED-UNIVERSE", "allocator:"+a.fn, c.Rel(af.Pos()), "the allocator treats reserved names as taken", "the name allocator does not consult goast.IsReservedKeyword")
	}
	l.Floor("RESERVED-UNIVERSE", 35)
}
