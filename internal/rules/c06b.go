package rules

import (
	"fmt"
	"go/token"
	"go/types"
	"regexp"
	"sort"
	"strings"

	"golang.org/x/tools/go/ssa"

	"verif/internal/core"
	"verif/internal/tmpl"
)

// checkReservedUniverse: generated code refers to Go keywords and predeclared
// identifiers by their bare names. Every such name that generated code uses
// must therefore be unavailable to the generator's name allocators (import
// aliases are derived from user-chosen file names), i.e. be answered "reserved"
// by goast.IsReservedKeyword, and both allocators must consult that predicate.
func checkReservedUniverse(c *core.Ctx, l *core.Ledger) {
	f := c.SSAFunc(c.LookupFunc("internal/goast", "IsReservedKeyword"))
	if f == nil {
		l.Unk("RESERVED-UNIVERSE", "anchor", "", "goast.IsReservedKeyword not found")
		return
	}
	// the reserved set, over-approximated: string constants of the package's initialisers and of the
	// predicate itself, plus the Go keyword table / the universe scope if the predicate consults them
	reserved := map[string]bool{}
	addConsts := func(fn *ssa.Function) {
		if fn == nil {
			return
		}
		core.Instrs(fn, func(in ssa.Instruction) {
			for _, op := range in.Operands(nil) {
				if *op == nil {
					continue
				}
				if k, ok := (*op).(*ssa.Const); ok && k.Value != nil && k.Value.Kind().String() == "String" {
					reserved[strings.Trim(k.Value.ExactString(), `"`)] = true
				}
			}
		})
	}
	sp := c.SSAPkg("internal/goast")
	if sp != nil {
		for name, m := range sp.Members {
			if fn, ok := m.(*ssa.Function); ok && (name == "init" || strings.HasPrefix(name, "init#")) {
				addConsts(fn)
			}
		}
	}
	addConsts(f)
	core.Instrs(f, func(in ssa.Instruction) {
		if core.IsCallTo(in, "go/token", "IsKeyword") || core.IsCallTo(in, "go/token", "Lookup") {
			for t := token.BREAK; t <= token.VAR; t++ {
				if t.IsKeyword() {
					reserved[t.String()] = true
				}
			}
		}
		for _, op := range in.Operands(nil) {
			if *op == nil {
				continue
			}
			if g, ok := (*op).(*ssa.Global); ok && g.Pkg.Pkg.Path() == "go/types" && g.Name() == "Universe" {
				for _, n := range types.Universe.Names() {
					reserved[n] = true
				}
			}
		}
	})
	// names used by generated code
	used := map[string]string{}
	ngen := 0
	for _, p := range c.Pkgs {
		for _, file := range p.Syntax {
			if !core.IsGenerated(file) || c.IsTestFile(file.Pos()) {
				continue
			}
			fn := c.Fset.Position(file.Pos()).Filename
			if strings.HasSuffix(fn, "y.go") || strings.HasSuffix(fn, "lex.go") || strings.Contains(fn, "_string.go") || strings.Contains(fn, "mock") {
				continue
			}
			ngen++
			for id, obj := range p.TypesInfo.Uses {
				if obj.Parent() == types.Universe && file.Pos() <= id.Pos() && id.Pos() <= file.End() {
					if _, ok := used[id.Name]; !ok {
						used[id.Name] = c.Rel(id.Pos())
					}
				}
			}
		}
	}
	l.Units["generated_files_scanned"] = ngen
	var names []string
	for n := range used {
		names = append(names, n)
	}
	sort.Strings(names)
	for _, n := range names {
		l.Check(reserved[n], "RESERVED-UNIVERSE", "universe:"+n, used[n], "the predeclared identifier is used by generated code and is reserved, so no generated import alias or variable can shadow it", "generated code uses the predeclared identifier `"+n+"` (e.g. "+used[n]+") but the name allocators do not reserve it: including a file named "+n+".thrift imports its package as `"+n+"` and the generated file no longer builds")
	}
	for t := token.BREAK; t <= token.VAR; t++ {
		if t.IsKeyword() {
			l.Check(reserved[t.String()], "RESERVED-UNIVERSE", "keyword:"+t.String(), c.Rel(f.Pos()), "keyword is reserved", "the Go keyword `"+t.String()+"` is not reserved: it can be chosen as a generated name")
		}
	}
	// both allocators consult the predicate
	for _, a := range []struct{ rel, fn string }{{"gen", "namespace.isTaken"}, {"plugin", "goFileGenerator.isGlobalTaken"}} {
		af := c.SSAFunc(c.LookupFunc(a.rel, a.fn))
		if af == nil {
			l.Unk("RESERVED-UNIVERSE", "allocator:"+a.fn, "", "not found")
			continue
		}
		l.Check(len(callsIn(af, "IsReservedKeyword")) >= 1, "RESERVED-UNIVERSE", "allocator:"+a.fn, c.Rel(af.Pos()), "the allocator treats reserved names as taken", "the name allocator does not consult goast.IsReservedKeyword")
	}
	l.Floor("RESERVED-UNIVERSE", 35)
}

// checkNameAgree: a definition is referred to by the name it was declared
// with — the naming function applied where the generator declares a constant,
// an enum item or a type is the very function applied where another part of
// the generated code refers to it.
func checkNameAgree(c *core.Ctx, l *core.Ledger, mod *tmpl.Model) {
	// the declaring Go function may have been renamed: resolve it through the anchor table
	declKey := func(name string) string {
		if _, has := mod.ByDecl[name]; has {
			return name
		}
		if o := c.LookupFunc("gen", name); o != nil && c.Decl(o) != nil {
			return core.DeclName(c.Decl(o))
		}
		return name
	}
	bindingIn := func(declName, fn string) *types.Func {
		declName = declKey(declName)
		for _, t := range mod.ByDecl[declName] {
			if b := t.Funcs[fn]; b != nil && b.Obj != nil {
				return b.Obj
			}
		}
		if b := mod.Global[fn]; b != nil {
			return b.Obj
		}
		return nil
	}
	usesFunc := func(declName, fn string) bool {
		declName = declKey(declName)
		for _, t := range mod.ByDecl[declName] {
			if strings.Contains(t.Text, "<"+fn+" ") || strings.Contains(t.Text, " "+fn+" ") || strings.Contains(t.Text, "("+fn+" ") || strings.Contains(t.Text, "-"+fn+" ") || strings.Contains(t.Text, "- "+fn+" ") {
				return true
			}
		}
		return false
	}
	// the naming function a Go function applies to (an attribute of) its definition parameter
	namingCalls := func(f *ssa.Function) []*types.Func {
		var out []*types.Func
		core.Instrs(f, func(in ssa.Instruction) {
			call, ok := in.(*ssa.Call)
			if !ok {
				return
			}
			cal := call.Call.StaticCallee()
			if cal == nil || core.PkgRel(cal) != "gen" || cal.Signature.Results().Len() == 0 {
				return
			}
			if core.TypeLabel(cal.Signature.Results().At(0).Type()) != "string" {
				return
			}
			for _, a := range call.Call.Args {
				s := core.Sym(stripIface(a))
				if s == "$1" || s == "$1.Name" {
					if o, ok := cal.Object().(*types.Func); ok {
						out = append(out, o)
					}
				}
			}
		})
		return out
	}
	// constants
	{
		decl := bindingIn("Constant", "constantName")
		ref := c.SSAFunc(c.LookupFunc("gen", "generator.LookupConstantName"))
		switch {
		case decl == nil || !usesFunc("Constant", "constantName"):
			l.Unk("NAME-AGREE", "constant", "", "the constant declaration template does not name the constant through a bound function constantName")
		case ref == nil:
			l.Unk("NAME-AGREE", "constant", "", "generator.LookupConstantName not found")
		default:
			calls := namingCalls(ref)
			ok := len(calls) == 1 && calls[0] == decl
			got := "none"
			if len(calls) > 0 {
				got = calls[0].Name()
			}
			l.Check(ok, "NAME-AGREE", "constant", c.Rel(ref.Pos()), "references to a constant are named by the function that names its declaration ("+decl.Name()+")", "a constant is declared as "+decl.Name()+"(name) but referred to as "+got+"(name): for names on which the two differ the generated code does not build")
		}
	}
	// types
	{
		ref := c.SSAFunc(c.LookupFunc("gen", "generator.LookupTypeName"))
		gn := c.LookupFunc("gen", "goName")
		if ref == nil || gn == nil {
			l.Unk("NAME-AGREE", "type", "", "generator.LookupTypeName or goName not found")
		} else {
			calls := namingCalls(ref)
			ok := len(calls) == 1 && calls[0] == gn
			// and the declaration-side helper typeDeclName (if any) routes through goName as well
			l.Check(ok, "NAME-AGREE", "type", c.Rel(ref.Pos()), "references to user-defined types are named by goName, the function the declarations and FIELD-NAME use", "type references are not named by goName")
		}
	}
	// enum items: declaration template (enum) and reference template (enumItemReference) bind the same function
	{
		d := bindingIn("enum", "enumItemName")
		r := bindingIn("enumItemReference", "enumItemName")
		okUse := usesFunc("enum", "enumItemName") && usesFunc("enumItemReference", "enumItemName")
		l.Check(d != nil && d == r && okUse, "NAME-AGREE", "enum-item", "", "enum items are declared and referred to through the same function enumItemName", "enum item declarations and references do not share one naming function")
	}
	l.Floor("NAME-AGREE", 3)
}

// checkMethodReserve (METHOD-RESERVE): a template that declares methods whose
// names are built from a field's Go name — func (v *T) Get<$f>() … — must
// reserve, in one namespace, the field name itself and every such method name
// before declaring it; otherwise a field called get_name next to a field called
// name is accepted and yields a struct with a field and a method of one name.
// Decided on the template text: every `func (…) P<$f>(` inside the range over
// the fields needs `reserveFieldOrMethod (printf "P%v" $f)`, and `$f` itself
// needs `reserveFieldOrMethod $f`, where $f is the variable bound to goName.
func checkMethodReserve(c *core.Ctx, l *core.Ledger, mod *tmpl.Model) {
	reVar := regexp.MustCompile(`<-?\s*(\$\w+)\s*:=\s*goName\s+\.\s*-?>`)
	n := 0
	for _, t := range mod.Templates {
		m := reVar.FindStringSubmatch(t.Text)
		if m == nil {
			continue
		}
		v := regexp.QuoteMeta(m[1])
		reMeth := regexp.MustCompile(`func \([^)]*\)\s*(\w+)<` + v + `>\(`)
		meths := reMeth.FindAllStringSubmatch(t.Text, -1)
		if len(meths) == 0 {
			continue
		}
		// the reserving function: a bound template function whose Go implementation calls (*namespace).Reserve
		var reserveFn string
		for name, b := range t.Funcs {
			if b == nil || b.Lit == nil {
				continue
			}
			if strings.Contains(nodeStr(c.Fset, b.Lit), ".Reserve(") {
				reserveFn = name
			}
		}
		n++
		var why []string
		if reserveFn == "" {
			why = append(why, "no template function that reserves names in a namespace is bound")
		} else {
			if !regexp.MustCompile(`<-?\s*` + reserveFn + `\s+` + v + `\s*-?>`).MatchString(t.Text) {
				why = append(why, "the field name itself is not reserved in the accessor namespace")
			}
			for _, mm := range meths {
				if !regexp.MustCompile(`<-?\s*` + reserveFn + `\s+\(printf "` + regexp.QuoteMeta(mm[1]) + `%v" ` + v + `\)\s*-?>`).MatchString(t.Text) {
					why = append(why, "method "+mm[1]+"<field> is declared without reserving its name")
				}
			}
		}
		l.Check(len(why) == 0, "METHOD-RESERVE", t.ID, c.Rel(t.Pos), fmt.Sprintf("field names and the %d accessor name patterns share one namespace and are reserved before they are declared", len(meths)), strings.Join(uniq(why), "; "))
	}
	l.Floor("METHOD-RESERVE", 1)
}
