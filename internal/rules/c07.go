package rules

import (
	"fmt"
	"go/token"
	"go/types"
	"os"
	"sort"
	"strings"

	"golang.org/x/tools/go/ssa"

	"verif/internal/core"
)

func init() { Registry["C07"] = withErrRules(checkC07, "", "compile") }

func callsNamed(f *ssa.Function, pred func(call ssa.CallInstruction) bool) []ssa.Instruction {
	var out []ssa.Instruction
	core.Instrs(f, func(in ssa.Instruction) {
		if call, ok := in.(ssa.CallInstruction); ok && pred(call) {
			out = append(out, in)
		}
	})
	return out
}

func isInvoke(name string) func(ssa.CallInstruction) bool {
	return func(call ssa.CallInstruction) bool {
		return call.Common().IsInvoke() && call.Common().Method.Name() == name
	}
}

func isStaticCall(rel, name string) func(ssa.CallInstruction) bool {
	return func(call ssa.CallInstruction) bool {
		cal := call.Common().StaticCallee()
		return cal != nil && core.PkgRel(cal) == rel && core.CanonName(cal) == name
	}
}

// failureEdges: the edges on which the error produced by `call` is non-nil.
func failureEdges(call ssa.Instruction) []core.Edge {
	var out []core.Edge
	v, ok := call.(ssa.Value)
	if !ok {
		return nil
	}
	var errVals []ssa.Value
	if tup, isTup := v.Type().(*types.Tuple); isTup {
		for _, r := range *v.Referrers() {
			if ex, ok := r.(*ssa.Extract); ok && ex.Index == tup.Len()-1 {
				errVals = append(errVals, ex)
			}
		}
	} else {
		errVals = append(errVals, v)
	}
	for _, ev := range errVals {
		for _, r := range *ev.Referrers() {
			bo, ok := r.(*ssa.BinOp)
			if !ok {
				continue
			}
			for _, rr := range *bo.Referrers() {
				if ifi, ok := rr.(*ssa.If); ok {
					if okEdge, is := core.IsErrCheck(ifi); is {
						out = append(out, core.Edge{From: ifi.Block(), To: ifi.Block().Succs[1-okEdge]})
					}
				}
			}
		}
	}
	return out
}

func checkC07(c *core.Ctx, l *core.Ledger) {
	l.Explanation = "Static clauses of C07 on package compile: (LOOKUP-ORDER) type, constant and service references try the whole name in the current scope first and split at the first '.' only on the failure edge of that lookup (constants: enum item between the two); (RESOLVE-LINKED) since Link is once-guarded, a definition is bound in the scope of its first Link call: every definition found by scope.LookupType/LookupService/LookupConstant is linked with that same scope before it is returned, wrapped or stored by the resolver; (FIELD-RELINK) every TypeSpec-typed field of a spec is overwritten by the result of linking it before its owner's Link can succeed, and ServiceSpec.Parent comes from resolveService; (INCLUDE-ONCE) an already loaded module is returned before any read, and a module is registered before its includes are gathered; (CAST-AFTER-LINK) defaults and constants are cast against the linked type; (CAST-CALLER) FieldSpec.Link hands every default that is not nil to that call: no path without an error skips it except through a nil test on the default. (LINK-PHASE) typestate: state that Link methods derive from nested Link results (computed: TypedefSpec.root) must not be read, in code reachable from compiler.link, on a spec that can still be in progress — every reader call site is listed and discharged only when the value read is merely matched against leaf (scalar/enum) spec types, for which a complete and an in-progress typedef give the same outcome. (TYPE-IDENTITY) nothing in compile decides that two type specifications are the same by comparing their ThriftName()s (an ==/!= of two names, or a seen-set keyed by them): names are local to the defining file, so a cast or a lookup keyed that way confuses same-named types of different files. (MODULE-IDENTITY) no visited-set or memo table in compile, gen or the command is keyed by a module's Name (the base name of its file): the identity of a module is its ThriftPath, so that every reachable file is linked exactly once. The map-order clause is decided by C10's MAPORD rule on the same loops. (INCLUDE-SCOPE) getIncludedScope returns on success only what the scope's include table holds for the prefix. NOT decided: that the bound definition is the right one on concrete programs."
	l.RuleText = "one obligation per reference resolver / spec field / reader call site"
	l.Assumptions = []string{"a typedef can be in progress at a default/constant cast only if a struct lies on its target chain (so its root is never a scalar or enum)"}

	checkResolveLinked(c, l)
	checkTypeIdentity(c, l, "TYPE-IDENTITY", []string{"compile"})
	checkIncludeScope(c, l)
	checkModuleIdentity(c, l, "MODULE-IDENTITY", []string{"compile", "gen", ""})
	// 0. SPLIT: splitInclude answers "no module part" exactly when the name has no '.' or starts with one
	if sf := c.SSAFunc(c.LookupFunc("compile", "splitInclude")); sf == nil || len(sf.Params) != 1 {
		l.Unk("SPLIT", "splitInclude", "", "compile.splitInclude not found")
	} else {
		// finite-domain evaluation with the position of the first '.' fixed to -1, 0, 1, 2
		var why []string
		idxCalls := 0
		core.Instrs(sf, func(in ssa.Instruction) {
			if call, ok := in.(*ssa.Call); ok {
				if o := core.CalleeObj(call); o != nil && o.Pkg() != nil && o.Pkg().Path() == "strings" && strings.HasPrefix(o.Name(), "Index") {
					idxCalls++
				}
			}
		})
		var cut *ssa.Call
		core.Instrs(sf, func(in ssa.Instruction) {
			if call, ok := in.(*ssa.Call); ok && core.IsCallTo(call, "strings", "Cut") && len(call.Call.Args) == 2 && call.Call.Args[0] == ssa.Value(sf.Params[0]) {
				if k, isK := call.Call.Args[1].(*ssa.Const); isK && k.Value != nil && k.Value.ExactString() == `"."` {
					cut = call
				}
			}
		})
		if idxCalls == 0 && cut != nil {
			// the same split written with strings.Cut(name, "."): three worlds — no dot; dot first; dot later
			for _, w := range []struct {
				found, empty bool
				name         string
			}{{false, true, "no '.'"}, {true, true, "'.' first"}, {true, false, "'.' later"}} {
				w := w
				paths, fin := c.FiniteEval(sf, core.FEOpts{Key: func(v ssa.Value) (core.CVal, bool) {
					if ex, ok := v.(*ssa.Extract); ok && ex.Tuple == ssa.Value(cut) && ex.Index == 2 {
						return core.CVal{Kind: core.CBool, B: w.found}, true
					}
					if bo, ok := v.(*ssa.BinOp); ok {
						// len(before) compared with 0 or 1 in any spelling
						if call, isCall := bo.X.(*ssa.Call); isCall {
							if bi, isB := call.Call.Value.(*ssa.Builtin); isB && bi.Name() == "len" {
								if ex, isEx := call.Call.Args[0].(*ssa.Extract); isEx && ex.Tuple == ssa.Value(cut) && ex.Index == 0 {
									if k, isK := core.ConstInt(bo.Y); isK {
										empty := w.empty
										var res, known bool
										switch {
										case k == 0 && bo.Op == token.GTR, k == 0 && bo.Op == token.NEQ, k == 1 && bo.Op == token.GEQ:
											res, known = !empty, true
										case k == 0 && bo.Op == token.EQL, k == 0 && bo.Op == token.LEQ, k == 1 && bo.Op == token.LSS:
											res, known = empty, true
										}
										if known {
											return core.CVal{Kind: core.CBool, B: res}, true
										}
									}
								}
							}
						}
					}
					if bo, ok := v.(*ssa.BinOp); ok && (bo.Op == token.EQL || bo.Op == token.NEQ) {
						isBefore := func(x ssa.Value) bool {
							ex, ok := x.(*ssa.Extract)
							return ok && ex.Tuple == ssa.Value(cut) && ex.Index == 0
						}
						emptyTest := false
						if isBefore(bo.X) {
							if k, isK := bo.Y.(*ssa.Const); isK && k.Value != nil && k.Value.ExactString() == `""` {
								emptyTest = true
							}
						}
						if call, isCall := bo.X.(*ssa.Call); isCall {
							if bi, isB := call.Call.Value.(*ssa.Builtin); isB && bi.Name() == "len" && isBefore(call.Call.Args[0]) {
								if k, isK := core.ConstInt(bo.Y); isK && k == 0 {
									emptyTest = true
								}
							}
						}
						if emptyTest {
							return core.CVal{Kind: core.CBool, B: w.empty == (bo.Op == token.EQL)}, true
						}
					}
					return core.CVal{}, false
				}})
				if !fin || len(paths) != 1 || paths[0].Ret == nil || len(paths[0].Ret.Results) != 2 {
					why = append(why, w.name+": the outcome is not decided by the position of the dot alone")
					continue
				}
				r := paths[0].Ret
				noMod := false
				if k, isK := r.Results[0].(*ssa.Const); isK && k.Value != nil && k.Value.ExactString() == `""` {
					noMod = r.Results[1] == ssa.Value(sf.Params[0])
				}
				e0, ok0 := r.Results[0].(*ssa.Extract)
				e1, ok1 := r.Results[1].(*ssa.Extract)
				split := ok0 && ok1 && e0.Tuple == ssa.Value(cut) && e1.Tuple == ssa.Value(cut) && e0.Index == 0 && e1.Index == 1
				if (!w.found || w.empty) && !noMod {
					why = append(why, w.name+": must answer (\"\", name)")
				}
				if w.found && !w.empty && !split {
					why = append(why, w.name+": must answer (before, after)")
				}
			}
			l.Check(len(why) == 0, "SPLIT", "splitInclude", c.Rel(sf.Pos()), "strings.Cut form evaluated in three worlds: a module part exactly when a '.' is found after a non-empty prefix", strings.Join(why, "; "))
		} else {
			if idxCalls != 1 {
				why = append(why, fmt.Sprintf("expected one strings.Index* call on the name (found %d)", idxCalls))
			}
			for _, pos := range []int64{-1, 0, 1, 2} {
				pv := pos
				paths, fin := c.FiniteEval(sf, core.FEOpts{Key: func(v ssa.Value) (core.CVal, bool) {
					if call, ok := v.(*ssa.Call); ok {
						if o := core.CalleeObj(call); o != nil && o.Pkg() != nil && o.Pkg().Path() == "strings" && strings.HasPrefix(o.Name(), "Index") {
							return core.CVal{Kind: core.CInt, I: pv}, true
						}
					}
					return core.CVal{}, false
				}})
				if !fin || len(paths) != 1 || paths[0].Ret == nil || len(paths[0].Ret.Results) != 2 {
					why = append(why, fmt.Sprintf("first '.' at %d: the outcome is not decided by that position alone", pos))
					continue
				}
				r := paths[0].Ret
				noMod := false
				if k, isK := r.Results[0].(*ssa.Const); isK && k.Value != nil && k.Value.ExactString() == `""` {
					noMod = r.Results[1] == ssa.Value(sf.Params[0])
				}
				split := false
				if s0, ok0 := r.Results[0].(*ssa.Slice); ok0 && s0.X == ssa.Value(sf.Params[0]) && s0.Low == nil && s0.High != nil {
					if s1, ok1 := r.Results[1].(*ssa.Slice); ok1 && s1.X == ssa.Value(sf.Params[0]) && s1.High == nil {
						if bo, isBo := s1.Low.(*ssa.BinOp); isBo && bo.Op == token.ADD && bo.X == s0.High {
							if k, isK := core.ConstInt(bo.Y); isK && k == 1 {
								split = true
							}
						}
					}
				}
				switch {
				case pos <= 0 && !noMod:
					why = append(why, fmt.Sprintf("first '.' at %d: must answer (\"\", name)", pos))
				case pos >= 1 && !split:
					why = append(why, fmt.Sprintf("first '.' at %d: must answer (name[:i], name[i+1:])", pos))
				}
			}
			l.Check(len(why) == 0, "SPLIT", "splitInclude", c.Rel(sf.Pos()), "evaluated for the first '.' at -1, 0, 1, 2: a module part exactly from position 1 on, split around the dot", strings.Join(why, "; "))
		}
	}
	// 1. LOOKUP-ORDER
	resolvers := []struct{ fn, lookup string }{
		{"typeSpecReference.Link", "LookupType"},
		{"constantReference.Link", "LookupConstant"},
		{"resolveService", "LookupService"},
	}
	for _, r := range resolvers {
		f := c.SSAFunc(c.LookupFunc("compile", r.fn))
		if f == nil {
			l.Unk("LOOKUP-ORDER", r.fn, "", "resolver compile."+r.fn+" not found")
			continue
		}
		lookups := callsNamed(f, isInvoke(r.lookup))
		splits := callsNamed(f, isStaticCall("compile", "splitInclude"))
		incl := callsNamed(f, isStaticCall("compile", "getIncludedScope"))
		var why []string
		if len(lookups) != 1 || len(splits) < 1 || len(incl) < 1 {
			why = append(why, fmt.Sprintf("expected one %s call, a splitInclude and a getIncludedScope call (found %d/%d/%d)", r.lookup, len(lookups), len(splits), len(incl)))
		} else {
			lk := lookups[0].(ssa.CallInstruction)
			// whole name
			if arg := core.Sym(lk.Common().Args[0]); !strings.HasSuffix(arg, ".Name") && !wholeNameThenRest(lk.Common().Args[0]) {
				why = append(why, "the first lookup is not on the reference's whole name: "+arg)
			}
			fe := failureEdges(lookups[0])
			for _, s := range append(append([]ssa.Instruction{}, splits...), incl...) {
				if !core.AllPathsThroughEdges(f, s.Block(), fe) {
					why = append(why, "the include split at "+c.Rel(s.Pos())+" is reachable without the local lookup having failed")
				}
			}
			// the qualified part is resolved in the included scope with the remainder of the name
			rec := false
			core.Instrs(f, func(in ssa.Instruction) {
				if call, ok := in.(ssa.CallInstruction); ok {
					cal := call.Common().StaticCallee()
					if cal != nil && (cal == f || (cal.Name() == "Link" && recvNamed(cal) == recvNamed(f))) {
						s := ""
						for _, a := range call.Common().Args {
							s += core.Sym(a) + ";"
						}
						if strings.Contains(s, "splitInclude") && strings.Contains(s, "getIncludedScope") {
							rec = true
						}
					}
				}
			})
			if !rec && !loopContinuesWithRest(f, splits, incl) {
				why = append(why, "no recursive resolution of the part after the first '.' in the included scope found")
			}
			// success of the lookup links and returns the found definition
			if r.lookup == "LookupConstant" {
				enums := callsNamed(f, isStaticCall("compile", "lookupEnum"))
				if len(enums) != 1 {
					// the same test written in place: look the module-part up as a type and narrow it to an enum
					if en, noEdges := inlineEnumLookup(f); en != nil {
						for _, s := range incl {
							if !core.AllPathsThroughEdges(f, s.Block(), noEdges) {
								why = append(why, "the included scope is consulted without the enum-item lookup having failed")
							}
						}
						if !core.AllPathsThroughEdges(f, en.Block(), fe) {
							why = append(why, "the enum-item lookup is reachable without the constant lookup having failed")
						}
					} else {
						why = append(why, "enum-item lookup not found")
					}
				} else {
					// getIncludedScope only after the enum lookup said no
					en := enums[0].(ssa.Value)
					var noEdges []core.Edge
					for _, rr := range *en.Referrers() {
						if ex, ok := rr.(*ssa.Extract); ok && ex.Index == 1 {
							for _, r3 := range *ex.Referrers() {
								if ifi, ok := r3.(*ssa.If); ok {
									noEdges = append(noEdges, core.Edge{From: ifi.Block(), To: ifi.Block().Succs[1]})
								}
							}
						}
					}
					for _, s := range incl {
						if !core.AllPathsThroughEdges(f, s.Block(), noEdges) {
							why = append(why, "the included scope is consulted without the enum-item lookup having failed")
						}
					}
					if !core.AllPathsThroughEdges(f, enums[0].Block(), fe) {
						why = append(why, "the enum-item lookup is reachable without the constant lookup having failed")
					}
				}
			}
		}
		// the included scope is consulted exactly when the split found a module part: on the edge where that part is
		// non-empty (a test against any other length turns one-letter module names into "no module part")
		if len(splits) >= 1 && len(incl) >= 1 {
			isModPart := func(v ssa.Value) bool {
				ex, ok := v.(*ssa.Extract)
				if !ok || ex.Index != 0 {
					return false
				}
				for _, sp := range splits {
					if ex.Tuple == sp.(ssa.Value) {
						return true
					}
				}
				return false
			}
			nonEmpty := core.GuardEdges(f, func(cm core.Cmp) bool {
				if call, isCall := cm.X.(*ssa.Call); isCall {
					if bi, isB := call.Call.Value.(*ssa.Builtin); isB && bi.Name() == "len" && isModPart(call.Call.Args[0]) {
						k, isK := core.ConstInt(cm.Y)
						return isK && ((k == 0 && (cm.Op == token.NEQ || cm.Op == token.GTR)) || (k == 1 && cm.Op == token.GEQ))
					}
				}
				if isModPart(cm.X) && cm.Op == token.NEQ {
					k, isK := cm.Y.(*ssa.Const)
					return isK && k.Value != nil && k.Value.ExactString() == `""`
				}
				return false
			})
			for _, s := range incl {
				if len(nonEmpty) == 0 || !core.AllPathsThroughEdges(f, s.Block(), nonEmpty) {
					why = append(why, "the included scope is consulted at "+c.Rel(s.Pos())+" without the module part of the name having been found non-empty")
				}
			}
		}
		l.Check(len(why) == 0, "LOOKUP-ORDER", r.fn, c.Rel(f.Pos()), "whole name in the current scope first; include-qualified resolution only on its failure edge", strings.Join(why, "; "))
	}
	l.Floor("LOOKUP-ORDER", 3)

	// 2. FIELD-RELINK
	checkFieldRelink(c, l, "FIELD-RELINK")

	// 3. INCLUDE-ONCE
	if f := c.SSAFunc(c.LookupFunc("compile", "compiler.load")); f != nil {
		var why []string
		gathers := callsNamed(f, isStaticCall("compile", "gather"))
		reads := callsNamed(f, isInvoke("Read"))
		var regs []ssa.Instruction
		var hitEdges, missEdges []core.Edge
		core.Instrs(f, func(in ssa.Instruction) {
			if mu, ok := in.(*ssa.MapUpdate); ok {
				if fld, _ := core.LoadedField(mu.Map); fld != nil && core.FieldName(fld) == "Modules" {
					regs = append(regs, in)
				}
			}
			if lk, ok := in.(*ssa.Lookup); ok && lk.CommaOk {
				if fld, _ := core.LoadedField(lk.X); fld != nil && core.FieldName(fld) == "Modules" {
					for _, r := range *lk.Referrers() {
						if ex, ok := r.(*ssa.Extract); ok && ex.Index == 1 {
							for _, rr := range *ex.Referrers() {
								if ifi, ok := rr.(*ssa.If); ok {
									hitEdges = append(hitEdges, core.Edge{From: ifi.Block(), To: ifi.Block().Succs[0]})
									missEdges = append(missEdges, core.Edge{From: ifi.Block(), To: ifi.Block().Succs[1]})
								}
							}
						}
					}
				}
			}
		})
		if len(gathers) != 1 || len(regs) != 1 || len(reads) != 1 || len(hitEdges) != 1 {
			why = append(why, fmt.Sprintf("shape not recognised (gather=%d register=%d read=%d memo-test=%d)", len(gathers), len(regs), len(reads), len(hitEdges)))
		} else {
			if found, _ := core.PathFromEntryAvoiding(f, func(in ssa.Instruction) bool { return in == regs[0] }, func(in ssa.Instruction) bool { return in == gathers[0] }); found {
				why = append(why, "includes are gathered on a path that has not yet registered the module: an include cycle recurses forever")
			}
			if !core.AllPathsThroughEdges(f, reads[0].Block(), missEdges) {
				why = append(why, "the file is read even when the module is already loaded")
			}
			// the hit edge returns the memoised module without calling anything
			hb := hitEdges[0].To
			clean := true
			for _, in := range hb.Instrs {
				if call, ok := in.(*ssa.Call); ok {
					if _, isB := call.Call.Value.(*ssa.Builtin); !isB {
						clean = false
					}
				}
			}
			if _, isRet := hb.Instrs[len(hb.Instrs)-1].(*ssa.Return); !isRet || !clean {
				why = append(why, "a memo hit does not return the loaded module immediately")
			}
			// keys agree: both use the absolute path
			if mu := regs[0].(*ssa.MapUpdate); !strings.Contains(core.Sym(mu.Key), "Abs") {
				why = append(why, "the module is registered under a key that is not the absolute path: "+core.Sym(mu.Key))
			}
		}
		l.Check(len(why) == 0, "INCLUDE-ONCE", "compiler.load", c.Rel(f.Pos()), "memo hit returns before any read; the module is registered (by absolute path) before its includes are gathered", strings.Join(why, "; "))
	} else {
		l.Unk("INCLUDE-ONCE", "compiler.load", "", "compile.compiler.load not found")
	}
	l.Floor("INCLUDE-ONCE", 1)

	// 4. CAST-AFTER-LINK
	for _, n := range []struct{ fn, typeField, valField string }{{"FieldSpec.Link", "Type", "Default"}, {"Constant.Link", "Type", "Value"}} {
		f := c.SSAFunc(c.LookupFunc("compile", n.fn))
		if f == nil {
			l.Unk("CAST-AFTER-LINK", n.fn, "", "not found")
			continue
		}
		var typeStore ssa.Instruction
		var cast ssa.Instruction
		castArgOK := false
		core.Instrs(f, func(in ssa.Instruction) {
			if st, ok := in.(*ssa.Store); ok {
				if fa, ok := st.Addr.(*ssa.FieldAddr); ok && core.FieldName(core.FieldOf(fa)) == n.typeField {
					if s := core.Sym(st.Val); strings.Contains(s, "Link(") && strings.HasSuffix(s, "#0") {
						typeStore = in
					}
				}
			}
			if call, ok := in.(ssa.CallInstruction); ok && call.Common().IsInvoke() && call.Common().Method.Name() == "Link" && len(call.Common().Args) == 2 {
				if fld, _ := core.LoadedField(call.Common().Value); fld != nil && core.FieldName(fld) == n.valField {
					cast = in
					if tf, _ := core.LoadedField(call.Common().Args[1]); tf != nil && core.FieldName(tf) == n.typeField {
						castArgOK = true
					}
					// ... or the very value that was just stored into the type field
					if ts, isSt := typeStore.(*ssa.Store); isSt && ts.Val == call.Common().Args[1] {
						castArgOK = true
					}
				}
			}
		})
		var why []string
		if typeStore == nil || cast == nil {
			why = append(why, "type link / value cast not recognised")
		} else {
			if found, _ := core.PathFromEntryAvoiding(f, func(in ssa.Instruction) bool { return in == typeStore }, func(in ssa.Instruction) bool { return in == cast }); found {
				why = append(why, "the value is cast on a path where the declared type has not been linked and stored yet")
			}
			if !castArgOK {
				why = append(why, "the value is not cast against the spec's own (linked) type field")
			}
			// and the cast result is stored back
			stored := false
			if cv, ok := cast.(ssa.Value); ok {
				for _, r := range *cv.Referrers() {
					if ex, ok := r.(*ssa.Extract); ok && ex.Index == 0 {
						for _, rr := range *ex.Referrers() {
							if st, ok := rr.(*ssa.Store); ok {
								if fa, ok := st.Addr.(*ssa.FieldAddr); ok && core.FieldName(core.FieldOf(fa)) == n.valField {
									stored = true
								}
							}
						}
					}
				}
			}
			if !stored {
				why = append(why, "the cast value is not stored back into "+n.valField)
			}
		}
		l.Check(len(why) == 0, "CAST-AFTER-LINK", n.fn, c.Rel(f.Pos()), "the value is cast against the already linked type and the result replaces it", strings.Join(why, "; "))
	}
	l.Floor("CAST-AFTER-LINK", 2)
	checkCastCaller(c, l, "CAST-CALLER")

	// 5. LINK-PHASE
	checkLinkPhase(c, l)
}

// specFields: struct fields in package compile whose static type is the
// interface compile.TypeSpec, excluding caches (fields never assigned from a
// Link result anywhere are reported as undecided).
func checkFieldRelink(c *core.Ctx, l *core.Ledger, rule string) {
	pkg := c.Pkg("compile")
	tsObj, _ := pkg.Types.Scope().Lookup("TypeSpec").(*types.TypeName)
	if tsObj == nil {
		l.Unk(rule, "anchor", "", "compile.TypeSpec not found")
		return
	}
	scope := pkg.Types.Scope()
	var names []string
	for _, n := range scope.Names() {
		names = append(names, n)
	}
	sort.Strings(names)
	derived := linkDerivedFields(c)
	for _, n := range names {
		tn, ok := scope.Lookup(n).(*types.TypeName)
		if !ok {
			continue
		}
		st, ok := tn.Type().Underlying().(*types.Struct)
		if !ok {
			continue
		}
		errT := types.Universe.Lookup("error").Type().Underlying().(*types.Interface)
		if types.Implements(tn.Type(), errT) || types.Implements(types.NewPointer(tn.Type()), errT) {
			continue // error values carry a TypeSpec only for their message
		}
		for i := 0; i < st.NumFields(); i++ {
			fld := st.Field(i)
			if !types.Identical(fld.Type(), tsObj.Type()) {
				continue
			}
			if derived[fld] {
				continue // link-derived cache (e.g. TypedefSpec.root), handled by LINK-PHASE
			}
			key := n + "." + core.FieldName(fld)
			linkM := c.SSAFunc(c.LookupFunc("compile", n+".Link"))
			if linkM == nil {
				l.Bad(rule, key, c.Rel(fld.Pos()), "the owner type has no Link method that could replace this reference")
				continue
			}
			// a store recv.fld = recv.fld.Link(scope)#0
			var store ssa.Instruction
			core.Instrs(linkM, func(in ssa.Instruction) {
				stI, ok := in.(*ssa.Store)
				if !ok {
					return
				}
				fa, ok := stI.Addr.(*ssa.FieldAddr)
				if !ok || core.FieldOf(fa) != fld {
					return
				}
				ex, ok := stI.Val.(*ssa.Extract)
				if !ok || ex.Index != 0 {
					return
				}
				call, ok := ex.Tuple.(*ssa.Call)
				if !ok || !call.Call.IsInvoke() || call.Call.Method.Name() != "Link" {
					return
				}
				if lf, _ := core.LoadedField(call.Call.Value); lf == fld {
					store = in
				}
			})
			if store == nil {
				l.Bad(rule, key, c.Rel(linkM.Pos()), "the field is never replaced by the result of linking it: an unresolved reference placeholder can survive a successful link (its methods panic)")
				continue
			}
			// every success return not taken on the already-linked early exit passes the store
			linkedEdges := core.GuardEdges(linkM, func(cm core.Cmp) bool { return false })
			for _, b := range linkM.Blocks {
				if ifi, ok := b.Instrs[len(b.Instrs)-1].(*ssa.If); ok {
					if call, ok := ifi.Cond.(*ssa.Call); ok && call.Call.StaticCallee() != nil && call.Call.StaticCallee().Name() == "linked" {
						linkedEdges = append(linkedEdges, core.Edge{From: b, To: b.Succs[0]})
					}
				}
			}
			bad := ""
			core.Instrs(linkM, func(in ssa.Instruction) {
				r, ok := in.(*ssa.Return)
				if !ok || !core.IsNilErrorReturn(r) {
					return
				}
				if len(linkedEdges) > 0 && core.AllPathsThroughEdges(linkM, r.Block(), linkedEdges) {
					return // early return: already linked
				}
				// nullable references (ResultSpec.ReturnType may be nil for void): returns guarded by "field == nil" are fine
				found, _ := core.PathFromEntryAvoiding(linkM, func(i2 ssa.Instruction) bool {
					if i2 == store {
						return true
					}
					// or passing the already-linked edge
					return false
				}, func(i2 ssa.Instruction) bool { return i2 == ssa.Instruction(r) })
				if found {
					// allow: path on which the field is nil
					nilEdges := core.GuardEdges(linkM, func(cm core.Cmp) bool {
						if lf, _ := core.LoadedField(cm.X); lf == fld {
							if k, ok := cm.Y.(*ssa.Const); ok && k.IsNil() {
								return cm.Op == token.EQL
							}
						}
						return false
					})
					banned := append(append([]core.Edge{}, nilEdges...), linkedEdges...)
					if len(banned) == 0 || pathAvoidingInstrAndEdges(linkM, store, banned, r) {
						bad = "a success return at " + c.Rel(r.Pos()) + " is reachable without the field having been relinked"
					}
				}
			})
			if recvNamed(linkM) != n {
				bad = "Link method resolved on a different type"
			}
			l.Check(bad == "", rule, key, c.Rel(store.Pos()), "replaced by the result of its own Link before any (non-memoised) success return", bad)
		}
	}
	// ServiceSpec.Parent from resolveService
	if f := c.SSAFunc(c.LookupFunc("compile", "ServiceSpec.Link")); f != nil {
		ok := false
		// in Link itself or in a helper of the package that Link calls
		core.WalkInlined(f, inlineHelpers("resolveService"), func(in ssa.Instruction, via []*ssa.Call) {
			if st, isSt := in.(*ssa.Store); isSt {
				if fa, isFA := st.Addr.(*ssa.FieldAddr); isFA && core.FieldName(core.FieldOf(fa)) == "Parent" {
					if strings.Contains(core.Sym(st.Val), "resolveService(") {
						ok = true
					}
				}
			}
		})
		l.Check(ok, rule, "ServiceSpec.Parent", c.Rel(f.Pos()), "Parent is assigned from resolveService's result", "ServiceSpec.Parent is not assigned from the resolved parent service")
	}
	l.Floor(rule, 8)
}

// pathAvoidingInstrAndEdges: is the return reachable from entry without
// executing `avoid` and without traversing any banned edge?
func pathAvoidingInstrAndEdges(f *ssa.Function, avoid ssa.Instruction, banned []core.Edge, target ssa.Instruction) bool {
	ban := map[core.Edge]bool{}
	for _, e := range banned {
		ban[e] = true
	}
	seen := map[*ssa.BasicBlock]bool{}
	st := []*ssa.BasicBlock{f.Blocks[0]}
	for len(st) > 0 {
		b := st[len(st)-1]
		st = st[:len(st)-1]
		if seen[b] {
			continue
		}
		seen[b] = true
		blocked := false
		for _, in := range b.Instrs {
			if in == avoid {
				blocked = true
				break
			}
			if in == target {
				return true
			}
		}
		if blocked {
			continue
		}
		for _, s := range b.Succs {
			if !ban[core.Edge{From: b, To: s}] {
				st = append(st, s)
			}
		}
	}
	return false
}

// linkDerivedFields: fields of compile spec types that are written only
// inside Link methods, after a nested Link call, from a value other than the
// nested Link's own result (i.e. caches derived from linked state).
func linkDerivedFields(c *core.Ctx) map[*types.Var]bool {
	type info struct{ inLink, outside, fromOwnLink int }
	stats := map[*types.Var]*info{}
	for _, f := range c.AllFuncs("compile") {
		if c.IsTestFile(f.Pos()) {
			continue
		}
		isLink := f.Name() == "Link" && f.Signature.Recv() != nil
		core.Instrs(f, func(in ssa.Instruction) {
			st, ok := in.(*ssa.Store)
			if !ok {
				return
			}
			fa, ok := st.Addr.(*ssa.FieldAddr)
			if !ok {
				return
			}
			fld := core.FieldOf(fa)
			if fld.Pkg() == nil || fld.Pkg().Path() != core.ModPath+"/compile" {
				return
			}
			s := stats[fld]
			if s == nil {
				s = &info{}
				stats[fld] = s
			}
			if !isLink {
				s.outside++
				return
			}
			// only stores into the receiver itself count as link-time state of a spec
			if len(f.Params) == 0 || core.Unop(fa.X) != ssa.Value(f.Params[0]) {
				s.outside++
				return
			}
			s.inLink++
			if ex, ok := st.Val.(*ssa.Extract); ok {
				if call, ok := ex.Tuple.(*ssa.Call); ok && call.Call.IsInvoke() && call.Call.Method.Name() == "Link" {
					if lf, _ := core.LoadedField(call.Call.Value); lf == fld {
						s.fromOwnLink++
					}
				}
			}
		})
	}
	out := map[*types.Var]bool{}
	for fld, s := range stats {
		if s.inLink > 0 && s.outside == 0 && s.fromOwnLink == 0 {
			// exclude plain flags / bookkeeping: keep only fields of interface or pointer type
			switch fld.Type().Underlying().(type) {
			case *types.Interface, *types.Pointer:
				if core.FieldName(fld) != "Parent" && core.FieldName(fld) != "parentSrc" {
					out[fld] = true
				}
			}
		}
	}
	return out
}

func checkLinkPhase(c *core.Ctx, l *core.Ledger) {
	derived := linkDerivedFields(c)
	var dn []string
	for f := range derived {
		dn = append(dn, f.Name())
	}
	sort.Strings(dn)
	l.Extra["link_derived_fields"] = dn
	if len(derived) == 0 {
		l.Ok("LINK-PHASE", "none", "", "no link-derived state exists in package compile")
		return
	}
	g := c.Graph()
	linkFn := c.SSAFunc(c.LookupFunc("compile", "compiler.link"))
	if linkFn == nil {
		l.Unk("LINK-PHASE", "anchor", "", "compile.compiler.link not found")
		return
	}
	reach := g.Reach([]*ssa.Function{linkFn}, func(f *ssa.Function) bool { return core.PkgRel(f) == "compile" })
	// readers: functions loading a derived field
	readers := map[*ssa.Function]bool{}
	for _, f := range c.AllFuncs("compile") {
		core.Instrs(f, func(in ssa.Instruction) {
			if ld, ok := in.(*ssa.UnOp); ok {
				if fld, _ := core.LoadedField(ld); fld != nil && derived[fld] {
					readers[f] = true
				}
			}
		})
	}
	// leaf spec types: their Link method performs no nested Link call
	leaf := map[string]bool{}
	tsIface := c.Pkg("compile").Types.Scope().Lookup("TypeSpec").Type().Underlying().(*types.Interface)
	for _, t := range c.Implementers(tsIface, c.Pkg("compile")) {
		name := core.RecvTypeName(t)
		lm := c.SSAFunc(c.LookupFunc("compile", name+".Link"))
		if lm == nil {
			continue
		}
		nested := false
		core.Instrs(lm, func(in ssa.Instruction) {
			if call, ok := in.(ssa.CallInstruction); ok {
				if call.Common().IsInvoke() && call.Common().Method.Name() == "Link" {
					nested = true
				}
				if cal := call.Common().StaticCallee(); cal != nil && cal.Name() == "Link" {
					nested = true
				}
				if cal := call.Common().StaticCallee(); cal != nil && core.PkgRel(cal) == "compile" && core.CanonName(cal) != "linked" {
					// any helper that may link (FieldGroup.Link...)
					if strings.Contains(cal.Name(), "Link") {
						nested = true
					}
				}
			}
		})
		if !nested {
			leaf[name] = true
		}
	}
	var leafNames []string
	for n := range leaf {
		leafNames = append(leafNames, n)
	}
	sort.Strings(leafNames)
	l.Extra["leaf_spec_types"] = leafNames
	n := 0
	for _, f := range core.SortedFuncs(reach) {
		k := 0
		for _, call := range core.Calls(f) {
			cal := call.Common().StaticCallee()
			if cal == nil || !readers[cal] {
				continue
			}
			cv, ok := call.(*ssa.Call)
			if !ok {
				continue
			}
			k++
			n++
			key := fmt.Sprintf("%s→%s#%d", core.SSAName(f), cal.Name(), k)
			pos := c.Rel(call.Pos())
			// how is the result used?
			onlyLeaf := true
			var used []string
			var visit func(v ssa.Value, d int)
			seen := map[ssa.Value]bool{}
			visit = func(v ssa.Value, d int) {
				if seen[v] || d > 6 {
					return
				}
				seen[v] = true
				for _, r := range *v.Referrers() {
					switch x := r.(type) {
					case *ssa.TypeAssert:
						tn := core.RecvTypeName(x.AssertedType)
						used = append(used, tn)
						if !leaf[tn] {
							onlyLeaf = false
						}
					case *ssa.BinOp:
						// comparison with a value of leaf type
						other := x.X
						if other == v {
							other = x.Y
						}
						tn := core.RecvTypeName(core.Unop(stripIface(other)).Type())
						used = append(used, "=="+tn)
						if !leaf[tn] {
							onlyLeaf = false
						}
					case *ssa.Phi:
						visit(x, d+1)
					case *ssa.DebugRef:
					case *ssa.Store:
						used = append(used, "stored")
						onlyLeaf = false
					default:
						used = append(used, fmt.Sprintf("%T", r))
						onlyLeaf = false
					}
				}
			}
			visit(cv, 0)
			sort.Strings(used)
			used = uniq(used)
			if onlyLeaf && len(used) > 0 {
				l.Ok("LINK-PHASE", key, pos, "the link-derived root is only matched against leaf spec types ("+strings.Join(used, ", ")+"): an in-progress typedef (whose complete root is never a leaf) gives a cast error either way")
			} else {
				l.Bad("LINK-PHASE", key, pos, "reads TypedefSpec.root (set only when the typedef's own Link returns) while linking: if the typedef is still in progress on the stack the root is nil, so whether compilation succeeds depends on the order in which definitions are linked (map order). Uses: "+strings.Join(used, ", "))
			}
		}
	}
	l.Floor("LINK-PHASE", 8)
}

func stripIface(v ssa.Value) ssa.Value {
	for {
		switch x := v.(type) {
		case *ssa.MakeInterface:
			v = x.X
		case *ssa.ChangeInterface:
			v = x.X
		default:
			return v
		}
	}
}

// wholeNameThenRest: v is read from a cell (or phi) that starts as the
// reference's .Name and is only ever replaced by the second result of
// splitInclude (the loop form of "resolve the rest in the included scope").
func wholeNameThenRest(v ssa.Value) bool {
	okInit, okUpd := false, true
	check := func(val ssa.Value) {
		s := core.Sym(val)
		switch {
		case strings.HasSuffix(s, ".Name") && !strings.Contains(s, "splitInclude"):
			okInit = true
		case strings.Contains(s, "splitInclude(") && strings.Contains(s, "#1"):
		default:
			// a whole struct value stored into the cell (src = ServiceReference{Name: iname})
			if strings.Contains(s, "lit{") && strings.Contains(s, "Name=") && strings.Contains(s, "splitInclude(") {
				return
			}
			if p, isP := val.(*ssa.Parameter); isP && p != nil {
				okInit = true
				return
			}
			if k, isK := val.(*ssa.Const); isK && k.Value == nil {
				return // the cell is zeroed before its fields are assigned (a fresh composite value)
			}
			if os.Getenv("VDEBUG") != "" {
				fmt.Fprintf(os.Stderr, "wholeNameThenRest: unexpected update %T %s\n", val, s)
			}
			okUpd = false
		}
	}
	switch x := v.(type) {
	case *ssa.Phi:
		for _, e := range x.Edges {
			check(e)
		}
	case *ssa.UnOp:
		root := x.X
		field := -1
		if fa, ok := root.(*ssa.FieldAddr); ok {
			root, field = fa.X, fa.Field
		}
		al, ok := root.(*ssa.Alloc)
		if !ok {
			return false
		}
		for _, r := range *al.Referrers() {
			switch y := r.(type) {
			case *ssa.Store:
				if y.Addr == ssa.Value(al) {
					check(y.Val) // the whole cell (initial parameter value, or a new reference value)
				}
			case *ssa.FieldAddr:
				if y.Field != field {
					continue // other fields of the reference (line, column) do not matter
				}
				for _, rr := range *y.Referrers() {
					if st, ok := rr.(*ssa.Store); ok && st.Addr == ssa.Value(y) {
						check(st.Val)
					}
				}
			}
		}
	default:
		return false
	}
	return okInit && okUpd
}

// loopContinuesWithRest: the function loops, and inside the loop the name cell
// is replaced by splitInclude's second result and the scope cell by the result
// of getIncludedScope.
func loopContinuesWithRest(f *ssa.Function, splits, incl []ssa.Instruction) bool {
	cyc := core.CyclicBlocks(f)
	if len(splits) == 0 || len(incl) == 0 || !cyc[splits[0].Block()] || !cyc[incl[0].Block()] {
		return false
	}
	nameUpd, scopeUpd := false, false
	core.Instrs(f, func(in ssa.Instruction) {
		if !cyc[in.Block()] {
			return
		}
		switch x := in.(type) {
		case *ssa.Store:
			s := core.Sym(x.Val)
			if strings.Contains(s, "splitInclude(") && strings.Contains(s, "#1") {
				nameUpd = true
			}
			if strings.Contains(s, "getIncludedScope(") {
				scopeUpd = true
			}
		case *ssa.Phi:
			for _, e := range x.Edges {
				s := core.Sym(e)
				if strings.Contains(s, "splitInclude(") && strings.Contains(s, "#1") {
					nameUpd = true
				}
				if strings.Contains(s, "getIncludedScope(") {
					scopeUpd = true
				}
			}
		}
	})
	return nameUpd && scopeUpd
}

// inlineEnumLookup finds `t, err := scope.LookupType(mname); enum, ok := t.(*EnumSpec)`
// and returns the lookup and the edges on which no enum was found.
func inlineEnumLookup(f *ssa.Function) (ssa.Instruction, []core.Edge) {
	var look ssa.Instruction
	var no []core.Edge
	core.Instrs(f, func(in ssa.Instruction) {
		ta, ok := in.(*ssa.TypeAssert)
		if !ok || !ta.CommaOk || core.RecvTypeName(ta.AssertedType) != "EnumSpec" {
			return
		}
		ex, ok := ta.X.(*ssa.Extract)
		if !ok {
			return
		}
		call, ok := ex.Tuple.(*ssa.Call)
		if !ok || !call.Call.IsInvoke() || call.Call.Method.Name() != "LookupType" {
			return
		}
		if !strings.Contains(core.Sym(call.Call.Args[0]), "splitInclude(") {
			return
		}
		look = call
		// "no enum" = the lookup failed, or the assertion failed
		no = append(no, failureEdges(call)...)
		for _, r := range *ta.Referrers() {
			if e2, ok := r.(*ssa.Extract); ok && e2.Index == 1 {
				for _, rr := range *e2.Referrers() {
					if ifi, ok := rr.(*ssa.If); ok {
						no = append(no, core.Edge{From: ifi.Block(), To: ifi.Block().Succs[1]})
					}
				}
			}
		}
	})
	return look, no
}
