package rules

import (
	"fmt"
	"go/types"
	"strings"

	"golang.org/x/tools/go/ssa"

	"verif/internal/core"
)

// checkResolveLinked: Link is idempotent (once-guarded), so a definition is
// bound in whatever scope its FIRST Link call supplies. Every definition found
// by scope.LookupX(name) in a resolver must therefore be linked with that same
// scope before it leaves the resolver (returned, wrapped or stored) — otherwise
// a definition of an included file is later linked in the scope of whoever
// refers to it, and its own references bind to the referrer's names.
func checkResolveLinked(c *core.Ctx, l *core.Ledger) {
	n := 0
	for _, f := range c.AllFuncs("compile") {
		if c.IsTestFile(f.Pos()) {
			continue
		}
		k := 0
		core.Instrs(f, func(in ssa.Instruction) {
			call, ok := in.(*ssa.Call)
			if !ok || !call.Call.IsInvoke() {
				return
			}
			switch call.Call.Method.Name() {
			case "LookupType", "LookupService", "LookupConstant":
			default:
				return
			}
			if core.TypeLabel(call.Call.Value.Type()) != "compile.Scope" {
				return
			}
			scope := call.Call.Value
			var v ssa.Value
			for _, r := range *call.Referrers() {
				if ex, ok := r.(*ssa.Extract); ok && ex.Index == 0 {
					v = ex
				}
			}
			if v == nil {
				return
			}
			k++
			n++
			key := fmt.Sprintf("%s:%s#%d", core.SSAName(f), call.Call.Method.Name(), k)
			// Link calls on v with the same scope
			var links []*ssa.Call
			var escapes []ssa.Instruction
			for _, r := range *v.Referrers() {
				switch x := r.(type) {
				case *ssa.Call:
					cc := x.Call
					isLink := false
					if cc.IsInvoke() && cc.Method.Name() == "Link" && cc.Value == v && len(cc.Args) >= 1 && cc.Args[0] == scope {
						isLink = true
					}
					if cal := cc.StaticCallee(); cal != nil && cal.Name() == "Link" && len(cc.Args) >= 2 && cc.Args[0] == v && cc.Args[1] == scope {
						isLink = true
					}
					if isLink {
						links = append(links, x)
					} else {
						escapes = append(escapes, x)
					}
				case *ssa.DebugRef:
				case *ssa.BinOp: // nil comparison
				case *ssa.TypeAssert:
					// narrowing to a kind whose Link is a no-op (no references to bind): nothing to link
					if linkIsTrivial(c, x.AssertedType) {
						continue
					}
					escapes = append(escapes, r)
				default:
					escapes = append(escapes, r)
				}
			}
			var why []string
			if len(links) == 0 && len(escapes) == 0 {
				l.Ok("RESOLVE-LINKED", key, c.Rel(in.Pos()), "the looked-up definition is only narrowed to a kind whose Link binds nothing")
				return
			}
			if len(links) == 0 {
				why = append(why, "the definition found by the lookup is never linked with the scope it was found in")
			}
			for _, e := range escapes {
				// a return whose error operand is the Link's own error: success implies linked
				if ret, isR := e.(*ssa.Return); isR && len(ret.Results) >= 2 {
					errv := unspill(ret.Results[len(ret.Results)-1])
					okErr := false
					for _, lk := range links {
						if errv == ssa.Value(lk) {
							okErr = true
						}
						if ex, isEx := errv.(*ssa.Extract); isEx && ex.Tuple == ssa.Value(lk) {
							okErr = true
						}
					}
					if okErr {
						continue
					}
				}
				dominated := false
				for _, lk := range links {
					lk := lk
					okE := successEdges(f, func(cl *ssa.Call) bool { return cl == lk })
					if len(okE) > 0 && core.AllPathsThroughEdges(f, e.Block(), okE) {
						dominated = true
					}
				}
				if !dominated {
					why = append(why, "the definition leaves the resolver at "+c.Rel(e.Pos())+" without having been linked in the scope it was found in")
				}
			}
			l.Check(len(why) == 0, "RESOLVE-LINKED", key, c.Rel(in.Pos()), "the looked-up definition is linked with the very scope it was found in before it is returned, wrapped or stored", strings.Join(uniq(why), "; "))
		})
	}
	l.Floor("RESOLVE-LINKED", 3)
}

// linkIsTrivial: the Link method of the (pointer to) named type t is a single
// straight-line block that calls nothing — the kind has no references to bind.
func linkIsTrivial(c *core.Ctx, t types.Type) bool {
	ms := types.NewMethodSet(t)
	for i := 0; i < ms.Len(); i++ {
		if ms.At(i).Obj().Name() != "Link" {
			continue
		}
		fn, _ := ms.At(i).Obj().(*types.Func)
		f := c.SSAFunc(fn)
		if f == nil || len(f.Blocks) != 1 {
			return false
		}
		calls := 0
		core.Instrs(f, func(in ssa.Instruction) {
			if _, ok := in.(ssa.CallInstruction); ok {
				calls++
			}
		})
		return calls == 0
	}
	return false
}
