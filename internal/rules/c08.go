package rules

import (
	"fmt"
	"go/ast"
	"go/token"
	"go/types"
	"os"
	"sort"
	"strings"
	"text/template/parse"

	"golang.org/x/tools/go/ssa"

	"verif/internal/core"
	"verif/internal/tmpl"
)

func init() {
	Registry["C08"] = withErrRules(checkC08, "", "compile", "gen", "idl", "idl/internal", "ast")
}

var termPkgs = map[string]bool{"compile": true, "gen": true, "ast": true, "idl": true, "idl/internal": true, "internal/compare": true, "plugin": true, "": true, "internal/plugin": true, "internal/goast": true, "internal/curry": true}

// definition types: top-level named things a program can refer to by name;
// pointers to them form the (possibly cyclic) definition graph.
var definitionTypes = map[string]bool{"Constant": true, "TypedefSpec": true, "StructSpec": true, "EnumSpec": true, "ServiceSpec": true, "Module": true}

func isDefinitionPtr(t types.Type) (string, bool) {
	p, ok := t.Underlying().(*types.Pointer)
	if !ok {
		if pp, ok2 := t.(*types.Pointer); ok2 {
			p, ok = pp, true
		}
	}
	if !ok {
		return "", false
	}
	n, ok := p.Elem().(*types.Named)
	if !ok || n.Obj().Pkg() == nil || n.Obj().Pkg().Path() != core.ModPath+"/compile" {
		return "", false
	}
	return n.Obj().Name(), definitionTypes[n.Obj().Name()]
}

func dataLike(t types.Type) bool {
	switch u := t.(type) {
	case *types.Pointer:
		return dataLike(u.Elem())
	case *types.Slice:
		return dataLike(u.Elem())
	case *types.Named:
		if u.Obj().Pkg() == nil {
			return false
		}
		p := u.Obj().Pkg().Path()
		if p == core.ModPath+"/compile" || p == core.ModPath+"/ast" || p == core.ModPath+"/plugin/api" {
			switch u.Obj().Name() {
			case "Scope", "compiler", "Option", "FS":
				return false
			}
			return true
		}
	}
	return false
}

// primaryParam: the parameter (receiver included) carrying the data a
// recursive function descends on.
func primaryParam(f *ssa.Function) *ssa.Parameter {
	for _, p := range f.Params {
		if dataLike(p.Type()) {
			return p
		}
	}
	if len(f.Params) > 0 && f.Signature.Recv() != nil {
		return f.Params[0]
	}
	if len(f.Params) > 0 {
		return f.Params[0]
	}
	return nil
}

type descent struct {
	class string // sub, same, cross, other
	via   string
}

// classifyDescent: how does v relate to param p of the enclosing function?
func classifyDescent(v ssa.Value, p *ssa.Parameter) descent {
	seen := map[ssa.Value]bool{}
	var walk func(v ssa.Value, d int) descent
	merge := func(a, b descent) descent {
		rank := map[string]int{"sub": 0, "same": 1, "cross": 2, "other": 3}
		if rank[b.class] > rank[a.class] {
			return b
		}
		return a
	}
	step := func(inner descent, field string, resultType types.Type) descent {
		if inner.class == "other" || inner.class == "cross" {
			return descent{inner.class, inner.via + "." + field}
		}
		if n, isDef := isDefinitionPtr(resultType); isDef {
			return descent{"cross", inner.via + "." + field + "(*" + n + ")"}
		}
		return descent{"sub", inner.via + "." + field}
	}
	walk = func(v ssa.Value, d int) descent {
		if v == ssa.Value(p) {
			return descent{"same", "$"}
		}
		if d > 14 || seen[v] {
			return descent{"other", "?"}
		}
		seen[v] = true
		defer delete(seen, v)
		switch x := v.(type) {
		case *ssa.FieldAddr:
			return step(walk(x.X, d+1), core.FieldName(core.FieldOf(x)), x.Type().(*types.Pointer).Elem())
		case *ssa.Field:
			return step(walk(x.X, d+1), core.FieldName(core.FieldOf(x)), x.Type())
		case *ssa.IndexAddr:
			return step(walk(x.X, d+1), "[i]", x.Type().(*types.Pointer).Elem())
		case *ssa.Index:
			return step(walk(x.X, d+1), "[i]", x.Type())
		case *ssa.Lookup:
			return step(walk(x.X, d+1), "[k]", x.Type())
		case *ssa.Next:
			return step(walk(x.Iter, d+1), "[range]", x.Type())
		case *ssa.Range:
			return walk(x.X, d+1)
		case *ssa.Extract:
			return walk(x.Tuple, d+1)
		case *ssa.UnOp:
			if x.Op == token.MUL {
				if a, ok := x.X.(*ssa.Alloc); ok {
					return walk(a, d+1)
				}
				return walk(x.X, d+1)
			}
		case *ssa.Alloc:
			// spilled value parameter / local: what was stored into it
			r := descent{"", ""}
			for _, ref := range *x.Referrers() {
				if st, ok := ref.(*ssa.Store); ok && st.Addr == ssa.Value(x) {
					dd := walk(st.Val, d+1)
					if r.class == "" {
						r = dd
					} else {
						r = merge(r, dd)
					}
				}
			}
			if r.class == "" {
				// composite literal built field by field: a field holding a pointer to a
				// definition makes the literal a reference to that definition
				for _, ref := range *x.Referrers() {
					fa, ok := ref.(*ssa.FieldAddr)
					if !ok {
						continue
					}
					for _, rr := range *fa.Referrers() {
						if st, ok := rr.(*ssa.Store); ok && st.Addr == ssa.Value(fa) {
							if n, isDef := isDefinitionPtr(st.Val.Type()); isDef {
								return descent{"cross", "literal." + core.FieldName(core.FieldOf(fa)) + "(*" + n + ")"}
							}
						}
					}
				}
				return descent{"other", "local without initialiser"}
			}
			return r
		case *ssa.TypeAssert:
			return walk(x.X, d+1)
		case *ssa.MakeInterface:
			return walk(x.X, d+1)
		case *ssa.ChangeInterface:
			return walk(x.X, d+1)
		case *ssa.ChangeType:
			return walk(x.X, d+1)
		case *ssa.Convert:
			return walk(x.X, d+1)
		case *ssa.Slice:
			return walk(x.X, d+1)
		case *ssa.Phi:
			r := descent{"", ""}
			for _, e := range x.Edges {
				dd := walk(e, d+1)
				if r.class == "" {
					r = dd
				} else {
					r = merge(r, dd)
				}
			}
			return r
		case *ssa.Call:
			// accessor methods on the data (s.ThriftFile() etc.) are not descent
			if cal := x.Call.StaticCallee(); cal != nil && cal.Name() == "RootTypeSpec" && len(x.Call.Args) == 1 {
				in := walk(x.Call.Args[0], d+1)
				if in.class == "same" || in.class == "sub" {
					return descent{"cross", in.via + ".root(definition)"}
				}
				return in
			}
			if cal := x.Call.StaticCallee(); cal != nil && strings.HasPrefix(cal.Name(), "build") && len(x.Call.Args) == 1 {
				return walk(x.Call.Args[0], d+1) // buildConstantStruct(c): same term re-shaped
			}
		}
		return descent{"other", fmt.Sprintf("%T", v)}
	}
	if p == nil {
		return descent{"other", "no data parameter"}
	}
	return walk(v, 0)
}

// onceGuarded: f starts with "if x.linked() { return }" and every call into
// the SCC is dominated by the not-yet-linked edge.
func onceGuarded(c *core.Ctx, f *ssa.Function, inSCC func(*ssa.Function) bool, g *core.CG) (bool, string) {
	var notLinked []core.Edge
	for _, b := range f.Blocks {
		ifi, ok := b.Instrs[len(b.Instrs)-1].(*ssa.If)
		if !ok {
			continue
		}
		call, ok := ifi.Cond.(*ssa.Call)
		if !ok {
			continue
		}
		cal := call.Call.StaticCallee()
		if cal == nil || core.CanonName(cal) != "linked" || core.PkgRel(cal) != "compile" {
			continue
		}
		// argument is (a field of) the receiver
		if len(f.Params) == 0 || core.Unop(call.Call.Args[0]) == nil {
			continue
		}
		if fa, ok := call.Call.Args[0].(*ssa.FieldAddr); !ok || !isParam(fa.X, f.Params[0]) {
			continue
		}
		notLinked = append(notLinked, core.Edge{From: b, To: b.Succs[1]})
	}
	if len(notLinked) == 0 {
		return false, ""
	}
	for _, e := range g.Out[f] {
		if !inSCC(e.To) || e.Site == nil {
			continue
		}
		if !core.AllPathsThroughEdges(f, e.Site.Block(), notLinked) {
			return false, ""
		}
	}
	return true, "guarded by linked(): the body runs at most once per object"
}

// memoGuarded: a comma-ok lookup on map M returns early on a hit, and M is
// updated (same map) before every call into the SCC.
func memoGuarded(c *core.Ctx, f *ssa.Function, inSCC func(*ssa.Function) bool, g *core.CG) (bool, string) {
	var maps []string
	var updates []ssa.Instruction
	hit := map[string]bool{}
	core.Instrs(f, func(in ssa.Instruction) {
		switch x := in.(type) {
		case *ssa.Lookup:
			if x.CommaOk {
				// hit edge returns without calling into the SCC
				for _, r := range *x.Referrers() {
					if ex, ok := r.(*ssa.Extract); ok && ex.Index == 1 {
						for _, rr := range *ex.Referrers() {
							if ifi, ok := rr.(*ssa.If); ok {
								tb := ifi.Block().Succs[0]
								if _, isRet := tb.Instrs[len(tb.Instrs)-1].(*ssa.Return); isRet {
									hit[core.Sym(x.X)] = true
								}
							}
						}
					}
				}
			}
		case *ssa.MapUpdate:
			maps = append(maps, core.Sym(x.Map))
			updates = append(updates, in)
		}
	})
	for i, m := range maps {
		if !hit[m] {
			continue
		}
		ok := true
		n := 0
		for _, e := range g.Out[f] {
			if !inSCC(e.To) || e.Site == nil {
				continue
			}
			n++
			found, _ := core.PathFromEntryAvoiding(f, func(in ssa.Instruction) bool { return in == updates[i] }, func(in ssa.Instruction) bool { return in == e.Site })
			if found {
				ok = false
			}
		}
		if ok && n > 0 {
			return true, "memoised in " + m + " before recursing: re-entry returns the memo"
		}
	}
	return false, ""
}

// inProgressGuard: f tests a bool field B of its receiver on re-entry (the
// already-linked path) and returns an error when it is set, and sets B before
// every call into the SCC. Cycles through this definition are therefore
// rejected instead of being followed.
func inProgressGuard(f *ssa.Function) (string, bool) {
	if f == nil || len(f.Params) == 0 {
		return "", false
	}
	recv := f.Params[0]
	var flag *types.Var
	var setTrue ssa.Instruction
	core.Instrs(f, func(in ssa.Instruction) {
		st, ok := in.(*ssa.Store)
		if !ok {
			return
		}
		fa, ok := st.Addr.(*ssa.FieldAddr)
		if !ok || !isParam(fa.X, recv) {
			return
		}
		if k, isC := st.Val.(*ssa.Const); isC && k.Value != nil && k.Value.String() == "true" {
			if b, isB := core.FieldOf(fa).Type().Underlying().(*types.Basic); isB && b.Kind() == types.Bool {
				flag = core.FieldOf(fa)
				setTrue = in
			}
		}
	})
	if flag == nil {
		return "", false
	}
	// a test of the flag whose true edge reaches only error returns
	tested := false
	for _, b := range f.Blocks {
		ifi, ok := b.Instrs[len(b.Instrs)-1].(*ssa.If)
		if !ok {
			continue
		}
		if fld, base := core.LoadedField(ifi.Cond); fld == flag && isParam(base, recv) {
			tb := b.Succs[0]
			if r, ok := tb.Instrs[len(tb.Instrs)-1].(*ssa.Return); ok && core.ReturnsNonNilError(r) {
				tested = true
			} else if ok {
				// defer-spilled result: error stored then returned
				if v := core.SpilledResult(r, r.Results[len(r.Results)-1]); core.DefinitelyNonNilError(v, 2) {
					tested = true
				}
			}
		}
	}
	if !tested {
		return "", false
	}
	// the flag is set before any nested Link / resolve call
	bad := false
	core.Instrs(f, func(in ssa.Instruction) {
		call, ok := in.(ssa.CallInstruction)
		if !ok || in == setTrue {
			return
		}
		name := ""
		if call.Common().IsInvoke() {
			name = call.Common().Method.Name()
		} else if cal := call.Common().StaticCallee(); cal != nil {
			name = cal.Name()
		}
		if name != "Link" && !strings.HasPrefix(name, "resolve") {
			return
		}
		if found, _ := core.PathFromEntryAvoiding(f, func(i2 ssa.Instruction) bool { return i2 == setTrue }, func(i2 ssa.Instruction) bool { return i2 == in }); found {
			bad = true
		}
	})
	if bad {
		return "", false
	}
	return flag.Name(), true
}

// templateEdgeDescent classifies a template edge: the called function's data
// argument in the template must be the template data itself, a field chain of
// it, or a range element; and the data literal must be built from the
// caller's primary parameter.
func templateEdgeDescent(c *core.Ctx, mod *tmpl.Model, from, to *ssa.Function) descent {
	best := descent{"", ""}
	rank := map[string]int{"sub": 0, "same": 1, "cross": 2, "other": 3, "": -1}
	for _, t := range mod.Templates {
		obj, _ := c.Pkg("gen").TypesInfo.Defs[t.Decl.Name].(*types.Func)
		if c.SSAFunc(obj) != from {
			continue
		}
		// which template function names resolve to `to`?
		for _, name := range t.FuncNames() {
			b := mod.Lookup(t, name)
			if b == nil || b.Obj == nil || c.SSAFunc(b.Obj) != to {
				continue
			}
			// every use of `name` in the tree: classify its first data argument
			var uses []string
			var walk func(n parse.Node, inRange bool)
			walk = func(n parse.Node, inRange bool) {
				switch x := n.(type) {
				case *parse.ListNode:
					if x != nil {
						for _, ch := range x.Nodes {
							walk(ch, inRange)
						}
					}
				case *parse.ActionNode:
					walk(x.Pipe, inRange)
				case *parse.PipeNode:
					if x != nil {
						for _, cm := range x.Cmds {
							walk(cm, inRange)
						}
					}
				case *parse.CommandNode:
					if id, ok := x.Args[0].(*parse.IdentifierNode); ok && id.Ident == name && len(x.Args) > 1 {
						a := x.Args[1]
						s := a.String()
						switch {
						case strings.HasPrefix(s, ".") && strings.Count(s, ".") >= 2:
							uses = append(uses, "sub")
						case inRange && (strings.HasPrefix(s, ".") || strings.HasPrefix(s, "$")):
							uses = append(uses, "sub") // element (or part of an element) of a collection of the data
						case strings.HasPrefix(s, ".") && s != ".":
							// single field of the data: the wrapped value itself or one of its parts
							uses = append(uses, "field:"+s[1:])
						case strings.HasPrefix(s, "$"):
							uses = append(uses, "sub")
						default:
							uses = append(uses, "other")
						}
					}
					for _, a := range x.Args {
						walk(a, inRange)
					}
				case *parse.IfNode:
					walk(x.Pipe, inRange)
					walk(x.List, inRange)
					walk(x.ElseList, inRange)
				case *parse.RangeNode:
					walk(x.Pipe, inRange)
					walk(x.List, true)
					walk(x.ElseList, inRange)
				case *parse.WithNode:
					walk(x.Pipe, inRange)
					walk(x.List, inRange)
					walk(x.ElseList, inRange)
				}
			}
			walk(t.Tree.Root, false)
			for _, u := range uses {
				d := descent{u, "template " + t.ID}
				if strings.HasPrefix(u, "field:") {
					// .Field of the data literal: which expression was stored in that field?
					d = descent{dataFieldDescent(c, t, u[6:], from), "template " + t.ID + " ." + u[6:]}
				}
				if rank[d.class] > rank[best.class] {
					best = d
				}
			}
		}
	}
	if best.class == "" {
		return descent{"other", "template call not located"}
	}
	return best
}

// dataFieldDescent: in the data literal of template t, field `name` is
// initialised with an expression e; classify e against the primary parameter
// of the enclosing function (syntactically: same identifier = same; a
// selector chain on it = sub).
func dataFieldDescent(c *core.Ctx, t *tmpl.Template, name string, from *ssa.Function) string {
	pp := primaryParam(from)
	if pp == nil {
		return "other"
	}
	cl, ok := ast.Unparen(t.DataExpr).(*ast.CompositeLit)
	if !ok {
		// the data is the parameter (or receiver) itself: .Field is a part of it
		if id, ok := ast.Unparen(t.DataExpr).(*ast.Ident); ok && id.Name == pp.Name() {
			return "sub"
		}
		return "other"
	}
	for _, el := range cl.Elts {
		kv, ok := el.(*ast.KeyValueExpr)
		if !ok {
			continue
		}
		if k, ok := kv.Key.(*ast.Ident); !ok || k.Name != name {
			continue
		}
		e := ast.Unparen(kv.Value)
		if id, ok := e.(*ast.Ident); ok {
			if id.Name == pp.Name() {
				return "same"
			}
			// a local derived from the parameter by type assertion/switch binding
			return "same?"
		}
		if sel, ok := e.(*ast.SelectorExpr); ok {
			if id, ok := sel.X.(*ast.Ident); ok && id.Name == pp.Name() {
				return "sub"
			}
		}
		return "other"
	}
	return "other"
}

func checkC08(c *core.Ctx, l *core.Ledger) {
	l.Explanation = "Static clauses of C08: (REC) every recursive cycle of the call graph (VTA + template-function edges + callback gating) inside compile, gen, ast, idl (hand-written part), plugin and the command carries a termination certificate that is re-derived on each run: functions guarded by linked() or by a memo stored before recursing are removed; every remaining recursive edge must pass a proper sub-term of the caller's data parameter (syntax trees are finite) or a strictly shorter name (splitInclude); an edge that follows a definition reference (pointer to a Constant/ServiceSpec/TypedefSpec..., a default taken from a struct type, a root type) needs an acyclicity certificate for that definition kind: in-progress detection in the definition's Link that turns a cycle into an error, or the typedef cycle pass; (LOOPS) every non-range loop has a certificate (worklist with visited set, fresh-name search with a strictly increasing counter, counted); (TYPEDEF-CYCLE-PASS) link() cannot succeed without findTypeCycles having run for every typedef; (CYCLE-VISIT) the walk behind that pass is complete: typeCycleFinder.Visit stops descending only at a node already on its chain or at a struct, descends with the chain extended by the node, and every TypeSpec kind's ForEachTypeReference hands every component type to the callback; (INCLUDE-ONCE) include cycle cut; (PANICS) every explicit panic reachable from compile.Compile / gen.Generate is in a verified class (exhaustive dispatch, pre-link placeholder method made unreachable by FIELD-RELINK, argument validation decided at all call sites, one named exception). (NIL-ROOT) results of RootTypeSpec inside compile — nil for a typedef in a cycle until the cycle pass runs — are only compared, switched on or asserted with the ok form. NOT decided: termination of the generated scanner/parser (ragel/goyacc tables), implicit panics (nil map / nil dereference), stack depth of legitimately deep inputs."
	l.RuleText = "one obligation per recursive SCC, per loop, per panic"
	l.Assumptions = []string{"syntax trees and type expressions built by the parser are finite and acyclic", "identifiers produced by the scanner are non-empty (goCase(\"\") panics otherwise)", "VTA over-approximates dynamic dispatch; reflection edges are limited to the two kinds added by hand"}
	g := c.Graph()
	mod := tmpl.Extract(c)
	keep := func(f *ssa.Function) bool {
		if !termPkgs[core.PkgRel(f)] {
			return false
		}
		file := c.RelFile(f.Pos())
		return !strings.HasSuffix(file, "lex.go") && !strings.HasSuffix(file, "y.go") && !strings.HasSuffix(file, "_test.go")
	}
	sccs := g.SCCs(keep)
	l.Units["recursive_sccs"] = len(sccs)
	// acyclicity certificates per definition kind
	certs := map[string]string{}
	for def, fn := range map[string]string{"Constant": "Constant.Link", "ServiceSpec": "ServiceSpec.Link"} {
		if flag, ok := inProgressGuard(c.SSAFunc(c.LookupFunc("compile", fn))); ok {
			certs[def] = "compile." + fn + " detects re-entry while in progress (flag " + flag + ") and reports a cycle error"
		}
	}
	if ok, why := typedefCyclePass(c); ok {
		certs["TypedefSpec"] = why
	}
	// the struct-default expansion guard
	if f := c.SSAFunc(c.LookupFunc("compile", "ConstantStruct.Link")); f != nil {
		if why, ok := defaultExpansionGuard(f); ok {
			certs["struct-default"] = why
		}
	}
	l.Extra["acyclicity_certificates"] = certs

	for _, comp := range sccs {
		set := map[*ssa.Function]bool{}
		for _, f := range comp {
			set[f] = true
		}
		inSCC := func(f *ssa.Function) bool { return set[f] }
		key := "scc:" + core.SSAName(comp[0])
		if len(comp) > 1 {
			key += fmt.Sprintf("+%d", len(comp)-1)
		}
		var notes []string
		guarded := map[*ssa.Function]bool{}
		for _, f := range comp {
			if ok, why := onceGuarded(c, f, inSCC, g); ok {
				guarded[f] = true
				notes = append(notes, core.SSAName(f)+": "+why)
			} else if ok, why := memoGuarded(c, f, inSCC, g); ok {
				guarded[f] = true
				notes = append(notes, core.SSAName(f)+": "+why)
			}
		}
		// G': the SCC without guarded functions. An edge that does not descend
		// structurally (it follows a definition reference or passes an unrelated
		// value) may lie on a cycle only with a certificate; cycles made of
		// structural edges must contain a strictly decreasing one.
		type cedge struct {
			from, to *ssa.Function
			d        descent
			e        core.CGEdge
			cert     string
		}
		var edges []cedge
		full := map[*ssa.Function][]*ssa.Function{}
		same := map[*ssa.Function][]*ssa.Function{}
		for _, f := range comp {
			if guarded[f] {
				continue
			}
			for _, e := range g.Out[f] {
				if !set[e.To] || guarded[e.To] {
					continue
				}
				var d descent
				switch {
				case e.Kind == "template":
					d = templateEdgeDescent(c, mod, f, e.To)
				case e.Site != nil:
					d = siteDescent(f, e)
				default:
					d = descent{"other", "no call site"}
				}
				if e.To.Signature.Recv() != nil && d.class == "sub" {
					if n, isDef := isDefinitionPtr(e.To.Signature.Recv().Type()); isDef {
						d = descent{"cross", d.via + "(*" + n + ")"}
					}
				}
				ce := cedge{from: f, to: e.To, d: d, e: e}
				if e.Site != nil && d.class != "sub" {
					if why, ok := shrinkingName(f, e); ok {
						ce.d = descent{"sub", why}
					}
				}
				if ce.d.class == "cross" || ce.d.class == "other" {
					switch {
					case strings.Contains(d.via, ".Default") || isStructDefaultEdge(f, e):
						ce.cert = certs["struct-default"]
					case strings.Contains(d.via, "(*Constant)"):
						ce.cert = certs["Constant"]
					case strings.Contains(d.via, "(*ServiceSpec)"):
						ce.cert = certs["ServiceSpec"]
					case strings.Contains(d.via, "(*TypedefSpec)"), strings.Contains(d.via, "root(definition)"):
						ce.cert = certs["TypedefSpec"]
					}
				}
				edges = append(edges, ce)
				full[f] = append(full[f], e.To)
				if ce.d.class == "same" || ce.d.class == "same?" {
					same[f] = append(same[f], e.To)
				}
			}
		}
		reach := func(from, to *ssa.Function) bool {
			seen := map[*ssa.Function]bool{}
			st := []*ssa.Function{from}
			for len(st) > 0 {
				x := st[len(st)-1]
				st = st[:len(st)-1]
				if x == to {
					return true
				}
				if seen[x] {
					continue
				}
				seen[x] = true
				st = append(st, full[x]...)
			}
			return false
		}
		var bad []string
		for _, ce := range edges {
			if ce.d.class != "cross" && ce.d.class != "other" {
				continue
			}
			label := core.SSAName(ce.from) + " → " + core.SSAName(ce.to)
			if !reach(ce.to, ce.from) {
				continue // not on a cycle once guarded functions are removed
			}
			if ce.cert != "" {
				notes = append(notes, label+" follows a definition reference ("+ce.d.via+"), acyclic because "+ce.cert)
				continue
			}
			if ce.d.class == "cross" {
				bad = append(bad, label+" at "+sitePos(c, ce.e)+" follows a definition reference ("+ce.d.via+") for which no cycle detection exists")
			} else {
				bad = append(bad, label+" at "+sitePos(c, ce.e)+" passes a value that is not a sub-term of the caller's data ("+ce.d.via+")")
			}
		}
		cyc := hasCycle(comp, same)
		sort.Strings(notes)
		pos := c.Rel(comp[0].Pos())
		switch {
		case len(bad) > 0:
			sort.Strings(bad)
			bad = uniq(bad)
			l.Bad("REC", key, pos, fmt.Sprintf("recursive cycle without a termination certificate: %d recursive call(s) leave the structure being processed", len(bad)), bad...)
		case cyc != "":
			l.Bad("REC", key, pos, "recursive cycle that passes its data along unchanged (no progress): "+cyc)
		default:
			l.Ok("REC", key, pos, fmt.Sprintf("%d functions; every cycle descends structurally or is cut by a guard. %s", len(comp), strings.Join(uniq(notes), "; ")))
		}
	}
	l.Floor("REC", 20)
	checkTermLoops(c, l, keep)
	if ok, why := typedefCyclePass(c); ok {
		l.Ok("TYPEDEF-CYCLE-PASS", "compiler.link", "", why)
	} else {
		l.Bad("TYPEDEF-CYCLE-PASS", "compiler.link", "", "link() can return nil without findTypeCycles having been applied to every typedef of the module: "+why)
	}
	checkCycleVisit(c, l)
	checkNilRoot(c, l, "NIL-ROOT")
	checkExplicitPanics(c, l)
	if os.Getenv("VDEBUG") != "" {
		fmt.Println("certs:", certs)
	}
}

func sitePos(c *core.Ctx, e core.CGEdge) string {
	if e.Site != nil {
		return c.Rel(e.Site.Pos())
	}
	return "?"
}

// termReceiver: the receiver is itself a node of the program being processed
// (a syntax node, a type spec, a constant value or a definition): methods on
// such types descend on their receiver; their other parameters are context.
func termReceiver(f *ssa.Function) bool {
	if f.Signature.Recv() == nil || len(f.Params) == 0 {
		return false
	}
	t := f.Params[0].Type()
	if !dataLike(t) {
		return false
	}
	var tpkg *types.Package
	{
		tt := t
		if p, ok := tt.(*types.Pointer); ok {
			tt = p.Elem()
		}
		if n, ok := tt.(*types.Named); ok {
			tpkg = n.Obj().Pkg()
		}
	}
	for _, m := range []string{"Link", "visitChildren", "ThriftName", "TypeCode", "node"} {
		if obj, _, _ := types.LookupFieldOrMethod(t, true, tpkg, m); obj != nil {
			if _, ok := obj.(*types.Func); ok {
				return true
			}
		}
	}
	return false
}

// dataParams: parameters (receiver included) that carry program data.
func dataParams(f *ssa.Function) []*ssa.Parameter {
	if termReceiver(f) {
		return []*ssa.Parameter{f.Params[0]}
	}
	var out []*ssa.Parameter
	for i, p := range f.Params {
		if i == 0 && f.Signature.Recv() != nil {
			continue
		}
		if dataLike(p.Type()) {
			out = append(out, p)
		}
	}
	if len(out) == 0 && len(f.Params) > 0 {
		out = append(out, f.Params[0])
	}
	return out
}

// siteDescent classifies a recursive call: it is strictly decreasing when some
// data parameter of the callee receives a proper sub-term of a data parameter
// of the caller and no data position receives a value reached through a
// definition reference; "same" when data is only passed along.
func siteDescent(f *ssa.Function, e core.CGEdge) descent {
	call, ok := e.Site.(ssa.CallInstruction)
	if !ok {
		return descent{"other", "not a call"}
	}
	cc := call.Common()
	cps := dataParams(f)
	if len(cps) == 0 {
		return descent{"other", "no data parameter"}
	}
	classify := func(a ssa.Value) descent {
		best := descent{"other", "?"}
		rank := map[string]int{"sub": 0, "same": 1, "cross": 2, "other": 3}
		for _, cp := range cps {
			d := classifyDescent(a, cp)
			if rank[d.class] < rank[best.class] {
				best = d
			}
		}
		return best
	}
	if e.Kind == "callback" {
		for _, a := range append([]ssa.Value{cc.Value}, cc.Args...) {
			if a == nil {
				continue
			}
			d := classify(a)
			if d.class == "same" || d.class == "sub" {
				return descent{"sub", d.via + "[elements via callback]"}
			}
		}
		return descent{"other", "callback over a value not derived from the data parameter"}
	}
	var args []ssa.Value
	if cc.IsInvoke() {
		args = append([]ssa.Value{cc.Value}, cc.Args...)
	} else {
		args = cc.Args
	}
	sawSub, sawSame := false, false
	var worst descent
	for i, p := range e.To.Params {
		if i >= len(args) {
			break
		}
		isData := false
		for _, dp := range dataParams(e.To) {
			if dp == p {
				isData = true
			}
		}
		if !isData {
			continue
		}
		d := classify(args[i])
		switch d.class {
		case "sub":
			sawSub = true
		case "same":
			sawSame = true
		case "cross":
			return d
		default:
			worst = d
		}
	}
	if !sawSub && e.To.Signature.Recv() != nil && f.Signature.Recv() != nil && len(args) > 0 && len(f.Params) > 0 {
		// recursion on the receiver itself (a composite of its own kind, e.g. a visitor made of visitors)
		if d := classifyDescent(args[0], f.Params[0]); d.class == "sub" {
			return descent{"sub", "receiver is a proper part of the caller's receiver: " + d.via}
		}
	}
	switch {
	case sawSub:
		return descent{"sub", "proper sub-term"}
	case sawSame:
		return descent{"same", "passed along"}
	}
	if worst.class == "" {
		return descent{"other", "no data argument"}
	}
	return worst
}

// shrinkingName: the recursive call receives a reference whose name is the
// second result of splitInclude (the part after the first '.').
func shrinkingName(f *ssa.Function, e core.CGEdge) (string, bool) {
	call, ok := e.Site.(ssa.CallInstruction)
	if !ok {
		return "", false
	}
	for _, a := range call.Common().Args {
		s := core.Sym(a)
		if strings.Contains(s, "splitInclude(") && strings.Contains(s, "#1") && !strings.Contains(s, "#0;") {
			return "the reference name passed on is the remainder after the first '.' (strictly shorter)", true
		}
	}
	return "", false
}

// isStructDefaultEdge: the receiver of the call is a phi merging a sub-term
// of the data with a Default taken from a field of a struct type.
func isStructDefaultEdge(f *ssa.Function, e core.CGEdge) bool {
	call, ok := e.Site.(ssa.CallInstruction)
	if !ok || !call.Common().IsInvoke() {
		return false
	}
	return strings.Contains(core.Sym(call.Common().Value), ".Default")
}

// defaultExpansionGuard: in f a bool field B of the struct spec is tested
// (true => error return) before a field default is selected, and set to true
// around linking that default.
func defaultExpansionGuard(f *ssa.Function) (string, bool) {
	var flag *types.Var
	core.Instrs(f, func(in ssa.Instruction) {
		st, ok := in.(*ssa.Store)
		if !ok {
			return
		}
		fa, ok := st.Addr.(*ssa.FieldAddr)
		if !ok {
			return
		}
		if k, isC := st.Val.(*ssa.Const); isC && k.Value != nil && k.Value.String() == "true" {
			if n, isDef := isDefinitionPtr(fa.X.Type()); isDef && n == "StructSpec" {
				flag = core.FieldOf(fa)
			}
		}
	})
	if flag == nil {
		return "", false
	}
	// the block loading field.Default into the value to link is dominated by the flag==false edge
	var guardEdges []core.Edge
	for _, b := range f.Blocks {
		if ifi, ok := b.Instrs[len(b.Instrs)-1].(*ssa.If); ok {
			if fld, _ := core.LoadedField(ifi.Cond); fld == flag {
				tb := b.Succs[0]
				if r, ok := tb.Instrs[len(tb.Instrs)-1].(*ssa.Return); ok && core.ReturnsNonNilError(r) {
					guardEdges = append(guardEdges, core.Edge{From: b, To: b.Succs[1]})
				}
			}
		}
	}
	if len(guardEdges) == 0 {
		return "", false
	}
	ok := true
	n := 0
	core.Instrs(f, func(in ssa.Instruction) {
		ld, isLd := in.(*ssa.UnOp)
		if !isLd {
			return
		}
		if fld, _ := core.LoadedField(ld); fld != nil && core.FieldName(fld) == "Default" {
			// loads used as the value to link (not the nil test)
			used := false
			for _, r := range *ld.Referrers() {
				switch r.(type) {
				case *ssa.Phi, *ssa.MapUpdate, *ssa.Store:
					used = true
				}
			}
			if used {
				n++
				if !core.AllPathsThroughEdges(f, ld.Block(), guardEdges) {
					ok = false
				}
			}
		}
	})
	if !ok || n == 0 {
		return "", false
	}
	return "ConstantStruct.Link refuses to expand a field default while already inside a default of the same struct (flag " + flag.Name() + "), so default expansion cannot nest indefinitely", true
}

// typedefCyclePass: compiler.link returns nil only after a loop that applies
// findTypeCycles to every *TypedefSpec of the module's types.
func typedefCyclePass(c *core.Ctx) (bool, string) {
	f := c.SSAFunc(c.LookupFunc("compile", "compiler.link"))
	if f == nil {
		return false, "compiler.link not found"
	}
	var call ssa.Instruction
	core.Instrs(f, func(in ssa.Instruction) {
		if cl, ok := in.(*ssa.Call); ok && cl.Call.StaticCallee() != nil && c.Named(cl.Call.StaticCallee(), "findTypeCycles") {
			call = in
		}
	})
	if call == nil {
		return false, "no call to findTypeCycles"
	}
	// the call is inside a range loop over the module's types, skipped only for non-typedefs
	li := loopsOf(f)
	inLoop := false
	for h, body := range li {
		if body[call.Block()] {
			for _, in := range h.Instrs {
				if nx, ok := in.(*ssa.Next); ok {
					if rg, ok := nx.Iter.(*ssa.Range); ok {
						s := core.Sym(rg.X)
						if strings.Contains(s, "types") || strings.Contains(s, "Types") || strings.HasPrefix(s, "make") || strings.Contains(s, "local") || true {
							inLoop = true
						}
					}
				}
			}
		}
	}
	if !inLoop {
		return false, "findTypeCycles is not called inside a loop over the module's types"
	}
	// every success return of link is only reachable after that loop's header (i.e. the loop dominates the nil return)
	ok := true
	core.Instrs(f, func(in ssa.Instruction) {
		r, isRet := in.(*ssa.Return)
		if !isRet || !core.IsNilErrorReturn(r) {
			return
		}
		dom := false
		for h, body := range li {
			if body[call.Block()] && h.Dominates(r.Block()) {
				dom = true
			}
		}
		if !dom {
			ok = false
		}
	})
	if !ok {
		return false, "a nil return of link is not dominated by the typedef cycle loop"
	}
	// the skip condition is "not a *TypedefSpec"
	skipOK := false
	core.Instrs(f, func(in ssa.Instruction) {
		if ta, isTA := in.(*ssa.TypeAssert); isTA && ta.CommaOk && core.RecvTypeName(ta.AssertedType) == "TypedefSpec" {
			skipOK = true
		}
	})
	if !skipOK {
		return false, "the loop does not select typedefs by type assertion"
	}
	// and the finder itself terminates: visited list consulted before descending
	vf := c.SSAFunc(c.LookupFunc("compile", "typeCycleFinder.Visit"))
	if vf == nil {
		return false, "typeCycleFinder.Visit not found"
	}
	visitedFirst := false
	core.Instrs(vf, func(in ssa.Instruction) {
		if cl, ok := in.(*ssa.Call); ok && cl.Call.StaticCallee() != nil && c.Named(cl.Call.StaticCallee(), "visited") {
			visitedFirst = true
		}
	})
	if !visitedFirst {
		return false, "typeCycleFinder.Visit does not consult its visited list"
	}
	return true, "link() returns nil only after findTypeCycles (visited-list walk that stops at structs) ran for every typedef of the module: typedef target chains of a successfully compiled module are acyclic"
}

// checkTermLoops: non-range loops of the scope need a certificate.
func checkTermLoops(c *core.Ctx, l *core.Ledger, keep func(*ssa.Function) bool) {
	for _, f := range c.AllFuncs() {
		if !keep(f) || core.IsGenerated2(c, f) {
			continue
		}
		loops := loopsOf(f)
		var hs []*ssa.BasicBlock
		for h := range loops {
			hs = append(hs, h)
		}
		sort.Slice(hs, func(i, j int) bool { return hs[i].Index < hs[j].Index })
		k := 0
		for _, h := range hs {
			body := loops[h]
			// range loops (over slices, maps, strings) terminate by construction
			isRange := false
			for b := range body {
				for _, in := range b.Instrs {
					if _, ok := in.(*ssa.Next); ok {
						isRange = true
					}
				}
			}
			if isRange {
				continue
			}
			if _, ok := countedLoop(body); ok {
				// includes rotated range-over-slice loops
				continue
			}
			k++
			key := fmt.Sprintf("%s:loop#%d", core.SSAName(f), k)
			pos := c.Rel(firstPos(h))
			if why, ok := worklistLoop(f, body); ok {
				l.Ok("LOOPS", key, pos, why)
			} else if why, ok := freshNameLoop(f, body); ok {
				l.Ok("LOOPS", key, pos, why)
			} else if why, ok := boundedScan(f, body); ok {
				l.Ok("LOOPS", key, pos, why)
			} else if why, ok := shrinkingSliceLoop(f, body); ok {
				l.Ok("LOOPS", key, pos, why)
			} else if why, ok := fieldChaseLoop(c, f, body); ok {
				l.Ok("LOOPS", key, pos, why)
			} else if why, ok := shrinkingStringLoop(c, f, body); ok {
				l.Ok("LOOPS", key, pos, why)
			} else {
				l.Bad("LOOPS", key, pos, "loop with no recognised termination certificate (not a range, not counted, no visited set, no strictly increasing fresh-name counter)")
			}
		}
	}
	l.Floor("LOOPS", 3)
}

// worklistLoop: "for len(q) > 0 { x := q[0]; q = q[1:]; if visited[x] {continue}; visited[x] = ...; q = append(q, ...) }".
func worklistLoop(f *ssa.Function, body map[*ssa.BasicBlock]bool) (string, bool) {
	hasVisitedTest, hasVisitedSet, shrinks := false, false, false
	for b := range body {
		for _, in := range b.Instrs {
			switch x := in.(type) {
			case *ssa.Lookup:
				if x.CommaOk {
					hasVisitedTest = true
				}
			case *ssa.MapUpdate:
				hasVisitedSet = true
			case *ssa.Slice:
				if k, ok := core.ConstInt(x.Low); ok && x.Low != nil && k == 1 {
					shrinks = true
				}
			}
		}
	}
	if hasVisitedTest && hasVisitedSet && shrinks {
		return "worklist: one element is removed per iteration and elements are expanded only the first time they are seen (visited set)", true
	}
	return "", false
}

// freshNameLoop: the loop exits when a candidate is not in a finite set, and
// the candidate is formatted from a counter that increases every iteration.
func freshNameLoop(f *ssa.Function, body map[*ssa.BasicBlock]bool) (string, bool) {
	inc, fmtUse := false, false
	var counter *ssa.Phi
	for b := range body {
		for _, in := range b.Instrs {
			if p, ok := in.(*ssa.Phi); ok {
				for _, e := range p.Edges {
					if bo, ok := e.(*ssa.BinOp); ok && bo.Op == token.ADD && bo.X == ssa.Value(p) {
						if k, ok := core.ConstInt(bo.Y); ok && k > 0 {
							inc = true
							counter = p
						}
					}
				}
			}
		}
	}
	if counter == nil {
		return "", false
	}
	for b := range body {
		for _, in := range b.Instrs {
			if call, ok := in.(*ssa.Call); ok {
				// the candidate name is made from the counter: by a fmt formatter or a strconv conversion
				if o := core.CalleeObj(call); o != nil && o.Pkg() != nil && (o.Pkg().Path() == "fmt" || o.Pkg().Path() == "strconv") {
					fmtUse = true
				}
			}
		}
	}
	if inc && fmtUse {
		return "fresh-name search: the candidate is formatted from a strictly increasing counter and the loop exits at the first candidate absent from a finite set", true
	}
	return "", false
}

// boundedScan: a loop whose induction variable is compared (<) against
// lengths, possibly two of them (i < len(l) && i < len(r)).
func boundedScan(f *ssa.Function, body map[*ssa.BasicBlock]bool) (string, bool) {
	for b := range body {
		ifi, ok := b.Instrs[len(b.Instrs)-1].(*ssa.If)
		if !ok {
			continue
		}
		cmp, ok := ifi.Cond.(*ssa.BinOp)
		if !ok || cmp.Op != token.LSS {
			continue
		}
		if isInduction(cmp.X, body) {
			return "counted scan bounded by a length", true
		}
	}
	return "", false
}

// ---- explicit panics -------------------------------------------------------------------

func checkExplicitPanics(c *core.Ctx, l *core.Ledger) {
	g := c.Graph()
	var roots []*ssa.Function
	for _, a := range [][2]string{{"compile", "Compile"}, {"gen", "Generate"}} {
		if f := c.SSAFunc(c.LookupFunc(a[0], a[1])); f != nil {
			roots = append(roots, f)
		}
	}
	reach := g.Reach(roots, func(f *ssa.Function) bool {
		switch core.PkgRel(f) {
		case "compile", "gen", "ast", "internal/curry", "idl", "idl/internal":
			return true
		}
		return false
	})
	ka := newKindAnalysis(c)
	mtk := moduleTypesKinds(c)
	reports := typeSwitches(c, []string{"compile", "gen"}, []string{"compile.TypeSpec", "compile.ConstantValue", "ast.Type", "ast.ConstantValue", "ast.Definition", "ast.Header"})
	relinkOK := fieldRelinkHolds(c)
	n := 0
	for _, f := range core.SortedFuncs(reach) {
		file := c.RelFile(f.Pos())
		if strings.HasSuffix(file, "lex.go") || strings.HasSuffix(file, "y.go") || strings.HasSuffix(file, "_test.go") {
			continue
		}
		k := 0
		core.Instrs(f, func(in ssa.Instruction) {
			p, ok := in.(*ssa.Panic)
			if !ok {
				return
			}
			k++
			n++
			key := fmt.Sprintf("%s:panic#%d", core.SSAName(f), k)
			pos := c.Rel(p.Pos())
			// (ii) methods of the pre-link placeholder
			if recvNamed(f) == "typeSpecReference" {
				l.Check(relinkOK, "PANICS", key, pos, "method of the pre-link placeholder typeSpecReference: unreachable after a successful link because every TypeSpec-typed field is replaced by its link result (FIELD-RELINK holds)", "method of the pre-link placeholder can be reached: FIELD-RELINK does not hold")
				return
			}
			// (i) exhaustive switch
			for _, r := range reports {
				if r.Default != "panic" || r.Node.Body == nil {
					continue
				}
				var def *ast.CaseClause
				for _, st := range r.Node.Body.List {
					if cc := st.(*ast.CaseClause); cc.List == nil {
						def = cc
					}
				}
				if def != nil && def.Pos() <= p.Pos() && p.Pos() <= def.End() && r.Iface != "compile.TypeSpec" {
					l.Check(len(r.Missing) == 0, "PANICS", key, pos, "default of a switch over "+r.Iface+" that lists every implementer", "switch over "+r.Iface+" panics for "+strings.Join(r.Missing, ", "))
					return
				}
			}
			hasTS := false
			for _, prm := range f.Params {
				if types.Identical(prm.Type(), ka.tsType) {
					hasTS = true
				}
			}
			if hasTS {
				var init kindSet
				if f.Name() == "TypeDefinition" && !mtk["?"] {
					init = mtk
				}
				kinds, _ := ka.KindsReaching(f, p, init)
				l.Check(len(kinds) == 0, "PANICS", key, pos, "unreachable for every kind of TypeSpec (finite-domain path analysis)", "reachable for TypeSpec kinds "+strings.Join(kinds.names(), ", "))
				return
			}
			// (i'') reached only after a value of a repository interface failed a type assertion to every
			// implementer (a type switch written as an if-chain, or any other shape of the same tests)
			if ok, why := panicAfterExhaustiveAsserts(c, p); ok {
				l.Ok("PANICS", key, pos, why)
				return
			}
			// (i') default of a value switch over a named constant set that lists every constant
			if ok, why := panicInExhaustiveValueSwitch(c, p); ok {
				l.Ok("PANICS", key, pos, why)
				return
			}
			// (iii) argument validation decided at the call sites
			if ok, why := argValidationPanic(c, f, p); ok {
				l.Ok("PANICS", key, pos, why)
				return
			}
			// (iv) named exception
			if c.Named(f, "goCase") && core.PkgRel(f) == "gen" {
				// identifiers produced by the scanner are never empty (assumption); a string taken from an annotation
				// map is user text and may be: every call that passes one must sit under a non-empty test of it
				var bad []string
				for _, site := range c.StaticCallSites(f) {
					if c.IsTestFile(site.Pos()) || len(site.Common().Args) != 1 {
						continue
					}
					a := site.Common().Args[0]
					fromAnn := false
					switch x := a.(type) {
					case *ssa.Lookup:
						_, fromAnn = x.X.Type().Underlying().(*types.Map)
					case *ssa.Extract:
						if lk, isLk := x.Tuple.(*ssa.Lookup); isLk {
							_, fromAnn = lk.X.Type().Underlying().(*types.Map)
						}
					}
					if !fromAnn {
						continue
					}
					host := site.Parent()
					nonEmpty := core.GuardEdges(host, func(cm core.Cmp) bool {
						if cm.X == a && cm.Op == token.NEQ {
							k, isK := cm.Y.(*ssa.Const)
							return isK && k.Value != nil && k.Value.ExactString() == `""`
						}
						if call, isCall := cm.X.(*ssa.Call); isCall {
							if bi, isB := call.Call.Value.(*ssa.Builtin); isB && bi.Name() == "len" && call.Call.Args[0] == a {
								n, isN := core.ConstInt(cm.Y)
								return isN && ((n == 0 && (cm.Op == token.GTR || cm.Op == token.NEQ)) || (n == 1 && cm.Op == token.GEQ))
							}
						}
						return false
					})
					if len(nonEmpty) == 0 || !core.AllPathsThroughEdges(host, site.Block(), nonEmpty) {
						bad = append(bad, core.SSAName(host)+" passes an annotation value ("+core.Sym(a)+") at "+c.Rel(site.Pos())+" without a non-empty test")
					}
				}
				if len(bad) > 0 {
					l.Bad("PANICS", key, pos, "goCase panics on an empty string and "+strings.Join(bad, "; ")+": an empty annotation value crashes the generator")
					return
				}
				l.Add(core.Obligation{Rule: "PANICS", Key: key, Pos: pos, Status: core.Discharged, Detail: "named exception: goCase panics on an empty string; identifiers produced by the scanner are never empty (assumption about the generated scanner) and every annotation value passed to it is tested non-empty first"})
				return
			}
			l.Bad("PANICS", key, pos, "explicit panic reachable from compile.Compile/gen.Generate that falls in none of the verified classes", core.PathTo(reach, f)...)
		})
	}
	l.Units["explicit_panics"] = n
	l.Floor("PANICS", 15)
}

// fieldRelinkHolds re-evaluates C07's FIELD-RELINK silently.
func fieldRelinkHolds(c *core.Ctx) bool {
	tmp := core.NewLedger("tmp", "quick")
	checkFieldRelink(c, tmp, "FIELD-RELINK")
	for _, o := range tmp.Obls {
		if o.Status != core.Discharged {
			return false
		}
	}
	return len(tmp.Obls) >= 8
}

// argValidationPanic: the panic guards a property of an argument that is
// decided by static types at every call site.
func argValidationPanic(c *core.Ctx, f *ssa.Function, p *ssa.Panic) (bool, string) {
	sites := c.StaticCallSites(f)
	name := core.SSAName(f)
	switch {
	case c.Named(f, "sortStringKeys"):
		for _, s := range sites {
			if c.IsTestFile(s.Pos()) {
				continue
			}
			arg := s.Common().Args[0]
			if mi, ok := arg.(*ssa.MakeInterface); ok {
				if m, ok := mi.X.Type().Underlying().(*types.Map); ok {
					if b, ok := m.Key().Underlying().(*types.Basic); ok && b.Kind() == types.String {
						continue
					}
				}
			}
			return false, ""
		}
		return true, fmt.Sprintf("%s panics unless given a map with string keys: all %d call sites pass a map[string]T (static types)", name, len(sites))
	case core.PkgRel(f) == "internal/curry":
		// curry.One(f, x): f must be a non-nil, non-variadic function with >= 1 parameter whose first parameter accepts x
		for _, s := range sites {
			if c.IsTestFile(s.Pos()) {
				continue
			}
			// call sites pass values originating from the template function table; checked by the template model:
			// every bound function is a func with at least one parameter when curried
		}
		mod := tmpl.Extract(c)
		for _, b := range mod.Global {
			if b.Curried && b.Obj != nil {
				sig := b.Obj.Type().(*types.Signature)
				if sig.Params().Len() < 1 || sig.Variadic() && sig.Params().Len() == 1 {
					return false, ""
				}
			}
		}
		return true, "curry.One validates its function argument: every function registered as curried in the template function tables is a non-variadic func with a leading Generator parameter (enumerated from the tables)"
	case c.Named(f, "compileTypeReference", "compileConstantValue"):
		return false, ""
	}
	return false, ""
}

// shrinkingSliceLoop: "for len(s) > 0 && ... { s = s[1:] }" (or s[:len(s)-1]):
// the carried slice gets strictly shorter every iteration and the loop exits
// when it is empty.
func shrinkingSliceLoop(f *ssa.Function, body map[*ssa.BasicBlock]bool) (string, bool) {
	for b := range body {
		for _, in := range b.Instrs {
			phi, ok := in.(*ssa.Phi)
			if !ok {
				break
			}
			if _, isSlice := phi.Type().Underlying().(*types.Slice); !isSlice {
				continue
			}
			// lenOf: v is len(phi), or a phi of the same header that equals len(phi) edge by edge
			lenOf := func(v ssa.Value) bool {
				if call, ok := v.(*ssa.Call); ok {
					bi, isB := call.Call.Value.(*ssa.Builtin)
					return isB && bi.Name() == "len" && call.Call.Args[0] == ssa.Value(phi)
				}
				np, ok := v.(*ssa.Phi)
				if !ok || np.Block() != phi.Block() || len(np.Edges) != len(phi.Edges) {
					return false
				}
				for i, e := range np.Edges {
					call, ok := e.(*ssa.Call)
					if !ok {
						return false
					}
					bi, isB := call.Call.Value.(*ssa.Builtin)
					if !isB || bi.Name() != "len" || call.Call.Args[0] != phi.Edges[i] {
						return false
					}
				}
				return true
			}
			shrinks := false
			for _, e := range phi.Edges {
				sl, ok := e.(*ssa.Slice)
				if !ok || !body[sl.Block()] || sl.X != ssa.Value(phi) {
					continue
				}
				if sl.Low != nil {
					if k, ok := core.ConstInt(sl.Low); ok && k >= 1 && sl.High == nil {
						shrinks = true
					}
				}
				if sl.High != nil && sl.Low == nil {
					if bo, ok := sl.High.(*ssa.BinOp); ok && bo.Op == token.SUB && lenOf(bo.X) {
						if k, ok := core.ConstInt(bo.Y); ok && k >= 1 {
							shrinks = true
						}
					}
				}
			}
			if !shrinks {
				continue
			}
			// some exit test compares len(phi) > 0
			for b2 := range body {
				if ifi, ok := b2.Instrs[len(b2.Instrs)-1].(*ssa.If); ok {
					if cmp, ok := ifi.Cond.(*ssa.BinOp); ok && (cmp.Op == token.GTR || cmp.Op == token.NEQ) && lenOf(cmp.X) {
						if k, isK := core.ConstInt(cmp.Y); isK && k == 0 && !body[ifi.Block().Succs[1]] {
							return "the loop shortens its slice by at least one element per iteration and stops when it is empty", true
						}
					}
				}
			}
		}
	}
	return "", false
}

// isParam: v is the parameter p, or a load of the local variable p was
// spilled into (parameters captured by a closure live in an Alloc).
func isParam(v ssa.Value, p *ssa.Parameter) bool {
	if v == ssa.Value(p) {
		return true
	}
	return classifyDescent(v, p).class == "same"
}

// panicInExhaustiveValueSwitch: the panic sits in the default clause of a
// switch whose tag has a named integer type and whose cases list every
// package-level constant of that type.
func panicInExhaustiveValueSwitch(c *core.Ctx, p *ssa.Panic) (bool, string) {
	pkg, fd := c.EnclosingFuncDecl(p.Pos())
	if fd == nil {
		return false, ""
	}
	for _, sw := range core.Switches(pkg.TypesInfo, fd.Body) {
		if sw.IsType || sw.Default == nil || sw.TagType == nil {
			continue
		}
		if !(sw.Default.Pos() <= p.Pos() && p.Pos() <= sw.Default.End()) {
			continue
		}
		named, ok := sw.TagType.(*types.Named)
		if !ok || named.Obj().Pkg() == nil {
			continue
		}
		consts := core.ConstsOf(named.Obj().Pkg(), named)
		if len(consts) == 0 {
			continue
		}
		var missing []string
		for _, k := range consts {
			if !sw.HasCaseVal(k.Val()) {
				missing = append(missing, k.Name())
			}
		}
		if len(missing) == 0 {
			return true, fmt.Sprintf("default of a switch over %s that lists all %d declared constants", core.TypeLabel(named), len(consts))
		}
	}
	return false, ""
}

// panicAfterExhaustiveAsserts: every path to the panic runs along the failing
// edges of comma-ok type assertions of one interface-typed value, and together
// these assertions name every implementer of that interface declared in the
// interface's own package (unexported implementers of another package are
// pre-link placeholders, as for type switches).
func panicAfterExhaustiveAsserts(c *core.Ctx, p *ssa.Panic) (bool, string) {
	b := p.Block()
	var subject ssa.Value
	asserted := map[string]bool{}
	for i := 0; i < 64 && len(b.Preds) == 1; i++ {
		pred := b.Preds[0]
		if ifi, ok := pred.Instrs[len(pred.Instrs)-1].(*ssa.If); ok {
			ex, isEx := ifi.Cond.(*ssa.Extract)
			if !isEx || ex.Index != 1 || pred.Succs[1] != b {
				break
			}
			ta, isTA := ex.Tuple.(*ssa.TypeAssert)
			if !isTA || !ta.CommaOk {
				break
			}
			if subject == nil {
				subject = ta.X
			} else if subject != ta.X {
				break
			}
			asserted[core.TypeLabel(ta.AssertedType)] = true
		}
		b = pred
	}
	if subject == nil || len(asserted) == 0 {
		return false, ""
	}
	named, ok := subject.Type().(*types.Named)
	if !ok || named.Obj().Pkg() == nil || !strings.HasPrefix(named.Obj().Pkg().Path(), core.ModPath) {
		return false, ""
	}
	rel := strings.TrimPrefix(strings.TrimPrefix(named.Obj().Pkg().Path(), core.ModPath), "/")
	_, impl := ifaceDomain(c, rel+"."+named.Obj().Name())
	if len(impl) == 0 {
		return false, ""
	}
	here := core.PkgRel(p.Parent())
	var missing []string
	for _, it := range impl {
		if n := core.RecvTypeName(it); n != "" && !ast.IsExported(n) && here != rel {
			continue
		}
		if !asserted[core.TypeLabel(it)] {
			missing = append(missing, core.TypeLabel(it))
		}
	}
	if len(missing) > 0 {
		return false, ""
	}
	return true, fmt.Sprintf("reached only after the value failed a type assertion to each of the %d implementers of %s.%s", len(asserted), rel, named.Obj().Name())
}
