package rules

import (
	"fmt"
	"go/token"
	"go/types"
	"strings"

	"golang.org/x/tools/go/ssa"

	"verif/internal/core"
)

// nestingConds walks from block b up through single-predecessor chains and
// returns the branch conditions (symbolic, "!" prefix for the false edge) b is
// nested under.
func nestingConds(b *ssa.BasicBlock) []string {
	var out []string
	for i := 0; i < 60; i++ {
		if len(b.Preds) != 1 {
			// a statement that merges again before b — an if without else, a complete if/else — precedes b
			// inside the same region: continue from the block that statement started in (b's immediate
			// dominator), provided every predecessor of b lies under it and b is not a loop head
			d := b.Idom()
			if d == nil || len(b.Preds) == 0 {
				break
			}
			ok := true
			for _, p := range b.Preds {
				if !(p == d || d.Dominates(p)) || b.Dominates(p) {
					ok = false
				}
			}
			if !ok {
				break
			}
			// d's own branch is not a condition of b (both arms reach b); go on above d
			if len(d.Preds) == 0 {
				break
			}
			b = d
			if len(b.Preds) != 1 {
				continue
			}
		}
		p := b.Preds[0]
		if ifi, ok := p.Instrs[len(p.Instrs)-1].(*ssa.If); ok {
			cond := ifi.Cond
			neg := p.Succs[1] == b
			for {
				if u, ok := cond.(*ssa.UnOp); ok && u.Op == token.NOT {
					cond, neg = u.X, !neg
					continue
				}
				break
			}
			s := condSym(cond)
			if neg {
				s = "!" + s
			}
			out = append(out, s)
		}
		b = p
	}
	return out
}

// domConds is nestingConds over the dominator tree: the conditions of every
// dominating branch one of whose arms b lies entirely under (the arm's first
// block has the branch as its only predecessor and dominates b). Unlike
// nestingConds it looks past statements that merge again before b — an
// if-without-else that precedes b inside the same guarded region.
func domConds(b *ssa.BasicBlock) []string {
	var out []string
	for d := b.Idom(); d != nil; d = d.Idom() {
		ifi, ok := d.Instrs[len(d.Instrs)-1].(*ssa.If)
		if !ok {
			continue
		}
		for idx := 0; idx < 2; idx++ {
			sc := d.Succs[idx]
			if len(sc.Preds) != 1 || !(sc == b || sc.Dominates(b)) {
				continue
			}
			cond, neg := ifi.Cond, idx == 1
			for {
				if u, isU := cond.(*ssa.UnOp); isU && u.Op == token.NOT {
					cond, neg = u.X, !neg
					continue
				}
				break
			}
			s := condSym(cond)
			if neg {
				s = "!" + s
			}
			out = append(out, s)
			break
		}
	}
	return out
}

// condSym renders a branch condition; type-assertion tests are rendered by the
// asserted type, calls by callee name.
func condSym(v ssa.Value) string {
	switch x := v.(type) {
	case *ssa.BinOp:
		// a counted loop's test: do not render the induction variable
		if x.Op == token.LSS {
			if ys := core.Sym(x.Y); strings.HasPrefix(ys, "len(") {
				return "loop(" + ys + ")"
			}
		}
		// comparisons of interface method results: show the receivers
		if cx, ok := x.X.(*ssa.Call); ok && cx.Call.IsInvoke() {
			if cy, ok := x.Y.(*ssa.Call); ok && cy.Call.IsInvoke() {
				return "(" + core.Sym(cx.Call.Value) + "." + cx.Call.Method.Name() + "()" + x.Op.String() + core.Sym(cy.Call.Value) + "." + cy.Call.Method.Name() + "())"
			}
		}
	case *ssa.Extract:
		if _, ok := x.Tuple.(*ssa.Next); ok && x.Index == 0 {
			return "next"
		}
		if ta, ok := x.Tuple.(*ssa.TypeAssert); ok && x.Index == 1 {
			return "is(" + core.TypeLabel(ta.AssertedType) + ")"
		}
	case *ssa.Call:
		if cal := x.Call.StaticCallee(); cal != nil {
			return core.CanonName(cal) + "()"
		}
	}
	return core.Sym(v)
}

// checkCycleVisit: the typedef cycle pass is an acyclicity certificate only if
// the walk is complete: typeCycleFinder.Visit may stop descending (return nil
// before delegating to ForEachTypeReference) only at a node already on the
// chain or at a struct, and every TypeSpec kind's ForEachTypeReference hands
// every component type to the callback.
func checkCycleVisit(c *core.Ctx, l *core.Ledger) {
	vf := c.SSAFunc(c.LookupFunc("compile", "typeCycleFinder.Visit"))
	if vf == nil {
		l.Unk("CYCLE-VISIT", "typeCycleFinder.Visit", "", "not found")
		return
	}
	allowed := func(s string) bool {
		s = strings.TrimPrefix(s, "!")
		return s == "visited()" || s == "is(*compile.TypedefSpec)" || s == "is(*compile.StructSpec)"
	}
	n := 0
	delegates := 0
	core.Instrs(vf, func(in ssa.Instruction) {
		r, ok := in.(*ssa.Return)
		if !ok || len(r.Results) != 1 {
			return
		}
		n++
		key := fmt.Sprintf("Visit:return#%d", n)
		pos := c.Rel(in.Pos())
		if call, isCall := r.Results[0].(*ssa.Call); isCall && call.Call.IsInvoke() && call.Call.Method.Name() == "ForEachTypeReference" {
			delegates++
			// descends into the node it was given, with a finder extended by that node
			ok := core.Sym(call.Call.Value) == "$1"
			cb := ""
			if len(call.Call.Args) == 1 {
				if mc, isMC := call.Call.Args[0].(*ssa.MakeClosure); isMC && len(mc.Bindings) == 1 {
					cb = core.Sym(mc.Bindings[0])
					if !strings.Contains(mc.Fn.Name(), "Visit") {
						ok = false
					}
				}
			}
			if !strings.Contains(cb, "cloneWithPart($0,$1)") {
				ok = false
			}
			var extra []string
			for _, s := range nestingConds(in.Block()) {
				if !allowed(s) {
					extra = append(extra, s)
				}
			}
			l.Check(ok && len(extra) == 0, "CYCLE-VISIT", key, pos, "descends into every component type of the node with the chain extended by the node", "the descent is not s.ForEachTypeReference(f.cloneWithPart(s).Visit), or is conditional on "+strings.Join(extra, ", "))
			return
		}
		// an early return: nil or the cycle error
		conds := nestingConds(in.Block())
		var extra []string
		hasStop := false
		for _, s := range conds {
			if !allowed(s) {
				extra = append(extra, s)
			}
			if s == "visited()" || s == "is(*compile.StructSpec)" {
				hasStop = true
			}
		}
		isNil := core.Sym(r.Results[0]) == "c:nil"
		if isNil {
			l.Check(hasStop && len(extra) == 0, "CYCLE-VISIT", key, pos, "the walk stops only at a node already on the chain or at a struct (conditions: "+strings.Join(conds, ", ")+")", "the walk stops without descending under a condition other than already-visited / struct ("+strings.Join(conds, ", ")+"): typedef chains behind it are never checked for cycles")
		} else {
			l.Check(len(extra) == 0, "CYCLE-VISIT", key, pos, "cycle error reported for a typedef met twice", "the cycle error is additionally conditional on "+strings.Join(extra, ", "))
		}
	})
	if delegates != 1 {
		l.Bad("CYCLE-VISIT", "Visit:descent", c.Rel(vf.Pos()), fmt.Sprintf("expected exactly one delegating return, found %d", delegates))
	}
	// visited(): true iff some chain element is the node
	if f := c.SSAFunc(c.LookupFunc("compile", "typeCycleFinder.visited")); f != nil {
		eq := core.GuardEdges(f, func(cm core.Cmp) bool {
			return cm.Op == token.EQL && (core.Sym(cm.Y) == "$1" || core.Sym(cm.X) == "$1")
		})
		ok := len(eq) > 0
		core.Instrs(f, func(in ssa.Instruction) {
			if r, isR := in.(*ssa.Return); isR {
				isTrue := core.Sym(r.Results[0]) == "c:true"
				under := core.AllPathsThroughEdges(f, r.Block(), eq)
				if isTrue != under {
					ok = false
				}
			}
		})
		// or: the standard membership test over the whole chain
		if !ok || !fullRange(f, "$0") {
			std := false
			core.Instrs(f, func(in ssa.Instruction) {
				if r, isR := in.(*ssa.Return); isR && len(r.Results) == 1 {
					if call, isC := r.Results[0].(*ssa.Call); isC {
						if o := core.CalleeObj(call); o != nil && o.Pkg() != nil && o.Pkg().Path() == "slices" && o.Name() == "Contains" && len(call.Call.Args) == 2 && core.Sym(call.Call.Args[0]) == "$0" && core.Sym(call.Call.Args[1]) == "$1" {
							std = true
						}
					}
				}
			})
			if std && len(f.Blocks) == 1 {
				l.Ok("CYCLE-VISIT", "visited", c.Rel(f.Pos()), "slices.Contains(chain, node)")
				goto doneVisited
			}
		}
		l.Check(ok && fullRange(f, "$0"), "CYCLE-VISIT", "visited", c.Rel(f.Pos()), "true iff an element of the whole chain is the node", "visited() does not answer 'is the node on the chain'")
	}
doneVisited:
	// ForEachTypeReference completeness per TypeSpec implementer
	p := c.Pkg("compile")
	tsObj := p.Types.Scope().Lookup("TypeSpec")
	if tsObj == nil {
		l.Unk("CYCLE-VISIT", "TypeSpec", "", "not found")
		return
	}
	tsI := tsObj.Type().Underlying().(*types.Interface)
	isTS := func(t types.Type) bool { return types.Implements(t, tsI) || types.Identical(t, tsObj.Type()) }
	for _, recvT := range c.Implementers(tsI, p) {
		var named *types.Named
		if pt, isP := recvT.(*types.Pointer); isP {
			named, _ = pt.Elem().(*types.Named)
		} else {
			named, _ = recvT.(*types.Named)
		}
		if named == nil {
			continue
		}
		name := named.Obj().Name()
		if name == "typeSpecReference" {
			continue // pre-link placeholder; panics by design (C08 PANICS / C07 FIELD-RELINK)
		}
		var m *types.Func
		ms := types.NewMethodSet(recvT)
		for i := 0; i < ms.Len(); i++ {
			if ms.At(i).Obj().Name() == "ForEachTypeReference" {
				m, _ = ms.At(i).Obj().(*types.Func)
			}
		}
		f := c.SSAFunc(m)
		if f == nil {
			l.Unk("CYCLE-VISIT", "ForEach:"+name, "", "ForEachTypeReference not found")
			continue
		}
		st, isS := named.Underlying().(*types.Struct)
		var want []string
		if isS {
			for i := 0; i < st.NumFields(); i++ {
				fl := st.Field(i)
				if isTS(fl.Type()) && core.FieldName(fl) != "root" { // root is derived state of typedefs, not a component
					want = append(want, core.FieldName(fl))
				}
				// a field group (struct fields) delegates
				if core.TypeLabel(fl.Type()) == "compile.FieldGroup" {
					want = append(want, core.FieldName(fl)+"→FieldGroup")
				}
			}
		}
		got := map[string]bool{}
		core.Instrs(f, func(in ssa.Instruction) {
			call, ok := in.(ssa.CallInstruction)
			if !ok {
				return
			}
			cc := call.Common()
			if !cc.IsInvoke() && cc.StaticCallee() == nil {
				// call of the callback parameter
				if p, isP := cc.Value.(*ssa.Parameter); isP && p == f.Params[1] && len(cc.Args) == 1 {
					s := core.Sym(cc.Args[0])
					for _, w := range want {
						if s == "$0."+w {
							got[w] = true
						}
					}
				}
			}
			if cal := cc.StaticCallee(); cal != nil && cal.Name() == "ForEachTypeReference" && recvNamed(cal) == "FieldGroup" {
				s := core.Sym(cc.Args[0])
				for _, w := range want {
					if strings.HasSuffix(w, "→FieldGroup") && s == "$0."+strings.TrimSuffix(w, "→FieldGroup") && core.Sym(cc.Args[1]) == "$1" {
						got[w] = true
					}
				}
			}
		})
		var missing []string
		for _, w := range want {
			if !got[w] {
				missing = append(missing, w)
			}
		}
		l.Check(len(missing) == 0, "CYCLE-VISIT", "ForEach:"+name, c.Rel(f.Pos()), fmt.Sprintf("hands each of its component types %v to the callback", want), "component types never handed to the callback: "+strings.Join(missing, ", "))
	}
	if f := c.SSAFunc(c.LookupFunc("compile", "FieldGroup.ForEachTypeReference")); f != nil {
		ok := false
		core.Instrs(f, func(in ssa.Instruction) {
			if call, isC := in.(ssa.CallInstruction); isC {
				if p, isP := call.Common().Value.(*ssa.Parameter); isP && p == f.Params[1] {
					if s := core.Sym(call.Common().Args[0]); strings.HasPrefix(s, "$0[") && strings.HasSuffix(s, ".Type") && core.CyclicBlocks(f)[in.Block()] {
						ok = true
					}
				}
			}
		})
		l.Check(ok && fullRange(f, "$0"), "CYCLE-VISIT", "ForEach:FieldGroup", c.Rel(f.Pos()), "hands every field's type to the callback", "not every field's type is handed to the callback")
	}
	l.Floor("CYCLE-VISIT", 15)
}

// fieldChaseLoop: `for x := start; x != nil; x = x.f` — the loop variable is
// replaced on every iteration by a pointer loaded from a field of itself and
// the loop leaves when it is nil. This terminates when the chain through f is
// finite, which holds if f is only ever written while its owner is being
// constructed (a composite literal): a new node can then only point to nodes
// that already exist, so no cycle can be closed.
func fieldChaseLoop(c *core.Ctx, f *ssa.Function, body map[*ssa.BasicBlock]bool) (string, bool) {
	for b := range body {
		for _, in := range b.Instrs {
			ph, ok := in.(*ssa.Phi)
			if !ok {
				continue
			}
			if _, isPtr := ph.Type().Underlying().(*types.Pointer); !isPtr {
				continue
			}
			// one incoming edge from inside the loop: a load of FieldAddr(ph, f)
			var fld *types.Var
			for i, e := range ph.Edges {
				if !body[b.Preds[i]] {
					continue
				}
				ld, isLd := e.(*ssa.UnOp)
				if !isLd || ld.Op != token.MUL {
					fld = nil
					break
				}
				fa, isFA := ld.X.(*ssa.FieldAddr)
				if !isFA || fa.X != ssa.Value(ph) {
					fld = nil
					break
				}
				fld = core.FieldOf(fa)
			}
			if fld == nil {
				continue
			}
			// exit test: ph != nil guards the body
			exits := false
			// the value tested against nil is the pointer itself, or its next link (`if p.next == nil { break }`)
			tested := append([]ssa.Instruction{}, *ph.Referrers()...)
			for _, r := range *ph.Referrers() {
				if fa, isFA := r.(*ssa.FieldAddr); isFA && core.FieldOf(fa) == fld {
					for _, rr := range *fa.Referrers() {
						if ld, isLd := rr.(*ssa.UnOp); isLd && ld.Op == token.MUL {
							tested = append(tested, *ld.Referrers()...)
						}
					}
				}
			}
			for _, r := range tested {
				if bo, isBo := r.(*ssa.BinOp); isBo && (bo.Op == token.NEQ || bo.Op == token.EQL) {
					if k, isK := bo.Y.(*ssa.Const); isK && k.IsNil() {
						for _, rr := range *bo.Referrers() {
							if ifi, isIf := rr.(*ssa.If); isIf && body[ifi.Block()] {
								for _, s := range ifi.Block().Succs {
									if !body[s] {
										exits = true
									}
								}
							}
						}
					}
				}
			}
			if !exits {
				continue
			}
			// the field is written only into freshly allocated owners
			onlyCtor := true
			for _, g := range c.AllFuncs() {
				if c.IsTestFile(g.Pos()) {
					continue
				}
				core.Instrs(g, func(i2 ssa.Instruction) {
					st, isSt := i2.(*ssa.Store)
					if !isSt {
						return
					}
					fa, isFA := st.Addr.(*ssa.FieldAddr)
					if !isFA || core.FieldOf(fa) != fld {
						return
					}
					if al, isAl := fa.X.(*ssa.Alloc); !isAl || al.Parent() != g {
						onlyCtor = false
					}
				})
			}
			if onlyCtor {
				return "pointer chase along field " + core.FieldName(fld) + ", which is only written while its owner is constructed (chains are finite and acyclic); leaves on nil", true
			}
		}
	}
	return "", false
}

// shrinkingStringLoop: every iteration replaces the name it works on by the
// part after the first '.' (second result of splitInclude) and leaves when
// there is no such part — the loop form of the recursion certificate
// "strictly shorter name".
func shrinkingStringLoop(c *core.Ctx, f *ssa.Function, body map[*ssa.BasicBlock]bool) (string, bool) {
	for b := range body {
		for _, in := range b.Instrs {
			call, ok := in.(*ssa.Call)
			if !ok || call.Call.StaticCallee() == nil || !c.Named(call.Call.StaticCallee(), "splitInclude") || len(call.Call.Args) != 1 {
				continue
			}
			var head, rest ssa.Value
			for _, r := range *call.Referrers() {
				if ex, ok := r.(*ssa.Extract); ok {
					if ex.Index == 0 {
						head = ex
					} else {
						rest = ex
					}
				}
			}
			if head == nil || rest == nil {
				continue
			}
			// the loop is left when the head is empty
			exits := false
			for _, r := range *head.Referrers() {
				lc, ok := r.(*ssa.Call)
				if !ok {
					continue
				}
				if bi, isB := lc.Call.Value.(*ssa.Builtin); !isB || bi.Name() != "len" {
					continue
				}
				for _, rr := range *lc.Referrers() {
					if bo, ok := rr.(*ssa.BinOp); ok {
						for _, r3 := range *bo.Referrers() {
							if ifi, ok := r3.(*ssa.If); ok && body[ifi.Block()] {
								for _, s := range ifi.Block().Succs {
									if !body[s] {
										exits = true
									}
								}
							}
						}
					}
				}
			}
			if !exits {
				continue
			}
			// the name of the next iteration derives from the rest: a store inside the loop (into the
			// cell the argument is loaded from) or a phi edge, depending on it
			src := map[ssa.Value]bool{rest: true}
			feeds := false
			arg := call.Call.Args[0]
			if ld, ok := arg.(*ssa.UnOp); ok {
				root := ld.X
				for {
					if fa, ok := root.(*ssa.FieldAddr); ok {
						root = fa.X
						continue
					}
					break
				}
				if al, ok := root.(*ssa.Alloc); ok {
					var addrs []ssa.Value
					addrs = append(addrs, al)
					for i := 0; i < len(addrs); i++ {
						for _, r := range *addrs[i].Referrers() {
							switch x := r.(type) {
							case *ssa.FieldAddr:
								addrs = append(addrs, x)
							case *ssa.Store:
								if x.Addr == addrs[i] && body[x.Block()] && dependsOn(x.Val, src, map[ssa.Value]bool{}) {
									feeds = true
								}
							}
						}
					}
				}
			}
			if ph, ok := arg.(*ssa.Phi); ok {
				for i, e := range ph.Edges {
					if body[ph.Block().Preds[i]] && dependsOn(e, src, map[ssa.Value]bool{}) {
						feeds = true
					}
				}
			}
			if feeds {
				return "each iteration continues with the part of the name after its first '.' (strictly shorter) and leaves when there is none", true
			}
		}
	}
	return "", false
}
