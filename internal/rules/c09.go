package rules

import (
	"fmt"
	"go/token"
	"go/types"
	"math"
	"strconv"
	"strings"

	"golang.org/x/tools/go/ssa"

	"verif/internal/core"
)

func init() { Registry["C09"] = checkC09 }

func intBounds(t types.Type) (lo, hi int64, signed bool, ok bool) {
	b, isB := t.Underlying().(*types.Basic)
	if !isB || b.Info()&types.IsInteger == 0 {
		return
	}
	switch b.Kind() {
	case types.Int8:
		return math.MinInt8, math.MaxInt8, true, true
	case types.Int16:
		return math.MinInt16, math.MaxInt16, true, true
	case types.Int32:
		return math.MinInt32, math.MaxInt32, true, true
	case types.Int64, types.Int:
		return math.MinInt64, math.MaxInt64, true, true
	case types.Uint8:
		return 0, math.MaxUint8, false, true
	case types.Uint16:
		return 0, math.MaxUint16, false, true
	case types.Uint32:
		return 0, math.MaxUint32, false, true
	}
	return
}

// successEdges returns the nil-error successor edges of the error tests on the
// results of calls accepted by isCall.
func successEdges(f *ssa.Function, isCall func(*ssa.Call) bool) []core.Edge {
	var out []core.Edge
	for _, b := range f.Blocks {
		ifi, ok := b.Instrs[len(b.Instrs)-1].(*ssa.If)
		if !ok {
			continue
		}
		okEdge, is := core.IsErrCheck(ifi)
		if !is {
			continue
		}
		bo := ifi.Cond.(*ssa.BinOp)
		errv := bo.X
		if c, isC := errv.(*ssa.Const); isC && c.IsNil() {
			errv = bo.Y
		}
		errv = unspill(errv)
		var call *ssa.Call
		switch x := errv.(type) {
		case *ssa.Call:
			call = x
		case *ssa.Extract:
			call, _ = x.Tuple.(*ssa.Call)
		}
		if call != nil && isCall(call) {
			out = append(out, core.Edge{From: b, To: b.Succs[okEdge]})
		}
	}
	return out
}

// unspill: a load of a local cell (a named result or captured variable) is
// replaced by the value most recently stored to it earlier in the same block.
func unspill(v ssa.Value) ssa.Value {
	u, ok := v.(*ssa.UnOp)
	if !ok || u.Op != token.MUL {
		return v
	}
	if _, isA := u.X.(*ssa.Alloc); !isA {
		return v
	}
	var last ssa.Value
	for _, in := range u.Block().Instrs {
		if in == ssa.Instruction(u) {
			break
		}
		if st, ok := in.(*ssa.Store); ok && st.Addr == u.X {
			last = st.Val
		}
		// a call may run a closure that writes the cell
		if _, isCall := in.(ssa.CallInstruction); isCall {
			last = nil
		}
	}
	if last != nil {
		return last
	}
	return v
}

func checkC09(c *core.Ctx, l *core.Ledger) {
	l.Explanation = "Static clauses of C09 on package compile (and gen/constant.go): (NARROW) every integer conversion to a narrower type whose operand comes from the source text (AST numbers, ConstantInt) is dominated by tests of both bounds of the target type, unless its result only feeds an equality comparison performed in the wider type; (INT-ACCEPT) ConstantInt.Link accepts a value for i8/i16/i32 only under a range test for that width; (UNIQUE) every insertion into a struct's fields, an enum's items, a service's functions and a module's types/constants/services/includes is dominated by a successful claim of the name (and, for fields, by the used-id test), and claim fails iff the transformed name is present. (SELF-REF) Constant.Link and ServiceSpec.Link set an in-progress flag before any nested Link/resolve call and report an error when re-entered while it is set, so a constant or service defined in terms of itself (directly or through others) is rejected. (ERR-KEEP) no error value is lost: none is assigned to a variable that is never read (an inner declaration shadowing the checked one), none is overwritten by the next loop iteration unseen, and no deferred function replaces the error result without regard to the error already there. (LEX-NUM) every strconv.ParseInt in the scanner uses base 10, or 16 under the test for the 0x prefix, with 64 bits — a literal such as 010 is ten, not eight. (TYPE-IDENTITY) whether a constant needs a cast, and so reaches the range check of its declared type, is decided by type identity, never by equal names. NOT decided: implicit enum numbering arithmetic (prev+1 overflow), lexer/parser handling of out-of-range literals, termination on self-referential typedefs/defaults (C08)."
	l.RuleText = "one obligation per narrowing conversion / accepting arm / insertion site"
	l.Assumptions = []string{"ast.Field.ID, *ast.EnumItem.Value and ast.ConstantInteger hold exactly the number written in the source (parser is trusted here; C11 covers it thinly)"}

	// 1. NARROW
	checkNarrowing(c, l, "NARROW", []string{"compile", "gen", "ast", "idl", "idl/internal"})
	l.Floor("NARROW", 2)

	// 2. INT-ACCEPT
	checkIntAccept(c, l)

	// 3. UNIQUE
	checkUnique(c, l)
}

// checkIntAccept: in ConstantInt.Link, each type-switch arm that returns the
// value unchanged for an N-bit integer spec must be dominated by tests of both
// N-bit bounds.
func checkIntAccept(c *core.Ctx, l *core.Ledger) {
	f := c.SSAFunc(c.LookupFunc("compile", "ConstantInt.Link"))
	if f == nil {
		l.Unk("INT-ACCEPT", "anchor", "", "compile.ConstantInt.Link not found")
		return
	}
	specs := map[string][2]int64{"I8Spec": {math.MinInt8, math.MaxInt8}, "I16Spec": {math.MinInt16, math.MaxInt16}, "I32Spec": {math.MinInt32, math.MaxInt32}}
	// success paths of Link, helpers of the package explored in place; every comparison of the value
	// with a constant (after folding, with helper parameters bound to the caller's arguments) is a fact
	flip := map[token.Token]token.Token{token.LSS: token.GTR, token.LEQ: token.GEQ, token.GTR: token.LSS, token.GEQ: token.LEQ, token.EQL: token.EQL, token.NEQ: token.NEQ}
	neg := map[token.Token]token.Token{token.LSS: token.GEQ, token.LEQ: token.GTR, token.GTR: token.LEQ, token.GEQ: token.LSS, token.EQL: token.NEQ, token.NEQ: token.EQL}
	label := func(ifi *ssa.If, idx int) string {
		cond := ifi.Cond
		negated := idx == 1
		for {
			if u, ok := cond.(*ssa.UnOp); ok && u.Op == token.NOT {
				cond, negated = u.X, !negated
				continue
			}
			break
		}
		switch x := cond.(type) {
		case *ssa.Extract:
			if ta, ok := x.Tuple.(*ssa.TypeAssert); ok && x.Index == 1 {
				s := "is(" + core.RecvTypeName(ta.AssertedType) + ")"
				if negated {
					return "!" + s
				}
				return s
			}
		case *ssa.BinOp:
			op := x.Op
			if _, ok := flip[op]; !ok {
				return ""
			}
			a, b := core.ConstVal(x.X), core.ConstVal(x.Y)
			var k int64
			switch {
			case b.Kind == core.CInt && core.Sym(x.X) == "$0":
				k = b.I
			case a.Kind == core.CInt && core.Sym(x.Y) == "$0":
				k, op = a.I, flip[op]
			default:
				return ""
			}
			if negated {
				op = neg[op]
			}
			return fmt.Sprintf("F:%s:%d", op, k)
		}
		return ""
	}
	seqs, ok := core.SuccessSeqs(f, core.SeqOpts{EdgeLabel: label, Inline: inlineHelpers(), Classify: func(in ssa.Instruction, inLoop bool) []string { return nil }})
	if !ok {
		l.Unk("INT-ACCEPT", "ConstantInt.Link", c.Rel(f.Pos()), "too many paths")
		return
	}
	type iv struct{ lo, hi int64 }
	accepted := map[string][]iv{}
	for _, s := range seqs {
		arm := ""
		lo, hi := int64(math.MinInt64), int64(math.MaxInt64)
		for _, e := range s {
			switch {
			case strings.HasPrefix(e, "is("):
				arm = strings.TrimSuffix(strings.TrimPrefix(e, "is("), ")")
			case strings.HasPrefix(e, "F:"):
				parts := strings.SplitN(e[2:], ":", 2)
				k, _ := strconv.ParseInt(parts[1], 10, 64)
				switch parts[0] {
				case "<":
					if k-1 < hi {
						hi = k - 1
					}
				case "<=":
					if k < hi {
						hi = k
					}
				case ">":
					if k+1 > lo {
						lo = k + 1
					}
				case ">=":
					if k > lo {
						lo = k
					}
				case "==":
					lo, hi = k, k
				}
			}
		}
		if _, tracked := specs[arm]; tracked {
			accepted[arm] = append(accepted[arm], iv{lo, hi})
		}
	}
	for name, bounds := range specs {
		key := "ConstantInt.Link:" + name
		ivs := accepted[name]
		if len(ivs) == 0 {
			l.Unk("INT-ACCEPT", key, c.Rel(f.Pos()), "no accepting path for this integer width found: dispatch shape not recognised")
			continue
		}
		var why []string
		lo, hi := int64(math.MaxInt64), int64(math.MinInt64)
		for _, v := range ivs {
			if v.lo < lo {
				lo = v.lo
			}
			if v.hi > hi {
				hi = v.hi
			}
		}
		if lo < bounds[0] || hi > bounds[1] {
			why = append(why, fmt.Sprintf("an integer constant is accepted for %s in [%d,%d], wider than the type's range [%d,%d]: a value one past the bound compiles and the generated Go constant overflows (or silently wraps)", strings.TrimSuffix(name, "Spec"), lo, hi, bounds[0], bounds[1]))
		}
		if lo > bounds[0] || hi < bounds[1] {
			why = append(why, fmt.Sprintf("valid constants of %s are rejected: accepted range [%d,%d], type range [%d,%d]", strings.TrimSuffix(name, "Spec"), lo, hi, bounds[0], bounds[1]))
		}
		l.Check(len(why) == 0, "INT-ACCEPT", key, c.Rel(f.Pos()), fmt.Sprintf("the values accepted on the arm for this width are exactly [%d,%d] (comparisons folded through helpers)", bounds[0], bounds[1]), strings.Join(why, "; "))
	}
	l.Floor("INT-ACCEPT", 3)
}

func reachableAvoiding(from, to *ssa.BasicBlock, banned []core.Edge) bool {
	ban := map[core.Edge]bool{}
	for _, e := range banned {
		ban[e] = true
	}
	seen := map[*ssa.BasicBlock]bool{}
	st := []*ssa.BasicBlock{from}
	for len(st) > 0 {
		b := st[len(st)-1]
		st = st[:len(st)-1]
		if seen[b] {
			continue
		}
		seen[b] = true
		if b == to {
			return true
		}
		for _, s := range b.Succs {
			if !ban[core.Edge{From: b, To: s}] {
				st = append(st, s)
			}
		}
	}
	return false
}

func checkUnique(c *core.Ctx, l *core.Ledger) {
	claim := c.SSAFunc(c.LookupFunc("compile", "namespace.claim"))
	if claim == nil {
		l.Unk("UNIQUE", "anchor:claim", "", "compile.namespace.claim not found")
		return
	}
	isClaim := func(call *ssa.Call) bool { return call.Call.StaticCallee() == claim }
	type site struct {
		fn   string
		what string
		pred func(in ssa.Instruction) bool
	}
	isMapUpdateOnField := func(field string) func(ssa.Instruction) bool {
		return func(in ssa.Instruction) bool {
			mu, ok := in.(*ssa.MapUpdate)
			if !ok {
				return false
			}
			fld, _ := core.LoadedField(mu.Map)
			return fld != nil && core.FieldName(fld) == field
		}
	}
	isAppendOf := func(elem string) func(ssa.Instruction) bool {
		return func(in ssa.Instruction) bool {
			call, ok := in.(*ssa.Call)
			if !ok {
				return false
			}
			b, ok := call.Call.Value.(*ssa.Builtin)
			if !ok || b.Name() != "append" {
				return false
			}
			return strings.HasSuffix(core.TypeLabel(call.Type()), elem)
		}
	}
	isMapUpdateOfValue := func(elem string) func(ssa.Instruction) bool {
		return func(in ssa.Instruction) bool {
			mu, ok := in.(*ssa.MapUpdate)
			if !ok {
				return false
			}
			return strings.HasSuffix(core.TypeLabel(mu.Value.Type()), elem)
		}
	}
	sites := []site{
		{"compileFields", "fields", isAppendOf("[]*compile.FieldSpec")},
		{"compileEnum", "items", isAppendOf("[]compile.EnumItem")},
		{"compileService", "functions", isMapUpdateOfValue("*compile.FunctionSpec")},
		{"compiler.gather", "Module.Includes", isMapUpdateOnField("Includes")},
		{"compiler.gather", "Module.Constants", isMapUpdateOnField("Constants")},
		{"compiler.gather", "Module.Types", isMapUpdateOnField("Types")},
		{"compiler.gather", "Module.Services", isMapUpdateOnField("Services")},
	}
	// every insertion of that kind anywhere in the package (not only in the function that holds it
	// today) must be dominated, inside its own function, by a successful claim
	for _, s := range sites {
		n := 0
		for _, f := range c.AllFuncs("compile") {
			if c.IsTestFile(f.Pos()) || len(f.Blocks) == 0 {
				continue
			}
			var edges []core.Edge
			k := 0
			core.Instrs(f, func(in ssa.Instruction) {
				if !s.pred(in) {
					return
				}
				if mu, isMU := in.(*ssa.MapUpdate); isMU && rangeKeyOf(mu.Key) != nil {
					// re-assignment under a key enumerated from an existing table (link() replaces each type by
					// its linked form): the key set does not grow, no new name enters
					return
				}
				if edges == nil {
					edges = successEdges(f, isClaim)
				}
				n++
				k++
				key := fmt.Sprintf("%s@%s#%d", s.what, f.Name(), k)
				ok := core.AllPathsThroughEdges(f, in.Block(), edges)
				if !ok {
					// the claim may sit in the caller: an unexported function every call of which is itself
					// dominated by a successful claim (one level)
					sitesOf := c.StaticCallSites(f)
					all := len(sitesOf) > 0 && !token.IsExported(f.Name())
					for _, cs := range sitesOf {
						caller := cs.Parent()
						if caller == nil || c.IsTestFile(cs.Pos()) {
							continue
						}
						ce := successEdges(caller, isClaim)
						if !core.AllPathsThroughEdges(caller, cs.Block(), ce) {
							all = false
						}
					}
					ok = all
				}
				l.Check(ok, "UNIQUE", key, c.Rel(in.Pos()), "insertion is dominated by a successful claim of the name in the scope's namespace", "a definition is inserted into "+s.what+" on a path that has not successfully claimed its name: duplicates can be accepted (later one silently wins)")
			})
		}
		if n == 0 {
			l.Unk("UNIQUE", s.what, "", "no insertion into "+s.what+" recognised in package compile")
		}
	}
	// field ids: the append in compileFields is dominated by the negative outcome of the usedIDs lookup
	if f := c.SSAFunc(c.LookupFunc("compile", "compileFields")); f != nil {
		var edges []core.Edge
		for _, b := range f.Blocks {
			ifi, ok := b.Instrs[len(b.Instrs)-1].(*ssa.If)
			if !ok {
				continue
			}
			ex, ok := ifi.Cond.(*ssa.Extract)
			if !ok || ex.Index != 1 {
				continue
			}
			if lk, ok := ex.Tuple.(*ssa.Lookup); ok && lk.CommaOk {
				if strings.HasPrefix(core.TypeLabel(lk.X.Type()), "map[int16]") {
					edges = append(edges, core.Edge{From: b, To: b.Succs[1]})
				}
			}
		}
		n := 0
		core.Instrs(f, func(in ssa.Instruction) {
			if isAppendOf("[]*compile.FieldSpec")(in) {
				n++
				l.Check(core.AllPathsThroughEdges(f, in.Block(), edges), "UNIQUE", fmt.Sprintf("compileFields:used-id#%d", n), c.Rel(in.Pos()),
					"field is appended only when its id was absent from the used-id table", "a field is appended without the used-id test: two fields can share one id")
			}
			if mu, ok := in.(*ssa.MapUpdate); ok && strings.HasPrefix(core.TypeLabel(mu.Map.Type()), "map[int16]") {
				// the id recorded is the appended field's id
				l.Check(strings.HasSuffix(core.Sym(mu.Key), ".ID"), "UNIQUE", "compileFields:used-id-record", c.Rel(in.Pos()), "the used-id table records the compiled field's ID", "the used-id table is not updated with the field's ID: "+core.Sym(mu.Key))
			}
		})
	}
	// claim: error iff present
	{
		tr, _ := core.TraceSeqs(claim, func(call ssa.CallInstruction) bool { return false })
		s := core.SeqString(tr)
		// success path: lookup absent, then returns nil; error path excluded by TraceSeqs (definite error)
		okSucc := len(tr) == 1 && strings.Contains(s, "ret(c:nil)") && strings.Contains(s, "!")
		hasStore := false
		presentErr := false
		core.Instrs(claim, func(in ssa.Instruction) {
			if _, ok := in.(*ssa.MapUpdate); ok {
				hasStore = true
			}
			if r, ok := in.(*ssa.Return); ok && core.ReturnsNonNilError(r) {
				presentErr = true
			}
		})
		l.Check(okSucc && hasStore && presentErr, "UNIQUE", "namespace.claim", c.Rel(claim.Pos()), "claim returns an error when the transformed name is present and records it otherwise: "+s, "claim does not have the shape (present => error; absent => record, nil): "+s)
	}
	l.Floor("UNIQUE", 10)

	// 4. SELF-REF: a constant or service defined in terms of itself is rejected
	for _, fn := range []string{"Constant.Link", "ServiceSpec.Link"} {
		f := c.SSAFunc(c.LookupFunc("compile", fn))
		if f == nil {
			l.Unk("SELF-REF", fn, "", "compile."+fn+" not found")
			continue
		}
		flag, ok := inProgressGuard(f)
		l.Check(ok, "SELF-REF", fn, c.Rel(f.Pos()), "re-entry while the definition is being linked is detected (flag "+flag+", set before any nested Link/resolve call) and reported as an error",
			"compile."+fn+" does not detect that it was re-entered while linking the same definition (no in-progress flag that is set before every nested Link/resolve call and turned into an error on re-entry): a definition that refers to itself through other definitions is accepted")
	}
	l.Floor("SELF-REF", 2)
	// the number in the program is the number written in the source: integer tokens are read in base 10 (16 under 0x)
	checkLexNumbers(c, l)
	checkErrKeep(c, l, "ERR-KEEP", []string{"compile", "idl", "idl/internal"})
	// a constant reaches the range checks of its declared type through a cast; whether a cast is needed is decided by
	// type identity: two types are the same only if they are the same object, never because their names agree
	checkTypeIdentity(c, l, "TYPE-IDENTITY", []string{"compile"})
}

// narrowSkip: generated scanner/parser tables are outside the rule.
func narrowSkip(c *core.Ctx, f *ssa.Function) bool {
	file := c.RelFile(f.Pos())
	return strings.HasSuffix(file, "idl/internal/lex.go") || strings.HasSuffix(file, "idl/internal/y.go")
}

// checkNarrowing (NARROW): every integer conversion to a narrower type whose
// operand is not a constant is dominated by tests of both bounds of the
// target type, in the given packages.
func checkNarrowing(c *core.Ctx, l *core.Ledger, rule string, rels []string) {
	for _, f := range c.AllFuncs(rels...) {
		if c.IsTestFile(f.Pos()) || narrowSkip(c, f) {
			continue
		}
		k := 0
		core.Instrs(f, func(in ssa.Instruction) {
			cv, ok := in.(*ssa.Convert)
			if !ok {
				return
			}
			_, _, _, fromInt := intBounds(cv.X.Type())
			lo, hi, _, toInt := intBounds(cv.Type())
			if !fromInt || !toInt || widthOf2(cv.Type()) >= widthOf2(cv.X.Type()) {
				return
			}
			if _, isC := cv.X.(*ssa.Const); isC {
				return
			}
			k++
			key := fmt.Sprintf("%s:%s#%d", core.SSAName(f), cv.Type().String(), k)
			pos := c.Rel(cv.Pos())
			// both bounds on every path
			al := map[ssa.Value]bool{}
			for _, a := range core.Aliases(cv.X) {
				al[a] = true
			}
			loEdges := core.GuardEdges(f, func(cm core.Cmp) bool {
				if !al[cm.X] {
					return false
				}
				kk, isK := core.ConstInt(cm.Y)
				if !isK {
					return false
				}
				switch cm.Op {
				case token.GEQ:
					return kk >= lo
				case token.GTR:
					return kk >= lo-1
				}
				return false
			})
			hiEdges := core.GuardEdges(f, func(cm core.Cmp) bool {
				if !al[cm.X] {
					return false
				}
				kk, isK := core.ConstInt(cm.Y)
				if !isK {
					return false
				}
				switch cm.Op {
				case token.LEQ:
					return kk <= hi
				case token.LSS:
					return kk <= hi+1
				}
				return false
			})
			loOK := core.AllPathsThroughEdges(f, cv.Block(), loEdges)
			hiOK := core.AllPathsThroughEdges(f, cv.Block(), hiEdges)
			if loOK && hiOK {
				l.Ok(rule, key, pos, fmt.Sprintf("dominated by tests of both bounds [%d,%d]", lo, hi))
				return
			}
			missing := "lower and upper bound"
			if loOK {
				missing = "upper bound"
			} else if hiOK {
				missing = "lower bound"
			}
			l.Bad(rule, key, pos, fmt.Sprintf("narrowing conversion to %s of a number taken from the source is not dominated by a test of the %s on every path: out-of-range values wrap around silently", cv.Type(), missing))
		})
	}
}
