package rules

import (
	"fmt"
	"go/token"
	"go/types"
	"math"
	"strings"

	"golang.org/x/tools/go/ssa"

	"verif/internal/core"
)

func init() { Registry["C09"] = checkC09 }

func intBounds(t types.Type) (lo, hi int64, signed bool, ok bool) {
	b, isB := t.Underlying().(*types.Basic)
	if !isB || b.Info()&types.IsInteger == 0 {
		return
	}
	switch b.Kind() {
	case types.Int8:
		return math.MinInt8, math.MaxInt8, true, true
	case types.Int16:
		return math.MinInt16, math.MaxInt16, true, true
	case types.Int32:
		return math.MinInt32, math.MaxInt32, true, true
	case types.Int64, types.Int:
		return math.MinInt64, math.MaxInt64, true, true
	case types.Uint8:
		return 0, math.MaxUint8, false, true
	case types.Uint16:
		return 0, math.MaxUint16, false, true
	case types.Uint32:
		return 0, math.MaxUint32, false, true
	}
	return
}

// successEdges returns the nil-error successor edges of the error tests on the
// results of calls accepted by isCall.
func successEdges(f *ssa.Function, isCall func(*ssa.Call) bool) []core.Edge {
	var out []core.Edge
	for _, b := range f.Blocks {
		ifi, ok := b.Instrs[len(b.Instrs)-1].(*ssa.If)
		if !ok {
			continue
		}
		okEdge, is := core.IsErrCheck(ifi)
		if !is {
			continue
		}
		bo := ifi.Cond.(*ssa.BinOp)
		errv := bo.X
		if c, isC := errv.(*ssa.Const); isC && c.IsNil() {
			errv = bo.Y
		}
		errv = unspill(errv)
		var call *ssa.Call
		switch x := errv.(type) {
		case *ssa.Call:
			call = x
		case *ssa.Extract:
			call, _ = x.Tuple.(*ssa.Call)
		}
		if call != nil && isCall(call) {
			out = append(out, core.Edge{From: b, To: b.Succs[okEdge]})
		}
	}
	return out
}

// unspill: a load of a local cell (a named result or captured variable) is
// replaced by the value most recently stored to it earlier in the same block.
func unspill(v ssa.Value) ssa.Value {
	u, ok := v.(*ssa.UnOp)
	if !ok || u.Op != token.MUL {
		return v
	}
	if _, isA := u.X.(*ssa.Alloc); !isA {
		return v
	}
	var last ssa.Value
	for _, in := range u.Block().Instrs {
		if in == ssa.Instruction(u) {
			break
		}
		if st, ok := in.(*ssa.Store); ok && st.Addr == u.X {
			last = st.Val
		}
		// a call may run a closure that writes the cell
		if _, isCall := in.(ssa.CallInstruction); isCall {
			last = nil
		}
	}
	if last != nil {
		return last
	}
	return v
}

func checkC09(c *core.Ctx, l *core.Ledger) {
	l.Explanation = "Static clauses of C09 on package compile (and gen/constant.go): (NARROW) every integer conversion to a narrower type whose operand comes from the source text (AST numbers, ConstantInt) is dominated by tests of both bounds of the target type, unless its result only feeds an equality comparison performed in the wider type; (INT-ACCEPT) ConstantInt.Link accepts a value for i8/i16/i32 only under a range test for that width; (UNIQUE) every insertion into a struct's fields, an enum's items, a service's functions and a module's types/constants/services/includes is dominated by a successful claim of the name (and, for fields, by the used-id test), and claim fails iff the transformed name is present. NOT decided: implicit enum numbering arithmetic (prev+1 overflow), lexer/parser handling of out-of-range literals, self-reference of constants/services (decided under C08)."
	l.RuleText = "one obligation per narrowing conversion / accepting arm / insertion site"
	l.Assumptions = []string{"ast.Field.ID, *ast.EnumItem.Value and ast.ConstantInteger hold exactly the number written in the source (parser is trusted here; C11 covers it thinly)"}

	// 1. NARROW
	for _, f := range c.AllFuncs("compile", "gen", "ast", "idl", "idl/internal") {
		if c.IsTestFile(f.Pos()) || narrowSkip(c, f) {
			continue
		}
		k := 0
		core.Instrs(f, func(in ssa.Instruction) {
			cv, ok := in.(*ssa.Convert)
			if !ok {
				return
			}
			_, _, _, fromInt := intBounds(cv.X.Type())
			lo, hi, _, toInt := intBounds(cv.Type())
			if !fromInt || !toInt || widthOf2(cv.Type()) >= widthOf2(cv.X.Type()) {
				return
			}
			if _, isC := cv.X.(*ssa.Const); isC {
				return
			}
			k++
			key := fmt.Sprintf("%s:%s#%d", core.SSAName(f), cv.Type().String(), k)
			pos := c.Rel(cv.Pos())
			// both bounds on every path
			al := map[ssa.Value]bool{}
			for _, a := range core.Aliases(cv.X) {
				al[a] = true
			}
			loEdges := core.GuardEdges(f, func(cm core.Cmp) bool {
				if !al[cm.X] {
					return false
				}
				kk, isK := core.ConstInt(cm.Y)
				if !isK {
					return false
				}
				switch cm.Op {
				case token.GEQ:
					return kk >= lo
				case token.GTR:
					return kk >= lo-1
				}
				return false
			})
			hiEdges := core.GuardEdges(f, func(cm core.Cmp) bool {
				if !al[cm.X] {
					return false
				}
				kk, isK := core.ConstInt(cm.Y)
				if !isK {
					return false
				}
				switch cm.Op {
				case token.LEQ:
					return kk <= hi
				case token.LSS:
					return kk <= hi+1
				}
				return false
			})
			loOK := core.AllPathsThroughEdges(f, cv.Block(), loEdges)
			hiOK := core.AllPathsThroughEdges(f, cv.Block(), hiEdges)
			if loOK && hiOK {
				l.Ok("NARROW", key, pos, fmt.Sprintf("dominated by tests of both bounds [%d,%d]", lo, hi))
				return
			}
			missing := "lower and upper bound"
			if loOK {
				missing = "upper bound"
			} else if hiOK {
				missing = "lower bound"
			}
			l.Bad("NARROW", key, pos, fmt.Sprintf("narrowing conversion to %s of a number taken from the source is not dominated by a test of the %s on every path: out-of-range values wrap around silently", cv.Type(), missing))
		})
	}
	l.Floor("NARROW", 2)

	// 2. INT-ACCEPT
	checkIntAccept(c, l)

	// 3. UNIQUE
	checkUnique(c, l)
}

// checkIntAccept: in ConstantInt.Link, each type-switch arm that returns the
// value unchanged for an N-bit integer spec must be dominated by tests of both
// N-bit bounds.
func checkIntAccept(c *core.Ctx, l *core.Ledger) {
	f := c.SSAFunc(c.LookupFunc("compile", "ConstantInt.Link"))
	if f == nil {
		l.Unk("INT-ACCEPT", "anchor", "", "compile.ConstantInt.Link not found")
		return
	}
	specs := map[string][2]int64{"I8Spec": {math.MinInt8, math.MaxInt8}, "I16Spec": {math.MinInt16, math.MaxInt16}, "I32Spec": {math.MinInt32, math.MaxInt32}}
	param := f.Params[0] // receiver c (ConstantInt)
	al := map[ssa.Value]bool{}
	for _, a := range core.Aliases(param) {
		al[a] = true
	}
	found := map[string]bool{}
	// success returns returning the receiver unchanged
	core.Instrs(f, func(in ssa.Instruction) {
		ta, ok := in.(*ssa.TypeAssert)
		if !ok || !ta.CommaOk {
			return
		}
		name := core.RecvTypeName(ta.AssertedType)
		bounds, tracked := specs[name]
		if !tracked {
			return
		}
		found[name] = true
		// the edge on which the assertion succeeded
		var okEdges []core.Edge
		for _, r := range *ta.Referrers() {
			ex, isEx := r.(*ssa.Extract)
			if !isEx || ex.Index != 1 {
				continue
			}
			for _, rr := range *ex.Referrers() {
				if ifi, isIf := rr.(*ssa.If); isIf {
					okEdges = append(okEdges, core.Edge{From: ifi.Block(), To: ifi.Block().Succs[0]})
				}
			}
		}
		// success returns reachable through that edge only... find returns (nil error) dominated by okEdges
		nret := 0
		bad := 0
		core.Instrs(f, func(i2 ssa.Instruction) {
			r, isRet := i2.(*ssa.Return)
			if !isRet || !core.IsNilErrorReturn(r) {
				return
			}
			// reachable from the ok edge?
			reach := false
			for _, e := range okEdges {
				seen := map[*ssa.BasicBlock]bool{}
				st := []*ssa.BasicBlock{e.To}
				for len(st) > 0 {
					b := st[len(st)-1]
					st = st[:len(st)-1]
					if seen[b] {
						continue
					}
					seen[b] = true
					if b == r.Block() {
						reach = true
					}
					// do not continue through other successful type tests (other arms)
					stop := false
					for _, in3 := range b.Instrs {
						if ta2, ok := in3.(*ssa.TypeAssert); ok && ta2 != ta && ta2.CommaOk && b != e.To {
							stop = true
						}
					}
					if !stop {
						st = append(st, b.Succs...)
					}
				}
			}
			if !reach {
				return
			}
			// this return is shared by several arms (case *I8Spec, *I16Spec, ...: return c, nil):
			// it must be guarded for the narrowest width reaching it; we require the
			// guard for *this* width on every path from this arm's ok edge.
			nret++
			loEdges := core.GuardEdges(f, func(cm core.Cmp) bool {
				if !al[cm.X] {
					return false
				}
				kk, isK := core.ConstInt(cm.Y)
				return isK && ((cm.Op == token.GEQ && kk >= bounds[0]) || (cm.Op == token.GTR && kk >= bounds[0]-1))
			})
			hiEdges := core.GuardEdges(f, func(cm core.Cmp) bool {
				if !al[cm.X] {
					return false
				}
				kk, isK := core.ConstInt(cm.Y)
				return isK && ((cm.Op == token.LEQ && kk <= bounds[1]) || (cm.Op == token.LSS && kk <= bounds[1]+1))
			})
			// paths from the ok edge to the return must pass both guards: ban guards, check reachability from e.To
			for _, e := range okEdges {
				if reachableAvoiding(e.To, r.Block(), loEdges) || reachableAvoiding(e.To, r.Block(), hiEdges) {
					bad++
				}
			}
		})
		key := "ConstantInt.Link:" + name
		if nret == 0 {
			l.Ok("INT-ACCEPT", key, c.Rel(ta.Pos()), "no success return is reachable from this arm")
		} else if bad > 0 {
			l.Bad("INT-ACCEPT", key, c.Rel(ta.Pos()), fmt.Sprintf("an integer constant is accepted for %s without a test that it lies in [%d,%d]: e.g. a value one past the bound compiles and the generated Go constant overflows (or silently wraps)", strings.TrimSuffix(name, "Spec"), bounds[0], bounds[1]))
		} else {
			l.Ok("INT-ACCEPT", key, c.Rel(ta.Pos()), fmt.Sprintf("every accepting path tests both bounds [%d,%d]", bounds[0], bounds[1]))
		}
	})
	for name := range specs {
		if !found[name] {
			l.Unk("INT-ACCEPT", "ConstantInt.Link:"+name, c.Rel(f.Pos()), "no arm for this integer width found: dispatch shape not recognised")
		}
	}
	l.Floor("INT-ACCEPT", 3)
}

func reachableAvoiding(from, to *ssa.BasicBlock, banned []core.Edge) bool {
	ban := map[core.Edge]bool{}
	for _, e := range banned {
		ban[e] = true
	}
	seen := map[*ssa.BasicBlock]bool{}
	st := []*ssa.BasicBlock{from}
	for len(st) > 0 {
		b := st[len(st)-1]
		st = st[:len(st)-1]
		if seen[b] {
			continue
		}
		seen[b] = true
		if b == to {
			return true
		}
		for _, s := range b.Succs {
			if !ban[core.Edge{From: b, To: s}] {
				st = append(st, s)
			}
		}
	}
	return false
}

func checkUnique(c *core.Ctx, l *core.Ledger) {
	claim := c.SSAFunc(c.LookupFunc("compile", "namespace.claim"))
	if claim == nil {
		l.Unk("UNIQUE", "anchor:claim", "", "compile.namespace.claim not found")
		return
	}
	isClaim := func(call *ssa.Call) bool { return call.Call.StaticCallee() == claim }
	type site struct {
		fn   string
		what string
		pred func(in ssa.Instruction) bool
	}
	isMapUpdateOnField := func(field string) func(ssa.Instruction) bool {
		return func(in ssa.Instruction) bool {
			mu, ok := in.(*ssa.MapUpdate)
			if !ok {
				return false
			}
			fld, _ := core.LoadedField(mu.Map)
			return fld != nil && fld.Name() == field
		}
	}
	isAppendOf := func(elem string) func(ssa.Instruction) bool {
		return func(in ssa.Instruction) bool {
			call, ok := in.(*ssa.Call)
			if !ok {
				return false
			}
			b, ok := call.Call.Value.(*ssa.Builtin)
			if !ok || b.Name() != "append" {
				return false
			}
			return strings.HasSuffix(core.TypeLabel(call.Type()), elem)
		}
	}
	isMapUpdateOfValue := func(elem string) func(ssa.Instruction) bool {
		return func(in ssa.Instruction) bool {
			mu, ok := in.(*ssa.MapUpdate)
			if !ok {
				return false
			}
			return strings.HasSuffix(core.TypeLabel(mu.Value.Type()), elem)
		}
	}
	sites := []site{
		{"compileFields", "fields", isAppendOf("[]*compile.FieldSpec")},
		{"compileEnum", "items", isAppendOf("[]compile.EnumItem")},
		{"compileService", "functions", isMapUpdateOfValue("*compile.FunctionSpec")},
		{"compiler.gather", "Module.Includes", isMapUpdateOnField("Includes")},
		{"compiler.gather", "Module.Constants", isMapUpdateOnField("Constants")},
		{"compiler.gather", "Module.Types", isMapUpdateOnField("Types")},
		{"compiler.gather", "Module.Services", isMapUpdateOnField("Services")},
	}
	// every insertion of that kind anywhere in the package (not only in the function that holds it
	// today) must be dominated, inside its own function, by a successful claim
	for _, s := range sites {
		n := 0
		for _, f := range c.AllFuncs("compile") {
			if c.IsTestFile(f.Pos()) || len(f.Blocks) == 0 {
				continue
			}
			var edges []core.Edge
			k := 0
			core.Instrs(f, func(in ssa.Instruction) {
				if !s.pred(in) {
					return
				}
				if mu, isMU := in.(*ssa.MapUpdate); isMU && rangeKeyOf(mu.Key) != nil {
					// re-assignment under a key enumerated from an existing table (link() replaces each type by
					// its linked form): the key set does not grow, no new name enters
					return
				}
				if edges == nil {
					edges = successEdges(f, isClaim)
				}
				n++
				k++
				key := fmt.Sprintf("%s@%s#%d", s.what, f.Name(), k)
				ok := core.AllPathsThroughEdges(f, in.Block(), edges)
				l.Check(ok, "UNIQUE", key, c.Rel(in.Pos()), "insertion is dominated by a successful claim of the name in the scope's namespace", "a definition is inserted into "+s.what+" on a path that has not successfully claimed its name: duplicates can be accepted (later one silently wins)")
			})
		}
		if n == 0 {
			l.Unk("UNIQUE", s.what, "", "no insertion into "+s.what+" recognised in package compile")
		}
	}
	// field ids: the append in compileFields is dominated by the negative outcome of the usedIDs lookup
	if f := c.SSAFunc(c.LookupFunc("compile", "compileFields")); f != nil {
		var edges []core.Edge
		for _, b := range f.Blocks {
			ifi, ok := b.Instrs[len(b.Instrs)-1].(*ssa.If)
			if !ok {
				continue
			}
			ex, ok := ifi.Cond.(*ssa.Extract)
			if !ok || ex.Index != 1 {
				continue
			}
			if lk, ok := ex.Tuple.(*ssa.Lookup); ok && lk.CommaOk {
				if strings.HasPrefix(core.TypeLabel(lk.X.Type()), "map[int16]") {
					edges = append(edges, core.Edge{From: b, To: b.Succs[1]})
				}
			}
		}
		n := 0
		core.Instrs(f, func(in ssa.Instruction) {
			if isAppendOf("[]*compile.FieldSpec")(in) {
				n++
				l.Check(core.AllPathsThroughEdges(f, in.Block(), edges), "UNIQUE", fmt.Sprintf("compileFields:used-id#%d", n), c.Rel(in.Pos()),
					"field is appended only when its id was absent from the used-id table", "a field is appended without the used-id test: two fields can share one id")
			}
			if mu, ok := in.(*ssa.MapUpdate); ok && strings.HasPrefix(core.TypeLabel(mu.Map.Type()), "map[int16]") {
				// the id recorded is the appended field's id
				l.Check(strings.HasSuffix(core.Sym(mu.Key), ".ID"), "UNIQUE", "compileFields:used-id-record", c.Rel(in.Pos()), "the used-id table records the compiled field's ID", "the used-id table is not updated with the field's ID: "+core.Sym(mu.Key))
			}
		})
	}
	// claim: error iff present
	{
		tr, _ := core.TraceSeqs(claim, func(call ssa.CallInstruction) bool { return false })
		s := core.SeqString(tr)
		// success path: lookup absent, then returns nil; error path excluded by TraceSeqs (definite error)
		okSucc := len(tr) == 1 && strings.Contains(s, "ret(c:nil)") && strings.Contains(s, "!")
		hasStore := false
		presentErr := false
		core.Instrs(claim, func(in ssa.Instruction) {
			if _, ok := in.(*ssa.MapUpdate); ok {
				hasStore = true
			}
			if r, ok := in.(*ssa.Return); ok && core.ReturnsNonNilError(r) {
				presentErr = true
			}
		})
		l.Check(okSucc && hasStore && presentErr, "UNIQUE", "namespace.claim", c.Rel(claim.Pos()), "claim returns an error when the transformed name is present and records it otherwise: "+s, "claim does not have the shape (present => error; absent => record, nil): "+s)
	}
	l.Floor("UNIQUE", 10)
}

// narrowSkip: generated scanner/parser tables are outside the rule.
func narrowSkip(c *core.Ctx, f *ssa.Function) bool {
	file := c.RelFile(f.Pos())
	return strings.HasSuffix(file, "idl/internal/lex.go") || strings.HasSuffix(file, "idl/internal/y.go")
}
