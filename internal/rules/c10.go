package rules

import (
	"fmt"
	"go/ast"
	"go/token"
	"go/types"
	"sort"
	"strings"

	"golang.org/x/tools/go/ssa"

	"verif/internal/core"
)

func init() { Registry["C10"] = checkC10 }

type mapRange struct {
	pkgRel string
	fn     string
	stmt   *ast.RangeStmt
	info   *types.Info
	ord    int
	label  string // what identifies the loop besides its function: the repository functions its body calls, else the map type
}

// mapRanges lists every range statement over a map in non-generated, non-test
// files of the given packages.
func mapRanges(c *core.Ctx, rels ...string) []mapRange {
	var out []mapRange
	for _, rel := range rels {
		p := c.Pkg(rel)
		for _, f := range p.Syntax {
			if core.IsGenerated(f) || c.IsTestFile(f.Pos()) {
				continue
			}
			for _, d := range f.Decls {
				fd, ok := d.(*ast.FuncDecl)
				if !ok || fd.Body == nil {
					continue
				}
				n := 0
				labels := map[string]int{}
				ast.Inspect(fd.Body, func(nd ast.Node) bool {
					rs, ok := nd.(*ast.RangeStmt)
					if !ok {
						return true
					}
					if _, isMap := p.TypesInfo.TypeOf(rs.X).Underlying().(*types.Map); isMap {
						n++
						lbl := rangeLabel(p.TypesInfo, rs)
						labels[lbl]++
						if k := labels[lbl]; k > 1 {
							lbl += fmt.Sprintf("#%d", k)
						}
						out = append(out, mapRange{rel, core.DeclName(fd), rs, p.TypesInfo, n, lbl})
					}
					return true
				})
			}
		}
	}
	return out
}

// rangeLabel names a map-range loop by what its body does rather than by its
// position: the repository functions and methods called directly in the body
// (sorted, at most four), or the ranged map's type when it calls none.
func rangeLabel(info *types.Info, rs *ast.RangeStmt) string {
	set := map[string]bool{}
	ast.Inspect(rs.Body, func(n ast.Node) bool {
		call, ok := n.(*ast.CallExpr)
		if !ok {
			return true
		}
		var obj types.Object
		switch f := ast.Unparen(call.Fun).(type) {
		case *ast.Ident:
			obj = info.Uses[f]
		case *ast.SelectorExpr:
			obj = info.Uses[f.Sel]
		}
		fn, ok := obj.(*types.Func)
		if !ok || fn.Pkg() == nil || !strings.HasPrefix(fn.Pkg().Path(), core.ModPath) {
			return true
		}
		name := fn.Name()
		if sig, ok := fn.Type().(*types.Signature); ok && sig.Recv() != nil {
			name = core.RecvTypeName(sig.Recv().Type()) + "." + name
		}
		set[name] = true
		return true
	})
	var names []string
	for k := range set {
		names = append(names, k)
	}
	sort.Strings(names)
	if len(names) > 4 {
		names = names[:4]
	}
	if len(names) == 0 {
		return "<" + types.TypeString(info.TypeOf(rs.X), func(*types.Package) string { return "" }) + ">"
	}
	return strings.Join(names, "+")
}

// loopEffect is one effect of a loop body (or callback) on state that
// outlives an iteration.
type loopEffect struct {
	kind   string // keyed-map, append, counter, flag, err-acc, overwrite, mutate, fs, ext, return-value, element
	target string
	pos    token.Pos
	detail string
	ok     bool // commutative / order-insensitive on its own
	val    ssa.Value
	instr  ssa.Instruction
	isCell func(ssa.Value) bool // recognises loads of the carried cell (captured variable or environment field)
}

// envRecv: for a callback that is a bound method value, the receiver is the
// callback's environment: its fields play the role a closure's captured
// variables play. Set by the caller of bodyEffects.
var envRecv = map[*ssa.Function]ssa.Value{}

// envField: addr is &recv.f for the environment receiver of fn.
func envField(fn *ssa.Function, addr ssa.Value) (int, bool) {
	fa, ok := addr.(*ssa.FieldAddr)
	if !ok || envRecv[fn] == nil || fa.X != envRecv[fn] {
		return 0, false
	}
	return fa.Field, true
}

type loopInfo struct {
	fn     *ssa.Function
	rng    *ssa.Range
	next   *ssa.Next
	body   map[*ssa.BasicBlock]bool
	header *ssa.BasicBlock
}

func findRangeLoop(c *core.Ctx, pos token.Pos, rel string) *loopInfo {
	for _, f := range c.AllFuncs(rel) {
		var li *loopInfo
		core.Instrs(f, func(in ssa.Instruction) {
			if r, ok := in.(*ssa.Range); ok && r.Pos() == pos {
				li = &loopInfo{fn: f, rng: r}
			}
		})
		if li == nil {
			continue
		}
		for _, r := range *li.rng.Referrers() {
			if n, ok := r.(*ssa.Next); ok {
				li.next = n
			}
		}
		if li.next == nil {
			return nil
		}
		li.header = li.next.Block()
		li.body = loopsOf(f)[li.header]
		if li.body == nil {
			li.body = map[*ssa.BasicBlock]bool{li.header: true}
		}
		return li
	}
	return nil
}

// dependsOn: does v data-depend on any value in srcs (through pure ops and calls)?
func dependsOn(v ssa.Value, srcs map[ssa.Value]bool, seen map[ssa.Value]bool) bool {
	if srcs[v] {
		return true
	}
	if seen[v] {
		return false
	}
	seen[v] = true
	in, ok := v.(ssa.Instruction)
	if !ok {
		return false
	}
	for _, op := range in.Operands(nil) {
		if *op != nil && dependsOn(*op, srcs, seen) {
			return true
		}
	}
	// memory: values stored into a local allocation (or its elements/fields)
	if a, ok := v.(*ssa.Alloc); ok {
		var addrs []ssa.Value
		addrs = append(addrs, a)
		for i := 0; i < len(addrs); i++ {
			refs := addrs[i].Referrers()
			if refs == nil {
				continue
			}
			for _, r := range *refs {
				switch x := r.(type) {
				case *ssa.Store:
					if x.Addr == addrs[i] && dependsOn(x.Val, srcs, seen) {
						return true
					}
				case *ssa.IndexAddr:
					addrs = append(addrs, x)
				case *ssa.FieldAddr:
					addrs = append(addrs, x)
				}
			}
		}
	}
	return false
}

func inBody(body map[*ssa.BasicBlock]bool, v ssa.Value) bool {
	in, ok := v.(ssa.Instruction)
	return ok && body[in.Block()]
}

// bodyEffects computes the effects of the instructions in `body` of fn on
// state defined outside it. iterVals are the per-iteration values (loop key /
// value, or callback parameters).
func bodyEffects(c *core.Ctx, fn *ssa.Function, body map[*ssa.BasicBlock]bool, iterVals map[ssa.Value]bool, isLoop bool) []loopEffect {
	sums := c.ModSummaries()
	g := c.Graph()
	var out []loopEffect
	// is a root set entirely iteration-local: every contributing allocation lies in the body
	localToIter := func(v ssa.Value) bool {
		ok := true
		var walk func(x ssa.Value, d int)
		seen := map[ssa.Value]bool{}
		walk = func(x ssa.Value, d int) {
			if seen[x] || d > 12 {
				return
			}
			seen[x] = true
			switch y := x.(type) {
			case *ssa.Alloc:
				if !inBody(body, y) {
					// a local variable declared outside the loop: look at what it holds
					stored := false
					for _, r := range *y.Referrers() {
						if st, isSt := r.(*ssa.Store); isSt && st.Addr == y && isRefLike(st.Val.Type()) {
							stored = true
							if !body[st.Block()] {
								ok = false
							} else {
								walk(st.Val, d+1)
							}
						}
					}
					if !stored {
						ok = false
					}
				}
			case *ssa.MakeMap, *ssa.MakeSlice, *ssa.MakeClosure:
				if !inBody(body, y.(ssa.Value)) {
					ok = false
				}
			case *ssa.FieldAddr:
				walk(y.X, d+1)
			case *ssa.IndexAddr:
				walk(y.X, d+1)
			case *ssa.Field:
				walk(y.X, d+1)
			case *ssa.UnOp:
				walk(y.X, d+1)
			case *ssa.Slice:
				walk(y.X, d+1)
			case *ssa.ChangeType:
				walk(y.X, d+1)
			case *ssa.ChangeInterface:
				walk(y.X, d+1)
			case *ssa.MakeInterface:
				walk(y.X, d+1)
			case *ssa.TypeAssert:
				walk(y.X, d+1)
			case *ssa.Extract:
				walk(y.Tuple, d+1)
			case *ssa.Phi:
				for _, e := range y.Edges {
					walk(e, d+1)
				}
			case *ssa.Call:
				if b, isB := y.Call.Value.(*ssa.Builtin); isB && b.Name() == "append" {
					walk(y.Call.Args[0], d+1)
					return
				}
				if !inBody(body, y) {
					ok = false
					return
				}
				fresh := false
				if cal := y.Call.StaticCallee(); cal != nil {
					if s := sums[cal]; s != nil && s.ReturnsFresh {
						fresh = true
					}
					if !core.InRepo(cal) {
						fresh = true
					}
				}
				if !fresh {
					ok = false
				}
			case *ssa.Const:
			default:
				ok = false
			}
		}
		walk(v, 0)
		return ok
	}
	describe := func(v ssa.Value) string {
		return strings.Join(c.RootsOf(fn, v), "+") + " (" + core.Sym(v) + ")"
	}
	for _, b := range fn.Blocks {
		if !body[b] {
			continue
		}
		for _, in := range b.Instrs {
			switch x := in.(type) {
			case *ssa.MapUpdate:
				if localToIter(x.Map) {
					continue
				}
				keyed := dependsOn(x.Key, iterVals, map[ssa.Value]bool{})
				out = append(out, loopEffect{kind: "keyed-map", target: describe(x.Map), pos: x.Pos(), ok: keyed, detail: "map insert with key " + core.Sym(x.Key)})
			case *ssa.Store:
				if a, isA := x.Addr.(*ssa.Alloc); isA {
					if inBody(body, a) {
						continue
					}
					out = append(out, classifyCarried(c, fn, body, a.Comment, x.Val, func(v ssa.Value) bool {
						ld, ok := v.(*ssa.UnOp)
						return ok && ld.X == a
					}, x.Pos()))
					continue
				}
				if localToIter(x.Addr) {
					continue
				}
				if fv, isFV := x.Addr.(*ssa.FreeVar); isFV {
					eff := classifyCarried(c, fn, body, "captured "+fv.Name(), x.Val, func(v ssa.Value) bool {
						ld, ok := v.(*ssa.UnOp)
						return ok && ld.X == ssa.Value(fv)
					}, x.Pos())
					eff.val = fv
					eff.instr = x
					eff.isCell = func(v ssa.Value) bool { return v == ssa.Value(fv) }
					if eff.kind == "overwrite" && feedsOnlyErrorText(fn, eff.isCell) {
						eff.kind, eff.ok, eff.detail = "err-text", true, "the variable is only ever formatted into error messages"
					}
					out = append(out, eff)
					continue
				}
				if idx, isEnv := envField(fn, x.Addr); isEnv {
					isCell := func(v ssa.Value) bool {
						i, ok := envField(fn, v)
						return ok && i == idx
					}
					eff := classifyCarried(c, fn, body, "environment field "+core.Sym(x.Addr), x.Val, func(v ssa.Value) bool {
						ld, ok := v.(*ssa.UnOp)
						return ok && ld.Op == token.MUL && isCell(ld.X)
					}, x.Pos())
					eff.val = envRecv[fn]
					eff.instr = x
					eff.isCell = isCell
					eff.target = fmt.Sprintf("environment field #%d", idx)
					if eff.kind == "overwrite" && feedsOnlyErrorText(fn, isCell) {
						eff.kind, eff.ok, eff.detail = "err-text", true, "the field is only ever formatted into error messages"
					}
					out = append(out, eff)
					continue
				}
				out = append(out, loopEffect{kind: "mutate", target: describe(x.Addr), pos: x.Pos(), detail: "store to state that outlives the iteration"})
			case *ssa.Return:
				if !isLoop {
					continue
				}
				for i, r := range x.Results {
					rv := core.SpilledResult(x, r)
					if core.IsErrorType(r.Type()) {
						continue
					}
					if _, isC := rv.(*ssa.Const); isC {
						continue
					}
					if dependsOn(rv, iterVals, map[ssa.Value]bool{}) {
						out = append(out, loopEffect{kind: "return-value", target: fmt.Sprintf("result %d", i), pos: x.Pos(), detail: "returns a value chosen by whichever iteration gets there first"})
					}
				}
			case ssa.CallInstruction:
				cc := x.Common()
				if bi, isB := cc.Value.(*ssa.Builtin); isB {
					if bi.Name() == "delete" && !localToIter(cc.Args[0]) {
						out = append(out, loopEffect{kind: "keyed-map", target: describe(cc.Args[0]), pos: x.Pos(), ok: true, detail: "delete"})
					}
					continue
				}
				var callees []*ssa.Function
				if cal := cc.StaticCallee(); cal != nil {
					callees = []*ssa.Function{cal}
				} else {
					for _, e := range g.Out[fn] {
						if e.Site == in {
							callees = append(callees, e.To)
						}
					}
				}
				args := cc.Args
				if cc.IsInvoke() {
					args = append([]ssa.Value{cc.Value}, cc.Args...)
				}
				if len(callees) == 0 && cc.IsInvoke() {
					// interface method with no repository implementation reached: stdlib contract
					continue
				}
				for _, cal := range callees {
					cs := sums[cal]
					if cs == nil {
						if o, _ := cal.Object().(*types.Func); o != nil && o.Pkg() != nil {
							full := o.Pkg().Path() + "." + o.Name()
							switch {
							case o.Pkg().Path() == "os" && (o.Name() == "WriteFile" || o.Name() == "MkdirAll" || o.Name() == "Mkdir" || o.Name() == "Create" || o.Name() == "Remove" || o.Name() == "RemoveAll" || o.Name() == "Rename"):
								keyed := len(args) > 0 && dependsOn(args[0], iterVals, map[ssa.Value]bool{})
								out = append(out, loopEffect{kind: "fs", target: full, pos: x.Pos(), ok: keyed, detail: "file system effect on a path derived from the iteration key: " + core.Sym(args[0])})
							case o.Pkg().Path() == "sort":
								if len(args) > 0 && !localToIter(args[0]) {
									out = append(out, loopEffect{kind: "mutate", target: describe(args[0]), pos: x.Pos(), detail: "sorts outer state in place"})
								}
							}
						}
						continue
					}
					var roots []string
					for r := range cs.Roots {
						roots = append(roots, r)
					}
					sort.Strings(roots)
					for _, root := range roots {
						why := cs.Roots[root]
						switch {
						case strings.HasPrefix(root, "p"):
							var i int
							fmt.Sscanf(root[1:], "%d", &i)
							if i >= len(args) || localToIter(args[i]) {
								continue
							}
							kind := "mutate"
							ok := false
							det := "via " + core.SSAName(cal) + ": " + why
							if cs.KeyedMapOnly[root] {
								// m[param]=param: commutative if the key argument depends on the iteration
								kind = "keyed-map"
								ok = true
							}
							if dependsOn(args[i], iterVals, map[ssa.Value]bool{}) && kind == "mutate" {
								kind = "element"
							}
							out = append(out, loopEffect{kind: kind, target: describe(args[i]), pos: x.Pos(), ok: ok, detail: det})
						case strings.HasPrefix(root, "fv"):
							out = append(out, loopEffect{kind: "mutate", target: "captured state of " + core.SSAName(cal), pos: x.Pos(), detail: why})
						case root == "fs":
							out = append(out, loopEffect{kind: "fs", target: core.SSAName(cal), pos: x.Pos(), detail: why})
						default:
							out = append(out, loopEffect{kind: "ext", target: root, pos: x.Pos(), detail: "via " + core.SSAName(cal) + ": " + why})
						}
					}
				}
			}
		}
	}
	// loop-carried registers (phis in the header other than the iterator)
	if isLoop {
		for _, b := range fn.Blocks {
			if !body[b] {
				continue
			}
			for _, in := range b.Instrs {
				phi, ok := in.(*ssa.Phi)
				if !ok {
					break
				}
				// carried if some edge value is defined in the body
				for _, e := range phi.Edges {
					if inBody(body, e) && e != ssa.Value(phi) {
						if _, isPhi := e.(*ssa.Phi); isPhi {
							continue // merge of in-body values; classified at the defining phi/value
						}
						eff := classifyCarried(c, fn, body, phi.Comment, e, func(v ssa.Value) bool { return v == ssa.Value(phi) || isPhiOf(v, phi) }, e.Pos())
						eff.val = phi
						out = append(out, eff)
					}
				}
			}
		}
	}
	return out
}

func isPhiOf(v ssa.Value, target *ssa.Phi) bool {
	p, ok := v.(*ssa.Phi)
	if !ok {
		return false
	}
	for _, e := range p.Edges {
		if e == ssa.Value(target) {
			return true
		}
	}
	return false
}

func isRefLike(t types.Type) bool {
	switch t.Underlying().(type) {
	case *types.Pointer, *types.Map, *types.Slice, *types.Interface, *types.Chan, *types.Signature:
		return true
	}
	return false
}

// classifyCarried classifies an update "v = f(v, ...)" of a variable carried
// across iterations.
func classifyCarried(c *core.Ctx, fn *ssa.Function, body map[*ssa.BasicBlock]bool, name string, newVal ssa.Value, isOld func(ssa.Value) bool, pos token.Pos) loopEffect {
	eff := loopEffect{kind: "overwrite", target: "variable " + name, pos: pos, detail: "last writer wins: " + core.Sym(newVal)}
	switch x := newVal.(type) {
	case *ssa.Const:
		return loopEffect{kind: "flag", target: "variable " + name, pos: pos, ok: true, detail: "set to a constant"}
	case *ssa.BinOp:
		if (x.Op == token.ADD || x.Op == token.SUB || x.Op == token.OR || x.Op == token.AND) && (isOld(x.X) || isOld(x.Y)) {
			return loopEffect{kind: "counter", target: "variable " + name, pos: pos, ok: x.Op != token.SUB || isOld(x.X), detail: "commutative accumulation"}
		}
	case *ssa.Call:
		if b, ok := x.Call.Value.(*ssa.Builtin); ok && b.Name() == "append" {
			return loopEffect{kind: "append", target: "variable " + name, pos: pos, detail: "elements are appended in iteration order", val: newVal}
		}
		if cal := x.Call.StaticCallee(); cal != nil && core.InRepo(cal) {
			sums := c.ModSummaries()
			if sm := sums[cal]; sm != nil && len(sm.Roots) == 0 {
				for _, a := range x.Call.Args {
					if isOld(a) {
						why, known := commutativeReducers[core.SSAName(cal)]
						return loopEffect{kind: "reduce", target: "variable " + name, pos: pos, ok: known, detail: "reduction v = " + core.SSAName(cal) + "(v, x) with a side-effect-free function; " + why}
					}
				}
			}
		}
		if o := core.CalleeObj(x); o != nil && o.Pkg() != nil && o.Pkg().Path() == "go.uber.org/multierr" {
			return loopEffect{kind: "err-acc", target: "variable " + name, pos: pos, ok: true, detail: "errors are accumulated (which error text comes first may vary; whether there is one does not)"}
		}
	}
	if core.IsErrorType(newVal.Type()) {
		return loopEffect{kind: "err-acc", target: "variable " + name, pos: pos, ok: true, detail: "error value"}
	}
	return eff
}

// commutativeReducers: side-effect-free binary functions confirmed (by
// reading) to be commutative and associative on the results that matter, so
// folding them over a collection in any order gives the same outcome. The
// absence of side effects is re-verified from the mod-summary on every run.
var commutativeReducers = map[string]string{
	"thriftrw.commonPrefix": "the longest common prefix of path-component lists does not depend on the order in which the lists are folded",
}

// feedsOnlyErrorText: every load of the captured variable in fn flows only
// into error constructors (fmt.Errorf / errors.New).
func feedsOnlyErrorText(fn *ssa.Function, isCell func(ssa.Value) bool) bool {
	ok := true
	var follow func(v ssa.Value, d int)
	seen := map[ssa.Value]bool{}
	follow = func(v ssa.Value, d int) {
		if seen[v] || d > 10 {
			return
		}
		seen[v] = true
		refs := v.Referrers()
		if refs == nil {
			return
		}
		for _, r := range *refs {
			switch x := r.(type) {
			case *ssa.MakeInterface:
				follow(x, d+1)
			case *ssa.Store:
				if x.Val == v {
					if ia, isIA := x.Addr.(*ssa.IndexAddr); isIA {
						follow(ia.X, d+1) // varargs array
					} else {
						ok = false
					}
				}
			case *ssa.Slice:
				follow(x, d+1)
			case *ssa.IndexAddr:
			case ssa.CallInstruction:
				o := core.CalleeObj(x)
				if o == nil || o.Pkg() == nil || !((o.Pkg().Path() == "fmt" && o.Name() == "Errorf") || (o.Pkg().Path() == "errors" && o.Name() == "New")) {
					ok = false
				}
			case *ssa.DebugRef:
			default:
				ok = false
			}
		}
	}
	core.Instrs(fn, func(in ssa.Instruction) {
		if ld, isLd := in.(*ssa.UnOp); isLd && ld.Op == token.MUL && isCell(ld.X) {
			follow(ld, 0)
		}
	})
	return ok
}

// sortedBeforeUse: every use of the collected slice outside the loop is
// dominated by a sort call on it.
func sortedBeforeUse(fn *ssa.Function, body map[*ssa.BasicBlock]bool, v ssa.Value) (bool, string) {
	if v == nil {
		return false, "collection variable not identified"
	}
	// collect the values that carry the slice after the loop: v itself and phis of it outside
	carry := map[ssa.Value]bool{v: true}
	for changed := true; changed; {
		changed = false
		for val := range carry {
			if refs := val.Referrers(); refs != nil {
				for _, r := range *refs {
					if p, ok := r.(*ssa.Phi); ok && !carry[p] {
						carry[p] = true
						changed = true
					}
				}
			}
		}
	}
	var sorts []ssa.Instruction
	var uses []ssa.Instruction
	for val := range carry {
		refs := val.Referrers()
		if refs == nil {
			continue
		}
		for _, r := range *refs {
			if body[r.Block()] {
				continue
			}
			if _, isPhi := r.(*ssa.Phi); isPhi {
				continue
			}
			if call, ok := r.(*ssa.Call); ok {
				if o := core.CalleeObj(call); o != nil && o.Pkg() != nil && o.Pkg().Path() == "sort" && len(call.Call.Args) > 0 && carry[call.Call.Args[0]] {
					sorts = append(sorts, r)
					continue
				}
			}
			uses = append(uses, r)
		}
	}
	if len(sorts) == 0 {
		return false, "the collected slice is never sorted"
	}
	for _, u := range uses {
		dom := false
		for _, s := range sorts {
			if s.Block() == u.Block() {
				if indexIn(s) < indexIn(u) {
					dom = true
				}
			} else if s.Block().Dominates(u.Block()) {
				dom = true
			}
		}
		if !dom {
			return false, "a use of the collected slice is not preceded by the sort"
		}
	}
	return true, fmt.Sprintf("sorted before all %d later uses", len(uses))
}

func summarise(c *core.Ctx, effs []loopEffect) (class string, bad []loopEffect) {
	hasAppend, hasKeyed, hasFS := false, false, false
	for _, e := range effs {
		switch {
		case e.kind == "append":
			hasAppend = true
		case e.ok && e.kind == "fs":
			hasFS = true
		case e.ok:
			hasKeyed = true
		default:
			bad = append(bad, e)
		}
	}
	switch {
	case len(bad) > 0:
		class = "order-sensitive"
	case hasAppend:
		class = "A"
	case hasFS:
		class = "D"
	case hasKeyed:
		class = "B"
	default:
		class = "C"
	}
	return
}

func effectLines(c *core.Ctx, effs []loopEffect) []string {
	var out []string
	seen := map[string]bool{}
	for _, e := range effs {
		s := fmt.Sprintf("%s on %s at %s: %s", e.kind, e.target, c.Rel(e.pos), e.detail)
		if !seen[s] {
			seen[s] = true
			out = append(out, s)
		}
	}
	return out
}

func checkC10(c *core.Ctx, l *core.Ledger) {
	l.Explanation = "Static clauses of C10: (MAPORD) every range over a map in non-generated code of compile, gen, internal/plugin and the command is classified from an SSA effect analysis of its body with interprocedural mod-summaries: A = elements collected into a slice that is sorted before every later use; B = only commutative effects on outer state (map inserts keyed by the iteration key, counters, flags, error accumulation); C = no effect except returning an error; D = one file-system effect per key on a path derived from the key. Any other effect on state that outlives the iteration (namespace/import-alias/mangler counters, appends that are never sorted, mutation of shared specs, first-match returns) is order-sensitive and reported. (WALK) Module.Walk exposes map order to its callbacks by contract; each callback passed to it is classified by the same rules. (SELF-CONTAINED) the per-module callback of gen.Generate, which runs in map order, registers the whole include tree of its own module with the request builder before it adds services, so the failing lookup of an ancestor's module id never depends on what earlier iterations registered. (MEMO-KEY) a function that memoises its result keys the table by every parameter the result depends on, so a cached answer cannot depend on which caller came first. (MODULE-IDENTITY) no visited-set or memo table is keyed by a module's base name: which of two same-named files is visited would depend on map order, and the other would never be generated. (SOURCES) no wall-clock, random, pid or pointer-formatting source is reachable from the generation entry points. (TMPL-RANGE) templates range over maps only where text/template sorts the keys. (ERR-KEEP) an error found in one turn of a loop survives the later turns, so whether a run fails does not depend on iteration order. NOT decided: byte equality across runs as such; determinism of plugin processes; RootServices/RootModules order (treated as sets, as the property allows arbitrary numbering)."
	l.RuleText = "one obligation per map-range site / Walk callback / nondeterminism source; non-trivial = the body has at least one effect on outer state"
	l.Assumptions = []string{"text/template visits map keys in sorted order (documented behaviour)", "module and service id numbering is arbitrary by the property statement", "mod-summaries treat stdlib packages listed as pure as having no relevant side effects"}
	rels := []string{"compile", "gen", "internal/plugin", ""}
	sites := mapRanges(c, rels...)
	l.Units["map_range_sites"] = len(sites)
	for _, r := range sites {
		key := fmt.Sprintf("%s.%s:range→%s", r.pkgRel, r.fn, r.label)
		pos := c.Rel(r.stmt.Pos())
		li := findRangeLoop(c, r.stmt.For, r.pkgRel)
		if li == nil {
			l.Unk("MAPORD", key, pos, "the SSA loop for this range statement could not be located")
			continue
		}
		iter := map[ssa.Value]bool{li.next: true}
		for _, rr := range *li.next.Referrers() {
			if ex, ok := rr.(*ssa.Extract); ok {
				iter[ex] = true
			}
		}
		bodyNoHeader := li.body
		effs := bodyEffects(c, li.fn, bodyNoHeader, iter, true)
		class, bad := summarise(c, effs)
		if walkFn := c.SSAFunc(c.LookupFunc("compile", "Module.Walk")); walkFn != nil && li.fn == walkFn && class == "A" {
			// Module.Walk exposes the order of m.Includes to its callback by contract (worklist of
			// modules). Whether that is harmless is decided per callback by rule WALK below.
			l.Ok("MAPORD", key, pos, "order-exposed by contract: Module.Walk visits includes in map order; every callback passed to it is classified by rule WALK")
			continue
		}
		switch class {
		case "order-sensitive":
			l.Bad("MAPORD", key, pos, fmt.Sprintf("range over map %s has order-sensitive effects: the result depends on Go's randomised map iteration order", types.ExprString(r.stmt.X)), effectLines(c, bad)...)
		case "A":
			okAll := true
			why := ""
			for _, e := range effs {
				if e.kind == "append" {
					v := e.val
					if okS, w := sortedBeforeUse(li.fn, li.body, v); !okS {
						okAll = false
						why = e.target + ": " + w
					} else {
						why = w
					}
				}
			}
			if okAll {
				l.Ok("MAPORD", key, pos, "class A: collected then sorted ("+why+")")
			} else {
				l.Bad("MAPORD", key, pos, "range over map "+types.ExprString(r.stmt.X)+" collects elements in iteration order and "+why, effectLines(c, effs)...)
			}
		default:
			o := core.Obligation{Rule: "MAPORD", Key: key, Pos: pos, Status: core.Discharged, Trivial: len(effs) == 0,
				Detail: "class " + class + ": " + strings.Join(effectLines(c, effs), "; ")}
			l.Add(o)
		}
	}
	l.Floor("MAPORD", 8)
	checkWalkCallbacks(c, l)
	checkNondetSources(c, l)
	if tmplRangeHook != nil {
		tmplRangeHook(c, l)
	}
}

var tmplRangeHook func(c *core.Ctx, l *core.Ledger)

// checkWalkCallbacks classifies every function value passed to Module.Walk.
func checkWalkCallbacks(c *core.Ctx, l *core.Ledger) {
	walk := c.SSAFunc(c.LookupFunc("compile", "Module.Walk"))
	if walk == nil {
		l.Unk("WALK", "anchor", "", "compile.Module.Walk not found")
		return
	}
	n := 0
	perCaller := map[*ssa.Function]int{}
	sites := c.StaticCallSites(walk)
	sort.Slice(sites, func(i, j int) bool { return sites[i].Pos() < sites[j].Pos() })
	for _, site := range sites {
		if c.IsTestFile(site.Pos()) || len(site.Common().Args) != 2 {
			continue
		}
		caller := site.Parent()
		if core.IsGenerated2(c, caller) {
			continue
		}
		switch core.PkgRel(caller) {
		case "compile", "gen", "", "internal/plugin":
		default:
			continue // other tools (e.g. thriftrw-list-deps) are outside code generation
		}
		n++
		perCaller[caller]++
		key := fmt.Sprintf("%s:Walk#%d", core.SSAName(caller), perCaller[caller])
		pos := c.Rel(site.Pos())
		var cb *ssa.Function
		var bindings []ssa.Value
		switch v := site.Common().Args[1].(type) {
		case *ssa.MakeClosure:
			cb = v.Fn.(*ssa.Function)
			bindings = v.Bindings
			if strings.HasSuffix(cb.Name(), "$bound") {
				// method value recv.m: the method is the callback, its receiver the environment
				if t := funcValueTarget(v); t != nil && t.Signature.Recv() != nil && len(t.Params) > 0 {
					cb = t
					envRecv[cb] = t.Params[0]
				} else {
					cb = nil
				}
			}
		case *ssa.Function:
			cb = v
		}
		if cb == nil {
			l.Unk("WALK", key, pos, "callback passed to Module.Walk is not a function literal or named function: cannot classify")
			continue
		}
		body := map[*ssa.BasicBlock]bool{}
		for _, b := range cb.Blocks {
			body[b] = true
		}
		iter := map[ssa.Value]bool{}
		for _, p := range cb.Params {
			if ssa.Value(p) != envRecv[cb] {
				iter[p] = true
			}
		}
		effs := bodyEffects(c, cb, body, iter, false)
		// effects inside the callback are relative to cb: captured variables (fv) and its parameter
		var rel []loopEffect
		for _, e := range effs {
			if strings.HasPrefix(e.target, "local") {
				continue
			}
			rel = append(rel, e)
		}
		_ = bindings
		// allow-list: the service-request builder only assigns ids / registers modules and services, which the property treats as arbitrary numbering
		var bad []loopEffect
		var notes []string
		// the first element of a reduction: "if v == nil { v = x }" next to "v = f(v, x)"
		reduced := map[string]bool{}
		for _, e := range rel {
			if e.kind == "reduce" && e.ok {
				reduced[e.target] = true
			}
		}
		for i, e := range rel {
			if e.kind == "overwrite" && reduced[e.target] && e.instr != nil && e.isCell != nil {
				isCell := e.isCell
				edges := core.GuardEdges(cb, func(cm core.Cmp) bool {
					if cm.Op != token.EQL {
						return false
					}
					ld, ok := cm.X.(*ssa.UnOp)
					if !ok || ld.Op != token.MUL || !isCell(ld.X) {
						return false
					}
					k, isC := cm.Y.(*ssa.Const)
					return isC && k.IsNil()
				})
				if core.AllPathsThroughEdges(cb, e.instr.Block(), edges) {
					rel[i].ok = true
					rel[i].kind = "reduce-init"
				}
			}
		}
		for _, e := range rel {
			if e.ok {
				notes = append(notes, e.kind+" on "+e.target)
				continue
			}
			if strings.Contains(e.detail, "generateServiceBuilder") || strings.Contains(e.target, "generateServiceBuilder") {
				notes = append(notes, "request-builder ids (arbitrary numbering allowed by the property)")
				continue
			}
			bad = append(bad, e)
		}
		if len(bad) > 0 {
			l.Bad("WALK", key, pos, "callback invoked by Module.Walk in map-iteration order has order-sensitive effects", effectLines(c, bad)...)
		} else {
			l.Add(core.Obligation{Rule: "WALK", Key: key, Pos: pos, Status: core.Discharged, Trivial: len(rel) == 0, Detail: "callback effects are commutative: " + strings.Join(uniq(notes), "; ")})
		}
	}
	l.Floor("WALK", 3)
	// the generate callback reads the builder's module table (a service needs the ids of its ancestors' modules):
	// that read is order-independent only if each call registers its own include tree first
	checkModulesFirst(c, l, "SELF-CONTAINED", "generateModule.modules-first")
	checkMemoKeys(c, l)
	checkModuleIdentity(c, l, "MODULE-IDENTITY", []string{"compile", "gen", ""})
	// an error found in one turn of a map-ordered loop must survive the later turns: otherwise whether the run fails
	// depends on which entry came last
	checkErrKeep(c, l, "ERR-KEEP", []string{"compile", "gen", "", "internal/plugin"})
}

// checkNondetSources: nothing reachable from the generation entry points
// calls a wall-clock, random, pid or environment-dependent source.
func checkNondetSources(c *core.Ctx, l *core.Ledger) {
	g := c.Graph()
	var roots []*ssa.Function
	for _, a := range [][2]string{{"compile", "Compile"}, {"gen", "Generate"}} {
		if f := c.SSAFunc(c.LookupFunc(a[0], a[1])); f != nil {
			roots = append(roots, f)
		} else {
			l.Unk("SOURCES", "anchor:"+a[0]+"."+a[1], "", "entry point not found")
		}
	}
	reach := g.Reach(roots, func(f *ssa.Function) bool { return !strings.HasPrefix(core.PkgRel(f), "internal/git") })
	banned := map[string]bool{"time.Now": true, "time.Since": true, "os.Getpid": true, "os.Hostname": true, "os.Getenv": true, "os.Environ": true, "os.Getwd": true}
	n := 0
	for _, f := range core.SortedFuncs(reach) {
		n++
		core.Instrs(f, func(in ssa.Instruction) {
			call, ok := in.(ssa.CallInstruction)
			if !ok {
				return
			}
			o := core.CalleeObj(call)
			if o == nil || o.Pkg() == nil {
				return
			}
			full := o.Pkg().Path() + "." + o.Name()
			if banned[full] || o.Pkg().Path() == "math/rand" || o.Pkg().Path() == "crypto/rand" {
				l.Bad("SOURCES", core.SSAName(f)+":"+full, c.Rel(in.Pos()), "nondeterminism source "+full+" is reachable from code generation", core.PathTo(reach, f)...)
			}
			// map iterators (Go 1.23 maps.Keys/Values/All) and reflect map walks expose map order unless sorted at once
			if full == "maps.Keys" || full == "maps.Values" || full == "maps.All" || full == "reflect.MapKeys" || full == "reflect.MapRange" {
				sorted := false
				if v, isV := in.(ssa.Value); isV && v.Referrers() != nil {
					for _, r := range *v.Referrers() {
						if c2, isC := r.(ssa.CallInstruction); isC {
							if o2 := core.CalleeObj(c2); o2 != nil && o2.Pkg() != nil && (o2.Pkg().Path() == "slices" && strings.HasPrefix(o2.Name(), "Sorted") || o2.Pkg().Path() == "sort") {
								sorted = true
							}
						}
					}
				}
				if !sorted && !isSortedKeysHelper(f) && core.PkgRel(f) != "internal/concurrent" {
					l.Bad("SOURCES", core.SSAName(f)+":"+full, c.Rel(in.Pos()), "map iteration order enters through "+full+" without an immediate sort", core.PathTo(reach, f)...)
				}
			}
			if _, isGo := in.(*ssa.Go); isGo && core.PkgRel(f) != "internal/concurrent" {
				l.Bad("SOURCES", core.SSAName(f)+":go", c.Rel(in.Pos()), "goroutine started during generation outside internal/concurrent: result order may depend on scheduling", core.PathTo(reach, f)...)
			}
		})
	}
	l.Add(core.Obligation{Rule: "SOURCES", Key: "scan", Status: core.Discharged, Detail: fmt.Sprintf("%d functions reachable from compile.Compile and gen.Generate scanned for clock/random/pid/env sources and stray goroutines", n)})
	l.Units["generation_reachable_functions"] = n
	// %p formatting
	for _, f := range core.SortedFuncs(reach) {
		core.Instrs(f, func(in ssa.Instruction) {
			call, ok := in.(ssa.CallInstruction)
			if !ok {
				return
			}
			for _, a := range call.Common().Args {
				if k, ok := a.(*ssa.Const); ok && k.Value != nil && strings.Contains(k.Value.ExactString(), "%p") {
					l.Bad("SOURCES", core.SSAName(f)+":%p", c.Rel(in.Pos()), "pointer formatting in generation code")
				}
			}
		})
	}
}

// isSortedKeysHelper: f collects map keys and sorts them before returning (sortStringKeys).
func isSortedKeysHelper(f *ssa.Function) bool {
	sorts := false
	core.Instrs(f, func(in ssa.Instruction) {
		if call, ok := in.(ssa.CallInstruction); ok {
			if o := core.CalleeObj(call); o != nil && o.Pkg() != nil && (o.Pkg().Path() == "sort" || o.Pkg().Path() == "slices" && strings.HasPrefix(o.Name(), "Sort")) {
				sorts = true
			}
		}
	})
	return sorts
}

// checkMemoKeys: a function that caches its result in a table (lookup hit =>
// return the stored value; miss => compute, store, return) is only independent
// of call order if the stored result is a function of the key. If another
// parameter of the function influences the result but is not part of the key,
// the first caller decides for all later ones — and in generation code the
// order of callers follows map iteration.
func checkMemoKeys(c *core.Ctx, l *core.Ledger) {
	n := 0
	for _, f := range c.AllFuncs("gen", "compile", "internal/plugin", "plugin") {
		if c.IsTestFile(f.Pos()) || core.IsGenerated2(c, f) || len(f.Blocks) == 0 || f.Signature.Recv() == nil {
			continue
		}
		type memo struct {
			lk  *ssa.Lookup
			fld string
		}
		var memos []memo
		core.Instrs(f, func(in ssa.Instruction) {
			lk, ok := in.(*ssa.Lookup)
			if !ok || !lk.CommaOk {
				return
			}
			fld, _ := core.LoadedField(lk.X)
			if fld == nil {
				return
			}
			// hit edge returns the looked-up value
			hitReturns := false
			var val ssa.Value
			for _, r := range *lk.Referrers() {
				if ex, ok := r.(*ssa.Extract); ok && ex.Index == 0 {
					val = ex
				}
			}
			if val == nil {
				return
			}
			for _, r := range *val.Referrers() {
				if ret, ok := r.(*ssa.Return); ok {
					_ = ret
					hitReturns = true
				}
			}
			if !hitReturns {
				return
			}
			// and the same table is filled in this function
			fills := false
			core.Instrs(f, func(i2 ssa.Instruction) {
				if mu, ok := i2.(*ssa.MapUpdate); ok {
					if f2, _ := core.LoadedField(mu.Map); f2 == fld {
						fills = true
					}
				}
			})
			if fills {
				memos = append(memos, memo{lk, core.FieldName(fld)})
			}
		})
		for _, m := range memos {
			n++
			keySym := core.Sym(m.lk.Index)
			var extra []string
			for i, p := range f.Params {
				if i == 0 {
					continue // receiver
				}
				if strings.Contains(keySym, fmt.Sprintf("$%d", i)) {
					continue
				}
				if p.Referrers() != nil && len(*p.Referrers()) > 0 {
					used := false
					for _, r := range *p.Referrers() {
						if _, isDbg := r.(*ssa.DebugRef); !isDbg {
							used = true
						}
					}
					if used {
						extra = append(extra, p.Name())
					}
				}
			}
			key := fmt.Sprintf("%s:%s", core.SSAName(f), m.fld)
			l.Check(len(extra) == 0, "MEMO-KEY", key, c.Rel(m.lk.Pos()), "the cached result is keyed by every parameter it can depend on ("+keySym+")", "the function caches its result under "+keySym+" but also depends on parameter(s) "+strings.Join(extra, ", ")+" that are not part of the key: the first caller decides the result for all later callers, and callers run in map order")
		}
	}
	l.Units["memo_functions"] = n
}
