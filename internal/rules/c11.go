package rules

import (
	"fmt"
	"go/ast"
	"go/token"
	"go/types"
	"sort"
	"strings"

	"golang.org/x/tools/go/ssa"

	"verif/internal/core"
)

func init() { Registry["C11"] = withErrRules(checkC11, "", "idl", "idl/internal", "ast") }

func checkC11(c *core.Ctx, l *core.Ledger) {
	l.Explanation = "Static clauses of C11: (WALK-COMPLETE) for every concrete ast.Node type, visitChildren calls v.visit exactly once for every field (or, inside a loop over it, every element of a slice field) whose static type implements Node, passing the stack it received, and visits nothing else; visitor.visit returns on nil, asks the user's visitor with the stack of ancestors, then pushes the node before descending — together: every node reachable through Node-typed fields is visited exactly once with its true parent on top of the stack; (XOR) internal.Parse returns a program only under e==0 && !parseFailed and otherwise the zero result with lex.errors; parseFailed is set only by AppendError, which appends in the same straight-line block; the generated yyParse reaches `return 1` only after yylex.Error was called (abstract interpretation of the error-recovery flag over the generated parser's CFG); newParseError is nil iff the list is empty — hence never both, never neither; (POS-PAIR) every ast literal built by a grammar action takes Line and Column from the same position marker and every pos() accessor returns its own Line/Column; (POS-KEY) positions recorded in the side table must be keyed by nodes with identity (pointers or position-carrying values) — value-typed constants are not, which is recorded as a known finding. (POS-MARKER) for every use of a position or docstring marker in a grammar action, the goyacc tables in y.go are explored abstractly — reachable (state, lookahead-present) configurations of the LALR automaton on error-free input, reductions resolved through the reverse transition graph — to decide whether the marker's empty production is reduced after the next token was read (lexer.Pos() then describes the next token) or by default without lookahead (it describes the last shifted token); a marker followed by further symbols must describe the next token, a marker ending its production the token it follows. (LEX-NUM) every strconv.ParseInt in the scanner uses base 10, or 16 under the test for the 0x prefix, with 64 bits, and ParseFloat 64 bits. (ACTION-USES) for every production of the grammar (thrift.y) the action refers to every right-hand-side symbol that carries a semantic value, and the corresponding case of the generated parser mentions the same yyDollar[k] — no parsed component (an annotation list, a default value) is dropped from the tree. (BYTE-SAFE) the hand-written code of idl/internal treats literal text bytewise (no rune-level mapping, []rune conversion or range over a string), so \\xNN escapes survive. NOT decided: that the ragel scanner is total and tokenises faithfully, newline bookkeeping inside lex.go, docstring attachment, unquoting, literal values."
	l.RuleText = "one obligation per node type / parse exit / literal / marker"
	l.Assumptions = []string{"goyacc's driver code is as generated (its CFG is analysed, its tables are read from y.go)", "the ragel scanner sets ts to the start of the token it returns"}

	checkWalkComplete(c, l)
	checkParseXor(c, l)
	checkPosPair(c, l)
	checkPosKey(c, l)
	checkPosMarkers(c, l)
	checkLexNumbers(c, l)
	checkActionUsesAll(c, l)
	checkByteTransparent(c, l, "BYTE-SAFE")
}

// ---- WALK-COMPLETE -------------------------------------------------------------

func checkWalkComplete(c *core.Ctx, l *core.Ledger) {
	p := c.Pkg("ast")
	if p == nil {
		l.Unk("WALK-COMPLETE", "anchor", "", "package ast not found")
		return
	}
	nodeObj := p.Types.Scope().Lookup("Node")
	if nodeObj == nil {
		l.Unk("WALK-COMPLETE", "anchor", "", "ast.Node not found")
		return
	}
	nodeIface := nodeObj.Type().Underlying().(*types.Interface)
	implements := func(t types.Type) bool {
		return types.Implements(t, nodeIface)
	}
	names := p.Types.Scope().Names()
	sort.Strings(names)
	n := 0
	for _, name := range names {
		tn, ok := p.Types.Scope().Lookup(name).(*types.TypeName)
		if !ok || tn.IsAlias() {
			continue
		}
		named, ok := tn.Type().(*types.Named)
		if !ok {
			continue
		}
		if _, isI := named.Underlying().(*types.Interface); isI {
			continue
		}
		var recvT types.Type
		switch {
		case implements(named):
			recvT = named
		case implements(types.NewPointer(named)):
			recvT = types.NewPointer(named)
		default:
			continue
		}
		n++
		// the visitChildren method
		var m *types.Func
		ms := types.NewMethodSet(recvT)
		for i := 0; i < ms.Len(); i++ {
			if ms.At(i).Obj().Name() == "visitChildren" {
				m, _ = ms.At(i).Obj().(*types.Func)
			}
		}
		f := c.SSAFunc(m)
		if f == nil {
			l.Unk("WALK-COMPLETE", name, c.Rel(tn.Pos()), "visitChildren not found")
			continue
		}
		// Node-typed fields
		type fld struct {
			name  string
			slice bool
		}
		var want []fld
		if st, isS := named.Underlying().(*types.Struct); isS {
			for i := 0; i < st.NumFields(); i++ {
				ft := st.Field(i).Type()
				if implements(ft) {
					want = append(want, fld{st.Field(i).Name(), false})
				} else if sl, isSl := ft.Underlying().(*types.Slice); isSl && implements(sl.Elem()) {
					want = append(want, fld{st.Field(i).Name(), true})
				} else if mp, isM := ft.Underlying().(*types.Map); isM && (implements(mp.Elem()) || implements(mp.Key())) {
					want = append(want, fld{st.Field(i).Name(), true})
				}
			}
		}
		// visit calls
		got := map[string]int{}
		viaHelper := map[string]bool{}
		var why []string
		cyc := core.CyclicBlocks(f)
		core.Instrs(f, func(in ssa.Instruction) {
			call, ok := in.(ssa.CallInstruction)
			if !ok {
				return
			}
			cal := call.Common().StaticCallee()
			if cal != nil && !c.Named(cal, "visit") && core.InRepo(cal) && cal.Pkg == f.Pkg {
				// a helper that visits every element of the slice it is given (visitAll(ss, xs)): counts as the loop it contains
				if vi, si, xi, ok := visitAllHelper(c, cal); ok {
					args := call.Common().Args
					if sp, isP := args[si].(*ssa.Parameter); !isP || sp != f.Params[1] {
						why = append(why, "children are visited with a stack other than the one received: "+core.Sym(args[si]))
					}
					if vp := core.Sym(args[vi]); vp != "$2" {
						why = append(why, "children are visited with a different visitor: "+vp)
					}
					s := core.Sym(args[xi])
					matched := false
					for _, w := range want {
						if w.slice && s == "$0."+w.name {
							matched = true
							got[w.name]++
							viaHelper[w.name] = true
							if cyc[in.Block()] {
								why = append(why, "field "+w.name+" is visited inside a loop (more than once)")
							}
						}
					}
					if !matched {
						why = append(why, "visits something that is not a Node-typed field of the receiver: "+s)
					}
				}
				return
			}
			if cal == nil || !c.Named(cal, "visit") || recvNamed(cal) != "visitor" {
				return
			}
			args := call.Common().Args // v, ss, n
			if len(args) != 3 {
				return
			}
			if sp, isP := args[1].(*ssa.Parameter); !isP || sp != f.Params[1] {
				why = append(why, "a child is visited with a stack other than the one received: "+core.Sym(args[1]))
			}
			if vp := core.Sym(args[0]); vp != "$2" {
				why = append(why, "a child is visited with a different visitor: "+vp)
			}
			s := core.Sym(stripIface(args[2]))
			s = strings.TrimPrefix(s, "&")
			matched := false
			for _, w := range want {
				if !w.slice && s == "$0."+w.name {
					got[w.name]++
					matched = true
					if cyc[in.Block()] {
						why = append(why, "field "+w.name+" is visited inside a loop (more than once)")
					}
				}
				if w.slice && strings.HasPrefix(s, "$0."+w.name+"[") {
					matched = true
					if !cyc[in.Block()] {
						why = append(why, "only one element of "+w.name+" is visited")
					} else {
						got[w.name]++
					}
				}
			}
			if !matched {
				why = append(why, "visits something that is not a Node-typed field of the receiver: "+s)
			}
		})
		for _, w := range want {
			switch got[w.name] {
			case 1:
			case 0:
				why = append(why, "child field "+w.name+" is never visited")
			default:
				why = append(why, fmt.Sprintf("child field %s is visited %d times", w.name, got[w.name]))
			}
		}
		// slices: the loop covers the whole slice (range from 0 to len)
		for _, w := range want {
			if w.slice && got[w.name] == 1 && !viaHelper[w.name] && !fullRange(f, "$0."+w.name) {
				why = append(why, "the loop over "+w.name+" does not cover the whole slice")
			}
		}
		var fn []string
		for _, w := range want {
			fn = append(fn, w.name)
		}
		l.Check(len(why) == 0, "WALK-COMPLETE", name, c.Rel(f.Pos()), fmt.Sprintf("visits each of its %d Node-typed fields %v exactly once with the received stack", len(want), fn), strings.Join(uniq(why), "; "))
	}
	l.Floor("WALK-COMPLETE", 24)

	// visitor.visit
	vf := c.SSAFunc(c.LookupFunc("ast", "visitor.visit"))
	if vf == nil {
		l.Unk("VISIT", "visitor.visit", "", "not found")
		return
	}
	var why []string
	visits := callsIn(vf, "Visit")
	vcs := callsIn(vf, "visitChildren")
	if len(visits) != 1 || len(vcs) != 1 {
		why = append(why, "expected exactly one Visit and one visitChildren call")
	} else {
		vc := visits[0].(ssa.CallInstruction).Common()
		if len(vc.Args) != 2 || core.Sym(vc.Args[0]) != "$1" || core.Sym(vc.Args[1]) != "$2" {
			why = append(why, "the user's visitor is not called with (ancestors, node)")
		}
		cc := vcs[0].(ssa.CallInstruction).Common()
		// n.visitChildren(append(ss, n), v')
		if core.Sym(cc.Value) != "$2" {
			why = append(why, "children of a different node are visited")
		}
		if s := core.Sym(cc.Args[0]); !strings.HasPrefix(s, "append($1,") {
			why = append(why, "children are visited with a stack that is not the received stack plus the node: "+s)
		} else {
			// the appended element is the node itself
			app, _ := cc.Args[0].(*ssa.Call)
			okElem := false
			if app != nil && len(app.Call.Args) == 2 {
				if sl, isSl := app.Call.Args[1].(*ssa.Slice); isSl {
					if al, isAl := sl.X.(*ssa.Alloc); isAl {
						for _, r := range *al.Referrers() {
							if ia, isIA := r.(*ssa.IndexAddr); isIA {
								for _, rr := range *ia.Referrers() {
									if st, isSt := rr.(*ssa.Store); isSt && core.Sym(st.Val) == "$2" {
										okElem = true
									}
								}
							}
						}
					}
				}
			}
			if !okElem {
				why = append(why, "the element pushed on the stack is not the node being visited")
			}
		}
		// order: Visit before visitChildren, nil-visitor return between them
		if found, _ := core.PathFromEntryAvoiding(vf, func(in ssa.Instruction) bool { return in == visits[0] }, func(in ssa.Instruction) bool { return in == vcs[0] }); found {
			why = append(why, "children can be visited without asking the visitor first")
		}
		// a visitor that answers nil prunes the subtree: children are visited only where the answer was found non-nil
		if vv, isV := visits[0].(ssa.Value); isV {
			nn := core.GuardEdges(vf, func(cm core.Cmp) bool {
				k, isK := cm.Y.(*ssa.Const)
				if cm.Op != token.NEQ || !isK || !k.IsNil() {
					return false
				}
				if cm.X == vv || core.Unspill(cm.X) == vv {
					return true
				}
				// the answer kept in a field of visit's own copy of the visitor: a load of &v.f after `v.f = answer`
				ld, isLd := cm.X.(*ssa.UnOp)
				if !isLd || ld.Op != token.MUL {
					return false
				}
				fa, isFA := ld.X.(*ssa.FieldAddr)
				if !isFA {
					return false
				}
				var last ssa.Value
				for _, in := range ld.Block().Instrs {
					if in == ssa.Instruction(ld) {
						break
					}
					if st, isSt := in.(*ssa.Store); isSt {
						if fa2, isFA2 := st.Addr.(*ssa.FieldAddr); isFA2 && fa2.X == fa.X && fa2.Field == fa.Field {
							last = st.Val
						}
					}
				}
				return last == vv
			})
			if len(nn) == 0 || !core.AllPathsThroughEdges(vf, vcs[0].Block(), nn) {
				why = append(why, "children are visited although the visitor answered nil (the next Visit call is made on a nil visitor)")
			}
		}
		// nil node returns before Visit
		nilE := core.GuardEdges(vf, func(cm core.Cmp) bool {
			k, isK := cm.Y.(*ssa.Const)
			return cm.Op == token.NEQ && core.Sym(cm.X) == "$2" && isK && k.IsNil()
		})
		if len(nilE) == 0 || !core.AllPathsThroughEdges(vf, visits[0].Block(), nilE) {
			why = append(why, "a nil child is passed to the visitor")
		}
	}
	// the visitor returned for a node applies to that node's children only: visit may replace the visitor in its
	// own copy, never in a cell its caller (the parent's visitChildren, which goes on to the siblings) also reads
	core.Instrs(vf, func(in ssa.Instruction) {
		st, ok := in.(*ssa.Store)
		if !ok {
			return
		}
		if _, isI := st.Val.Type().Underlying().(*types.Interface); !isI {
			return
		}
		root := st.Addr
		for {
			if fa, isFA := root.(*ssa.FieldAddr); isFA {
				root = fa.X
				continue
			}
			if ia, isIA := root.(*ssa.IndexAddr); isIA {
				if _, isArr := ia.X.Type().Underlying().(*types.Pointer); isArr {
					root = ia.X // element of a local array (variadic argument list)
					continue
				}
			}
			break
		}
		if _, isLocal := root.(*ssa.Alloc); !isLocal {
			why = append(why, "the visitor chosen for one node is stored outside visit's own copy ("+c.Rel(st.Pos())+": "+core.Sym(st.Addr)+") and so replaces the visitor of the node's following siblings")
		}
	})
	l.Check(len(why) == 0, "VISIT", "visitor.visit", c.Rel(vf.Pos()), "nil skipped; visitor asked with the ancestor stack; node pushed; children visited with the extended stack", strings.Join(why, "; "))
	if wf := c.SSAFunc(c.LookupFunc("ast", "Walk")); wf != nil {
		vs := callsIn(wf, "visit")
		ok := len(vs) == 1
		if ok {
			a := vs[0].(ssa.CallInstruction).Common().Args
			ok = len(a) == 3 && core.Sym(a[1]) == "c:nil" && core.Sym(a[2]) == "$1"
		}
		l.Check(ok, "VISIT", "ast.Walk", c.Rel(wf.Pos()), "starts at the given node with an empty stack", "Walk does not start at the given node with an empty stack")
	}
	// Parent() is the top of the stack
	if pf := c.SSAFunc(c.LookupFunc("ast", "nodeStack.Parent")); pf != nil {
		ok := false
		why2 := ""
		core.Instrs(pf, func(in ssa.Instruction) {
			if r, isR := in.(*ssa.Return); isR && len(r.Results) == 1 {
				s := core.Sym(r.Results[0])
				if ld, isL := r.Results[0].(*ssa.UnOp); isL {
					if ia, isIA := ld.X.(*ssa.IndexAddr); isIA && core.Sym(ia.X) == "$0" {
						if bo, isB := ia.Index.(*ssa.BinOp); isB && bo.Op == token.SUB && core.Sym(bo.X) == "len($0)" && core.Sym(bo.Y) == "c:1" {
							ok = true
						}
					}
				}
				if !ok && s != "c:nil" {
					why2 = s
				}
			}
		})
		l.Check(ok, "VISIT", "nodeStack.Parent", c.Rel(pf.Pos()), "Parent is the last element pushed", "Parent does not return the top of the stack: "+why2)
	}
	l.Floor("VISIT", 3)
}

// fullRange: f has a loop over the slice `sym` from index 0 to len(sym).
// visitAllHelper: h visits every element of one slice parameter exactly once
// (a full range loop with one visit call on the element, the received stack and
// the received visitor) and does nothing else with the visitor. Returns the
// argument positions of visitor, stack and slice.
func visitAllHelper(c *core.Ctx, h *ssa.Function) (vi, si, xi int, ok bool) {
	if len(h.Blocks) == 0 {
		return 0, 0, 0, false
	}
	var visits []ssa.CallInstruction
	other := false
	core.Instrs(h, func(in ssa.Instruction) {
		call, isC := in.(ssa.CallInstruction)
		if !isC {
			return
		}
		if _, isB := call.Common().Value.(*ssa.Builtin); isB {
			return
		}
		cal := call.Common().StaticCallee()
		if cal != nil && c.Named(cal, "visit") && recvNamed(cal) == "visitor" {
			visits = append(visits, call)
		} else {
			other = true
		}
	})
	if len(visits) != 1 || other {
		return 0, 0, 0, false
	}
	args := visits[0].Common().Args
	if len(args) != 3 || !core.CyclicBlocks(h)[visits[0].Block()] {
		return 0, 0, 0, false
	}
	idx := func(v ssa.Value) int {
		for i, p := range h.Params {
			if ssa.Value(p) == v {
				return i
			}
		}
		return -1
	}
	vi, si = idx(args[0]), idx(args[1])
	if vi < 0 || si < 0 {
		return 0, 0, 0, false
	}
	elem := strings.TrimPrefix(core.Sym(stripIface(args[2])), "&")
	xi = -1
	for i, p := range h.Params {
		if _, isSl := p.Type().Underlying().(*types.Slice); isSl && strings.HasPrefix(elem, fmt.Sprintf("$%d[", i)) && fullRange(h, fmt.Sprintf("$%d", i)) {
			xi = i
		}
	}
	if xi < 0 {
		return 0, 0, 0, false
	}
	return vi, si, xi, true
}

func fullRange(f *ssa.Function, sym string) bool {
	ok := false
	core.Instrs(f, func(in ssa.Instruction) {
		if rg, isR := in.(*ssa.Range); isR && core.Sym(rg.X) == sym {
			ok = true
		}
		if b, isB := in.(*ssa.BinOp); isB && b.Op == token.LSS && core.Sym(b.Y) == "len("+sym+")" {
			// induction variable starts at 0 (rangeindex loops start at -1 and pre-increment)
			if ph, isPh := b.X.(*ssa.Phi); isPh {
				for _, e := range ph.Edges {
					if k, isK := e.(*ssa.Const); isK && (k.Int64() == 0 || k.Int64() == -1) {
						ok = true
					}
				}
			}
			if bo, isBo := b.X.(*ssa.BinOp); isBo && bo.Op == token.ADD {
				ok = true
			}
		}
	})
	return ok
}

// ---- XOR -------------------------------------------------------------------------

func checkParseXor(c *core.Ctx, l *core.Ledger) {
	pf := c.SSAFunc(c.LookupFunc("idl/internal", "Parse"))
	if pf == nil {
		l.Unk("XOR", "internal.Parse", "", "not found")
	} else {
		var why []string
		// returns
		e0 := core.GuardEdges(pf, func(cm core.Cmp) bool {
			return cm.Op == token.EQL && strings.HasPrefix(core.Sym(cm.X), "idl/internal.yyParse(") && core.Sym(cm.Y) == "c:0"
		})
		nf := condEdges(pf, func(s string) bool { return strings.HasSuffix(s, ".parseFailed") }, false)
		core.Instrs(pf, func(in ssa.Instruction) {
			r, ok := in.(*ssa.Return)
			if !ok || len(r.Results) != 2 {
				return
			}
			res, errs := core.Sym(r.Results[0]), core.Sym(r.Results[1])
			if strings.Contains(res, "Program=") && strings.Contains(res, ".program") {
				if errs != "c:nil" {
					why = append(why, "a program is returned together with errors")
				}
				if len(e0) == 0 || len(nf) == 0 || !core.AllPathsThroughEdges(pf, r.Block(), e0) || !core.AllPathsThroughEdges(pf, r.Block(), nf) {
					why = append(why, "a program is returned although the parser failed or an error was recorded")
				}
			} else {
				if !strings.HasSuffix(errs, ".errors") {
					why = append(why, "the failing return does not carry the lexer's error list: "+errs)
				}
				if strings.Contains(res, ".program") {
					why = append(why, "a failing parse still returns the program")
				}
			}
		})
		l.Check(len(why) == 0, "XOR", "internal.Parse", c.Rel(pf.Pos()), "program only under e==0 && !parseFailed with nil errors; otherwise the zero result with the error list", strings.Join(uniq(why), "; "))
	}
	// parseFailed writers
	nw := 0
	for _, f := range c.AllFuncs("idl/internal") {
		if c.IsTestFile(f.Pos()) {
			continue
		}
		core.Instrs(f, func(in ssa.Instruction) {
			st, ok := in.(*ssa.Store)
			if !ok {
				return
			}
			fa, ok := st.Addr.(*ssa.FieldAddr)
			if !ok || core.FieldOf(fa) == nil {
				return
			}
			switch core.FieldName(core.FieldOf(fa)) {
			case "parseFailed":
				k, isK := st.Val.(*ssa.Const)
				if isK && core.Sym(k) == "c:false" {
					l.Check(c.Named(f, "newLexer"), "XOR", "parseFailed=false@"+core.SSAName(f), c.Rel(in.Pos()), "cleared only at construction", "parseFailed is cleared after construction: an error can be forgotten")
					return
				}
				nw++
				// set together with an append to errors in the same block
				app := false
				for _, bi := range in.Block().Instrs {
					if s2, ok := bi.(*ssa.Store); ok {
						if fa2, ok := s2.Addr.(*ssa.FieldAddr); ok && core.FieldOf(fa2) != nil && core.FieldName(core.FieldOf(fa2)) == "errors" && strings.HasPrefix(core.Sym(s2.Val), "append(") {
							app = true
						}
					}
				}
				l.Check(f.Name() == "AppendError" && app && len(f.Blocks) == 1, "XOR", "parseFailed=true@"+core.SSAName(f), c.Rel(in.Pos()), "set only by AppendError, which appends to the error list in the same straight-line block", "parseFailed is set without recording an error (failure with an empty error list)")
			case "errors":
				if !strings.HasPrefix(core.Sym(st.Val), "append(") || !strings.Contains(core.Sym(st.Val), ".errors,") {
					if _, isAlloc := fa.X.(*ssa.Alloc); !isAlloc {
						l.Bad("XOR", "errors-writer@"+core.SSAName(f), c.Rel(in.Pos()), "the error list is overwritten rather than appended to")
					}
				}
			}
		})
	}
	if nw == 0 {
		l.Unk("XOR", "parseFailed-writer", "", "no store of parseFailed found")
	}
	// lexer.Error appends
	if ef := c.SSAFunc(c.LookupFunc("idl/internal", "lexer.Error")); ef != nil {
		l.Check(len(callsIn(ef, "AppendError")) == 1 && len(ef.Blocks) == 1, "XOR", "lexer.Error", c.Rel(ef.Pos()), "every parser error is recorded", "lexer.Error does not record the error")
	} else {
		l.Unk("XOR", "lexer.Error", "", "not found")
	}
	// yyParse: return 1 only after Error
	if yp := c.SSAFunc(c.LookupFunc("idl/internal", "yyParserImpl.Parse")); yp != nil {
		why := yaccFailureImpliesError(yp)
		l.Check(why == "", "XOR", "yyParse:failure-implies-error", c.Rel(yp.Pos()), "abstract interpretation of the recovery flag: every path to a non-zero return has called yylex.Error", why)
	} else {
		l.Unk("XOR", "yyParse", "", "not found")
	}
	// newParseError nil iff empty
	if nf := c.SSAFunc(c.LookupFunc("idl", "newParseError")); nf != nil {
		var why []string
		zero := core.GuardEdges(nf, func(cm core.Cmp) bool {
			if core.Sym(cm.X) != "len($0)" {
				return false
			}
			y := core.Sym(cm.Y) // "the list is empty" in any spelling: == 0, <= 0, < 1
			return (y == "c:0" && (cm.Op == token.EQL || cm.Op == token.LEQ)) || (y == "c:1" && cm.Op == token.LSS)
		})
		core.Instrs(nf, func(in ssa.Instruction) {
			r, ok := in.(*ssa.Return)
			if !ok {
				return
			}
			isNil := core.Sym(r.Results[0]) == "c:nil"
			under := len(zero) > 0 && core.AllPathsThroughEdges(nf, r.Block(), zero)
			if isNil && !under {
				why = append(why, "nil is returned for a non-empty error list")
			}
			if !isNil && under {
				why = append(why, "a non-nil error is returned for an empty list")
			}
			if !isNil && !core.DefinitelyNonNilError(r.Results[0], 2) {
				why = append(why, "the non-empty branch may return nil")
			}
		})
		l.Check(len(why) == 0 && len(zero) > 0, "XOR", "idl.newParseError", c.Rel(nf.Pos()), "nil iff the list is empty", strings.Join(why, "; "))
	} else {
		l.Unk("XOR", "idl.newParseError", "", "not found")
	}
	for _, name := range []string{"Config.Parse", "Parse"} {
		cf := c.SSAFunc(c.LookupFunc("idl", name))
		if cf == nil {
			l.Unk("XOR", "idl."+name, "", "not found")
			continue
		}
		why := forwardsErrorList(c, cf)
		l.Check(why == "", "XOR", "idl."+name, c.Rel(cf.Pos()), "on every path, in both worlds (error list empty / non-empty): returns the internal result's program, and a nil error exactly when the list is empty", why)
	}
	l.Floor("XOR", 7)
}

// forwardsErrorList: f calls internal.Parse once and, on every path, returns
// that result's Program and an error that is nil exactly when the returned
// error list is empty. Paths are enumerated in two worlds (list empty,
// list non-empty); conditions on len(list) and on the nil-ness of
// newParseError(list) (whose nil-iff-empty contract is its own obligation)
// are decided by the world, phis by the path.
func forwardsErrorList(c *core.Ctx, f *ssa.Function) string {
	ip := c.SSAFunc(c.LookupFunc("idl/internal", "Parse"))
	np := c.SSAFunc(c.LookupFunc("idl", "newParseError"))
	if ip == nil || np == nil {
		return "internal.Parse or newParseError not found"
	}
	var res, list ssa.Value
	calls := 0
	core.Instrs(f, func(in ssa.Instruction) {
		call, ok := in.(*ssa.Call)
		if !ok || call.Call.StaticCallee() != ip {
			return
		}
		calls++
		for _, r := range *call.Referrers() {
			if ex, ok := r.(*ssa.Extract); ok {
				if ex.Index == 0 {
					res = ex
				} else {
					list = ex
				}
			}
		}
	})
	if calls == 0 {
		// pure delegation: every return hands on both results of one call to another function of the package,
		// which then carries the obligation
		var target *ssa.Function
		pure := true
		core.Instrs(f, func(in ssa.Instruction) {
			r, ok := in.(*ssa.Return)
			if !ok {
				return
			}
			if len(r.Results) != 2 {
				pure = false
				return
			}
			e0, ok0 := r.Results[0].(*ssa.Extract)
			e1, ok1 := r.Results[1].(*ssa.Extract)
			if !ok0 || !ok1 || e0.Tuple != e1.Tuple || e0.Index != 0 || e1.Index != 1 {
				pure = false
				return
			}
			call, isC := e0.Tuple.(*ssa.Call)
			if !isC || call.Call.StaticCallee() == nil || !core.InRepo(call.Call.StaticCallee()) || (target != nil && target != call.Call.StaticCallee()) {
				pure = false
				return
			}
			target = call.Call.StaticCallee()
		})
		if pure && target != nil && target != f {
			return forwardsErrorList(c, target)
		}
	}
	if calls != 1 || list == nil || res == nil {
		return "does not call internal.Parse exactly once and use both results"
	}
	isProgram := func(v ssa.Value) bool {
		sym := core.Sym(v)
		return strings.Contains(sym, "Parse(") && strings.HasSuffix(sym, "#0.Program")
	}
	const (
		isNil = iota + 1
		nonNil
		unk
	)
	type frame struct {
		b, prev *ssa.BasicBlock
	}
	var why string
	for _, nonEmpty := range []bool{false, true} {
		var nilness func(v ssa.Value, phis map[*ssa.Phi]ssa.Value, d int) int
		nilness = func(v ssa.Value, phis map[*ssa.Phi]ssa.Value, d int) int {
			if d > 8 {
				return unk
			}
			switch x := v.(type) {
			case *ssa.Const:
				if x.IsNil() {
					return isNil
				}
			case *ssa.Phi:
				if e, ok := phis[x]; ok {
					return nilness(e, phis, d+1)
				}
			case *ssa.Call:
				if x.Call.StaticCallee() == np && len(x.Call.Args) == 1 && x.Call.Args[0] == list {
					if nonEmpty {
						return nonNil
					}
					return isNil
				}
			case *ssa.MakeInterface, *ssa.ChangeInterface:
				if core.DefinitelyNonNilError(v, 2) {
					return nonNil
				}
			}
			return unk
		}
		// cond: 1 true, 0 false, -1 unknown
		cond := func(v ssa.Value, phis map[*ssa.Phi]ssa.Value) int {
			bo, ok := v.(*ssa.BinOp)
			if !ok {
				return -1
			}
			b2i := func(b bool) int {
				if b {
					return 1
				}
				return 0
			}
			if k, isK := bo.Y.(*ssa.Const); isK && k.IsNil() && (bo.Op == token.EQL || bo.Op == token.NEQ) {
				switch nilness(bo.X, phis, 0) {
				case isNil:
					return b2i(bo.Op == token.EQL)
				case nonNil:
					return b2i(bo.Op == token.NEQ)
				}
				return -1
			}
			if call, isC := bo.X.(*ssa.Call); isC {
				if bi, isB := call.Call.Value.(*ssa.Builtin); isB && bi.Name() == "len" && call.Call.Args[0] == list {
					if k, isK := core.ConstInt(bo.Y); isK {
						n := int64(0) // representative lengths: 0 in the empty world; 1 and "many" agree on every comparison with 0 or 1 below
						if nonEmpty {
							n = 1
						}
						switch {
						case k == 0 && bo.Op == token.GTR, k == 0 && bo.Op == token.NEQ, k == 1 && bo.Op == token.GEQ:
							return b2i(n > 0)
						case k == 0 && bo.Op == token.EQL, k == 0 && bo.Op == token.LEQ, k == 1 && bo.Op == token.LSS:
							return b2i(n == 0)
						}
					}
				}
			}
			return -1
		}
		var walk func(b, prev *ssa.BasicBlock, phis map[*ssa.Phi]ssa.Value, depth int)
		walk = func(b, prev *ssa.BasicBlock, phis map[*ssa.Phi]ssa.Value, depth int) {
			if why != "" {
				return
			}
			if depth > 4*len(f.Blocks)+8 {
				why = "path enumeration did not finish (loop in the function)"
				return
			}
			if prev != nil {
				np2 := map[*ssa.Phi]ssa.Value{}
				for k, v := range phis {
					np2[k] = v
				}
				for _, in := range b.Instrs {
					ph, ok := in.(*ssa.Phi)
					if !ok {
						break
					}
					for i, p := range b.Preds {
						if p == prev {
							e := ph.Edges[i]
							if ep, isP := e.(*ssa.Phi); isP {
								if r, ok := phis[ep]; ok {
									e = r
								}
							}
							np2[ph] = e
						}
					}
				}
				phis = np2
			}
			switch t := b.Instrs[len(b.Instrs)-1].(type) {
			case *ssa.Return:
				world := "empty"
				if nonEmpty {
					world = "non-empty"
				}
				if len(t.Results) != 2 {
					why = "unexpected result count"
					return
				}
				r0 := t.Results[0]
				if ph, isP := r0.(*ssa.Phi); isP {
					if e, ok := phis[ph]; ok {
						r0 = e
					}
				}
				if !isProgram(r0) {
					why = fmt.Sprintf("with the error list %s, a path returns %s instead of the internal result's Program (%s)", world, core.Sym(r0), c.Rel(t.Pos()))
					return
				}
				switch nilness(t.Results[1], phis, 0) {
				case isNil:
					if nonEmpty {
						why = "a path returns a nil error although the parser reported errors (" + c.Rel(t.Pos()) + ")"
					}
				case nonNil:
					if !nonEmpty {
						why = "a path returns a non-nil error although the error list is empty (" + c.Rel(t.Pos()) + ")"
					}
				default:
					why = "the returned error " + core.Sym(t.Results[1]) + " is not nil / newParseError(list) (" + c.Rel(t.Pos()) + ")"
				}
			case *ssa.If:
				switch cond(t.Cond, phis) {
				case 1:
					walk(b.Succs[0], b, phis, depth+1)
				case 0:
					walk(b.Succs[1], b, phis, depth+1)
				default:
					walk(b.Succs[0], b, phis, depth+1)
					walk(b.Succs[1], b, phis, depth+1)
				}
			case *ssa.Jump:
				walk(b.Succs[0], b, phis, depth+1)
			case *ssa.Panic:
			default:
				why = "unexpected terminator"
			}
		}
		walk(f.Blocks[0], nil, map[*ssa.Phi]ssa.Value{}, 0)
		if why != "" {
			return why
		}
	}
	return ""
}

// yaccFailureImpliesError explores the parser driver's CFG with the abstract
// state (value class of every small-integer SSA value in {zero,pos,nonneg},
// errorCalled) and reports a path to `return <non-zero>` with errorCalled=false.
func yaccFailureImpliesError(f *ssa.Function) string {
	const (
		aZ = iota + 1 // == 0
		aP            // > 0
		aN            // >= 0
		aT            // unknown
	)
	// failing returns
	var fails []*ssa.Return
	core.Instrs(f, func(in ssa.Instruction) {
		if r, ok := in.(*ssa.Return); ok && len(r.Results) == 1 {
			if k, isK := core.SpilledResult(r, r.Results[0]).(*ssa.Const); isK && k.Int64() == 0 {
				return
			}
			fails = append(fails, r)
		}
	})
	if len(fails) == 0 {
		return "no failing return found"
	}
	isErrorCall := func(in ssa.Instruction) bool {
		call, ok := in.(ssa.CallInstruction)
		return ok && call.Common().IsInvoke() && call.Common().Method.Name() == "Error"
	}
	// tracked family: phis of int type whose value flows to a comparison with a constant 0..3
	type env map[ssa.Value]int
	eval := func(e env, v ssa.Value) int {
		if k, ok := v.(*ssa.Const); ok && k.Value != nil {
			if b, isB := k.Type().Underlying().(*types.Basic); isB && b.Info()&types.IsInteger != 0 {
				switch {
				case k.Int64() == 0:
					return aZ
				case k.Int64() > 0:
					return aP
				}
			}
			return aT
		}
		if x, ok := e[v]; ok {
			return x
		}
		return aT
	}
	// which phis to track: those with only constant / self-derived (x-1) / phi operands
	tracked := map[ssa.Value]bool{}
	for changed := true; changed; {
		changed = false
		core.Instrs(f, func(in ssa.Instruction) {
			switch x := in.(type) {
			case *ssa.Phi:
				if tracked[x] {
					return
				}
				if b, isB := x.Type().Underlying().(*types.Basic); !isB || b.Kind() != types.Int {
					return
				}
				ok := true
				for _, e := range x.Edges {
					switch y := e.(type) {
					case *ssa.Const:
					case *ssa.Phi:
						_ = y
					case *ssa.BinOp:
						if y.Op != token.SUB {
							ok = false
						}
					default:
						ok = false
					}
				}
				if ok {
					tracked[x] = true
					changed = true
				}
			}
		})
	}
	// prune: a tracked phi whose phi/binop operands are not tracked-derived
	derived := func(v ssa.Value) bool {
		switch y := v.(type) {
		case *ssa.Const:
			return true
		case *ssa.Phi:
			return tracked[y]
		case *ssa.BinOp:
			if y.Op == token.SUB {
				if ph, ok := y.X.(*ssa.Phi); ok && tracked[ph] {
					_, isK := y.Y.(*ssa.Const)
					return isK
				}
			}
		}
		return false
	}
	for changed := true; changed; {
		changed = false
		for v := range tracked {
			for _, e := range v.(*ssa.Phi).Edges {
				if !derived(e) {
					delete(tracked, v)
					changed = true
					break
				}
			}
		}
	}
	var order []ssa.Value
	for v := range tracked {
		order = append(order, v)
	}
	sort.Slice(order, func(i, j int) bool { return order[i].Name() < order[j].Name() })
	key := func(b *ssa.BasicBlock, e env, called bool) string {
		s := fmt.Sprintf("%d|%v|", b.Index, called)
		for _, v := range order {
			s += fmt.Sprint(e[v])
		}
		return s
	}
	type state struct {
		b      *ssa.BasicBlock
		e      env
		called bool
		trace  []int
	}
	seen := map[string]bool{}
	work := []state{{f.Blocks[0], env{}, false, nil}}
	steps := 0
	for len(work) > 0 {
		s := work[len(work)-1]
		work = work[:len(work)-1]
		k := key(s.b, s.e, s.called)
		if seen[k] {
			continue
		}
		seen[k] = true
		steps++
		if steps > 200000 {
			return "state space too large"
		}
		called := s.called
		e := s.e
		for _, in := range s.b.Instrs {
			if isErrorCall(in) {
				called = true
			}
			if bo, ok := in.(*ssa.BinOp); ok && bo.Op == token.SUB {
				if ph, isPh := bo.X.(*ssa.Phi); isPh && tracked[ph] {
					ne := env{}
					for k2, v2 := range e {
						ne[k2] = v2
					}
					if eval(e, ph) == aP {
						ne[bo] = aN
					} else {
						ne[bo] = aT
					}
					e = ne
				}
			}
			if r, ok := in.(*ssa.Return); ok {
				for _, fr := range fails {
					if fr == r && !called {
						return fmt.Sprintf("a path reaches `return 1` without calling yylex.Error (blocks %v)", append(s.trace, s.b.Index))
					}
				}
			}
		}
		// successors with refinement
		last := s.b.Instrs[len(s.b.Instrs)-1]
		for idx, succ := range s.b.Succs {
			ne := env{}
			for k2, v2 := range e {
				ne[k2] = v2
			}
			feasible := true
			if ifi, ok := last.(*ssa.If); ok {
				for _, cm := range core.EdgeFacts(ifi, idx) {
					x, y := cm.X, cm.Y
					kc, isK := y.(*ssa.Const)
					if !isK || kc.Value == nil {
						continue
					}
					isTracked := false
					if ph, isPh := x.(*ssa.Phi); isPh && tracked[ph] {
						isTracked = true
					}
					if _, has := e[x]; has {
						isTracked = true
					}
					if !isTracked {
						continue
					}
					cur := eval(e, x)
					kv := kc.Int64()
					switch cm.Op {
					case token.EQL:
						if kv == 0 {
							if cur == aP {
								feasible = false
							}
							ne[x] = aZ
						} else if kv > 0 {
							if cur == aZ {
								feasible = false
							}
							ne[x] = aP
						}
					case token.NEQ:
						if kv == 0 {
							if cur == aZ {
								feasible = false
							}
							if cur == aN {
								ne[x] = aP
							}
						}
					case token.GTR:
						if kv == 0 {
							if cur == aZ {
								feasible = false
							}
							ne[x] = aP
						}
					case token.LEQ:
						if kv == 0 {
							if cur == aP {
								feasible = false
							}
							if cur == aN {
								ne[x] = aZ
							}
						}
					}
				}
			}
			if !feasible {
				continue
			}
			// phis of the successor
			pe := env{}
			for k2, v2 := range ne {
				pe[k2] = v2
			}
			predIdx := -1
			for i, p := range succ.Preds {
				if p == s.b {
					predIdx = i
				}
			}
			for _, in := range succ.Instrs {
				ph, ok := in.(*ssa.Phi)
				if !ok {
					break
				}
				if tracked[ph] && predIdx >= 0 {
					pe[ph] = eval(ne, ph.Edges[predIdx])
				}
			}
			tr := s.trace
			if len(tr) < 40 {
				tr = append(append([]int{}, tr...), s.b.Index)
			}
			work = append(work, state{succ, pe, called, tr})
		}
	}
	return ""
}

// ---- POS-PAIR ----------------------------------------------------------------------

func checkPosPair(c *core.Ctx, l *core.Ledger) {
	p := c.Pkg("idl/internal")
	if p == nil {
		l.Unk("POS-PAIR", "anchor", "", "package idl/internal not found")
		return
	}
	n := 0
	for _, file := range p.Syntax {
		if !strings.HasSuffix(c.Fset.Position(file.Pos()).Filename, "y.go") {
			continue
		}
		ast.Inspect(file, func(nd ast.Node) bool {
			cl, ok := nd.(*ast.CompositeLit)
			if !ok {
				return true
			}
			tv, ok := p.TypesInfo.Types[cl]
			if !ok {
				return true
			}
			tl := core.TypeLabel(tv.Type)
			if !strings.HasPrefix(tl, "ast.") {
				return true
			}
			var line, col ast.Expr
			for _, el := range cl.Elts {
				kv, ok := el.(*ast.KeyValueExpr)
				if !ok {
					continue
				}
				switch kv.Key.(*ast.Ident).Name {
				case "Line":
					line = kv.Value
				case "Column":
					col = kv.Value
				}
			}
			st, isS := tv.Type.Underlying().(*types.Struct)
			hasLine, hasCol := false, false
			if isS {
				for i := 0; i < st.NumFields(); i++ {
					switch st.Field(i).Name() {
					case "Line":
						hasLine = true
					case "Column":
						hasCol = true
					}
				}
			}
			if !hasLine {
				return true
			}
			n++
			key := fmt.Sprintf("%s#%d", tl, n)
			pos := c.Rel(cl.Pos())
			marker := func(e ast.Expr, fld string) string {
				sel, ok := e.(*ast.SelectorExpr)
				if !ok || sel.Sel.Name != fld {
					return ""
				}
				return types.ExprString(sel.X)
			}
			lm := ""
			if line != nil {
				lm = marker(line, "Line")
			}
			if line == nil || lm == "" || !strings.HasSuffix(lm, ".pos") {
				l.Bad("POS-PAIR", key, pos, "Line is not taken from a position marker's Line")
				return true
			}
			if hasCol {
				cm := ""
				if col != nil {
					cm = marker(col, "Column")
				}
				if cm != lm {
					l.Bad("POS-PAIR", key, pos, fmt.Sprintf("Line comes from %s but Column from %q", lm, cm))
					return true
				}
			}
			l.Ok("POS-PAIR", key, pos, "Line and Column come from the same marker "+lm)
			return true
		})
	}
	l.Floor("POS-PAIR", 25)
	// pos() accessors
	na := 0
	for _, f := range c.AllFuncs("ast") {
		if f.Name() != "pos" || f.Signature.Recv() == nil || c.IsTestFile(f.Pos()) {
			continue
		}
		na++
		ok := false
		core.Instrs(f, func(in ssa.Instruction) {
			if r, isR := in.(*ssa.Return); isR && len(r.Results) == 1 {
				s := core.Sym(r.Results[0])
				if strings.Contains(s, "Line=$0.Line") && strings.Contains(s, "Column=$0.Column") {
					ok = true
				}
			}
		})
		l.Check(ok, "POS-ACCESSOR", core.SSAName(f), c.Rel(f.Pos()), "returns its own Line and Column", "pos() does not return {Line: own Line, Column: own Column}")
	}
	l.Floor("POS-ACCESSOR", 20)
}

// ---- POS-KEY -----------------------------------------------------------------------

// checkPosKey: nodes recorded in the side table of positions must have
// identity: pointer types, or value types that carry their own position.
func checkPosKey(c *core.Ctx, l *core.Ledger) {
	rp := c.SSAFunc(c.LookupFunc("idl/internal", "lexer.RecordPosition"))
	if rp == nil {
		l.Unk("POS-KEY", "anchor", "", "lexer.RecordPosition not found")
		return
	}
	n := 0
	for _, cs := range c.StaticCallSites(rp) {
		if c.IsTestFile(cs.Pos()) {
			continue
		}
		arg := cs.Common().Args[1]
		// dynamic types of the node: follow loads of yyVAL.constantValue back to the stores in the same block
		var dyn []types.Type
		var find func(v ssa.Value, d int)
		find = func(v ssa.Value, d int) {
			if d > 6 {
				return
			}
			switch x := v.(type) {
			case *ssa.MakeInterface:
				dyn = append(dyn, x.X.Type())
			case *ssa.ChangeInterface:
				find(x.X, d+1)
			case *ssa.UnOp:
				// load: last store to the same address in this block
				var last ssa.Value
				for _, in := range x.Block().Instrs {
					if in == ssa.Instruction(x) {
						break
					}
					if st, ok := in.(*ssa.Store); ok && core.Sym(st.Addr) == core.Sym(x.X) {
						last = st.Val
					}
				}
				if last != nil {
					find(last, d+1)
				}
			case *ssa.Phi:
				for _, e := range x.Edges {
					find(e, d+1)
				}
			}
		}
		find(arg, 0)
		n++
		if len(dyn) == 0 {
			l.Unk("POS-KEY", fmt.Sprintf("RecordPosition#%d", n), c.Rel(cs.Pos()), "dynamic type of the recorded node not resolved")
			continue
		}
		for _, t := range dyn {
			key := "RecordPosition:" + core.TypeLabel(t)
			_, isPtr := t.(*types.Pointer)
			hasPos := false
			if st, ok := t.Underlying().(*types.Struct); ok {
				for i := 0; i < st.NumFields(); i++ {
					if st.Field(i).Name() == "Line" {
						hasPos = true
					}
				}
			}
			l.Check(isPtr || hasPos, "POS-KEY", key, c.Rel(cs.Pos()), "the key has identity (pointer or position-carrying value)", "positions are keyed by a value-typed node without identity ("+core.TypeLabel(t)+"): two equal constants at different places share one table entry, so Info.Pos returns the position of the last one for both")
		}
	}
	l.Floor("POS-KEY", 4)
}

// checkLexNumbers: the scanner turns an integer token into its value with
// strconv.ParseInt in base 10, or base 16 exactly when the text starts with
// "0x" (the IDL has no octal or binary literals, so base 0/8/2 would give a
// leading-zero decimal another value), with 64 bits; doubles with ParseFloat 64.
func checkLexNumbers(c *core.Ctx, l *core.Ledger) {
	f := c.SSAFunc(c.LookupFunc("idl/internal", "lexer.Lex"))
	if f == nil {
		l.Unk("LEX-NUM", "lexer.Lex", "", "not found")
		return
	}
	var vals func(v ssa.Value, seen map[ssa.Value]bool) (map[int64]bool, bool)
	vals = func(v ssa.Value, seen map[ssa.Value]bool) (map[int64]bool, bool) {
		out := map[int64]bool{}
		if seen[v] {
			return out, true
		}
		seen[v] = true
		switch x := v.(type) {
		case *ssa.Const:
			if x.Value == nil {
				return nil, false
			}
			out[x.Int64()] = true
			return out, true
		case *ssa.Phi:
			for _, e := range x.Edges {
				s, ok := vals(e, seen)
				if !ok {
					return nil, false
				}
				for k := range s {
					out[k] = true
				}
			}
			return out, true
		}
		return nil, false
	}
	ni, nf := 0, 0
	core.Instrs(f, func(in ssa.Instruction) {
		call, ok := in.(*ssa.Call)
		if !ok {
			return
		}
		switch {
		case core.IsCallTo(call, "strconv", "ParseInt"):
			ni++
			key := fmt.Sprintf("ParseInt#%d", ni)
			base, okB := vals(call.Call.Args[1], map[ssa.Value]bool{})
			bits, okS := vals(call.Call.Args[2], map[ssa.Value]bool{})
			var why []string
			if !okB {
				why = append(why, "the base is not a choice between constants")
			} else {
				for b := range base {
					if b != 10 && b != 16 {
						why = append(why, fmt.Sprintf("base %d is used: the IDL has only decimal and 0x literals (base 0 reads a leading 0 as octal)", b))
					}
				}
				if base[16] {
					// base 16 only on the path where the text starts with "0x"
					ph, isPhi := call.Call.Args[1].(*ssa.Phi)
					okHex := false
					if isPhi {
						for i, e := range ph.Edges {
							if k, isK := e.(*ssa.Const); isK && k.Int64() == 16 {
								pred := ph.Block().Preds[i]
								for _, s := range nestingConds(pred) {
									if strings.Contains(s, `c:"0x"`) && !strings.HasPrefix(s, "!") {
										okHex = true
									}
								}
							}
						}
					}
					if !okHex {
						why = append(why, "base 16 is not selected by a test of the \"0x\" prefix")
					}
				} else if okB {
					why = append(why, "hexadecimal literals are never parsed in base 16")
				}
			}
			if !okS || len(bits) != 1 || !bits[64] {
				why = append(why, "the integer is not parsed with 64 bits")
			}
			l.Check(len(why) == 0, "LEX-NUM", key, c.Rel(call.Pos()), "base 10, or 16 under the 0x-prefix test; 64 bits", strings.Join(uniq(why), "; "))
		case core.IsCallTo(call, "strconv", "ParseFloat"):
			nf++
			bits, okS := vals(call.Call.Args[1], map[ssa.Value]bool{})
			l.Check(okS && len(bits) == 1 && bits[64], "LEX-NUM", fmt.Sprintf("ParseFloat#%d", nf), c.Rel(call.Pos()), "doubles are parsed with 64 bits", "doubles are not parsed as float64")
		}
	})
	l.Floor("LEX-NUM", 4)
}
