package rules

import (
	"fmt"
	"os"
	"regexp"
	"sort"
	"strconv"
	"strings"

	"golang.org/x/tools/go/ssa"

	"verif/internal/core"
)

func init() {
	Registry["C12"] = withErrRules(checkC12, "envelope", "protocol/binary", "protocol", "envelope", "internal/envelope", "internal/multiplex")
}

var (
	reFirstRead = regexp.MustCompile(`\(io\.Reader(At)?\)\.Read(At)?\(alloc:\w+\[c:0:c:2\](,c:0)?\)#0`)
	reFullRead  = regexp.MustCompile(`io\.(ReadFull\(\$3,alloc:\w+\[c:0:c:2\]\)|ReadAtLeast\(\$3,alloc:\w+\[c:0:c:2\],c:2\))#0`)
	// the peek buffer's first byte, whatever the local is called
	rePeekByte = regexp.MustCompile(`alloc:\w+\[c:0\]`)
	reValLocal = regexp.MustCompile(`v\.GetI32\(alloc:\w+\)`)
	reEnvExpr  = regexp.MustCompile(`(\(\*Protocol\)\.DecodeEnveloped(@\d+)?\(\$0,\$2\)|\(protocol/stream\.Reader\)\.ReadEnvelopeBegin(@\d+)?\(\))#0\.`)
)

// c12Inline: helpers named by the frozen expectations stay calls; any other
// unexported helper of the package is explored in place.
var c12Inline = inlineHelpers("readStrictEnvelope", "readNonStrictEnvelope", "readStrictNameType", "readNonStrictNameType", "readBytes", "read", "discard", "fixedWidth", "writeField", "realWriteMapItem", "returnStreamReader", "returnStreamWriter")

// classifyArms reduces each success path of a request decoder to
// "sorted framing conditions => responder".
func classifyArms(f *ssa.Function, respIdx int) ([]string, []string) {
	seqs, ok := core.TraceSeqsInline(f, func(call ssa.CallInstruction) bool { return true }, c12Inline)
	if !ok {
		return nil, []string{"too many paths"}
	}
	set := map[string]bool{}
	var raw []string
	for _, s := range seqs {
		var conds []string
		resp := "?"
		typeChecked := false
		for _, e := range s {
			e = core.ResolveLit(normRepl.Replace(e))
			e = reFirstRead.ReplaceAllString(e, "N")
			e = reFullRead.ReplaceAllString(e, "N")
			e = rePeekByte.ReplaceAllString(e, "alloc:buf[c:0]")
			switch {
			case strings.HasPrefix(e, "ret("):
				parts := splitTop(e[4:len(e)-1], ',')
				if respIdx < len(parts) {
					resp = reEnvExpr.ReplaceAllString(parts[respIdx], "E.")
				}
			case strings.HasPrefix(e, "call:(*Protocol).readEnvelopeHeader(") && strings.HasSuffix(e, ",$2)"):
				typeChecked = true // verified separately: readEnvelopeHeader fails unless eh.Type == et
			case strings.HasPrefix(e, "call:"), strings.HasPrefix(e, "defer:"), strings.HasPrefix(e, "loop:"):
			case strings.Contains(e, "io.Seeker"):
			case strings.Contains(e, ".Type!=$1)") || strings.Contains(e, ".Type!=$2)"):
				if strings.HasPrefix(e, "!") {
					typeChecked = true
				}
			default:
				conds = append(conds, e)
			}
		}
		sort.Strings(conds)
		arm := strings.Join(conds, " & ")
		if typeChecked {
			arm += " & type==et"
		}
		arm += " => " + resp
		raw = append(raw, arm)
		set[arm] = true
	}
	var out []string
	for a := range set {
		out = append(out, a)
	}
	sort.Strings(out)
	return out, raw
}

func arm(resp string, typeChecked bool, conds ...string) string {
	sort.Strings(conds)
	a := strings.Join(conds, " & ")
	if typeChecked {
		a += " & type==et"
	}
	return a + " => " + resp
}

// the frozen classification: fewer than two bytes => bare; first byte 0x00 =>
// legacy envelope; high bit set => versioned envelope; otherwise bare.
var wantArms = []string{
	arm("g:NoEnvelopeResponder", false, "!(N<c:2)", "!((alloc:buf[c:0]&c:128)>c:0)", "!(alloc:buf[c:0]==c:0)"),
	arm("&EnvelopeV1Responder:LIT{Name=E.Name;SeqID=E.SeqID}", true, "!(N<c:2)", "!(alloc:buf[c:0]==c:0)", "((alloc:buf[c:0]&c:128)>c:0)"),
	arm("&EnvelopeV0Responder:LIT{Name=E.Name;SeqID=E.SeqID}", true, "!(N<c:2)", "(alloc:buf[c:0]==c:0)"),
	arm("g:NoEnvelopeResponder", false, "(N<c:2)"),
}

func checkC12(c *core.Ctx, l *core.Ledger) {
	l.Explanation = "Static clauses of C12: (ENV-SEQ) strict and legacy envelope headers are written and read (stream and random-access readers) with the same ordered layout as the frozen Thrift rows, sharing the version constant/mask; (CLASSIFY) DecodeRequest and ReadRequest classify the first two bytes with the same three-way test in the same priority, check the envelope type before succeeding and build the same responder with Name/SeqID taken from the decoded envelope; (ECHO) each responder re-wraps with its own framing and echoes its Name/SeqID with the caller's type, the bare responder writes the bare struct, the envelope server copies request Name/SeqID; (FULL-READ) no raw io.Reader.Read in protocol/binary, so read segmentation cannot change classification; (PAIR) every borrowed stream reader/writer is released on all exits. (REPLY-CLASS) envelope.ReadReply, evaluated for all 256 type bytes: Reply yields the body, Exception the decoded TApplicationException, every other value an error that never reaches the exception decoder. (MUX-SPLIT) the multiplex handler takes the service prefix off at the first ':' — the inverse of what the multiplex client adds. NOT decided: round-trip equality of names/bodies, multiplexed names, seqid extremes."
	l.RuleText = "one obligation per (rule, function or arm)"
	l.Assumptions = []string{"io.ReadFull reads exactly len(buf) bytes unless the stream ends"}
	m := newWireModel(c)
	fn := func(name string) *ssa.Function {
		f := c.SSAFunc(c.LookupFunc("protocol/binary", name))
		if f == nil {
			l.Unk("ANCHOR", name, "", "function protocol/binary."+name+" not found")
		}
		return f
	}

	// 1. ENV-SEQ: writer rows (frozen) and reader layouts
	for _, r := range []struct{ name, want string }{
		{"WriteEnvelopeBegin", "[be32:(c:2147549184|$1.Type) be32:len bytes be32:SeqID]"},
		{"WriteLegacyEnvelopeBegin", "[be32:len bytes u8:Type be32:SeqID]"},
		{"WriteEnvelopeEnd", "[]"}, {"WriteLegacyEnvelopeEnd", "[]"},
	} {
		if f := fn("StreamWriter." + r.name); f != nil {
			got := shapeSeqs(m.WSeqs(f))
			l.Add(core.Obligation{Rule: "ENV-SEQ", Key: "StreamWriter." + r.name, Pos: c.Rel(f.Pos()), Status: st(got == r.want), Detail: "header layout " + got + "; Thrift row " + r.want})
		}
	}
	for _, r := range []struct{ name, want string }{
		{"Writer.WriteEnveloped", "[be32:(c:2147549184|$1.Type) be32:len bytes be32:SeqID call:WriteValue($1.Value)]"},
		{"Writer.WriteLegacyEnveloped", "[be32:len bytes u8:Type be32:SeqID call:WriteValue($1.Value)]"},
	} {
		if f := fn(r.name); f != nil {
			got := shapeSeqs(m.WSeqs(f))
			l.Add(core.Obligation{Rule: "ENV-SEQ", Key: r.name, Pos: c.Rel(f.Pos()), Status: st(got == r.want), Detail: "header then body: " + got + "; expected " + r.want})
		}
	}
	// stream reader
	if f := fn("StreamReader.ReadEnvelopeBegin"); f != nil {
		tr, _ := core.TraceSeqsInline(f, func(call ssa.CallInstruction) bool { return true }, c12Inline)
		got := core.ResolveLit(normRepl.Replace(core.SeqString(tr)))
		want := "[!(sr.ReadInt32($0)#0>c:0) call:sr.ReadInt32($0) call:sr.ReadInt32($0) call:sr.readStrictEnvelope($0,sr.ReadInt32($0)#0) ret(LIT{SeqID=sr.ReadInt32@2($0)#0},c:nil)] | [(sr.ReadInt32($0)#0>c:0) call:sr.ReadInt32($0) call:sr.ReadInt32($0) call:sr.readNonStrictEnvelope($0,sr.ReadInt32($0)#0) ret(LIT{SeqID=sr.ReadInt32@2($0)#0},c:nil)]"
		l.Add(core.Obligation{Rule: "ENV-SEQ", Key: "StreamReader.ReadEnvelopeBegin", Pos: c.Rel(f.Pos()), Status: st(sortEvents(got) == sortEvents(want)),
			Detail: "first i32 > 0 selects the legacy layout (it is the name length), otherwise strict; then the seqid i32; trace " + got})
		// order: first ReadInt32, then the name/type helper, then the seqid ReadInt32, and SeqID is the *second* read
		l.Check(envelopeBeginOrder(f), "ENV-SEQ", "StreamReader.ReadEnvelopeBegin.order", c.Rel(f.Pos()), "initial word, then name/type, then seqid — and SeqID is assigned from the last read", "ReadEnvelopeBegin does not read (initial word, name/type, seqid) in this order or assigns SeqID from the wrong read")
	}
	if f := fn("StreamReader.readStrictEnvelope"); f != nil {
		tr, _ := core.TraceSeqsInline(f, func(call ssa.CallInstruction) bool { return true }, c12Inline)
		got := core.ResolveLit(normRepl.Replace(core.SeqString(tr)))
		want := "[!(($1&c:4294901760)!=c:2147549184) call:sr.ReadString($0) ret(LIT{Name=sr.ReadString($0)#0;Type=$1},c:nil)]"
		l.Add(core.Obligation{Rule: "ENV-SEQ", Key: "StreamReader.readStrictEnvelope", Pos: c.Rel(f.Pos()), Status: st(got == want), Detail: "version word masked with 0xffff0000 must equal 0x80010000 (same constant the writer ORs in); name string; type = low byte of the word; trace " + got})
	}
	if f := fn("StreamReader.readNonStrictEnvelope"); f != nil {
		got := dedupShapes(shapeSeqs(m.RSeqs(f)))
		ok := false
		how := ""
		switch got {
		case "[loop:u8 u8:Type] | [u8:Type]":
			// byte-by-byte loop: must be counted by the length parameter
			for _, body := range loopsOf(f) {
				if why, is := countedLoop(body); is && strings.HasSuffix(why, "< $1") {
					ok = true
					how = "counted loop of single-byte reads bounded by the length parameter"
				}
			}
		case "[bytes u8:Type]":
			// bulk read: every bulk event must read exactly the length parameter
			ok = true
			for _, s := range m.RSeqs(f) {
				for _, e := range flattenAlts(s) {
					if (strings.HasPrefix(e, "copyN(") || strings.HasPrefix(e, "readfull(")) && !(strings.HasPrefix(e, "copyN($1)") || strings.HasPrefix(e, "readfull(make($1))")) {
						ok = false
					}
				}
			}
			how = "bulk read of exactly the length parameter"
		}
		tr, _ := core.TraceSeqsInline(f, func(call ssa.CallInstruction) bool { return true }, c12Inline)
		trs := core.ResolveLit(normRepl.Replace(core.SeqString(tr)))
		nameOK := strings.Contains(trs, "Name=") && strings.Contains(trs, "Type=sr.ReadInt8($0)#0")
		l.Add(core.Obligation{Rule: "ENV-SEQ", Key: "StreamReader.readNonStrictEnvelope", Pos: c.Rel(f.Pos()), Status: st(ok && nameOK), Detail: "legacy layout: <length> name bytes, then one type byte: " + got + " (" + how + "); trace " + trs})
	}
	// random-access reader
	if f := fn("Reader.ReadEnveloped"); f != nil {
		if os.Getenv("VDEBUG") != "" {
			tr, _ := core.TraceSeqsInline(f, func(call ssa.CallInstruction) bool { return true }, inlineHelpers())
			fmt.Fprintln(os.Stderr, "RENV", core.ResolveLit(normRepl.Replace(core.SeqString(tr))))
		}
		got := stripCallArgs(normSeqs(m.RSeqs(f)))
		want := "[call:ReadValue call:readNonStrictNameType call:ReadValue call:ReadValue] | [call:ReadValue call:readStrictNameType call:ReadValue call:ReadValue]"
		full := normSeqs(m.RSeqs(f))
		ok := got == want && strings.HasPrefix(full, "[call:ReadValue(c:8,c:0) ") && strings.Contains(full, "call:ReadValue(c:12,")
		tr, _ := core.TraceSeqsInline(f, func(call ssa.CallInstruction) bool { return true }, c12Inline)
		trs := normRepl.Replace(core.SeqString(tr))
		trs = reValLocal.ReplaceAllString(trs, "v.GetI32(alloc:val)")
		ok = ok && strings.Contains(trs, "(v.GetI32(alloc:val)>c:0) call:Reader.readNonStrictNameType") && strings.Contains(trs, "!(v.GetI32(alloc:val)>c:0) call:Reader.readStrictNameType")
		l.Add(core.Obligation{Rule: "ENV-SEQ", Key: "Reader.ReadEnveloped", Pos: c.Rel(f.Pos()), Status: st(ok), Detail: "i32 word at offset 0; >0 => legacy name/type, else strict; then i32 seqid and the struct body, offsets threaded; " + got})
		l.Check(offsetsThreaded(f), "ENV-SEQ", "Reader.ReadEnveloped.offsets", c.Rel(f.Pos()), "each ReadValue starts at the offset returned by the previous step", "ReadEnveloped does not thread the offset returned by one read into the next")
	}
	if f := fn("Reader.readStrictNameType"); f != nil {
		tr, _ := core.TraceSeqsInline(f, func(call ssa.CallInstruction) bool { return true }, c12Inline)
		got := normRepl.Replace(core.SeqString(tr))
		// the name and the type leave the helper either inside an Envelope literal or as separate results
		prov := strings.Contains(got, "Name=v.GetString(Reader.ReadValue($0,c:11,$2)#0);Type=$1") ||
			strings.Contains(got, "ret(v.GetString(Reader.ReadValue($0,c:11,$2)#0),$1,")
		ok := strings.Contains(got, "!(($1&c:4294901760)!=c:2147549184)") && strings.Contains(got, "call:Reader.ReadValue($0,c:11,$2)") && prov
		l.Add(core.Obligation{Rule: "ENV-SEQ", Key: "Reader.readStrictNameType", Pos: c.Rel(f.Pos()), Status: st(ok), Detail: "same version mask/constant as the stream reader; binary name at the given offset; type from the word: " + got})
	}
	if f := fn("Reader.readNonStrictNameType"); f != nil {
		got := normSeqs(m.RSeqs(f))
		want := "[call:ReadValue(c:11,c:0) call:ReadValue(c:3,Reader.ReadValue($0,c:11,c:0)#1)]"
		l.Add(core.Obligation{Rule: "ENV-SEQ", Key: "Reader.readNonStrictNameType", Pos: c.Rel(f.Pos()), Status: st(got == want), Detail: "legacy: binary name at offset 0 (its length prefix is the initial word), then the type byte at the following offset: " + got})
	}
	l.Floor("ENV-SEQ", 12)

	// 2. CLASSIFY
	dr, rr := fn("Protocol.DecodeRequest"), fn("Protocol.ReadRequest")
	if dr != nil && rr != nil {
		a1, _ := classifyArms(dr, 1)
		a2, _ := classifyArms(rr, 0)
		// semantic comparison: evaluate every arm's conditions for all (first byte, bytes available)
		wantT, _ := armTable(wantArms)
		t1, u1 := armTable(a1)
		t2, u2 := armTable(a2)
		d1 := compareArmTables(t1, wantT)
		d2 := compareArmTables(t2, wantT)
		l.Check(len(d1) == 0 && len(u1) == 0, "CLASSIFY", "DecodeRequest.table", c.Rel(dr.Pos()), "for all 256 first bytes x {0,1,2} available bytes the random-access decoder selects: fewer than 2 bytes => bare; 0x00 => legacy envelope (type checked, name/seqid echoed); high bit => strict envelope (same); otherwise bare", "random-access request decoder classifies differently from the protocol: "+strings.Join(append(d1, u1...), "; "))
		l.Check(len(d2) == 0 && len(u2) == 0, "CLASSIFY", "ReadRequest.table", c.Rel(rr.Pos()), "same table for the streaming decoder", "streaming request decoder classifies differently from the protocol: "+strings.Join(append(d2, u2...), "; "))
		ds := compareArmTables(t1, t2)
		l.Check(len(ds) == 0, "CLASSIFY", "siblings-agree", "", "both request decoders select the same responder for every (first byte, bytes available)", "the two request decoders classify differently: "+strings.Join(ds, "; "))
	}
	// in ReadRequest the body is decoded between header and ReadEnvelopeEnd with the same stream reader
	if rr != nil {
		tr, _ := core.TraceSeqsInline(rr, func(call ssa.CallInstruction) bool { return true }, c12Inline)
		ok := true
		for _, s := range tr {
			j := strings.Join(s, " ")
			if strings.Contains(j, "call:inv:ReadEnvelopeBegin(") {
				hi := strings.Index(j, "call:inv:ReadEnvelopeBegin(")
				di := strings.Index(j, "call:inv:Decode(")
				ei := strings.Index(j, "call:inv:ReadEnvelopeEnd(")
				if !(hi < di && di < ei) {
					ok = false
				}
			} else if !strings.Contains(j, "call:inv:Decode(") {
				ok = false
			}
		}
		l.Check(ok, "CLASSIFY", "ReadRequest.body-order", c.Rel(rr.Pos()), "header, then body.Decode, then ReadEnvelopeEnd on every enveloped arm; bare arms decode the body directly", "an arm of ReadRequest does not decode the body between envelope begin and end")
	}
	l.Floor("CLASSIFY", 4)

	checkReplyClassify(c, l)
	checkMuxSplit(c, l, "MUX-SPLIT")

	// 3. ECHO
	echo := []struct {
		name          string
		must, mustNot []string
	}{
		{"EnvelopeV0Responder.EncodeResponse", []string{"call:(*Writer).WriteLegacyEnveloped(BorrowWriter($3),LIT{Name=$0.Name;Type=$2;SeqID=$0.SeqID;Value=$1})"}, []string{".WriteEnveloped("}},
		{"EnvelopeV1Responder.EncodeResponse", []string{"call:(*Writer).WriteEnveloped(BorrowWriter($3),LIT{Name=$0.Name;Type=$2;SeqID=$0.SeqID;Value=$1})"}, []string{".WriteLegacyEnveloped("}},
		{"EnvelopeV0Responder.WriteResponse", []string{"call:sw.WriteLegacyEnvelopeBegin(NewStreamWriter($2),LIT{Name=$0.Name;Type=$1;SeqID=$0.SeqID}) call:inv:Encode($3;NewStreamWriter($2)) call:sw.WriteLegacyEnvelopeEnd(NewStreamWriter($2))"}, []string{".WriteEnvelopeBegin("}},
		{"EnvelopeV1Responder.WriteResponse", []string{"call:sw.WriteEnvelopeBegin(NewStreamWriter($2),LIT{Name=$0.Name;Type=$1;SeqID=$0.SeqID}) call:inv:Encode($3;NewStreamWriter($2)) call:sw.WriteEnvelopeEnd(NewStreamWriter($2))"}, []string{".WriteLegacyEnvelopeBegin("}},
		{"noEnvelopeResponder.EncodeResponse", []string{"call:(*Protocol).Encode(g:Default,$1,$3)"}, []string{"Enveloped("}},
		{"noEnvelopeResponder.WriteResponse", []string{"call:inv:Encode($3;NewStreamWriter($2))"}, []string{"EnvelopeBegin("}},
	}
	for _, e := range echo {
		f := fn(e.name)
		if f == nil {
			continue
		}
		tr, _ := core.TraceSeqsInline(f, func(call ssa.CallInstruction) bool { return true }, c12Inline)
		ok := len(tr) > 0
		for _, s := range tr {
			j := normRepl.Replace(core.ResolveLit(strings.Join(s, " ")))
			for _, mu := range e.must {
				if !strings.Contains(j, mu) {
					ok = false
				}
			}
			for _, mn := range e.mustNot {
				if strings.Contains(j, mn) {
					ok = false
				}
			}
		}
		l.Add(core.Obligation{Rule: "ECHO", Key: e.name, Pos: c.Rel(f.Pos()), Status: st(ok), Detail: "every success path re-wraps with the responder's own framing, echoing its Name/SeqID and the caller's type: " + normRepl.Replace(core.SeqString(tr))})
	}
	checkServerMirror(c, l)
	l.Floor("ECHO", 7)

	// 4. FULL-READ
	checkNoRawRead(c, l, "FULL-READ", []string{"protocol/binary"})
	checkReaderAdapters(c, l, "READER-ADAPTER", []string{"protocol/binary", "protocol", "envelope", "internal/envelope"})

	// 5. PAIR
	checkBorrowPairs(c, l, "PAIR", []string{"protocol/binary"}, func(f *ssa.Function) bool { return true })
	l.Floor("PAIR", 10)
}

func contains(xs []string, s string) bool {
	for _, x := range xs {
		if x == s {
			return true
		}
	}
	return false
}

// sortEvents sorts the events inside each [..] sequence so that comparisons are
// insensitive to the position of branch-condition labels.
func sortEvents(s string) string {
	parts := strings.Split(s, " | ")
	for i, p := range parts {
		p = strings.TrimSuffix(strings.TrimPrefix(p, "["), "]")
		es := splitTop(p, ' ')
		sort.Strings(es)
		parts[i] = "[" + strings.Join(es, " ") + "]"
	}
	sort.Strings(parts)
	return strings.Join(parts, " | ")
}

// envelopeBeginOrder: in ReadEnvelopeBegin the calls occur as ReadInt32,
// (readStrict|readNonStrict)Envelope(arg = that first value), ReadInt32, and the
// SeqID field is stored from the last ReadInt32.
func envelopeBeginOrder(f *ssa.Function) bool {
	seqs, ok := core.SuccessSeqs(f, core.SeqOpts{Classify: func(in ssa.Instruction, inLoop bool) []string {
		if call, ok := in.(*ssa.Call); ok && call.Call.StaticCallee() != nil {
			return []string{core.CanonName(call.Call.StaticCallee())}
		}
		return nil
	}})
	if !ok || len(seqs) != 2 {
		return false
	}
	for _, s := range seqs {
		if len(s) != 3 || s[0] != "ReadInt32" || s[2] != "ReadInt32" || !strings.HasSuffix(s[1], "Envelope") {
			return false
		}
	}
	// SeqID store value comes from a ReadInt32 call that is not the one feeding the helper
	var first ssa.Value
	okStore := false
	core.Instrs(f, func(in ssa.Instruction) {
		if call, ok := in.(*ssa.Call); ok && call.Call.StaticCallee() != nil && strings.HasSuffix(core.CanonName(call.Call.StaticCallee()), "Envelope") && len(call.Call.Args) == 2 {
			if ex, ok := core.Unop(call.Call.Args[1]).(*ssa.Extract); ok {
				first = ex.Tuple
			}
		}
	})
	core.Instrs(f, func(in ssa.Instruction) {
		if st, ok := in.(*ssa.Store); ok {
			if fa, ok := st.Addr.(*ssa.FieldAddr); ok && core.FieldName(core.FieldOf(fa)) == "SeqID" {
				if ex, ok := core.Unop(st.Val).(*ssa.Extract); ok && ex.Tuple != first && first != nil {
					okStore = true
				}
			}
		}
	})
	return okStore
}

// offsetsThreaded: every call Reader.ReadValue(t, off) in f after the first has
// off derived from the offset result (#1) of an earlier call in f.
func offsetsThreaded(f *ssa.Function) bool {
	n := 0
	ok := true
	core.Instrs(f, func(in ssa.Instruction) {
		call, isCall := in.(*ssa.Call)
		if !isCall || call.Call.StaticCallee() == nil || core.CanonName(call.Call.StaticCallee()) != "ReadValue" || len(call.Call.Args) != 3 {
			return
		}
		n++
		off := call.Call.Args[2]
		if k, isC := core.ConstInt(off); isC {
			if !(k == 0 && n == 1) {
				ok = false
			}
			return
		}
		s := core.Sym(off)
		if !strings.Contains(s, "#1") {
			ok = false
		}
	})
	return ok && n >= 3
}

// checkServerMirror: envelope.Server.Handle answers with the request's name
// and sequence id.
func checkServerMirror(c *core.Ctx, l *core.Ledger) {
	f := c.SSAFunc(c.LookupFunc("internal/envelope", "Server.Handle"))
	if f == nil {
		l.Unk("ECHO", "Server.Handle", "", "internal/envelope.Server.Handle not found")
		return
	}
	ok := false
	why := "no wire.Envelope built from the request is passed to EncodeEnveloped"
	core.Instrs(f, func(in ssa.Instruction) {
		call, isCall := in.(ssa.CallInstruction)
		if !isCall || !call.Common().IsInvoke() || call.Common().Method.Name() != "EncodeEnveloped" {
			return
		}
		arg := call.Common().Args[0]
		ld, isLd := arg.(*ssa.UnOp)
		if !isLd {
			return
		}
		a, isA := ld.X.(*ssa.Alloc)
		if !isA {
			return
		}
		name, seq := "", ""
		for _, r := range *a.Referrers() {
			if fa, ok := r.(*ssa.FieldAddr); ok {
				for _, rr := range *fa.Referrers() {
					if st, ok := rr.(*ssa.Store); ok && st.Addr == fa {
						switch core.FieldName(core.FieldOf(fa)) {
						case "Name":
							name += core.Sym(st.Val) + "|"
						case "SeqID":
							seq += core.Sym(st.Val) + "|"
						}
					}
				}
			}
		}
		if strings.HasSuffix(name, ".DecodeEnveloped(bytes.NewReader($1))#0.Name|") && strings.HasSuffix(seq, ".DecodeEnveloped(bytes.NewReader($1))#0.SeqID|") &&
			strings.Count(name, "|") == 1 && strings.Count(seq, "|") == 1 {
			ok = true
		} else {
			why = "response Name=" + name + " SeqID=" + seq
		}
	})
	l.Check(ok, "ECHO", "envelope.Server.Handle", c.Rel(f.Pos()), "the reply envelope's Name and SeqID are (only) assigned from the decoded request", "server does not mirror the request's name/sequence id: "+why)
}

// checkNoRawRead: no interface call Read([]byte) on an io.Reader-typed value in
// the given packages (ReadFull/CopyN must be used so that segmentation cannot
// matter). The matcher is validated against io.ReadAtLeast, which must fire.
func checkNoRawRead(c *core.Ctx, l *core.Ledger, rule string, rels []string) {
	isRaw := func(in ssa.Instruction) bool {
		call, ok := in.(ssa.CallInstruction)
		if !ok || !call.Common().IsInvoke() || call.Common().Method.Name() != "Read" {
			return false
		}
		sig := call.Common().Method.Type().String()
		return strings.Contains(sig, "[]byte") && strings.Contains(sig, "(n int, err error)") || core.TypeLabel(call.Common().Value.Type()) == "io.Reader"
	}
	// witness
	fired := false
	if iop := c.Prog.ImportedPackage("io"); iop != nil {
		if ral := iop.Func("ReadAtLeast"); ral != nil {
			core.Instrs(ral, func(in ssa.Instruction) {
				if isRaw(in) {
					fired = true
				}
			})
		}
	}
	l.Witness(rule, fired, "matcher must recognise the raw r.Read call inside io.ReadAtLeast")
	n := 0
	for _, f := range c.AllFuncs(rels...) {
		if c.IsTestFile(f.Pos()) {
			continue
		}
		n++
		k := 0
		core.Instrs(f, func(in ssa.Instruction) {
			if isRaw(in) {
				if passThroughRead(in.(ssa.CallInstruction)) {
					return // an io.Reader adapter forwarding (n, err) unchanged keeps the contract for its own caller
				}
				k++
				l.Bad(rule, fmt.Sprintf("%s:Read#%d", core.SSAName(f), k), c.Rel(in.Pos()), "a single raw Read on the caller's io.Reader: a short read (legal for any io.Reader) is treated as end of input, so the result depends on how the stream is segmented")
			}
		})
	}
	l.Add(core.Obligation{Rule: rule, Key: "scan", Status: core.Discharged, Detail: fmt.Sprintf("scanned %d functions of %v for interface Read calls (violations listed separately)", n, rels)})
	l.Units["fullread_functions_scanned"] = n
}

// ---- R-PAIR: borrowed codec objects are released on all exits ------------------------

var acquireFns = map[string]string{ // name -> kind
	"NewStreamReader": "sr", "NewStreamWriter": "sw", "BorrowWriter": "w", "newReader": "r",
}

func isRelease(in ssa.Instruction, v ssa.Value) bool {
	call, ok := in.(ssa.CallInstruction)
	if !ok {
		return false
	}
	cc := call.Common()
	name := ""
	if cc.IsInvoke() {
		name = cc.Method.Name()
		if name == "Close" && sameObj(cc.Value, v) {
			return true
		}
		return false
	}
	if cal := cc.StaticCallee(); cal != nil {
		name = cal.Name()
		switch name {
		case "Close", "close", "ReturnWriter", "returnStreamReader", "returnStreamWriter":
			for _, a := range cc.Args {
				if sameObj(a, v) {
					return true
				}
			}
		}
	}
	return false
}

func sameObj(a, v ssa.Value) bool {
	if a == v {
		return true
	}
	strip := func(x ssa.Value) ssa.Value {
		for {
			switch y := x.(type) {
			case *ssa.MakeInterface:
				x = y.X
			case *ssa.ChangeInterface:
				x = y.X
			case *ssa.ChangeType:
				x = y.X
			case *ssa.UnOp:
				// load of an alloc holding v (value receiver spill: &reader; reader.close())
				if al, ok := y.X.(*ssa.Alloc); ok {
					for _, r := range *al.Referrers() {
						if st, ok := r.(*ssa.Store); ok && st.Addr == al {
							return st.Val
						}
					}
				}
				return x
			default:
				return x
			}
		}
	}
	a, v = strip(a), strip(v)
	if a == v {
		return true
	}
	// address of the alloc the value was stored in
	if al, ok := a.(*ssa.Alloc); ok {
		for _, r := range *al.Referrers() {
			if st, ok := r.(*ssa.Store); ok && st.Addr == al && strip(st.Val) == v {
				return true
			}
		}
	}
	return false
}

func checkBorrowPairs(c *core.Ctx, l *core.Ledger, rule string, rels []string, keep func(*ssa.Function) bool) {
	for _, f := range c.AllFuncs(rels...) {
		if c.IsTestFile(f.Pos()) || !keep(f) {
			continue
		}
		k := 0
		for _, call := range core.Calls(f) {
			cv, ok := call.(*ssa.Call)
			if !ok {
				continue
			}
			name := ""
			if cal := cv.Call.StaticCallee(); cal != nil && core.PkgRel(cal) == "protocol/binary" {
				name = cal.Name()
				if recvNamed(cal) == "Protocol" && (name == "Reader" || name == "Writer") {
					name = "Protocol." + name
					acquireFns[name] = "p"
				}
			}
			if _, is := acquireFns[name]; !is {
				continue
			}
			k++
			key := fmt.Sprintf("%s:%s#%d", core.SSAName(f), name, k)
			pos := c.Rel(cv.Pos())
			// ownership transfer: the value (or a struct containing it) is returned or stored into a returned struct / field
			if escapesToResult(cv) {
				l.Add(core.Obligation{Rule: rule, Key: key, Pos: pos, Status: core.Discharged, Detail: "ownership is handed to the caller (value is returned or stored in the returned object)"})
				continue
			}
			leak, path := core.PathToExitAvoiding(cv, func(in ssa.Instruction) bool { return isRelease(in, cv) }, false)
			if leak {
				l.Bad(rule, key, pos, "borrowed codec object is not released on some path to return (pool leak / missing Close)", c.BlockTrace(path)...)
			} else {
				l.Ok(rule, key, pos, "released on every path to return (defer or straight-line release)")
			}
		}
	}
}

// escapesToResult: v flows to a Return operand, into a composite that is
// returned, or into a field of the receiver (stored for later release).
func escapesToResult(v ssa.Value) bool {
	seen := map[ssa.Value]bool{}
	var walk func(x ssa.Value) bool
	walk = func(x ssa.Value) bool {
		if seen[x] {
			return false
		}
		seen[x] = true
		refs := x.Referrers()
		if refs == nil {
			return false
		}
		for _, r := range *refs {
			switch y := r.(type) {
			case *ssa.Return:
				return true
			case *ssa.MakeInterface:
				if walk(y) {
					return true
				}
			case *ssa.ChangeInterface:
				if walk(y) {
					return true
				}
			case *ssa.Store:
				if y.Val == x {
					if fa, ok := y.Addr.(*ssa.FieldAddr); ok {
						// stored in a struct: escapes if the struct alloc is loaded and returned, or is the receiver
						if al, ok := fa.X.(*ssa.Alloc); ok {
							for _, rr := range *al.Referrers() {
								if ld, ok := rr.(*ssa.UnOp); ok && walk(ld) {
									return true
								}
							}
							if walk(al) {
								return true
							}
						} else {
							return true // field of a longer-lived object
						}
					}
				}
			}
		}
		return false
	}
	return walk(v)
}

// ---- semantic comparison of classification arms ---------------------------------
//
// An arm is "conditions => responder". The conditions of the request decoders
// only speak about the first byte B of the message and the number N of bytes
// that could be read. Instead of comparing condition texts, every arm's
// conditions are evaluated for all 256 x {0,1,2} combinations; two decoders
// classify alike iff every combination selects the same set of outcomes. How
// the tests are written (`b&0x80 > 0` or `!= 0`, nested or merged) is
// irrelevant.

type condExpr struct {
	op   string // "", "!", "==", "!=", "<", "<=", ">", ">=", "&"
	l, r *condExpr
	atom string // "B", "N", or an integer literal
}

func parseCond(s string) (*condExpr, bool) {
	s = strings.TrimSpace(s)
	if strings.HasPrefix(s, "!") {
		e, ok := parseCond(s[1:])
		if !ok {
			return nil, false
		}
		return &condExpr{op: "!", l: e}, true
	}
	if strings.HasPrefix(s, "(") && strings.HasSuffix(s, ")") {
		// find the top-level operator
		inner := s[1 : len(s)-1]
		depth := 0
		for i := 0; i < len(inner); i++ {
			switch inner[i] {
			case '(', '[':
				depth++
			case ')', ']':
				depth--
			}
			if depth != 0 {
				continue
			}
			for _, op := range []string{"==", "!=", "<=", ">=", "<", ">", "&"} {
				if strings.HasPrefix(inner[i:], op) && i > 0 {
					// make sure the parenthesised prefix is balanced and this is the outermost operator
					l, ok1 := parseCond(inner[:i])
					r, ok2 := parseCond(inner[i+len(op):])
					if ok1 && ok2 {
						return &condExpr{op: op, l: l, r: r}, true
					}
				}
			}
		}
		return nil, false
	}
	switch {
	case s == "N":
		return &condExpr{atom: "N"}, true
	case s == "alloc:buf[c:0]":
		return &condExpr{atom: "B"}, true
	case strings.HasPrefix(s, "c:"):
		if _, err := strconv.ParseInt(s[2:], 10, 64); err == nil {
			return &condExpr{atom: s[2:]}, true
		}
	}
	return nil, false
}

func (e *condExpr) eval(b, n int64) int64 {
	bi := func(v bool) int64 {
		if v {
			return 1
		}
		return 0
	}
	switch e.op {
	case "":
		switch e.atom {
		case "B":
			return b
		case "N":
			return n
		}
		v, _ := strconv.ParseInt(e.atom, 10, 64)
		return v
	case "!":
		return bi(e.l.eval(b, n) == 0)
	}
	x, y := e.l.eval(b, n), e.r.eval(b, n)
	switch e.op {
	case "==":
		return bi(x == y)
	case "!=":
		return bi(x != y)
	case "<":
		return bi(x < y)
	case "<=":
		return bi(x <= y)
	case ">":
		return bi(x > y)
	case ">=":
		return bi(x >= y)
	case "&":
		return x & y
	}
	return 0
}

// armTable evaluates arms ("c1 & c2 & ... => outcome") for every (B, N) and
// returns, per combination, the sorted set of outcomes; unparsed lists the
// conditions that could not be interpreted (they make the result undecided).
func armTable(arms []string) (map[[2]int64]string, []string) {
	type parsed struct {
		conds   []*condExpr
		outcome string
	}
	var ps []parsed
	var unparsed []string
	for _, a := range arms {
		i := strings.Index(a, " => ")
		if i < 0 {
			continue
		}
		p := parsed{outcome: a[i+4:]}
		lhs := a[:i]
		typeChecked := false
		if strings.HasSuffix(lhs, " & type==et") || lhs == "type==et" {
			typeChecked = true
			lhs = strings.TrimSuffix(strings.TrimSuffix(lhs, "type==et"), " & ")
		}
		if typeChecked {
			p.outcome = "type==et => " + p.outcome
		}
		if strings.TrimSpace(lhs) != "" {
			for _, cs := range strings.Split(lhs, " & ") {
				e, ok := parseCond(cs)
				if !ok {
					unparsed = append(unparsed, cs)
					continue
				}
				p.conds = append(p.conds, e)
			}
		}
		ps = append(ps, p)
	}
	out := map[[2]int64]string{}
	for n := int64(0); n <= 2; n++ {
		for b := int64(0); b < 256; b++ {
			set := map[string]bool{}
			for _, p := range ps {
				ok := true
				for _, e := range p.conds {
					if e.eval(b, n) == 0 {
						ok = false
						break
					}
				}
				if ok {
					set[p.outcome] = true
				}
			}
			var os []string
			for o := range set {
				os = append(os, o)
			}
			sort.Strings(os)
			out[[2]int64{b, n}] = strings.Join(os, " || ")
		}
	}
	return out, unparsed
}

// compareArmTables reports the first combinations on which two classifications differ.
func compareArmTables(a, b map[[2]int64]string) []string {
	var diffs []string
	for n := int64(0); n <= 2; n++ {
		for by := int64(0); by < 256; by++ {
			k := [2]int64{by, n}
			if a[k] != b[k] {
				diffs = append(diffs, fmt.Sprintf("first byte 0x%02x with %d byte(s) available: {%s} vs {%s}", by, n, a[k], b[k]))
				if len(diffs) >= 3 {
					return diffs
				}
			}
		}
	}
	return diffs
}

// checkReplyClassify (REPLY-CLASS): envelope.ReadReply, evaluated for every
// possible envelope type byte: type Reply returns the body with a nil error;
// type Exception returns the decoded TApplicationException (the path passes
// FromWire); every other type — the defined Call and OneWay and the 252
// undefined values alike — is an error of its own and never reaches the
// exception decoder. A client must not mistake a malformed reply for an
// application exception.
func checkReplyClassify(c *core.Ctx, l *core.Ledger) {
	f := c.SSAFunc(c.LookupFunc("envelope", "ReadReply"))
	if f == nil {
		l.Unk("REPLY-CLASS", "envelope.ReadReply", "", "not found")
		return
	}
	isType := func(v ssa.Value) bool {
		fld, _ := core.LoadedField(v)
		if fld == nil {
			if fv, ok := v.(*ssa.Field); ok {
				fld = core.FieldOf(fv)
			}
		}
		return fld != nil && fld.Name() == "Type" && core.TypeLabel(fld.Type()) == "wire.EnvelopeType"
	}
	classOf := func(k int64) (string, string) {
		paths, ok := c.FiniteEval(f, core.FEOpts{Key: func(v ssa.Value) (core.CVal, bool) {
			if isType(v) {
				return core.CVal{Kind: core.CInt, I: k}, true
			}
			return core.CVal{}, false
		}})
		if !ok {
			return "?", "too many paths"
		}
		set := map[string]bool{}
		for _, p := range paths {
			if p.Ret == nil || len(p.Ret.Results) == 0 {
				continue
			}
			decoded := false
			firstErr := false
			for i, call := range p.Calls {
				name := ""
				if call.Common().IsInvoke() {
					name = call.Common().Method.Name()
				} else if cal := call.Common().StaticCallee(); cal != nil {
					name = cal.Name()
				}
				if name == "FromWire" {
					decoded = true
				}
				_ = i
			}
			// the failure exit right after DecodeEnveloped is the same for every type: skip paths that return its error
			errv := p.Ret.Results[len(p.Ret.Results)-1]
			if ex, isEx := errv.(*ssa.Extract); isEx {
				if call, isCall := ex.Tuple.(*ssa.Call); isCall && call.Common().IsInvoke() && call.Common().Method.Name() == "DecodeEnveloped" {
					firstErr = true
				}
			}
			if firstErr {
				continue
			}
			switch {
			case core.IsNilErrorReturn(p.Ret):
				set["ok"] = true
			case decoded:
				set["exception"] = true
			default:
				set["error"] = true
			}
		}
		return joinKeys(set), ""
	}
	var bad []string
	for k := int64(0); k < 256; k++ {
		want := "error"
		switch k {
		case 2:
			want = "ok"
		case 3:
			want = "error|exception" // decoding the exception body may itself fail
		}
		got, why := classOf(k)
		if got != want && !(k == 3 && got == "exception") {
			bad = append(bad, fmt.Sprintf("type %d: %s%s (want %s)", k, got, why, want))
			if len(bad) >= 4 {
				break
			}
		}
	}
	l.Check(len(bad) == 0, "REPLY-CLASS", "envelope.ReadReply", c.Rel(f.Pos()), "for all 256 envelope type bytes: Reply => body, Exception => decoded TApplicationException, anything else => an error that is not an application exception", "replies are classified differently: "+strings.Join(bad, "; "))
}
