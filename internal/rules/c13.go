package rules

import (
	"fmt"
	"go/types"
	"strings"

	"golang.org/x/tools/go/ssa"

	"verif/internal/core"
)

func init() { Registry["C13"] = withErrRules(checkC13, "read", "protocol/binary", "wire") }

// allocSink: uses of a value as an allocation size.
func allocSink(in ssa.Instruction, op ssa.Value) (string, bool) {
	switch x := in.(type) {
	case *ssa.MakeSlice:
		if x.Len == op {
			return "make length", true
		}
		if x.Cap == op {
			return "make capacity", true
		}
	case *ssa.MakeMap:
		if x.Reserve == op {
			return "make(map) size hint", true
		}
	case *ssa.MakeChan:
		if x.Size == op {
			return "make(chan) size", true
		}
	case ssa.CallInstruction:
		// every size-taking allocator of the standard library: bytes.Buffer.Grow, strings.Builder.Grow,
		// slices.Grow, bufio.NewReaderSize / NewWriterSize, make-like helpers
		if o := core.CalleeObj(x); o != nil && o.Pkg() != nil {
			switch o.Pkg().Path() + "." + o.Name() {
			case "bytes.Grow", "strings.Grow", "slices.Grow", "bufio.NewReaderSize", "bufio.NewWriterSize", "strings.Repeat", "bytes.Repeat":
				return o.Pkg().Name() + "." + o.Name(), true
			}
		}
	}
	return "", false
}

// constLikeGlobals: package-level variables initialised from a constant and
// never stored to outside init in non-test code.
func constLikeGlobals(c *core.Ctx) map[*ssa.Global]bool {
	stores := map[*ssa.Global]int{}
	constInit := map[*ssa.Global]bool{}
	fns := c.AllFuncs()
	for _, p := range c.Pkgs {
		if sp := c.SSA[p.PkgPath]; sp != nil {
			if in := sp.Func("init"); in != nil {
				fns = append(fns, in)
			}
		}
	}
	for _, f := range fns {
		if c.IsTestFile(f.Pos()) {
			continue
		}
		core.Instrs(f, func(in ssa.Instruction) {
			st, ok := in.(*ssa.Store)
			if !ok {
				return
			}
			g, ok := st.Addr.(*ssa.Global)
			if !ok {
				return
			}
			if f.Name() == "init" {
				if _, isC := core.ConstInt(st.Val); isC {
					constInit[g] = true
					return
				}
			}
			stores[g]++
		})
	}
	out := map[*ssa.Global]bool{}
	for g := range constInit {
		if stores[g] == 0 {
			out[g] = true
		}
	}
	return out
}

func checkC13(c *core.Ctx, l *core.Ledger) {
	l.Explanation = "Static clauses of C13: (ALLOC-BOUND) forward taint from every length/count read from the wire (results of ReadInt32/16/8 in the decode scope, the frame header word, and .Length of container headers) to allocation sizes (make length/capacity/map hint, Buffer.Grow): every such allocation must be dominated, on the allocating branch, by a comparison of the length against a compile-time constant or a constant-like package variable (initialised from a constant, never stored to in non-test code); (VALIDATED-COUNT) a lazy container is built from a wire count only after the skip pass over that many items succeeded; (WORK-BOUND) every loop of the skip path whose trip count comes from the wire performs, on each iteration, a read that fails at end of input (a loop made of fixed-width skips alone would run as often as the header announces); (TMPL-ALLOC) the same rule on the container Decoder/Reader templates of the generator and on generated instances. NOT decided: that work is linear in N in general (only the two structural conditions above); the numeric factor; allocations inside the standard library."
	l.RuleText = "one obligation per wire-length source; non-trivial = it reaches at least one allocation"
	l.Assumptions = []string{"io.CopyN into a bytes.Buffer grows with the data actually read", "sync.Pool / runtime allocations are outside the rule"}
	d := decodeScope(c, l)
	dl := core.SortedFuncs(d)
	inD := func(f *ssa.Function) bool { _, ok := d[f]; return ok }
	l.Units["decode_scope_functions"] = len(dl)
	clg := constLikeGlobals(c)
	isConstLike := func(v ssa.Value) bool {
		if ld, ok := core.Unop(v).(*ssa.UnOp); ok {
			if g, ok := ld.X.(*ssa.Global); ok && clg[g] {
				return true
			}
		}
		return false
	}
	sanit := func(fn *ssa.Function, root ssa.Value, at *ssa.BasicBlock) bool {
		return core.UpperBoundGuard(fn, root, at, isConstLike)
	}
	n := 0
	for _, f := range dl {
		k := 0
		for _, call := range core.Calls(f) {
			cv, ok := call.(*ssa.Call)
			if !ok {
				continue
			}
			var src ssa.Value
			label := ""
			if o := core.CalleeObj(call); o != nil {
				switch {
				case (o.Name() == "ReadInt32" || o.Name() == "ReadInt16" || o.Name() == "ReadInt8") && (recvIs(o, "StreamReader") || call.Common().IsInvoke()):
					for _, r := range *cv.Referrers() {
						if ex, ok := r.(*ssa.Extract); ok && ex.Index == 0 {
							src = ex
						}
					}
					label = o.Name()
				case o.Pkg() != nil && o.Pkg().Path() == "encoding/binary" && strings.HasPrefix(o.Name(), "Uint") && core.PkgRel(f) == "internal/frame":
					src = cv
					label = "frame-header " + o.Name()
				}
			}
			if label == "" {
				continue
			}
			k++
			key := fmt.Sprintf("%s:%s#%d", core.SSAName(f), label, k)
			if src == nil {
				l.Add(core.Obligation{Rule: "ALLOC-BOUND", Key: key, Pos: c.Rel(call.Pos()), Status: core.Discharged, Trivial: true, Detail: "value unused"})
				continue
			}
			t := &core.Taint{C: c, Scope: inD, Sanitized: sanit, Sink: allocSink}
			t.Run([]ssa.Value{src})
			n++
			var bad []core.TaintHit
			var oks []string
			for _, h := range t.Hits {
				if h.Sanitized {
					oks = append(oks, h.Kind+"@"+c.Rel(h.Instr.Pos()))
				} else {
					bad = append(bad, h)
				}
			}
			if len(bad) > 0 {
				var tr []string
				for _, h := range bad {
					tr = append(tr, h.Trail...)
				}
				tr = uniq(tr)
				l.Bad("ALLOC-BOUND", key, c.Rel(call.Pos()), fmt.Sprintf("a length taken from the wire sizes an allocation (%s at %s) with no dominating bound against a constant: a few input bytes can force an allocation of up to 2 GiB", bad[0].Kind, c.Rel(bad[0].Instr.Pos())), tr...)
			} else {
				l.Add(core.Obligation{Rule: "ALLOC-BOUND", Key: key, Pos: c.Rel(call.Pos()), Status: core.Discharged, Trivial: len(oks) == 0,
					Detail: fmt.Sprintf("reaches %d allocation(s), each on a branch bounded by a constant: %s", len(oks), strings.Join(oks, ", "))})
			}
		}
	}
	l.Floor("ALLOC-BOUND", 8)

	checkWorkBound(c, l)
	// VALIDATED-COUNT
	m := newWireModel(c)
	for _, name := range []string{"readListStream", "readSetStream", "readMapStream"} {
		f := m.method("reader", name)
		if f == nil {
			l.Unk("VALIDATED-COUNT", "reader."+name, "", "function not found")
			continue
		}
		var borrow ssa.Instruction
		core.Instrs(f, func(in ssa.Instruction) {
			if call, ok := in.(*ssa.Call); ok && call.Call.StaticCallee() != nil && (obtainsLazy(call) || calleeObtainsLazy(call.Call.StaticCallee(), 3)) {
				borrow = in // taking a lazy container from its pool: here, or in a helper of the package
			}
		})
		if borrow == nil {
			l.Unk("VALIDATED-COUNT", "reader."+name, c.Rel(f.Pos()), "no lazy container construction found: shape not recognised")
			continue
		}
		// every path from entry to the construction passes a skip call and takes its success edge
		reach, path := core.PathFromEntryAvoiding(f, func(in ssa.Instruction) bool {
			call, ok := in.(*ssa.Call)
			return ok && call.Call.StaticCallee() != nil && strings.HasPrefix(core.CanonName(call.Call.StaticCallee()), "skip")
		}, func(in ssa.Instruction) bool { return in == borrow })
		okSucc := true
		core.Instrs(f, func(in ssa.Instruction) {
			call, ok := in.(*ssa.Call)
			if !ok || call.Call.StaticCallee() == nil || !strings.HasPrefix(core.CanonName(call.Call.StaticCallee()), "skip") {
				return
			}
			// its error must be tested, with the error edge not reaching the construction
			tested := false
			for _, r := range *call.Referrers() {
				if bo, ok := r.(*ssa.BinOp); ok {
					for _, rr := range *bo.Referrers() {
						if ifi, ok := rr.(*ssa.If); ok {
							if okEdge, is := core.IsErrCheck(ifi); is {
								tested = true
								errSucc := ifi.Block().Succs[1-okEdge]
								// construction must not be reachable from the error successor
								seen := map[*ssa.BasicBlock]bool{}
								st := []*ssa.BasicBlock{errSucc}
								for len(st) > 0 {
									b := st[len(st)-1]
									st = st[:len(st)-1]
									if seen[b] {
										continue
									}
									seen[b] = true
									if b == borrow.Block() {
										okSucc = false
									}
									st = append(st, b.Succs...)
								}
							}
						}
					}
				}
			}
			if !tested {
				okSucc = false
			}
		})
		if reach {
			l.Bad("VALIDATED-COUNT", "reader."+name, c.Rel(borrow.Pos()), "the lazy container (whose Size() later pre-sizes generated collections) can be built without the skip pass over its items having run", c.BlockTrace(path)...)
		} else {
			l.Check(okSucc, "VALIDATED-COUNT", "reader."+name, c.Rel(borrow.Pos()), "lazy container is built only after the skip pass over exactly count items succeeded (so count <= remaining input)", "the skip pass's error does not prevent construction of the lazy container")
		}
	}
	l.Floor("VALIDATED-COUNT", 3)
	if tmplAllocHook != nil {
		tmplAllocHook(c, l)
	}
}

// tmplAllocHook is installed by the template model (generated Decoder/Reader templates).
var tmplAllocHook func(c *core.Ctx, l *core.Ledger)

func recvIs(o *types.Func, name string) bool {
	sig, ok := o.Type().(*types.Signature)
	if !ok || sig.Recv() == nil {
		return false
	}
	return core.RecvTypeName(sig.Recv().Type()) == name
}

// calleeReaches: f is, or statically calls within a few steps (same package),
// a function whose name starts with prefix.
func calleeReaches(f *ssa.Function, prefix string, depth int) bool {
	if f == nil {
		return false
	}
	if strings.HasPrefix(f.Name(), prefix) {
		return true
	}
	if depth == 0 || len(f.Blocks) == 0 {
		return false
	}
	found := false
	core.Instrs(f, func(in ssa.Instruction) {
		if call, ok := in.(*ssa.Call); ok {
			if cal := call.Call.StaticCallee(); cal != nil && cal.Pkg == f.Pkg && cal != f && calleeReaches(cal, prefix, depth-1) {
				found = true
			}
		}
	})
	return found
}

// obtainsLazy: call is sync.Pool.Get whose result is asserted to one of the lazy container types.
func obtainsLazy(call *ssa.Call) bool {
	cal := call.Call.StaticCallee()
	if cal == nil || cal.Pkg == nil || cal.Pkg.Pkg.Path() != "sync" || cal.Name() != "Get" || call.Referrers() == nil {
		return false
	}
	for _, r := range *call.Referrers() {
		if ta, ok := r.(*ssa.TypeAssert); ok && strings.HasPrefix(core.RecvTypeName(ta.AssertedType), "lazy") {
			return true
		}
	}
	return false
}

func calleeObtainsLazy(f *ssa.Function, depth int) bool {
	if f == nil || len(f.Blocks) == 0 || core.PkgRel(f) != "protocol/binary" {
		return false
	}
	found := false
	core.Instrs(f, func(in ssa.Instruction) {
		call, ok := in.(*ssa.Call)
		if !ok {
			return
		}
		if obtainsLazy(call) {
			found = true
		} else if depth > 0 {
			if cal := call.Call.StaticCallee(); cal != nil && cal != f && calleeObtainsLazy(cal, depth-1) {
				found = true
			}
		}
	})
	return found
}

// checkWorkBound: a loop whose trip count comes from the wire must, on every
// iteration, perform a read that fails when the input is exhausted. Skipping a
// fixed-width value only moves a cursor (a seek never reports end of input), so
// a counted loop made of fixed-width skips alone runs "count" times whatever
// the input holds: a 11-byte message announcing 2^31 entries costs 2^31
// iterations. Decided on the per-type skip signatures (type fixed, helpers
// expanded in place): every alternative with loop events contains a read
// primitive or the skip of a type that is known, in that alternative, not to be
// fixed-width.
func checkWorkBound(c *core.Ctx, l *core.Ledger) {
	names := map[int64]string{12: "TStruct", 13: "TMap", 14: "TSet", 15: "TList"}
	for code := int64(12); code <= 15; code++ {
		sig := canonNames(skipSignature(c, code))
		key := "Skip(" + names[code] + ")"
		if sig == "" || sig == "?" {
			l.Unk("WORK-BOUND", key, "", "no skip signature")
			continue
		}
		var why []string
		// alternatives: the signature is a flat sequence with optional alt{a|b|c}
		alts := []string{sig}
		if i := strings.Index(sig, "alt{"); i >= 0 {
			j := strings.LastIndex(sig, "}")
			alts = splitTop(sig[i+4:j], '|')
		}
		for _, a := range alts {
			if !strings.Contains(a, "loop:") {
				continue
			}
			reads := false
			for _, ev := range strings.Fields(a) {
				if !strings.HasPrefix(ev, "loop:") {
					continue
				}
				e := strings.TrimPrefix(ev, "loop:")
				switch {
				case strings.HasPrefix(e, "u8") || strings.HasPrefix(e, "be16") || strings.HasPrefix(e, "be32") || strings.HasPrefix(e, "be64") || strings.HasPrefix(e, "readfull") || strings.HasPrefix(e, "bytes"):
					reads = true
				case strings.HasPrefix(e, "call:Skip(") && strings.HasSuffix(e, ")"):
					t := strings.TrimSuffix(strings.TrimPrefix(e, "call:Skip("), ")")
					if strings.Contains(a, "!fw("+t+")>0") {
						reads = true // a variable-width value starts with a header that is really read
					}
				}
			}
			if !reads {
				why = append(why, "the loop in ["+a+"] only moves the cursor over fixed-width values: it runs as many times as the header announces, even on an empty input")
			}
		}
		l.Check(len(why) == 0, "WORK-BOUND", key, "", "every counted loop of the skip path reads (and so stops at end of input) on each iteration", strings.Join(why, "; "))
	}
	l.Floor("WORK-BOUND", 4)
}
