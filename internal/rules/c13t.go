package rules

import (
	"fmt"
	"go/ast"
	"sort"
	"strings"

	"verif/internal/core"
	"verif/internal/tmpl"
)

func init() {
	tmplAllocHook = checkTemplateAllocs
	tmplRangeHook = checkTemplateRanges
}

// checkTemplateAllocs: container Reader/Decoder templates must not size an
// allocation by a count taken from the wire unless it is bounded by a constant
// (stream path: header.Length) or validated (value path: Size() of a lazy
// list that was built only after its items were skipped — VALIDATED-COUNT).
func checkTemplateAllocs(c *core.Ctx, l *core.Ledger) {
	mod := tmpl.Extract(c)
	xs := expansions(c, 1)
	ids := []string{"listGenerator.Reader#1", "setGenerator.Reader#1", "mapGenerator.Reader#1", "listGenerator.Decoder#1", "setGenerator.Decoder#1", "mapGenerator.Decoder#1"}
	for _, id := range ids {
		t := findTemplate(mod, id)
		if t == nil {
			l.Unk("TMPL-ALLOC", id, "", "template not found")
			continue
		}
		var bad, okNotes []string
		nmake := 0
		for _, v := range xs[t].Variants {
			if v.File == nil {
				continue
			}
			ast.Inspect(v.File, func(n ast.Node) bool {
				call, ok := n.(*ast.CallExpr)
				if !ok {
					return true
				}
				if id, ok := call.Fun.(*ast.Ident); !ok || id.Name != "make" || len(call.Args) < 2 {
					return true
				}
				nmake++
				for _, a := range call.Args[1:] {
					s := nodeStr(v.Fset, a)
					switch {
					case strings.HasSuffix(s, ".Length"):
						// any dominating comparison of that Length with a constant?
						if !lengthBounded(v, s) {
							bad = append(bad, fmt.Sprintf("[%s] %s pre-sizes the collection with %s, the element count announced by the stream header, with no bound", v.AtomString(), nodeStr(v.Fset, call), s))
						}
					case strings.HasSuffix(s, ".Size()"):
						okNotes = append(okNotes, s+" (count of a lazy container, validated against the input by the skip pass)")
					case s == "0":
					default:
						bad = append(bad, "allocation sized by an unrecognised expression "+s)
					}
				}
				return true
			})
		}
		sort.Strings(bad)
		if len(bad) > 0 {
			l.Bad("TMPL-ALLOC", id, c.Rel(t.Pos), "generated stream decoder allocates capacity for as many elements as the message claims before reading any of them: 8 bytes can force a 1 GiB allocation", uniq(bad)...)
		} else {
			l.Add(core.Obligation{Rule: "TMPL-ALLOC", Key: id, Pos: c.Rel(t.Pos), Status: core.Discharged, Trivial: nmake == 0, Detail: fmt.Sprintf("%d allocation(s): %s", nmake, strings.Join(uniq(okNotes), "; "))})
		}
	}
	l.Floor("TMPL-ALLOC", 6)
}

// lengthBounded: the skeleton contains an if statement comparing expr with a
// numeric literal or a named constant (identifier not derived from the header).
func lengthBounded(v *tmpl.Variant, expr string) bool {
	found := false
	ast.Inspect(v.File, func(n ast.Node) bool {
		is, ok := n.(*ast.IfStmt)
		if !ok {
			return true
		}
		be, ok := ast.Unparen(is.Cond).(*ast.BinaryExpr)
		if !ok {
			return true
		}
		x, y := nodeStr(v.Fset, be.X), nodeStr(v.Fset, be.Y)
		if x == expr {
			if _, isLit := be.Y.(*ast.BasicLit); isLit {
				found = true
			}
			if id, isID := be.Y.(*ast.Ident); isID && !strings.Contains(id.Name, "ˑ") && id.Name != "nil" {
				found = true
			}
		}
		_ = y
		return true
	})
	// or the size argument itself is min(expr, const)
	return found
}

// checkTemplateRanges: a template may range over a map-typed pipeline only
// where text/template iterates in sorted key order (maps with basic ordered
// key types: strings and integers).
func checkTemplateRanges(c *core.Ctx, l *core.Ledger) {
	mod := tmpl.Extract(c)
	n := 0
	for _, t := range mod.Templates {
		for _, r := range templateRanges(t) {
			typ := chainType(t, r)
			if typ == "" {
				continue
			}
			if strings.HasPrefix(typ, "map[") {
				n++
				sorted := strings.HasPrefix(typ, "map[string]") || strings.HasPrefix(typ, "map[int")
				l.Check(sorted, "TMPL-RANGE", t.ID+":"+r, c.Rel(t.Pos), "range over "+typ+": text/template visits the keys in sorted order", "template ranges over "+typ+" whose key type text/template cannot sort: iteration order is unspecified")
			}
		}
	}
	l.Add(core.Obligation{Rule: "TMPL-RANGE", Key: "scan", Status: core.Discharged, Trivial: true, Detail: fmt.Sprintf("%d templates scanned, %d range over a map", len(mod.Templates), n)})
}
