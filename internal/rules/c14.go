package rules

import (
	"fmt"
	"go/ast"
	"go/constant"
	"go/token"
	"go/types"
	"golang.org/x/tools/go/ssa"
	"sort"
	"strings"

	"verif/internal/core"
	"verif/internal/tmpl"
)

func init() { Registry["C14"] = checkC14 }

func checkC14(c *core.Ctx, l *core.Ledger) {
	l.Explanation = "THIN claim. Static clauses of C14 only: (EQ-NIL) generated struct Equals returns on a nil receiver or argument before touching any field, and the generated pointer comparison handles the four nil combinations; (EQ-FIELDS) on every shape class every field contributes exactly one comparison whose failure returns false (by value iff required, through the nil-aware pointer form otherwise) and nothing else decides the result; (EQ-KIND) lists are compared positionally after a length test, sets and maps by membership after a length test — in the generated helpers and in wire.{Lists,Sets,Maps}AreEqual alike (the kind of comparison, not its text); (EQ-PRIM) in wire.ValuesAreEqual the case of every primitive wire type compares the two operands as values of that type's Go type (bool, int8, float64, int16, int32, int64 — the type of the matching constructor/getter), one derived from each argument: comparing another representation (raw bits) changes equality of doubles; (EQ-EXH) wire.ValuesAreEqual handles all 11 wire types and rejects differing types first; the hashable fast paths cover exactly the types toHashable can convert (so it cannot panic). (EQ-KIND accessors) Size, ValueType and KeyType of the two sides have each been found equal on every path to an answer other than false. NOT decided — and this is the bulk of the property: reflexivity/symmetry/transitivity as such, agreement of generated Equals with wire equality and with an independent structural comparison on concrete values (value-level statements no shape argument settles)."
	l.RuleText = "one obligation per (template, shape class) / function"
	l.Exhaustive = true
	mod := tmpl.Extract(c)
	elems := 1
	if l.Tier == "thorough" {
		elems = 2
	}
	xs := expansions(c, elems)
	// struct Equals
	if t := findTemplate(mod, "fieldGroupGenerator.Equals#1"); t == nil {
		l.Unk("EQ-FIELDS", "anchor", "", "struct Equals template not found")
	} else {
		for _, v := range xs[t].Variants {
			key := t.ID + ":[" + v.AtomString() + "]"
			fd := skelFunc(v, "Equals")
			if v.File == nil || fd == nil || len(fd.Body.List) < 2 {
				l.Bad("EQ-FIELDS", key, c.Rel(t.Pos), "Equals method missing or does not parse")
				continue
			}
			recv := recvName(fd)
			rhs := ""
			if len(fd.Type.Params.List) == 1 && len(fd.Type.Params.List[0].Names) == 1 {
				rhs = fd.Type.Params.List[0].Names[0].Name
			}
			first := nodeStr(v.Fset, fd.Body.List[0])
			wantFirst := fmt.Sprintf("if %s == nil { return %s == nil } else if %s == nil { return false }", recv, rhs, rhs)
			l.Check(first == wantFirst, "EQ-NIL", key, c.Rel(t.Pos), "nil receiver and nil argument are decided before any field is read", "Equals does not start with the nil tests on both sides: "+first)
			var bad []string
			els := variantElems(v)
			seen := map[string]int{}
			stmts := fd.Body.List[1:]
			for i, s := range stmts {
				str := nodeStr(v.Fset, s)
				if i == len(stmts)-1 {
					if str != "return true" {
						bad = append(bad, "does not end with return true: "+str)
					}
					continue
				}
				matched := false
				for _, e := range els {
					fn := "ƒequalsPtr"
					if elemRequired(v, e) {
						fn = "ƒequals"
					}
					want := fmt.Sprintf("if !%s(%sˑType, %s.ƒgoNameʃ%s, %s.ƒgoNameʃ%s) { return false }", fn, e, recv, e, rhs, e)
					if str == want {
						seen[e]++
						matched = true
					}
				}
				if !matched {
					bad = append(bad, "unexpected statement: "+str)
				}
			}
			for _, e := range els {
				if seen[e] != 1 {
					bad = append(bad, fmt.Sprintf("field %s is compared %d times (by value iff required)", e, seen[e]))
				}
			}
			sort.Strings(bad)
			l.Check(len(bad) == 0, "EQ-FIELDS", key, c.Rel(t.Pos), fmt.Sprintf("%d field(s) each compared once; result true only if all comparisons hold", len(els)), strings.Join(bad, "; "))
		}
	}
	// pointer comparison helpers
	if t := findTemplate(mod, "equalsGenerator.EqualsPtr#2"); t != nil {
		for _, v := range xs[t].Variants {
			src := ""
			if v.File != nil {
				for _, d := range v.File.Decls {
					if fd, ok := d.(*ast.FuncDecl); ok {
						src = nodeStr(v.Fset, fd.Body)
					}
				}
			}
			ok := strings.Contains(src, "if lhs != nil && rhs != nil { x := *lhs y := *rhs return ƒequals(δˑSpec, x, y) } return lhs == nil && rhs == nil")
			l.Check(ok, "EQ-NIL", t.ID, c.Rel(t.Pos), "both set: compare pointees; otherwise equal iff both nil", "pointer comparison helper does not cover the four nil combinations: "+src)
		}
	} else {
		l.Unk("EQ-NIL", "EqualsPtr#2", "", "template not found")
	}
	if t := findTemplate(mod, "equalsGenerator.EqualsPtr#1"); t != nil {
		for _, v := range xs[t].Variants {
			src := strings.Join(strings.Fields(v.Src), " ")
			ok := src == "((δˑLHS == nil && δˑRHS == nil) || (δˑLHS != nil && δˑRHS != nil && ƒequals(δˑSpec, δˑLHS, δˑRHS)))"
			l.Check(ok, "EQ-NIL", t.ID, c.Rel(t.Pos), "both nil, or both set and equal", "inline nil-aware comparison has the wrong shape: "+src)
		}
	} else {
		l.Unk("EQ-NIL", "EqualsPtr#1", "", "template not found")
	}
	l.Floor("EQ-NIL", 4)
	l.Floor("EQ-FIELDS", 2)

	// EQ-KIND on templates
	kindChecks := []struct{ id, kind string }{
		{"listGenerator.Equals#1", "positional"}, {"setGenerator.Equals#1", "membership"}, {"mapGenerator.Equals#1", "membership"}, {"mapGenerator.equalsUnhashable#1", "membership"},
	}
	for _, kc := range kindChecks {
		t := findTemplate(mod, kc.id)
		if t == nil {
			l.Unk("EQ-KIND", kc.id, "", "template not found")
			continue
		}
		for _, v := range xs[t].Variants {
			key := kc.id + ":[" + v.AtomString() + "]"
			if v.File == nil {
				l.Bad("EQ-KIND", key, c.Rel(t.Pos), "does not parse")
				continue
			}
			var fd *ast.FuncDecl
			for _, d := range v.File.Decls {
				if f, ok := d.(*ast.FuncDecl); ok {
					fd = f
				}
			}
			why := equalsKind(v, fd, kc.kind)
			l.Check(why == "", "EQ-KIND", key, c.Rel(t.Pos), kc.kind+" comparison after a length test", why)
		}
	}
	// EQ-KIND on wire
	for _, wc := range []struct{ fn, kind string }{{"ListsAreEqual", "positional"}, {"SetsAreEqual", "membership"}, {"MapsAreEqual", "membership"}, {"StructsAreEqual", "membership"}} {
		fobj := c.LookupFunc("wire", wc.fn)
		if fobj == nil {
			l.Unk("EQ-KIND", "wire."+wc.fn, "", "function not found")
			continue
		}
		fd := c.Decl(fobj)
		info := c.DeclPkg(fobj).TypesInfo
		src := nodeStr(c.Fset, fd.Body)
		var why []string
		_ = src
		positional := false
		ast.Inspect(fd.Body, func(n ast.Node) bool {
			rs, ok := n.(*ast.RangeStmt)
			if !ok || rs.Key == nil {
				return true
			}
			if _, isSlice := info.TypeOf(rs.X).Underlying().(*types.Slice); !isSlice {
				return true
			}
			k := nodeStr(c.Fset, rs.Key)
			ast.Inspect(rs.Body, func(m ast.Node) bool {
				if ix, ok := m.(*ast.IndexExpr); ok && nodeStr(c.Fset, ix.Index) == k {
					if _, isSlice := info.TypeOf(ix.X).Underlying().(*types.Slice); isSlice {
						positional = true
					}
				}
				return true
			})
			return true
		})
		if (wc.kind == "positional") != positional {
			why = append(why, fmt.Sprintf("positional comparison=%v, expected %s", positional, wc.kind))
		}
		// the size test guards every answer other than false
		if sf := c.SSAFunc(fobj); sf != nil && len(sf.Params) == 2 {
			// every descriptive accessor of the two sides (Size, and the element type tags
			// ValueType / KeyType when the parameter is a lazy collection) must have been found
			// equal on every path to an answer other than false
			accessors := []string{"Size"}
			if it, isI := sf.Params[0].Type().Underlying().(*types.Interface); isI {
				accessors = nil
				for i := 0; i < it.NumMethods(); i++ {
					m := it.Method(i)
					sig := m.Type().(*types.Signature)
					if sig.Params().Len() != 0 || sig.Results().Len() != 1 || core.IsErrorType(sig.Results().At(0).Type()) {
						continue
					}
					if _, isB := sig.Results().At(0).Type().Underlying().(*types.Basic); isB {
						accessors = append(accessors, m.Name())
					}
				}
				sort.Strings(accessors)
			}
			for _, acc := range accessors {
				acc := acc
				reads := func(v ssa.Value, p string) bool {
					if call, ok := v.(*ssa.Call); ok && call.Common().IsInvoke() && call.Common().Method.Name() == acc {
						return core.Sym(call.Common().Value) == p
					}
					return acc == "Size" && strings.HasPrefix(core.Sym(v), "len("+p+".")
				}
				edges := core.GuardEdges(sf, func(cm core.Cmp) bool {
					return cm.Op == token.EQL && ((reads(cm.X, "$0") && reads(cm.Y, "$1")) || (reads(cm.X, "$1") && reads(cm.Y, "$0")))
				})
				core.Instrs(sf, func(in ssa.Instruction) {
					r, ok := in.(*ssa.Return)
					if !ok || len(r.Results) != 1 {
						return
					}
					if k, isK := r.Results[0].(*ssa.Const); isK && k.Value != nil && k.Value.String() == "false" {
						return
					}
					if len(edges) == 0 || !core.AllPathsThroughEdges(sf, r.Block(), edges) {
						why = append(why, "the answer returned at "+c.Rel(r.Pos())+" can be other than false without "+acc+" of the two sides having been found equal")
					}
				})
			}
		}
		l.Check(len(why) == 0, "EQ-KIND", "wire."+wc.fn, c.Rel(fd.Pos()), wc.kind+" comparison after a size test", strings.Join(uniq(why), "; "))
	}
	l.Floor("EQ-KIND", 8)
	checkPerItemState(c, l)
	checkNotFoundUnequal(c, l)
	checkEqPrim(c, l)

	// EQ-EXH
	wireSwitchExhaustive(c, l, "EQ-EXH", "wire", "ValuesAreEqual", nil, false)
	if f := c.LookupFunc("wire", "ValuesAreEqual"); f != nil {
		fd := c.Decl(f)
		first := nodeStr(c.Fset, fd.Body.List[0])
		l.Check(strings.HasPrefix(first, "if left.typ != right.typ { return false }") || strings.Contains(first, ".Type() != "), "EQ-EXH", "ValuesAreEqual.type-first", c.Rel(fd.Pos()), "values of different wire types are unequal before any payload is read", "ValuesAreEqual does not compare the types first: "+first)
	}
	// hashable set == convertible set
	hs := switchTrueSet(c, "wire", "isHashable")
	// decided by evaluation rather than by the shape of the function (switch, table, if-chain)
	if f := c.SSAFunc(c.LookupFunc("wire", "isHashable")); f != nil && len(f.Params) == 1 {
		var dom []int64
		byCode := map[int64]string{}
		for n, k := range wireTypeCodes {
			dom = append(dom, k)
			byCode[k] = n
		}
		tab, prob := c.FiniteTable(f, 0, dom)
		if len(prob) == 0 {
			var names []string
			for k, v := range tab {
				if v.Kind == core.CBool && v.B {
					names = append(names, byCode[k])
				}
			}
			sort.Strings(names)
			hs = strings.Join(names, ",")
		}
	}
	cs := switchNonPanicSet(c, "wire", "toHashable")
	l.Check(hs != "" && hs == cs, "EQ-EXH", "hashable-table", "", "isHashable accepts exactly the types toHashable converts: {"+hs+"}", "isHashable accepts {"+hs+"} but toHashable converts {"+cs+"}: a hashable fast path can panic or a type is needlessly slow")
	l.Floor("EQ-EXH", 3)
}

// equalsKind: "" if the comparison function has the expected kind.
func equalsKind(v *tmpl.Variant, fd *ast.FuncDecl, kind string) string {
	if fd == nil || len(fd.Body.List) < 3 {
		return "no function body"
	}
	fset := v.Fset
	if nodeStr(fset, fd.Body.List[0]) != "if len(lhs) != len(rhs) { return false }" {
		return "does not start with a length test: " + nodeStr(fset, fd.Body.List[0])
	}
	if nodeStr(fset, fd.Body.List[len(fd.Body.List)-1]) != "return true" {
		return "does not end with return true"
	}
	body := nodeStr(fset, fd.Body)
	positional := false
	ast.Inspect(fd.Body, func(n ast.Node) bool {
		rs, ok := n.(*ast.RangeStmt)
		if !ok || rs.Key == nil || rs.Value == nil {
			return true
		}
		k := nodeStr(fset, rs.Key)
		if k == "_" {
			return true
		}
		ast.Inspect(rs.Body, func(m ast.Node) bool {
			if ix, ok := m.(*ast.IndexExpr); ok && nodeStr(fset, ix.Index) == k && nodeStr(fset, ix.X) == "rhs" && nodeStr(fset, rs.X) == "lhs" {
				// rhs[i] with i the index of lhs: positional — unless it is a map lookup "rv, ok := rhs[lk]"
				positional = true
			}
			return true
		})
		return true
	})
	isMapLookup := strings.Contains(body, ", ok := rhs[") || strings.Contains(body, ", ok := lhs[")
	if isMapLookup {
		positional = false
	}
	switch kind {
	case "positional":
		if !positional {
			return "elements are not compared position by position"
		}
	case "membership":
		if positional {
			return "elements are compared positionally although order must not matter"
		}
		nested := strings.Count(body, "range ") >= 2
		if !isMapLookup && !nested {
			return "no membership test (map lookup or nested search) found"
		}
		if !strings.Contains(body, "if !ok { return false }") && !strings.Contains(body, "; !ok { return false }") {
			return "a missing element does not make the collections unequal"
		}
	}
	return ""
}

func switchConsts(c *core.Ctx, rel, fn string, keep func(end string) bool) string {
	fobj := c.LookupFunc(rel, fn)
	if fobj == nil {
		return ""
	}
	fd := c.Decl(fobj)
	info := c.DeclPkg(fobj).TypesInfo
	set := map[string]bool{}
	for _, sw := range core.Switches(info, fd.Body) {
		if sw.IsType {
			continue
		}
		for _, cc := range sw.Clauses {
			if cc.List == nil {
				continue
			}
			end := core.ClauseEnd(info, cc)
			if end == "return" && len(cc.Body) == 1 {
				if rs, ok := cc.Body[0].(*ast.ReturnStmt); ok && len(rs.Results) == 1 {
					if tv, ok := info.Types[rs.Results[0]]; ok && tv.Value != nil && tv.Value.Kind() == constant.Bool {
						end = "return-" + tv.Value.String()
					}
				}
			}
			if !keep(end) {
				continue
			}
			for _, e := range cc.List {
				if id, ok := e.(*ast.Ident); ok {
					set[id.Name] = true
				}
			}
		}
	}
	var out []string
	for k := range set {
		out = append(out, k)
	}
	sort.Strings(out)
	return strings.Join(out, ",")
}

func switchTrueSet(c *core.Ctx, rel, fn string) string {
	return switchConsts(c, rel, fn, func(end string) bool { return end == "return-true" })
}

func switchNonPanicSet(c *core.Ctx, rel, fn string) string {
	return switchConsts(c, rel, fn, func(end string) bool { return end != "panic" })
}

var _ = core.ModPath

// checkEqPrim: per primitive wire type K, the comparison reached on the
// `typ == K` edge of wire.ValuesAreEqual is an == of two operands whose Go type
// is the value type of K (taken from the constructor/getter table), one derived
// from each argument.
func checkEqPrim(c *core.Ctx, l *core.Ledger) {
	f := c.SSAFunc(c.LookupFunc("wire", "ValuesAreEqual"))
	if f == nil {
		l.Unk("EQ-PRIM", "wire.ValuesAreEqual", "", "not found")
		return
	}
	sub := core.NewLedger("C14", "quick")
	rows := valueTable(c, sub)
	prim := map[int64]string{}
	for code, name := range map[int64]string{2: "TBool", 3: "TI8", 4: "TDouble", 6: "TI16", 8: "TI32", 10: "TI64"} {
		prim[code] = name
	}
	for code, name := range prim {
		row := rows[code]
		key := "ValuesAreEqual:" + name
		if row == nil {
			l.Unk("EQ-PRIM", key, c.Rel(f.Pos()), "no constructor/getter row for this type code")
			continue
		}
		// the true edge of typ == code
		edges := core.GuardEdges(f, func(cm core.Cmp) bool {
			k, ok := core.ConstInt(cm.Y)
			return cm.Op == token.EQL && ok && k == code && strings.HasSuffix(core.Sym(cm.X), ".typ")
		})
		if len(edges) == 0 {
			l.Unk("EQ-PRIM", key, c.Rel(f.Pos()), "no case for this type code")
			continue
		}
		// the return reached from that edge without further branching
		var ret *ssa.Return
		b := edges[0].To
		for i := 0; i < 10 && ret == nil; i++ {
			for _, in := range b.Instrs {
				if r, ok := in.(*ssa.Return); ok {
					ret = r
				}
			}
			if ret == nil {
				if len(b.Succs) != 1 {
					break
				}
				b = b.Succs[0]
			}
		}
		if ret == nil || len(ret.Results) != 1 {
			l.Unk("EQ-PRIM", key, c.Rel(f.Pos()), "the case does not end in a single return")
			continue
		}
		bo, ok := ret.Results[0].(*ssa.BinOp)
		if !ok || bo.Op != token.EQL {
			l.Bad("EQ-PRIM", key, c.Rel(ret.Pos()), "primitive values are not compared with ==: "+core.Sym(ret.Results[0]))
			continue
		}
		tx, ty := core.TypeLabel(bo.X.Type()), core.TypeLabel(bo.Y.Type())
		sx, sy := core.Sym(bo.X), core.Sym(bo.Y)
		okT := tx == row.goType && ty == row.goType
		if !okT && row.goType != "float64" && sx == "$0."+row.field && sy == "$1."+row.field {
			// integers and booleans are stored by an injective conversion into the payload field: equal payloads iff equal values
			okT = true
		}
		okArgs := strings.Contains(sx, "$0") && strings.Contains(sy, "$1") && !strings.Contains(sx, "$1") && !strings.Contains(sy, "$0") || strings.Contains(sx, "$1") && strings.Contains(sy, "$0") && !strings.Contains(sx, "$0") && !strings.Contains(sy, "$1")
		l.Check(okT && okArgs, "EQ-PRIM", key, c.Rel(ret.Pos()), "compared as "+row.goType+" values, one from each argument", fmt.Sprintf("values of wire type %s are compared as %s/%s (%s == %s) instead of as %s from each argument: equality differs from the value type's (e.g. +0.0 and -0.0, which are equal doubles, have different bits)", name, tx, ty, sx, sy, row.goType))
	}
	l.Floor("EQ-PRIM", 6)
}

// checkPerItemState: a callback handed to ForEach runs once per item. A
// captured boolean that the callback sets and also tests must be assigned in
// the callback before it is tested on every path: otherwise the outcome for one
// item (a "matched" flag) leaks into the next, and an unequal pair of maps or
// sets is found equal once any earlier item matched.
func checkPerItemState(c *core.Ctx, l *core.Ledger) {
	n := 0
	for _, f := range c.AllFuncs("wire") {
		if c.IsTestFile(f.Pos()) {
			continue
		}
		core.Instrs(f, func(in ssa.Instruction) {
			call, ok := in.(ssa.CallInstruction)
			if !ok || !call.Common().IsInvoke() || call.Common().Method.Name() != "ForEach" || len(call.Common().Args) != 1 {
				return
			}
			mc, ok := call.Common().Args[0].(*ssa.MakeClosure)
			if !ok {
				return
			}
			cl := mc.Fn.(*ssa.Function)
			n++
			var why []string
			for _, fv := range cl.FreeVars {
				pt, isP := fv.Type().Underlying().(*types.Pointer)
				if !isP {
					continue
				}
				if b, isB := pt.Elem().Underlying().(*types.Basic); !isB || b.Kind() != types.Bool {
					continue
				}
				var loads, stores []ssa.Instruction
				for _, r := range *fv.Referrers() {
					switch x := r.(type) {
					case *ssa.Store:
						if x.Addr == ssa.Value(fv) {
							stores = append(stores, x)
						}
					case *ssa.UnOp:
						loads = append(loads, x)
					}
				}
				if len(stores) == 0 || len(loads) == 0 {
					continue
				}
				for _, ld := range loads {
					if found, _ := core.PathFromEntryAvoiding(cl, func(i2 ssa.Instruction) bool {
						for _, st := range stores {
							if st == i2 {
								return true
							}
						}
						return false
					}, func(i2 ssa.Instruction) bool { return i2 == ld }); found {
						why = append(why, fmt.Sprintf("the flag %s is tested at %s on a path on which this call has not assigned it: it still holds what an earlier item left there", fv.Name(), c.Rel(ld.Pos())))
					}
				}
			}
			l.Check(len(why) == 0, "EQ-KIND", "per-item:"+core.SSAName(cl), c.Rel(cl.Pos()), "the per-item callback carries no boolean state from one item to the next", strings.Join(uniq(why), "; "))
		})
	}
	l.Units["foreach_callbacks_in_wire"] = n
}
