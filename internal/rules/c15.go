package rules

import (
	"fmt"
	"go/ast"
	"go/token"
	"regexp"
	"sort"
	"strings"

	"golang.org/x/tools/go/ssa"

	"verif/internal/core"
	"verif/internal/tmpl"
)

func init() { Registry["C15"] = checkC15 }

// fieldValueUses lists how the field value expression F occurs in a method
// body: "niltest" for F != nil / F == nil, "other:<context>" otherwise.
func fieldValueUses(v *tmpl.Variant, fd *ast.FuncDecl, F string) []string {
	var out []string
	fset := v.Fset
	var walk func(n ast.Node, parent ast.Node)
	walk = func(n ast.Node, parent ast.Node) {
		if n == nil {
			return
		}
		if e, ok := n.(ast.Expr); ok && nodeStr(fset, e) == F {
			if be, ok := parent.(*ast.BinaryExpr); ok && (be.Op == token.NEQ || be.Op == token.EQL) {
				other := be.Y
				if be.Y == e {
					other = be.X
				}
				if nodeStr(fset, other) == "nil" {
					out = append(out, "niltest")
					return
				}
			}
			out = append(out, "other:"+nodeStr(fset, parent))
			return
		}
		ast.Inspect(n, func(m ast.Node) bool {
			if m == nil || m == n {
				return true
			}
			walk(m, n)
			return false
		})
	}
	walk(fd.Body, fd)
	return out
}

var reQuotedField = regexp.MustCompile(`"ƒgoNameʃ(ε\d+[\pL\pN_ˑ]*?): ƒredactedContent"`)

func checkC15(c *core.Ctx, l *core.Ledger) {
	l.Explanation = "Static clauses of C15: (REDACT-STRING / REDACT-ZAP) taint on the templates: on every shape class where a field is marked redacted, the String and MarshalLogObject templates mention the field's value only in a nil test and emit the constant redaction marker for it; where a field is marked no-log the zap template emits nothing that refers to it; (ANNOT) the predicates read exactly the documented annotation keys go.redact and go.nolog and the marker is a Go constant; (ERROR=STRING) an exception's Error() is a single return of String(); (TYPEDEF-DELEGATE) typedef String / MarshalLog* only cast to the target and delegate; (ZAP-ELEM) container zap marshalers hand each element to the marshaler of the element type (so struct elements are logged by their own MarshalLogObject). (ANNOT-FLOW) wherever gen builds a FieldSpec out of another one, Annotations are among the copied fields, so the Args/Result structs of service functions keep go.redact / go.nolog. (ANNOT-CARRY) compile.compileAnnotations stores every parsed annotation under its name whatever its value: no completed iteration skips the store, so presence in the IDL is presence in FieldSpec.Annotations. (LABEL) the function printing log keys returns the go.label value or the Thrift name unchanged. NOT decided: that fmt's %v reaches the nested String() at run time for every container nesting; that every other set field appears under its label."
	l.RuleText = "one obligation per (template, shape class) / predicate"
	l.Assumptions = []string{"fmt and zap call String()/MarshalLogObject of nested values (run-time dispatch)"}
	l.Exhaustive = true
	mod := tmpl.Extract(c)
	elems := 1
	if l.Tier == "thorough" {
		elems = 2
	}
	xs := expansions(c, elems)

	// REDACT-STRING
	if t := findTemplate(mod, "fieldGroupGenerator.String#1"); t == nil {
		l.Unk("REDACT-STRING", "anchor", "", "String template not found")
	} else {
		for _, v := range xs[t].Variants {
			key := t.ID + ":[" + v.AtomString() + "]"
			fd := skelFunc(v, "String")
			if v.File == nil || fd == nil {
				l.Bad("REDACT-STRING", key, c.Rel(t.Pos), "String method missing or does not parse")
				continue
			}
			recv := recvName(fd)
			var bad []string
			nred := 0
			for _, e := range variantElems(v) {
				F := recv + ".ƒgoNameʃ" + e
				uses := fieldValueUses(v, fd, F)
				// a shape class in which the template never consulted the predicate emits the
				// same text for redacted and unredacted fields: it must then be safe for both
				consulted := v.Consulted["ƒshouldRedactʃ"+e]
				if v.Atoms["ƒshouldRedactʃ"+e] || !consulted {
					nred++
					for _, u := range uses {
						if u != "niltest" {
							bad = append(bad, "the value of redacted field "+e+" flows into the string: "+u)
						}
					}
					body := nodeStr(v.Fset, fd.Body)
					if !strings.Contains(body, `"ƒgoNameʃ`+e+`: ƒredactedContent"`) {
						bad = append(bad, "redacted field "+e+" is not rendered as the redaction marker")
					}
				}
			}
			sort.Strings(bad)
			l.Add(core.Obligation{Rule: "REDACT-STRING", Key: key, Pos: c.Rel(t.Pos), Status: st(len(bad) == 0), Trivial: nred == 0,
				Detail: map[bool]string{true: fmt.Sprintf("%d redacted field(s): value used only in nil tests; marker emitted", nred), false: strings.Join(bad, "; ")}[len(bad) == 0]})
		}
	}
	// REDACT-ZAP
	if t := findTemplate(mod, "fieldGroupGenerator.Zap#1"); t == nil {
		l.Unk("REDACT-ZAP", "anchor", "", "Zap template not found")
	} else {
		for _, v := range xs[t].Variants {
			key := t.ID + ":[" + v.AtomString() + "]"
			fd := skelFunc(v, "MarshalLogObject")
			if v.File == nil || fd == nil {
				l.Bad("REDACT-ZAP", key, c.Rel(t.Pos), "MarshalLogObject missing or does not parse")
				continue
			}
			recv := recvName(fd)
			body := nodeStr(v.Fset, fd.Body)
			var bad []string
			n := 0
			for _, e := range variantElems(v) {
				F := recv + ".ƒgoNameʃ" + e
				uses := fieldValueUses(v, fd, F)
				optConsulted := v.Consulted["ƒzapOptOutʃ"+e]
				redConsulted := v.Consulted["ƒshouldRedactʃ"+e] || v.Atoms["ƒzapOptOutʃ"+e]
				switch {
				case v.Atoms["ƒzapOptOutʃ"+e] || !optConsulted:
					n++
					if len(uses) > 0 || strings.Contains(body, e) {
						bad = append(bad, "no-log field "+e+" is referenced in the log method")
					}
				case v.Atoms["ƒshouldRedactʃ"+e] || !redConsulted:
					n++
					for _, u := range uses {
						if u != "niltest" {
							bad = append(bad, "the value of redacted field "+e+" reaches the encoder: "+u)
						}
					}
					if !strings.Contains(body, `.AddString("ƒfieldLabelˑ`+e+`", "ƒredactedContent")`) {
						bad = append(bad, "redacted field "+e+" is not logged as the redaction marker under its label")
					}
				}
			}
			sort.Strings(bad)
			l.Add(core.Obligation{Rule: "REDACT-ZAP", Key: key, Pos: c.Rel(t.Pos), Status: st(len(bad) == 0), Trivial: n == 0,
				Detail: map[bool]string{true: fmt.Sprintf("%d redacted/no-log field(s) handled", n), false: strings.Join(bad, "; ")}[len(bad) == 0]})
		}
	}
	l.Floor("REDACT-STRING", 3)
	l.Floor("REDACT-ZAP", 3)

	// ANNOT: predicates read the documented keys; marker is a constant
	for _, a := range []struct{ fn, key string }{{"shouldRedact", "go.redact"}, {"zapOptOut", "go.nolog"}} {
		f := c.SSAFunc(c.LookupFunc("gen", a.fn))
		if f == nil {
			l.Unk("ANNOT", a.fn, "", "predicate not found")
			continue
		}
		ok := false
		n := 0
		core.Instrs(f, func(in ssa.Instruction) {
			if lk, isLk := in.(*ssa.Lookup); isLk {
				n++
				if k, isC := lk.Index.(*ssa.Const); isC && k.Value != nil && strings.Trim(k.Value.ExactString(), `"`) == a.key {
					if fld, _ := core.LoadedField(lk.X); fld != nil && core.FieldName(fld) == "Annotations" {
						ok = true
					}
				}
			}
		})
		// ... and its answer is the presence of the key on every path: each return is the
		// lookup's comma-ok itself, or a constant reached only through the matching edge of a test of it
		why := ""
		if ok && n == 1 {
			var present ssa.Value
			core.Instrs(f, func(in ssa.Instruction) {
				if ex, isEx := in.(*ssa.Extract); isEx && ex.Index == 1 {
					if _, isLk := ex.Tuple.(*ssa.Lookup); isLk {
						present = ex
					}
				}
			})
			var tEdges, fEdges []core.Edge
			for _, b := range f.Blocks {
				if ifi, isIf := b.Instrs[len(b.Instrs)-1].(*ssa.If); isIf && present != nil {
					cond, neg := ifi.Cond, false
					for {
						if u, isU := cond.(*ssa.UnOp); isU && u.Op == token.NOT {
							cond, neg = u.X, !neg
							continue
						}
						break
					}
					if cond == present {
						t, fl := core.Edge{From: b, To: b.Succs[0]}, core.Edge{From: b, To: b.Succs[1]}
						if neg {
							t, fl = fl, t
						}
						tEdges, fEdges = append(tEdges, t), append(fEdges, fl)
					}
				}
			}
			core.Instrs(f, func(in ssa.Instruction) {
				r, isR := in.(*ssa.Return)
				if !isR || len(r.Results) != 1 || why != "" {
					return
				}
				switch v := r.Results[0].(type) {
				case *ssa.Const:
					val := v.Value != nil && v.Value.String() == "true"
					edges := fEdges
					if val {
						edges = tEdges
					}
					if len(edges) == 0 || !core.AllPathsThroughEdges(f, r.Block(), edges) {
						why = fmt.Sprintf("the predicate answers %v at %s on a path that is not decided by the presence of the key alone", val, c.Rel(r.Pos()))
					}
				default:
					if r.Results[0] != present {
						why = "the predicate's answer at " + c.Rel(r.Pos()) + " is not the presence of the key"
					}
				}
			})
		}
		l.Check(ok && n == 1 && why == "", "ANNOT", a.fn, c.Rel(f.Pos()), "true iff the field's annotations contain the key "+a.key, "predicate does not test exactly the annotation key "+a.key+": "+why)
	}
	if f := c.SSAFunc(c.LookupFunc("gen", "redactedContent")); f != nil {
		ok := false
		core.Instrs(f, func(in ssa.Instruction) {
			if r, isR := in.(*ssa.Return); isR && len(r.Results) == 1 {
				if k, isC := r.Results[0].(*ssa.Const); isC && k.Value != nil && len(k.Value.ExactString()) > 2 {
					ok = true
				}
			}
		})
		l.Check(ok, "ANNOT", "redactedContent", c.Rel(f.Pos()), "the redaction marker is a non-empty compile-time constant", "the redaction marker is not a constant")
	} else {
		l.Unk("ANNOT", "redactedContent", "", "function not found")
	}
	// the templates bind the names to these functions
	for _, id := range []string{"fieldGroupGenerator.String#1", "fieldGroupGenerator.Zap#1"} {
		if t := findTemplate(mod, id); t != nil {
			b1, b2 := mod.Lookup(t, "shouldRedact"), mod.Lookup(t, "redactedContent")
			ok := b1 != nil && b1.Obj != nil && b1.Obj == c.LookupFunc("gen", "shouldRedact") && b2 != nil && b2.Obj != nil && b2.Obj == c.LookupFunc("gen", "redactedContent")
			if id == "fieldGroupGenerator.Zap#1" {
				b3 := mod.Lookup(t, "zapOptOut")
				ok = ok && b3 != nil && b3.Obj != nil && b3.Obj == c.LookupFunc("gen", "zapOptOut")
			}
			l.Check(ok, "ANNOT", id+":bindings", c.Rel(t.Pos), "template predicates are bound to gen.shouldRedact / gen.zapOptOut / gen.redactedContent", "template predicate names are bound to other functions")
		}
	}
	l.Floor("ANNOT", 5)
	checkFieldSpecCopies(c, l, "ANNOT-FLOW")
	checkAnnotCarry(c, l, "ANNOT-CARRY")
	checkLabelVerbatim(c, l, mod, "LABEL")

	// ERROR=STRING
	foundErr := false
	for _, t := range mod.Templates {
		for _, v := range xs[t].Variants {
			if fd := skelFunc(v, "Error"); fd != nil && fd.Recv != nil {
				foundErr = true
				body := nodeStr(v.Fset, fd.Body)
				l.Check(body == "{ return "+recvName(fd)+".String() }", "ERROR=STRING", t.ID, c.Rel(t.Pos), "Error() returns exactly String()", "an exception's Error() is not a plain return of String(): "+body)
			}
		}
	}
	if !foundErr {
		l.Unk("ERROR=STRING", "anchor", "", "no template declares an Error() method")
	}
	// TYPEDEF-DELEGATE
	if t := findTemplate(mod, "typedef#1"); t != nil {
		for _, v := range xs[t].Variants {
			if v.File == nil {
				continue
			}
			key := "typedef:[" + v.AtomString() + "]"
			var bad []string
			for _, name := range []string{"String", "MarshalLogObject", "MarshalLogArray"} {
				fd := skelFunc(v, name)
				if fd == nil {
					continue
				}
				body := nodeStr(v.Fset, fd.Body)
				recv := recvName(fd)
				// the receiver may only appear inside a conversion to the target type
				cnt := strings.Count(body, recv)
				conv := strings.Count(body, ")("+recv+")")
				if cnt != conv+strings.Count(body, "ƒzapMarshaler(δˑTarget, "+recv+")")+strings.Count(body, "ƒzapTypedefGenerateMarshaler(δ, "+recv+")") {
					// count identifier occurrences exactly
					n := 0
					ast.Inspect(fd.Body, func(nd ast.Node) bool {
						if id, ok := nd.(*ast.Ident); ok && id.Name == recv {
							n++
						}
						return true
					})
					convN := 0
					ast.Inspect(fd.Body, func(nd ast.Node) bool {
						if call, ok := nd.(*ast.CallExpr); ok && len(call.Args) >= 1 {
							last := call.Args[len(call.Args)-1]
							if id, ok := last.(*ast.Ident); ok && id.Name == recv {
								convN++
							}
						}
						return true
					})
					if n != convN {
						bad = append(bad, name+" uses the typedef value other than by converting/delegating it: "+body)
					}
				}
			}
			l.Check(len(bad) == 0, "TYPEDEF-DELEGATE", key, c.Rel(t.Pos), "String / MarshalLog* only convert to the target type and delegate", strings.Join(bad, "; "))
		}
	}
	// ZAP-ELEM: container zappers pass elements to the element marshaler
	for _, id := range []string{"listGenerator.zapMarshaler#1", "setGenerator.zapMarshaler#1", "mapGenerator.zapStringKeyMarshaler#1", "mapGenerator.zapMapItemMarshaler#1"} {
		t := findTemplate(mod, id)
		if t == nil {
			l.Unk("ZAP-ELEM", id, "", "template not found")
			continue
		}
		for _, v := range xs[t].Variants {
			key := id + ":[" + v.AtomString() + "]"
			src := strings.Join(strings.Fields(v.Src), " ")
			ok := strings.Contains(src, "ƒzapMarshaler(δˑTypeˑValueSpec, ") || strings.Contains(src, "ƒzapMarshaler(δˑTypeˑKeySpec, ") ||
				(strings.Contains(src, "ƒzapMarshaler(δˑKeyType, ") && strings.Contains(src, "ƒzapMarshaler(δˑValueType, "))
			l.Check(ok, "ZAP-ELEM", key, c.Rel(t.Pos), "each element is encoded through the marshaler of the element type", "container zap marshaler does not delegate elements to the element type's marshaler")
		}
	}
	l.Floor("ZAP-ELEM", 4)
	_ = reQuotedField
}
