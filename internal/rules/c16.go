package rules

import (
	"fmt"
	"go/token"
	"go/types"
	"strings"

	"golang.org/x/tools/go/ssa"

	"verif/internal/core"
)

func init() { Registry["C16"] = checkC16 }

// allocsOf returns the composite-literal allocations of the named struct type
// in the given packages.
func allocsOf(c *core.Ctx, typeName string, rels ...string) []*ssa.Alloc {
	var out []*ssa.Alloc
	for _, f := range c.AllFuncs(rels...) {
		if c.IsTestFile(f.Pos()) {
			continue
		}
		core.Instrs(f, func(in ssa.Instruction) {
			if a, ok := in.(*ssa.Alloc); ok && core.RecvTypeName(a.Type()) == typeName {
				if n, ok := a.Type().(*types.Pointer).Elem().(*types.Named); ok && n.Obj().Pkg() != nil && strings.HasPrefix(n.Obj().Pkg().Path(), core.ModPath) {
					out = append(out, a)
				}
			}
		})
	}
	return out
}

// callsIn returns calls in f whose callee (static or interface method) has the given name.
func callsIn(f *ssa.Function, name string) []ssa.Instruction {
	var out []ssa.Instruction
	core.Instrs(f, func(in ssa.Instruction) {
		call, ok := in.(ssa.CallInstruction)
		if !ok {
			return
		}
		cc := call.Common()
		if cc.IsInvoke() && cc.Method.Name() == name {
			out = append(out, in)
		} else if cal := cc.StaticCallee(); cal != nil && cal.Name() == name {
			out = append(out, in)
		}
	})
	return out
}

// everyPathFromPasses: every path from just after `from` to a return passes an
// instruction satisfying barrier.
func everyPathFromPasses(from ssa.Instruction, barrier func(ssa.Instruction) bool) bool {
	leak, _ := core.PathToExitAvoiding(from, barrier, false)
	return !leak
}

func checkC16(c *core.Ctx, l *core.Ledger) {
	l.Explanation = "Static clauses of C16: (HANDSHAKE-GATE) the only construction of a plugin handle is in NewTransportHandle and is dominated by a successful handshake call, the name equality and the API-version equality; the only construction of a service-generator client is in transportHandle.ServiceGenerator and is dominated by the advertised-feature hit and the running test; the plugin's Generate RPC is invoked only through it — hence no generate request without a successful handshake advertising the feature; (CLOSE) transportHandle.Close runs once (atomic swap), sends Goodbye and still closes the transport when Goodbye fails; process.Client.Close closes both pipes and waits for the process on every path; a failed handshake closes the transport; a partially failed fan-out closes the handles opened so far; the CLI registers the deferred Close right after the handles are opened and before any later return; (FRAMES) frame Reader/Writer work under their mutex and move whole frames with ReadFull/CopyN/full-buffer writes; Serve closes reader and writer on every exit; Stop only flips the flag and closes the reader; (LIBRARY) plugin.Main always serves Plugin and serves ServiceGenerator iff it advertises the feature. (ERR-KEEP) no error value is lost: none is assigned to a variable that is never read (an inner declaration shadowing the checked one), none is overwritten by the next loop iteration unseen, and no deferred function replaces the error result without regard to the error already there. NOT decided: behaviour of real processes, exit messages, that exactly one goodbye reaches a plugin."
	l.RuleText = "one obligation per construction site / close path / framing primitive"
	l.Assumptions = []string{"os/exec pipes and Wait behave as documented"}

	checkHandshakeGate(c, l)

	// ---- CLOSE
	if f := c.SSAFunc(c.LookupFunc("internal/plugin", "transportHandle.Close")); f != nil {
		var why []string
		swaps, gb := callsIn(f, "Swap"), callsIn(f, "Goodbye")
		if len(swaps) != 1 || len(gb) != 1 {
			why = append(why, "expected one Running.Swap and one Goodbye call")
		} else {
			// Goodbye only after Swap
			if found, _ := core.PathFromEntryAvoiding(f, func(in ssa.Instruction) bool { return in == swaps[0] }, func(in ssa.Instruction) bool { return in == gb[0] }); found {
				why = append(why, "Goodbye can be sent without the closed-once swap")
			}
			// after Goodbye every path tests the transport for io.Closer (and closes it when it is one)
			passes := everyPathFromPasses(gb[0], func(in ssa.Instruction) bool {
				ta, ok := in.(*ssa.TypeAssert)
				return ok && core.TypeLabel(ta.AssertedType) == "io.Closer"
			})
			if !passes {
				why = append(why, "a path from Goodbye to return skips closing the transport (e.g. when Goodbye fails)")
			}
			closes := callsIn(f, "Close")
			if len(closes) == 0 {
				why = append(why, "the transport is never closed")
			}
		}
		l.Check(len(why) == 0, "CLOSE", "transportHandle.Close", c.Rel(f.Pos()), "closed once; Goodbye is sent and the transport is closed whether or not Goodbye succeeded", strings.Join(why, "; "))
	} else {
		l.Unk("CLOSE", "transportHandle.Close", "", "not found")
	}
	if f := c.SSAFunc(c.LookupFunc("internal/process", "Client.Close")); f != nil {
		var why []string
		swaps := callsIn(f, "Swap")
		if len(swaps) != 1 {
			why = append(why, "no closed-once swap")
		} else {
			// the not-yet-closed edge
			var start ssa.Instruction = swaps[0]
			wait := callsIn(f, "Wait")
			closes := callsIn(f, "Close")
			if len(wait) != 1 || len(closes) < 2 {
				why = append(why, fmt.Sprintf("expected two pipe Close calls and one Wait (found %d/%d)", len(closes), len(wait)))
			} else {
				// every path from the swap that continues (not the early return) passes both closes and the wait
				for _, target := range append(append([]ssa.Instruction{}, closes...), wait[0]) {
					tgt := target
					leak, _ := core.PathAvoiding(start, func(in ssa.Instruction) bool { return in == tgt }, func(in ssa.Instruction) bool {
						r, ok := in.(*ssa.Return)
						if !ok {
							return false
						}
						// the early "already stopped" return is the block reached directly from the swap test
						return !earlyReturnAfter(swaps[0], r)
					})
					if leak {
						why = append(why, "a path to return skips "+c.Rel(tgt.Pos()))
					}
				}
			}
		}
		l.Check(len(why) == 0, "CLOSE", "process.Client.Close", c.Rel(f.Pos()), "both pipes are closed and the process is reaped on every path of the first Close", strings.Join(why, "; "))
	} else {
		l.Unk("CLOSE", "process.Client.Close", "", "not found")
	}
	if f := c.SSAFunc(c.LookupFunc("internal/plugin", "Flag.Handle")); f != nil {
		nt := callsIn(f, "NewTransportHandle")
		ok := false
		if len(nt) == 1 {
			fe := failureEdges(nt[0])
			closes := callsIn(f, "Close")
			// every error return after the handshake failed is preceded by transport.Close()
			ok = len(fe) > 0 && len(closes) > 0
			for _, e := range fe {
				reach, _ := core.PathFromEntryAvoiding(f, func(in ssa.Instruction) bool {
					for _, cl := range closes {
						if in == cl {
							return true
						}
					}
					return false
				}, func(in ssa.Instruction) bool {
					r, isR := in.(*ssa.Return)
					return isR && reachableFrom(e.To, r.Block()) && e.To.Dominates(r.Block())
				})
				if reach {
					ok = false
				}
			}
		}
		l.Check(ok, "CLOSE", "Flag.Handle", c.Rel(f.Pos()), "a failed handshake closes the transport (pipes closed, process reaped) before returning the error", "a failed handshake returns without closing the transport: the plugin process is leaked")
	} else {
		l.Unk("CLOSE", "Flag.Handle", "", "not found")
	}
	if f := c.SSAFunc(c.LookupFunc("internal/plugin", "Flags.Handle")); f != nil {
		closes := callsIn(f, "Close")
		ok := len(closes) >= 1
		// the error return passes multi.Close()
		if ok {
			core.Instrs(f, func(in ssa.Instruction) {
				r, isR := in.(*ssa.Return)
				if !isR || core.IsNilErrorReturn(r) {
					return
				}
				found, _ := core.PathFromEntryAvoiding(f, func(i2 ssa.Instruction) bool { return i2 == closes[0] }, func(i2 ssa.Instruction) bool { return i2 == in })
				if found {
					ok = false
				}
			})
		}
		why := "a partial failure returns without closing the handles that were opened"
		if ok {
			// what is closed is everything that was opened: the receiver of Close is the very collection the
			// fan-out callback stores its handles in, or is built from it by a loop that visits all of it
			if w := closesWholeCollection(f, closes[0]); w != "" {
				ok, why = false, w
			}
		}
		l.Check(ok, "CLOSE", "Flags.Handle", c.Rel(f.Pos()), "when any plugin fails to open, all handles opened so far are closed before the error is returned", why)
	} else {
		l.Unk("CLOSE", "Flags.Handle", "", "not found")
	}
	if f := c.SSAFunc(c.LookupFunc("", "do")); f != nil {
		hs := callsIn(f, "Handle")
		var deferClose ssa.Instruction
		nClose := 0
		for _, fn := range core.WithClosures(f) {
			nClose += len(callsIn(fn, "Close"))
		}
		core.Instrs(f, func(in ssa.Instruction) {
			if d, ok := in.(*ssa.Defer); ok {
				// deferred closure that calls Close
				if mc, ok := d.Call.Value.(*ssa.MakeClosure); ok {
					if len(callsIn(mc.Fn.(*ssa.Function), "Close")) > 0 {
						deferClose = in
					}
				}
				if cal := d.Call.StaticCallee(); cal != nil && cal.Name() == "Close" {
					deferClose = in
				}
			}
		})
		ok := len(hs) == 1 && deferClose != nil
		why := ""
		if ok {
			okE := successEdges(f, func(call *ssa.Call) bool { return ssa.Instruction(call) == hs[0] })
			if len(okE) == 0 {
				ok, why = false, "the error test on Plugins.Handle was not found"
			}
			// from the success edge no return is reachable before the defer is registered
			for _, e := range okE {
				if reachesReturnBefore(e.To, deferClose) {
					ok = false
					why = "a return is reachable after the plugins were opened and before Close is deferred"
				}
			}
			if nClose != 1 {
				ok = false
				why = fmt.Sprintf("Close is called %d times in do (expected only the deferred one)", nClose)
			}
		} else {
			why = "Plugins.Handle call or deferred Close not found"
		}
		l.Check(ok, "CLOSE", "main.do", c.Rel(f.Pos()), "the deferred Close is registered before any return that follows a successful Plugins.Handle, and nothing else closes the handles earlier", why)
		// CLOSE-ERR: what the deferred Close reports becomes part of do's result
		if deferClose != nil {
			why := closeErrorReachesResult(f, deferClose.(*ssa.Defer))
			l.Check(why == "", "CLOSE", "main.do:close-error", c.Rel(deferClose.Pos()), "the error of the deferred Close is stored into the function's result, which is read after the deferred calls ran", why)
		}
	} else {
		l.Unk("CLOSE", "main.do", "", "not found")
	}
	l.Floor("CLOSE", 5)
	checkErrKeep(c, l, "ERR-KEEP", []string{"internal/plugin", "internal/process", "internal/frame", "", "plugin", "internal/envelope", "internal/multiplex"})

	// ---- FRAMES
	for _, m := range []struct{ typ, fn string }{{"Reader", "Read"}, {"Writer", "Write"}} {
		f := c.SSAFunc(c.LookupFunc("internal/frame", m.typ+"."+m.fn))
		if f == nil {
			l.Unk("FRAMES", m.typ+"."+m.fn, "", "not found")
			continue
		}
		l.Check(lockedThroughout(f), "FRAMES", m.typ+"."+m.fn+":mutex", c.Rel(f.Pos()), "Lock is the first effect and Unlock is deferred: a frame is transferred atomically", "the frame primitive does not hold its mutex from start to finish")
	}
	if f := c.SSAFunc(c.LookupFunc("internal/frame", "Writer.Write")); f != nil {
		ok := true
		n := 0
		core.Instrs(f, func(in ssa.Instruction) {
			call, isC := in.(ssa.CallInstruction)
			if !isC || !call.Common().IsInvoke() || call.Common().Method.Name() != "Write" {
				return
			}
			n++
			a := call.Common().Args[0]
			if _, isP := a.(*ssa.Parameter); isP {
				return
			}
			if sl, isS := a.(*ssa.Slice); isS && sl.Low == nil && sl.High == nil {
				return
			}
			ok = false
		})
		// length prefix is big-endian uint32 of len(b)
		pre := false
		core.Instrs(f, func(in ssa.Instruction) {
			if call, isC := in.(*ssa.Call); isC {
				if o, bits, put, okE := endianOf(call.Call.StaticCallee()); okE && put && o == "be" && bits == 32 && strings.HasPrefix(core.Sym(call.Call.Args[2]), "len($1)") {
					pre = true
				}
			}
		})
		l.Check(ok && n == 2 && pre, "FRAMES", "Writer.Write:layout", c.Rel(f.Pos()), "4-byte big-endian length of the payload, then the whole payload", "frame writer does not emit (be32 len, payload) with full-buffer writes")
	}
	if f := c.SSAFunc(c.LookupFunc("internal/frame", "Reader.Read")); f != nil {
		full := 0
		be := false
		partial := ""
		// Read and whatever helpers of the package it delegates to
		core.WalkInlined(f, inlineHelpers(), func(in ssa.Instruction, via []*ssa.Call) {
			if core.IsCallTo(in, "io", "ReadFull") || core.IsCallTo(in, "io", "CopyN") {
				full++
			}
			if core.IsCallTo(in, "io", "ReadAtLeast") {
				if core.IsFullRead(in) {
					full++ // ReadAtLeast(r, b, len(b)) is ReadFull (len of a whole array is its constant length)
				} else {
					partial = "io.ReadAtLeast with a minimum below the buffer length at " + c.Rel(in.Pos())
				}
			}
			// the length stays unsigned until it is widened: a detour through a signed 32-bit type turns
			// prefixes >= 0x80000000 into negative sizes (make panics, the host dies without shutting plugins down)
			if cv, isCv := in.(*ssa.Convert); isCv {
				if call, isCall := cv.X.(*ssa.Call); isCall {
					if o, bits, put, okE := endianOf(call.Call.StaticCallee()); okE && !put && o == "be" && bits == 32 {
						if b, isB := cv.Type().Underlying().(*types.Basic); isB && (b.Kind() == types.Int32 || b.Kind() == types.Int16 || b.Kind() == types.Int8) {
							partial = "the frame length is reinterpreted as a signed " + b.Name() + " at " + c.Rel(in.Pos()) + ": large prefixes become negative sizes"
						}
					}
				}
			}
			if call, isC := in.(*ssa.Call); isC {
				if o, bits, put, okE := endianOf(call.Call.StaticCallee()); okE && !put && o == "be" && bits == 32 {
					be = true
				}
			}
		})
		l.Check(full >= 3 && be && partial == "", "FRAMES", "Reader.Read:layout", c.Rel(f.Pos()), "length prefix and payload are read with ReadFull/CopyN; the prefix is a big-endian uint32", "frame reader does not read (be32 len, payload) with full reads "+partial)
	}
	checkNoRawRead(c, l, "FRAMES-FULLREAD", []string{"internal/frame"})
	if f := c.SSAFunc(c.LookupFunc("internal/frame", "Server.Serve")); f != nil {
		// a deferred closure closes both reader and writer, registered before the loop
		var def ssa.Instruction
		core.Instrs(f, func(in ssa.Instruction) {
			if d, ok := in.(*ssa.Defer); ok {
				// the deferred function: a closure, or a function/method of the package called directly
				var df *ssa.Function
				if mc, ok := d.Call.Value.(*ssa.MakeClosure); ok {
					df = funcValueTarget(mc)
				} else if cal := d.Call.StaticCallee(); cal != nil && cal.Pkg == f.Pkg {
					df = cal
				}
				if df != nil && len(callsIn(df, "Close")) >= 2 {
					def = in
				}
			}
		})
		ok := def != nil
		if ok {
			// no return reachable from the point after the running swap without having passed the defer... the
			// only earlier return is "already running"
			reads := callsIn(f, "Read")
			for _, r := range reads {
				if found, _ := core.PathFromEntryAvoiding(f, func(in ssa.Instruction) bool { return in == def }, func(in ssa.Instruction) bool { return in == r }); found {
					ok = false
				}
			}
		}
		l.Check(ok, "FRAMES", "Server.Serve:close", c.Rel(f.Pos()), "reader and writer are closed by a deferred function registered before the first frame is read", "Serve can exit without closing its reader and writer")
	}
	if f := c.SSAFunc(c.LookupFunc("internal/frame", "Server.Stop")); f != nil {
		ok := len(callsIn(f, "Swap")) == 1 && len(callsIn(f, "Close")) == 1 && len(callsIn(f, "Write")) == 0
		why := "Stop does more than flipping the flag and closing the reader"
		if ok {
			// the reader is closed exactly when the server was running: the Close lies under the edge on which the
			// swapped-out old value of the flag is true (followed through negations)
			sw, _ := callsIn(f, "Swap")[0].(ssa.Value)
			cl := callsIn(f, "Close")[0]
			var edges []core.Edge
			var walk func(v ssa.Value, neg bool, d int)
			walk = func(v ssa.Value, neg bool, d int) {
				if v == nil || d > 4 || v.Referrers() == nil {
					return
				}
				for _, r := range *v.Referrers() {
					switch x := r.(type) {
					case *ssa.If:
						idx := 0
						if neg {
							idx = 1
						}
						edges = append(edges, core.Edge{From: x.Block(), To: x.Block().Succs[idx]})
					case *ssa.UnOp:
						if x.Op == token.NOT {
							walk(x, !neg, d+1)
						}
					}
				}
			}
			walk(sw, false, 0)
			if len(edges) == 0 || !core.AllPathsThroughEdges(f, cl.Block(), edges) {
				ok, why = false, "the reader is not closed exactly when the server was running (the test of the swapped flag is missing or inverted): a running server is never stopped"
			}
		}
		l.Check(ok, "FRAMES", "Server.Stop", c.Rel(f.Pos()), "Stop flips the running flag and, if the server was running, closes the reader only (the reply to Goodbye can still be written)", why)
	}
	l.Floor("FRAMES", 6)

	// ---- LIBRARY
	if f := c.SSAFunc(c.LookupFunc("plugin", "Main")); f != nil {
		puts := callsIn(f, "Put")
		var plug, sg ssa.Instruction
		for _, p := range puts {
			call := p.(ssa.CallInstruction)
			s := core.Sym(call.Common().Args[len(call.Common().Args)-2])
			if strings.Contains(s, `"Plugin"`) {
				plug = p
			}
			if strings.Contains(s, `"ServiceGenerator"`) {
				sg = p
			}
		}
		ok := plug != nil && sg != nil
		why := ""
		if ok {
			// Plugin is registered on every path to Serve
			serve := callsIn(f, "Serve")
			if len(serve) != 1 {
				ok, why = false, "no single Serve call"
			} else if found, _ := core.PathFromEntryAvoiding(f, func(in ssa.Instruction) bool { return in == plug }, func(in ssa.Instruction) bool { return in == serve[0] }); found {
				ok, why = false, "the Plugin service is not registered on every path"
			}
			// ServiceGenerator registration shares its block with the feature append
			feat := false
			for _, in := range sg.Block().Instrs {
				if call, isC := in.(*ssa.Call); isC {
					if b, isB := call.Call.Value.(*ssa.Builtin); isB && b.Name() == "append" {
						feat = true
					}
				}
			}
			if !feat {
				ok, why = false, "the ServiceGenerator handler is registered in a different branch than the one advertising the feature"
			}
			// that block is guarded by p.ServiceGenerator != nil
			edges := core.GuardEdges(f, func(cm core.Cmp) bool {
				fld, _ := core.LoadedField(cm.X)
				k, isC := cm.Y.(*ssa.Const)
				return cm.Op == token.NEQ && fld != nil && core.FieldName(fld) == "ServiceGenerator" && isC && k.IsNil()
			})
			if !core.AllPathsThroughEdges(f, sg.Block(), edges) {
				ok, why = false, "ServiceGenerator is served although the plugin has no service generator"
			}
		} else {
			why = "handler registrations not found"
		}
		l.Check(ok, "LIBRARY", "plugin.Main", c.Rel(f.Pos()), "Plugin is always served; ServiceGenerator is served iff the feature is advertised (same branch)", why)
	} else {
		l.Unk("LIBRARY", "plugin.Main", "", "not found")
	}
}

// earlyReturnAfter: r is the return reached directly on the "already closed"
// edge of the swap test.
func earlyReturnAfter(swap ssa.Instruction, r *ssa.Return) bool {
	v, ok := swap.(ssa.Value)
	if !ok {
		return false
	}
	// the "already stopped" return sits on the edge on which the swap answered false (the previous value of the
	// running flag): the edge taken when the flag's old value, followed through negations, is false
	var walk func(val ssa.Value, neg bool, d int) bool
	walk = func(val ssa.Value, neg bool, d int) bool {
		if d > 4 || val.Referrers() == nil {
			return false
		}
		for _, ref := range *val.Referrers() {
			switch x := ref.(type) {
			case *ssa.If:
				// Succs[0] is taken when the tested value is true; the old value is false on Succs[0] iff negated
				s := x.Block().Succs[1]
				if neg {
					s = x.Block().Succs[0]
				}
				if s == r.Block() && len(s.Instrs) <= 2 {
					return true
				}
			case *ssa.UnOp:
				if x.Op == token.NOT && walk(x, !neg, d+1) {
					return true
				}
			}
		}
		return false
	}
	// a flag of the opposite meaning (closed.Swap(true)): "already stopped" is the edge on which the old value is true
	if call, isCall := swap.(ssa.CallInstruction); isCall {
		args := call.Common().Args
		if len(args) > 0 {
			if k, isK := args[len(args)-1].(*ssa.Const); isK && k.Value != nil && k.Value.String() == "true" {
				return walk(v, true, 0)
			}
		}
	}
	return walk(v, false, 0)
}

func reachableFrom(from, to *ssa.BasicBlock) bool {
	seen := map[*ssa.BasicBlock]bool{}
	st := []*ssa.BasicBlock{from}
	for len(st) > 0 {
		b := st[len(st)-1]
		st = st[:len(st)-1]
		if b == to {
			return true
		}
		if seen[b] {
			continue
		}
		seen[b] = true
		st = append(st, b.Succs...)
	}
	return false
}

// reachesReturnBefore: starting at block b, a Return can be reached without
// executing instruction `barrier`.
func reachesReturnBefore(b *ssa.BasicBlock, barrier ssa.Instruction) bool {
	seen := map[*ssa.BasicBlock]bool{}
	st := []*ssa.BasicBlock{b}
	for len(st) > 0 {
		x := st[len(st)-1]
		st = st[:len(st)-1]
		if seen[x] {
			continue
		}
		seen[x] = true
		blocked := false
		for _, in := range x.Instrs {
			if in == barrier {
				blocked = true
				break
			}
			if _, ok := in.(*ssa.Return); ok {
				return true
			}
		}
		if !blocked {
			st = append(st, x.Succs...)
		}
	}
	return false
}

// lockedThroughout: the first call of f is Lock on a mutex of the receiver and
// Unlock on it is deferred (or is the last effect on every path).
func lockedThroughout(f *ssa.Function) bool {
	var first ssa.CallInstruction
	for _, in := range f.Blocks[0].Instrs {
		if call, ok := in.(ssa.CallInstruction); ok {
			first = call
			break
		}
	}
	if first == nil {
		return false
	}
	o := core.CalleeObj(first)
	if o == nil || o.Name() != "Lock" || o.Pkg() == nil || o.Pkg().Path() != "sync" {
		return false
	}
	deferred := false
	core.Instrs(f, func(in ssa.Instruction) {
		if d, ok := in.(*ssa.Defer); ok {
			if o2 := core.CalleeObj(d); o2 != nil && o2.Name() == "Unlock" && o2.Pkg() != nil && o2.Pkg().Path() == "sync" && in.Block() == f.Blocks[0] {
				deferred = true
			}
		}
	})
	return deferred
}

func init() {
	prev := Registry["C16"]
	Registry["C16"] = func(c *core.Ctx, l *core.Ledger) {
		prev(c, l)
		checkC16Library(c, l)
	}
}

// checkC16Library: the plugin library's Handshake handler reports the plugin's
// own name, the library's API version and the feature list computed in Main;
// its Goodbye handler stops the frame server.
func checkC16Library(c *core.Ctx, l *core.Ledger) {
	if f := c.SSAFunc(c.LookupFunc("plugin", "pluginHandler.Handshake")); f != nil {
		ok := false
		s := ""
		core.Instrs(f, func(in ssa.Instruction) {
			if r, isR := in.(*ssa.Return); isR && len(r.Results) == 2 {
				s = core.Sym(r.Results[0])
			}
		})
		ok = strings.Contains(s, "Name=$0.plugin.Name") && strings.Contains(s, "APIVersion=") && strings.Contains(s, "Features=$0.features")
		if ok {
			// the API version is the api package constant
			i := strings.Index(s, "APIVersion=")
			rest := s[i+len("APIVersion="):]
			if j := strings.IndexAny(rest, ";}"); j >= 0 {
				rest = rest[:j]
			}
			if cst, isC := c.Pkg("plugin/api").Types.Scope().Lookup("APIVersion").(*types.Const); !isC || rest != "c:"+cst.Val().ExactString() {
				ok = false
			}
		}
		l.Check(ok, "LIBRARY", "pluginHandler.Handshake", c.Rel(f.Pos()), "the reply carries the plugin's name, the library's API version constant and the feature list built in Main", "handshake reply fields are not (plugin.Name, api.APIVersion, features): "+s)
	} else {
		l.Unk("LIBRARY", "pluginHandler.Handshake", "", "not found")
	}
	if f := c.SSAFunc(c.LookupFunc("plugin", "pluginHandler.Goodbye")); f != nil {
		l.Check(len(callsIn(f, "Stop")) == 1, "LIBRARY", "pluginHandler.Goodbye", c.Rel(f.Pos()), "Goodbye stops the frame server, so the plugin exits after replying", "Goodbye does not stop the server")
	} else {
		l.Unk("LIBRARY", "pluginHandler.Goodbye", "", "not found")
	}
	l.Floor("LIBRARY", 3)
}

// closesWholeCollection: the value Close is called on is (a load of) the cell
// that the fan-out closure stores opened handles into; or a slice assembled
// from that cell by a loop that has no exit other than the end of the range.
func closesWholeCollection(f *ssa.Function, closeCall ssa.Instruction) string {
	// cells captured and written by closures of f
	cells := map[ssa.Value]bool{}
	core.Instrs(f, func(in ssa.Instruction) {
		mc, ok := in.(*ssa.MakeClosure)
		if !ok {
			return
		}
		fn := mc.Fn.(*ssa.Function)
		for i, fv := range fn.FreeVars {
			written := false
			core.Instrs(fn, func(i2 ssa.Instruction) {
				if st, ok := i2.(*ssa.Store); ok {
					if st.Addr == ssa.Value(fv) {
						written = true
					}
					if ia, ok := st.Addr.(*ssa.IndexAddr); ok {
						if ld, ok := ia.X.(*ssa.UnOp); ok && ld.X == ssa.Value(fv) {
							written = true
						}
						if ia.X == ssa.Value(fv) {
							written = true
						}
					}
				}
			})
			if written && i < len(mc.Bindings) {
				cells[mc.Bindings[i]] = true
			}
		}
	})
	if len(cells) == 0 {
		return ""
	}
	call := closeCall.(ssa.CallInstruction).Common()
	var recv ssa.Value
	if call.IsInvoke() {
		recv = call.Value
	} else if len(call.Args) > 0 {
		recv = call.Args[0]
	}
	recv = stripIface(recv)
	fromCell := func(v ssa.Value) bool {
		for i := 0; i < 4; i++ {
			switch x := v.(type) {
			case *ssa.UnOp:
				if cells[x.X] {
					return true
				}
				return false
			case *ssa.ChangeType:
				v = x.X
			case *ssa.Convert:
				v = x.X
			default:
				return cells[v]
			}
		}
		return false
	}
	if fromCell(recv) {
		return ""
	}
	// a derived slice: accept only if the loop that builds it cannot be left early
	cyc := core.CyclicBlocks(f)
	early := false
	for b := range cyc {
		if !cyc[b] {
			continue
		}
		for _, s := range b.Succs {
			if cyc[s] {
				continue
			}
			// leaving the loop: allowed only from the block that tests the range (Next / index < len)
			last := b.Instrs[len(b.Instrs)-1]
			ifi, isIf := last.(*ssa.If)
			header := false
			if isIf {
				switch cnd := ifi.Cond.(type) {
				case *ssa.Extract:
					_, header = cnd.Tuple.(*ssa.Next)
				case *ssa.BinOp:
					header = cnd.Op == token.LSS && strings.HasPrefix(core.Sym(cnd.Y), "len(")
				}
			}
			if !header {
				early = true
			}
		}
	}
	if early {
		return "on a partial failure only a part of the opened handles is closed: the collection passed to Close is assembled by a loop that can stop early (a handle after the first failed plugin is never closed, its process never reaped)"
	}
	if len(cyc) == 0 {
		return "on a partial failure Close is called on something other than the collection the opened handles were stored in"
	}
	return ""
}

// closeErrorReachesResult: the deferred call d closes the plugins; its error
// must end up in f's error result. That needs (1) a result cell: every return
// of f yields a load of one local cell made after the deferred calls ran (a
// named result), and (2) inside the deferred closure, a store into that cell of
// a value computed from the Close call's result.
func closeErrorReachesResult(f *ssa.Function, d *ssa.Defer) string {
	var cell *ssa.Alloc
	bad := ""
	core.Instrs(f, func(in ssa.Instruction) {
		r, ok := in.(*ssa.Return)
		if !ok || len(r.Results) == 0 || bad != "" || r.Block() == f.Recover {
			return
		}
		ld, isLoad := r.Results[len(r.Results)-1].(*ssa.UnOp)
		var a *ssa.Alloc
		if isLoad {
			a, _ = ld.X.(*ssa.Alloc)
		}
		if a == nil || (cell != nil && a != cell) {
			bad = "the function's error result is not a cell that deferred calls can still assign (the value is fixed at the return statement, before the deferred Close runs)"
			return
		}
		// the load follows RunDefers in its block
		seenRun := false
		for _, i2 := range r.Block().Instrs {
			if _, isRD := i2.(*ssa.RunDefers); isRD {
				seenRun = true
			}
			if i2 == ssa.Instruction(ld) && !seenRun {
				bad = "the function's error result is read before the deferred calls run"
			}
		}
		cell = a
	})
	if bad != "" {
		return bad
	}
	if cell == nil {
		return "no return found"
	}
	mc, ok := d.Call.Value.(*ssa.MakeClosure)
	if !ok {
		return "Close is deferred directly: its error is discarded"
	}
	fn := mc.Fn.(*ssa.Function)
	var fv *ssa.FreeVar
	for i, b := range mc.Bindings {
		if b == ssa.Value(cell) && i < len(fn.FreeVars) {
			fv = fn.FreeVars[i]
		}
	}
	if fv == nil {
		return "the deferred closure does not capture the function's result"
	}
	// values derived from a Close call's result
	derived := map[ssa.Value]bool{}
	core.Instrs(fn, func(in ssa.Instruction) {
		if call, ok := in.(*ssa.Call); ok {
			name := ""
			if call.Common().IsInvoke() {
				name = call.Common().Method.Name()
			} else if cal := call.Common().StaticCallee(); cal != nil {
				name = cal.Name()
			}
			if name == "Close" {
				derived[call] = true
			}
		}
	})
	for changed := true; changed; {
		changed = false
		core.Instrs(fn, func(in ssa.Instruction) {
			v, ok := in.(ssa.Value)
			if !ok || derived[v] {
				return
			}
			for _, op := range in.Operands(nil) {
				if op != nil && *op != nil && derived[*op] {
					switch in.(type) {
					case *ssa.Call, *ssa.Phi, *ssa.MakeInterface, *ssa.ChangeInterface, *ssa.Extract:
						derived[v] = true
						changed = true
					}
				}
			}
		})
	}
	stored := false
	core.Instrs(fn, func(in ssa.Instruction) {
		if st, ok := in.(*ssa.Store); ok && st.Addr == ssa.Value(fv) && derived[st.Val] {
			stored = true
		}
	})
	if !stored {
		return "the deferred closure does not store a value computed from Close's error into the function's result"
	}
	return ""
}

// isMapKeyedBy: t is a map whose key type is the named type key.
func isMapKeyedBy(t types.Type, key string) bool {
	m, ok := t.Underlying().(*types.Map)
	if !ok {
		return false
	}
	n, ok := m.Key().(*types.Named)
	return ok && n.Obj().Name() == key
}

// checkHandshakeGate (HANDSHAKE-GATE): see the explanation of C16. A handle,
// and so any file a plugin contributes, exists only after a handshake that
// succeeded with the expected name and exactly the expected API version.
func checkHandshakeGate(c *core.Ctx, l *core.Ledger) {
	// ---- HANDSHAKE-GATE
	nth := c.SSAFunc(c.LookupFunc("internal/plugin", "NewTransportHandle"))
	ths := allocsOf(c, "transportHandle", "internal/plugin")
	if nth == nil || len(ths) == 0 {
		l.Unk("HANDSHAKE-GATE", "anchor", "", "NewTransportHandle or the transportHandle literal not found")
	} else {
		for i, a := range ths {
			key := fmt.Sprintf("transportHandle-literal#%d", i+1)
			if a.Parent() != nth {
				l.Bad("HANDSHAKE-GATE", key, c.Rel(a.Pos()), "a plugin handle is constructed outside NewTransportHandle, bypassing the handshake")
				continue
			}
			var why []string
			hs := callsIn(nth, "Handshake")
			if len(hs) != 1 {
				why = append(why, "no single Handshake call")
			} else {
				okE := successEdges(nth, func(call *ssa.Call) bool { return ssa.Instruction(call) == hs[0] })
				if !core.AllPathsThroughEdges(nth, a.Block(), okE) {
					why = append(why, "the handle can be built although the handshake call failed")
				}
			}
			eq := func(field string, other func(ssa.Value) bool) bool {
				edges := core.GuardEdgesDeep(nth, func(cm core.Cmp) bool {
					if cm.Op != token.EQL {
						return false
					}
					fx, _ := core.LoadedField(cm.X)
					fy, _ := core.LoadedField(cm.Y)
					if fx != nil && fx.Name() == field && other(cm.Y) {
						return true
					}
					if fy != nil && fy.Name() == field && other(cm.X) {
						return true
					}
					return false
				}, 2)
				return core.AllPathsThroughEdges(nth, a.Block(), edges)
			}
			if !eq("Name", func(v ssa.Value) bool { _, ok := v.(*ssa.Parameter); return ok }) {
				why = append(why, "the handle can be built although the plugin reported a different name")
			}
			if !eq("APIVersion", func(v ssa.Value) bool {
				if _, isC := v.(*ssa.Const); isC {
					return true
				}
				return strings.Contains(core.Sym(v), "APIVersion")
			}) {
				why = append(why, "the handle can be built although the plugin reported a different API version")
			}
			l.Check(len(why) == 0, "HANDSHAKE-GATE", key, c.Rel(a.Pos()), "constructed only after a successful handshake with matching name and API version", strings.Join(why, "; "))
		}
	}
	sgf := c.SSAFunc(c.LookupFunc("internal/plugin", "transportHandle.ServiceGenerator"))
	sgs := allocsOf(c, "serviceGenerator", "internal/plugin")
	if sgf == nil || len(sgs) == 0 {
		l.Unk("HANDSHAKE-GATE", "anchor:serviceGenerator", "", "transportHandle.ServiceGenerator or its literal not found")
	} else {
		for i, a := range sgs {
			key := fmt.Sprintf("serviceGenerator-literal#%d", i+1)
			if a.Parent() != sgf {
				l.Bad("HANDSHAKE-GATE", key, c.Rel(a.Pos()), "a service-generator client is constructed outside transportHandle.ServiceGenerator")
				continue
			}
			// feature lookup hit
			var hit []core.Edge
			core.Instrs(sgf, func(in ssa.Instruction) {
				if lk, ok := in.(*ssa.Lookup); ok && lk.CommaOk {
					// the handle's feature set: its field keyed by api.Feature, whatever it is called
					if fld, _ := core.LoadedField(lk.X); fld != nil && isMapKeyedBy(fld.Type(), "Feature") {
						for _, r := range *lk.Referrers() {
							if ex, ok := r.(*ssa.Extract); ok && ex.Index == 1 {
								for _, rr := range *ex.Referrers() {
									if ifi, ok := rr.(*ssa.If); ok {
										hit = append(hit, core.Edge{From: ifi.Block(), To: ifi.Block().Succs[0]})
									}
								}
							}
						}
					}
				}
			})
			okFeature := core.AllPathsThroughEdges(sgf, a.Block(), hit)
			// the key looked up is the service-generator feature constant
			keyOK := false
			core.Instrs(sgf, func(in ssa.Instruction) {
				if lk, ok := in.(*ssa.Lookup); ok {
					if k, isC := lk.Index.(*ssa.Const); isC && k.Value != nil {
						ft := c.Pkg("plugin/api").Types.Scope().Lookup("FeatureServiceGenerator")
						if fc, ok := ft.(*types.Const); ok && fc.Val().ExactString() == k.Value.ExactString() {
							keyOK = true
						}
					}
				}
			})
			// running test: Load() true edge (negated: !Load → panic)
			runOK := len(callsIn(sgf, "Load")) > 0
			l.Check(okFeature && keyOK && runOK, "HANDSHAKE-GATE", key, c.Rel(a.Pos()), "constructed only when the handshake advertised the service-generator feature and the handle is still open",
				fmt.Sprintf("service-generator client can be built without the feature (feature-dominated=%v, key-is-feature-constant=%v, running-test=%v)", okFeature, keyOK, runOK))
		}
	}
	// the plugin's Generate RPC is invoked only in serviceGenerator.Generate
	nGen := 0
	for _, f := range c.AllFuncs("internal/plugin") {
		if c.IsTestFile(f.Pos()) {
			continue
		}
		core.Instrs(f, func(in ssa.Instruction) {
			call, ok := in.(ssa.CallInstruction)
			if !ok || !call.Common().IsInvoke() || call.Common().Method.Name() != "Generate" {
				return
			}
			if core.TypeLabel(call.Common().Value.Type()) != "plugin/api.ServiceGenerator" {
				return
			}
			nGen++
			l.Check(recvNamed(f) == "serviceGenerator" && f.Name() == "Generate", "HANDSHAKE-GATE", "Generate-rpc:"+core.SSAName(f), c.Rel(in.Pos()), "the Generate RPC is issued only by the feature-gated client wrapper", "the plugin's Generate RPC is issued outside the gated wrapper")
		})
	}
	l.Floor("HANDSHAKE-GATE", 3)
}
