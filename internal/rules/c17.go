package rules

import (
	"fmt"
	"os"
	"strings"

	"golang.org/x/tools/go/ssa"

	"verif/internal/core"
)

func init() { Registry["C17"] = checkC17 }

var fsMutators = map[string]bool{
	"os.WriteFile": true, "os.MkdirAll": true, "os.Mkdir": true, "os.Create": true, "os.OpenFile": true,
	"os.Rename": true, "os.Remove": true, "os.RemoveAll": true, "os.Chmod": true, "os.Chown": true, "os.Symlink": true,
	"os.Link": true, "os.Truncate": true, "os.MkdirTemp": true, "os.CreateTemp": true, "os.Chdir": true, "os.Chtimes": true,
	"io/ioutil.WriteFile": true, "io/ioutil.TempFile": true, "io/ioutil.TempDir": true,
}

func fsCall(in ssa.Instruction) string {
	call, ok := in.(ssa.CallInstruction)
	if !ok {
		return ""
	}
	o := core.CalleeObj(call)
	if o == nil || o.Pkg() == nil {
		return ""
	}
	n := o.Pkg().Path() + "." + o.Name()
	if fsMutators[n] {
		return n
	}
	return ""
}

func checkC17(c *core.Ctx, l *core.Ledger) {
	l.Explanation = "Static clauses of C17: (FS-OWN) among all functions reachable from the CLI's main in the gated call graph, file-system mutating calls (os.WriteFile/MkdirAll/Create/OpenFile/Rename/Remove/...) occur only in gen.Generate; (WRITE-LAST) inside gen.Generate no call into the repository (module generation, Walk, the plugin's Generate, mergeFiles/addFile) is reachable after the first file-system call, so every fallible producing step precedes every write; (CONFINE) the written path is filepath.Join(o.OutputDir, key of the files map), the created directory is filepath.Dir of that same path, and OutputDir is tested with filepath.IsAbs on entry; (CONFLICT) every insertion into the files map happens in addFile under the negative edge of a presence test that returns an error, and the plugin fan-out inserts into its merged map only under the same test while holding its lock; (DOTDOT) the plugin wrapper returns success only after the loop that rejects any returned path containing \"..\", and the CLI verifies ancestry of includes on the explicit-root branch. (PATH-PREFIX) containment between two paths is never decided by a string prefix test (svc vs svc-common). (ERR-KEEP) no error value is lost: none is assigned to a variable that is never read (an inner declaration shadowing the checked one), none is overwritten by the next loop iteration unseen, and no deferred function replaces the error result without regard to the error already there. NOT decided: the value of module paths relative to the root for concrete layouts (filepath.Rel semantics), the --output-file option (user-supplied), atomicity of the write loop itself (a failing write after earlier writes succeeded)."
	l.RuleText = "one obligation per file-system call site / insertion site / return"
	l.Assumptions = []string{"filepath.Join cleans its result; a relative path without \"..\" joined to a directory stays beneath it"}

	gen := c.SSAFunc(c.LookupFunc("gen", "Generate"))
	mainFn := c.SSAFunc(c.LookupFunc("", "main"))
	if gen == nil || mainFn == nil {
		l.Unk("FS-OWN", "anchor", "", "gen.Generate or main.main not found")
		return
	}
	g := c.Graph()
	reach := g.Reach([]*ssa.Function{mainFn}, nil)
	if _, ok := reach[gen]; !ok {
		l.Unk("FS-OWN", "anchor:reach", "", "gen.Generate is not reachable from main in the call graph")
	}
	// write helpers: unexported functions of gen.Generate's package whose every call site is in gen.Generate —
	// the final write loop may live in one of them
	writeHelper := map[*ssa.Function]*ssa.Call{}
	core.Instrs(gen, func(in ssa.Instruction) {
		call, ok := in.(*ssa.Call)
		if !ok {
			return
		}
		h := call.Call.StaticCallee()
		if h == nil || h == gen || !core.InRepo(h) || h.Pkg != gen.Pkg || len(h.Blocks) == 0 {
			return
		}
		hasFS := false
		core.Instrs(h, func(i2 ssa.Instruction) {
			if fsCall(i2) != "" {
				hasFS = true
			}
		})
		if !hasFS {
			return
		}
		sites := 0
		for _, s := range c.StaticCallSites(h) {
			if c.IsTestFile(s.Pos()) {
				continue
			}
			sites++
			if s.Parent() != gen {
				sites += 100
			}
		}
		if sites == 1 {
			writeHelper[h] = call
		}
	})
	nfs := 0
	for _, f := range core.SortedFuncs(reach) {
		k := 0
		core.Instrs(f, func(in ssa.Instruction) {
			n := fsCall(in)
			if n == "" {
				return
			}
			k++
			nfs++
			key := fmt.Sprintf("%s:%s#%d", core.SSAName(f), n, k)
			l.Check(f == gen || writeHelper[f] != nil, "FS-OWN", key, c.Rel(in.Pos()), "file-system mutation inside gen.Generate's final write loop", "file-system mutation outside gen.Generate, reachable from main: "+strings.Join(core.PathTo(reach, f), " "))
		})
	}
	// the matcher is alive: the test-support package writes files too
	nw := 0
	for _, f := range c.AllFuncs("internal/breaktest") {
		core.Instrs(f, func(in ssa.Instruction) {
			if fsCall(in) != "" {
				nw++
			}
		})
	}
	l.Witness("FS-OWN", nw >= 2, "internal/breaktest (not reachable from main) has file-system calls the matcher must recognise")
	l.Floor("FS-OWN", 2)

	// ---- WRITE-LAST
	var fsSites []ssa.Instruction
	via := map[ssa.Instruction]*ssa.Call{} // fs site in a write helper → the call in gen.Generate that runs it
	core.Instrs(gen, func(in ssa.Instruction) {
		if fsCall(in) != "" {
			fsSites = append(fsSites, in)
		}
		if call, ok := in.(*ssa.Call); ok && call.Call.StaticCallee() != nil && writeHelper[call.Call.StaticCallee()] == call {
			core.Instrs(call.Call.StaticCallee(), func(i2 ssa.Instruction) {
				if fsCall(i2) != "" {
					fsSites = append(fsSites, i2)
					via[i2] = call
				}
			})
		}
	})
	// inGen: the instruction of gen.Generate at which the site takes effect
	inGen := func(s ssa.Instruction) ssa.Instruction {
		if v := via[s]; v != nil {
			return v
		}
		return s
	}
	// resolve: a parameter of a write helper stands for the argument gen.Generate passes
	resolve := func(s ssa.Instruction, v ssa.Value) ssa.Value {
		if call := via[s]; call != nil {
			if p, isP := v.(*ssa.Parameter); isP {
				for i, q := range call.Call.StaticCallee().Params {
					if q == p && i < len(call.Call.Args) {
						return call.Call.Args[i]
					}
				}
			}
		}
		return v
	}
	isProducer := func(in ssa.Instruction) bool {
		call, ok := in.(ssa.CallInstruction)
		if !ok {
			return false
		}
		cc := call.Common()
		if cc.IsInvoke() {
			return strings.HasPrefix(cc.Method.Pkg().Path(), core.ModPath)
		}
		if cal := cc.StaticCallee(); cal != nil {
			return core.InRepo(cal)
		}
		if _, isB := cc.Value.(*ssa.Builtin); isB {
			return false
		}
		return true // dynamic call of a function value
	}
	for i, s := range fsSites {
		leak, path := core.PathAvoiding(s, nil, isProducer)
		_ = path
		if via[s] != nil && !leak {
			leak, _ = core.PathAvoiding(via[s], nil, isProducer)
		}
		l.Check(!leak, "WRITE-LAST", fmt.Sprintf("gen.Generate:%s#%d", fsCall(s), i+1), c.Rel(s.Pos()), "no producing or fallible repository call is reachable after this write", "a repository call (generation, plugin request or merge) can run after files were already written: a later failure leaves partial output")
	}
	// and the write loop is the only place where the files map is read for writing: every
	// producer call is dominated... (covered by the rule above in the other direction)
	l.Floor("WRITE-LAST", 2)

	// ---- CONFINE
	for i, s := range fsSites {
		call := s.(ssa.CallInstruction)
		arg := call.Common().Args[0]
		sym := core.Sym(arg)
		if os.Getenv("VDEBUG") != "" {
			fmt.Fprintf(os.Stderr, "C17 fs arg %s: %s\n", fsCall(s), sym)
		}
		key := fmt.Sprintf("gen.Generate:%s#%d", fsCall(s), i+1)
		res := func(v ssa.Value) ssa.Value { return resolve(s, v) }
		joined, ok := confinedJoin(arg, res)
		switch fsCall(s) {
		case "os.WriteFile":
			l.Check(ok, "CONFINE", key, c.Rel(s.Pos()), "path = filepath.Join(o.OutputDir, <key of the files map>)", "written path is not filepath.Join(OutputDir, files-map key): "+sym)
		case "os.MkdirAll":
			okDir := false
			if inner, isCall := arg.(*ssa.Call); isCall && core.IsCallTo(inner, "path/filepath", "Dir") {
				joined, okDir = confinedJoin(inner.Call.Args[0], res)
			}
			l.Check(okDir, "CONFINE", key, c.Rel(s.Pos()), "directory = filepath.Dir(filepath.Join(o.OutputDir, <key>))", "created directory is not the parent of the confined path: "+sym)
		default:
			l.Bad("CONFINE", key, c.Rel(s.Pos()), "unexpected file-system call in gen.Generate")
		}
		_ = joined
	}
	// OutputDir is absolute: IsAbs test on entry with an error return on failure
	{
		edges := []core.Edge{}
		for _, b := range gen.Blocks {
			ifi, ok := b.Instrs[len(b.Instrs)-1].(*ssa.If)
			if !ok {
				continue
			}
			call, isCall := ifi.Cond.(*ssa.Call)
			if isCall && core.IsCallTo(call, "path/filepath", "IsAbs") && strings.HasSuffix(core.Sym(call.Call.Args[0]), ".OutputDir") {
				edges = append(edges, core.Edge{From: b, To: b.Succs[0]})
			}
		}
		ok := len(edges) > 0 && len(fsSites) > 0
		for _, s := range fsSites {
			if !core.AllPathsThroughEdges(gen, inGen(s).Block(), edges) {
				ok = false
			}
		}
		l.Check(ok, "CONFINE", "gen.Generate:OutputDir-absolute", c.Rel(gen.Pos()), "every write is dominated by filepath.IsAbs(o.OutputDir)", "writes are not dominated by the absolute-OutputDir test")
	}
	l.Floor("CONFINE", 3)

	// ---- CONFLICT
	checkGuardedInsert := func(f *ssa.Function, label string, needLock bool) {
		n := 0
		core.Instrs(f, func(in ssa.Instruction) {
			mu, ok := in.(*ssa.MapUpdate)
			if !ok {
				return
			}
			n++
			key := fmt.Sprintf("%s:insert#%d", label, n)
			// dominated by the not-present edge of a lookup of the same key in the same map
			var edges []core.Edge
			core.Instrs(f, func(i2 ssa.Instruction) {
				lk, ok := i2.(*ssa.Lookup)
				if !ok || !lk.CommaOk || !core.SameValue(lk.X, mu.Map) || !core.SameValue(lk.Index, mu.Key) {
					return
				}
				for _, r := range *lk.Referrers() {
					ex, ok := r.(*ssa.Extract)
					if !ok || ex.Index != 1 {
						continue
					}
					for _, rr := range *ex.Referrers() {
						if ifi, ok := rr.(*ssa.If); ok {
							edges = append(edges, core.Edge{From: ifi.Block(), To: ifi.Block().Succs[1]})
							// the present edge must lead to an error return without inserting
						}
					}
				}
			})
			ok2 := len(edges) > 0 && core.AllPathsThroughEdges(f, mu.Block(), edges)
			why := "insertion into the output map is not guarded by a presence test on the same key: a second producer silently overwrites the first"
			if ok2 && needLock && !lockedThroughoutAny(f) {
				ok2, why = false, "shared map is updated without holding the lock"
			}
			l.Check(ok2, "CONFLICT", key, c.Rel(in.Pos()), "inserted only on the key-absent edge (the present edge reports a conflict)", why)
		})
		if n == 0 {
			l.Unk("CONFLICT", label+":insert", c.Rel(f.Pos()), "no insertion found")
		}
	}
	// every insertion into a path→contents map in package gen — in addFile today, wherever it may move —
	// happens on the key-absent edge of a presence test in its own function, and that function reports the
	// present case as an error
	nIns := 0
	for _, f := range c.AllFuncs("gen") {
		if c.IsTestFile(f.Pos()) {
			continue
		}
		has := false
		core.Instrs(f, func(in ssa.Instruction) {
			if mu, ok := in.(*ssa.MapUpdate); ok && core.TypeLabel(mu.Map.Type()) == "map[string][]byte" {
				has = true
			}
		})
		if !has {
			continue
		}
		nIns++
		label := "gen." + core.CanonName(f)
		checkGuardedInsert(f, label, false)
		// the present edge yields a non-nil error (returned, or accumulated)
		hasErr := false
		core.Instrs(f, func(in ssa.Instruction) {
			if r, ok := in.(*ssa.Return); ok && len(r.Results) > 0 && core.DefinitelyNonNilError(r.Results[len(r.Results)-1], 2) {
				hasErr = true
			}
			if call, ok := in.(*ssa.Call); ok {
				if o := core.CalleeObj(call); o != nil && o.Pkg() != nil && (o.Pkg().Path()+"."+o.Name() == "fmt.Errorf" || o.Pkg().Path()+"."+o.Name() == "errors.New") {
					hasErr = true
				}
			}
		})
		l.Check(hasErr, "CONFLICT", label+":error", c.Rel(f.Pos()), "a present key yields a non-nil error", "the function that inserts into the output map never reports a conflict")
	}
	if nIns == 0 {
		l.Unk("CONFLICT", "gen:insert", "", "no insertion into a path→contents map found in package gen")
	}
	if f := c.SSAFunc(c.LookupFunc("internal/plugin", "MultiServiceGenerator.Generate")); f != nil {
		// the merge may live in the fan-out closure or in a helper/method of the package it calls
		seen := map[*ssa.Function]bool{}
		var visit func(g *ssa.Function, depth int)
		visit = func(g *ssa.Function, depth int) {
			if g == nil || seen[g] || len(g.Blocks) == 0 {
				return
			}
			seen[g] = true
			has := false
			core.Instrs(g, func(in ssa.Instruction) {
				if mu, ok := in.(*ssa.MapUpdate); ok && strings.HasPrefix(core.TypeLabel(mu.Map.Type()), "map[string]") {
					has = true
				}
				if call, ok := in.(ssa.CallInstruction); ok && depth < 3 {
					if cal := call.Common().StaticCallee(); cal != nil && cal.Pkg == f.Pkg {
						visit(cal, depth+1)
					}
				}
				// function values handed on (method values, named functions used as callbacks)
				if depth < 3 {
					for _, op := range in.Operands(nil) {
						if op == nil || *op == nil {
							continue
						}
						switch x := (*op).(type) {
						case *ssa.Function:
							if x.Pkg == f.Pkg || (x.Pkg == nil && x.Synthetic != "") {
								visit(x, depth+1)
							}
						case *ssa.MakeClosure:
							if fn, ok := x.Fn.(*ssa.Function); ok {
								visit(fn, depth+1)
							}
						}
					}
				}
			})
			if has && g != f {
				checkGuardedInsertMulti(c, l, g)
			}
		}
		for _, cl := range core.WithClosures(f) {
			visit(cl, 0)
		}
	} else {
		l.Unk("CONFLICT", "MultiServiceGenerator.Generate", "", "not found")
	}
	l.Floor("CONFLICT", 3)

	// ---- DOTDOT
	if f := c.SSAFunc(c.LookupFunc("internal/plugin", "serviceGenerator.Generate")); f != nil {
		// strings.Contains(path, "..") true edge → error return; success return only via loop exit
		var contains *ssa.Call
		core.Instrs(f, func(in ssa.Instruction) {
			if call, ok := in.(*ssa.Call); ok && core.IsCallTo(call, "strings", "Contains") {
				if k, isC := call.Call.Args[1].(*ssa.Const); isC && k.Value != nil && k.Value.ExactString() == `".."` {
					contains = call
				}
			}
		})
		ok := contains != nil
		why := "no test for \"..\" in returned paths"
		if ok {
			// argument is the key of a range over res.Files
			rng := rangeKeyOf(contains.Call.Args[0])
			if rng == nil || !strings.HasSuffix(core.Sym(rng.X), ".Files") {
				ok, why = false, "the \"..\" test is not applied to every key of the response's Files map"
			}
		}
		if ok {
			// the true edge of the test reaches only error returns
			for _, r := range *contains.Referrers() {
				ifi, isIf := r.(*ssa.If)
				if !isIf {
					continue
				}
				tb := ifi.Block().Succs[0]
				for _, in := range tb.Instrs {
					if ret, isR := in.(*ssa.Return); isR && !core.DefinitelyNonNilError(ret.Results[len(ret.Results)-1], 2) {
						ok, why = false, "a path containing \"..\" does not produce an error"
					}
				}
				if _, isR := tb.Instrs[len(tb.Instrs)-1].(*ssa.Return); !isR {
					ok, why = false, "a path containing \"..\" does not return an error immediately"
				}
			}
			// every nil-error return is reached only through the loop (the range's done edge)
			core.Instrs(f, func(in ssa.Instruction) {
				ret, isR := in.(*ssa.Return)
				if !isR || !core.IsNilErrorReturn(ret) {
					return
				}
				found, _ := core.PathFromEntryAvoiding(f, func(i2 ssa.Instruction) bool {
					_, isNext := i2.(*ssa.Next)
					return isNext
				}, func(i2 ssa.Instruction) bool { return i2 == in })
				if found {
					ok, why = false, "a success return bypasses the path validation loop"
				}
			})
		}
		l.Check(ok, "DOTDOT", "serviceGenerator.Generate", c.Rel(f.Pos()), "success is returned only after every returned path was tested for \"..\", and a hit returns an error", why)
	} else {
		l.Unk("DOTDOT", "serviceGenerator.Generate", "", "not found")
	}
	if f := c.SSAFunc(c.LookupFunc("", "do")); f != nil {
		gens := callsIn(f, "Generate")
		var genCall ssa.Instruction
		for _, g := range gens {
			if cal := g.(ssa.CallInstruction).Common().StaticCallee(); cal != nil && core.PkgRel(cal) == "gen" {
				genCall = g
			}
		}
		ok := genCall != nil
		why := "gen.Generate call not found"
		if ok {
			// gen.Generate is reachable only after verifyAncestry or findCommonAncestor succeeded — called
			// directly or through a helper that succeeds only after one of them did
			edges := core.CallGuardEdgesDeep(f, func(call *ssa.Call) bool {
				cal := call.Call.StaticCallee()
				return cal != nil && core.PkgRel(cal) == "" && c.Named(cal, "verifyAncestry", "findCommonAncestor")
			}, 2)
			if len(edges) == 0 || !core.AllPathsThroughEdges(f, genCall.Block(), edges) {
				ok, why = false, "generation can start without a verified or computed Thrift root"
			}
		}
		l.Check(ok, "DOTDOT", "main.do:root", c.Rel(f.Pos()), "generation starts only after the includes were verified to lie under the explicit root, or the root was computed as their common ancestor", why)
	}
	if f := c.SSAFunc(c.LookupFunc("", "verifyAncestry")); f != nil {
		ok := false
		// the function itself, its closures, and whatever function value it hands to Walk (a method value, a named function)
		scan := core.WithClosures(f)
		for _, wc := range callsIn(f, "Walk") {
			args := wc.(ssa.CallInstruction).Common().Args
			if g := funcValueTarget(args[len(args)-1]); g != nil {
				scan = append(scan, g)
			}
		}
		for _, cl := range scan {
			core.Instrs(cl, func(in ssa.Instruction) {
				if call, isC := in.(*ssa.Call); isC && core.IsCallTo(call, "strings", "HasPrefix") {
					if k, isK := call.Call.Args[1].(*ssa.Const); isK && k.Value != nil && k.Value.ExactString() == `".."` {
						if inner, isI := call.Call.Args[0].(*ssa.Extract); isI {
							if rc, isR := inner.Tuple.(*ssa.Call); isR && core.IsCallTo(rc, "path/filepath", "Rel") {
								ok = true
							}
						}
					}
				}
			})
		}
		l.Check(ok && len(callsIn(f, "Walk")) == 1, "DOTDOT", "main.verifyAncestry", c.Rel(f.Pos()), "every module's path relative to the root is rejected when it starts with \"..\"", "verifyAncestry does not reject modules outside the root")
	}
	l.Floor("DOTDOT", 3)
	checkErrKeep(c, l, "ERR-KEEP", []string{"gen", "", "internal/plugin"})
	checkPathPrefix(c, l)
}

// confinedJoin: v = filepath.Join(o.OutputDir, <key of a map range>).
func confinedJoin(v ssa.Value, resolve func(ssa.Value) ssa.Value) (*ssa.Call, bool) {
	call, ok := v.(*ssa.Call)
	if !ok || !core.IsCallTo(call, "path/filepath", "Join") {
		return nil, false
	}
	sl, ok := call.Call.Args[0].(*ssa.Slice)
	if !ok {
		return nil, false
	}
	arr, ok := sl.X.(*ssa.Alloc)
	if !ok {
		return nil, false
	}
	elems := map[int64]ssa.Value{}
	for _, r := range *arr.Referrers() {
		ia, ok := r.(*ssa.IndexAddr)
		if !ok {
			continue
		}
		k, isC := ia.Index.(*ssa.Const)
		if !isC {
			return nil, false
		}
		for _, rr := range *ia.Referrers() {
			if st, ok := rr.(*ssa.Store); ok {
				elems[k.Int64()] = st.Val
			}
		}
	}
	if len(elems) != 2 {
		return nil, false
	}
	if !strings.HasSuffix(core.Sym(resolve(elems[0])), ".OutputDir") {
		return nil, false
	}
	rng := rangeKeyOf(elems[1])
	if rng == nil {
		return nil, false
	}
	return call, true
}

// rangeKeyOf: v is the key extracted from a map range; returns the Range.
func rangeKeyOf(v ssa.Value) *ssa.Range {
	ex, ok := v.(*ssa.Extract)
	if !ok || ex.Index != 1 {
		return nil
	}
	nx, ok := ex.Tuple.(*ssa.Next)
	if !ok {
		return nil
	}
	rng, _ := nx.Iter.(*ssa.Range)
	return rng
}

// lockedThroughoutAny: every map update and lookup in f executes with a sync
// lock held: on every path from the entry the most recent lock event before
// the access is Lock, not an explicit Unlock (a deferred Unlock runs at
// exit and releases nothing earlier). Forward must-analysis over the CFG.
func lockedThroughoutAny(f *ssa.Function) bool {
	syncCall := func(in ssa.Instruction) string {
		call, ok := in.(ssa.CallInstruction)
		if !ok {
			return ""
		}
		if _, isD := in.(*ssa.Defer); isD {
			return ""
		}
		if _, isG := in.(*ssa.Go); isG {
			return ""
		}
		o := core.CalleeObj(call)
		if o == nil || o.Pkg() == nil || o.Pkg().Path() != "sync" {
			return ""
		}
		switch o.Name() {
		case "Lock", "Unlock":
			return o.Name()
		}
		return ""
	}
	if len(f.Blocks) == 0 {
		return false
	}
	// heldIn[b]: the lock is held at entry of b on every path (optimistic start, iterate down)
	heldIn := map[*ssa.BasicBlock]bool{}
	heldOut := map[*ssa.BasicBlock]bool{}
	for _, b := range f.Blocks {
		heldIn[b], heldOut[b] = true, true
	}
	heldIn[f.Blocks[0]] = false
	for changed := true; changed; {
		changed = false
		for _, b := range f.Blocks {
			in := b != f.Blocks[0]
			if in {
				for _, p := range b.Preds {
					if !heldOut[p] {
						in = false
					}
				}
			}
			st := in
			for _, ins := range b.Instrs {
				switch syncCall(ins) {
				case "Lock":
					st = true
				case "Unlock":
					st = false
				}
			}
			if in != heldIn[b] || st != heldOut[b] {
				heldIn[b], heldOut[b] = in, st
				changed = true
			}
		}
	}
	// one critical section: the test and the insertion are atomic only if the
	// lock is not released and re-taken in between (may-analysis: an explicit
	// Unlock has happened on some path reaching a Lock)
	relIn := map[*ssa.BasicBlock]bool{}
	relOut := map[*ssa.BasicBlock]bool{}
	for changed := true; changed; {
		changed = false
		for _, b := range f.Blocks {
			in := false
			for _, p := range b.Preds {
				in = in || relOut[p]
			}
			st := in
			for _, ins := range b.Instrs {
				if syncCall(ins) == "Unlock" {
					st = true
				}
			}
			if in != relIn[b] || st != relOut[b] {
				relIn[b], relOut[b] = in, st
				changed = true
			}
		}
	}
	for _, b := range f.Blocks {
		st := relIn[b]
		for _, ins := range b.Instrs {
			switch syncCall(ins) {
			case "Unlock":
				st = true
			case "Lock":
				if st {
					return false
				}
			}
		}
	}
	accesses := 0
	for _, b := range f.Blocks {
		st := heldIn[b]
		for _, ins := range b.Instrs {
			switch syncCall(ins) {
			case "Lock":
				st = true
			case "Unlock":
				st = false
			}
			switch ins.(type) {
			case *ssa.MapUpdate, *ssa.Lookup:
				accesses++
				if !st {
					return false
				}
			}
		}
	}
	return true
}

// checkGuardedInsertMulti: the fan-out closure of MultiServiceGenerator.Generate.
func checkGuardedInsertMulti(c *core.Ctx, l *core.Ledger, cl *ssa.Function) {
	n := 0
	core.Instrs(cl, func(in ssa.Instruction) {
		mu, ok := in.(*ssa.MapUpdate)
		if !ok {
			return
		}
		n++
		key := fmt.Sprintf("plugin-merge:insert#%d(%s)", n, core.TypeLabel(mu.Map.Type()))
		var edges []core.Edge
		core.Instrs(cl, func(i2 ssa.Instruction) {
			lk, ok := i2.(*ssa.Lookup)
			if !ok || !lk.CommaOk || !core.SameValue(lk.Index, mu.Key) {
				return
			}
			for _, r := range *lk.Referrers() {
				ex, ok := r.(*ssa.Extract)
				if !ok || ex.Index != 1 {
					continue
				}
				for _, rr := range *ex.Referrers() {
					if ifi, ok := rr.(*ssa.If); ok {
						edges = append(edges, core.Edge{From: ifi.Block(), To: ifi.Block().Succs[1]})
					}
				}
			}
		})
		ok2 := len(edges) > 0 && core.AllPathsThroughEdges(cl, mu.Block(), edges)
		why := "a plugin's file is merged without testing whether another plugin already produced that path"
		if ok2 && !lockedThroughoutAny(cl) {
			ok2, why = false, "the merged maps are accessed before the lock is taken or without a deferred unlock"
		}
		l.Check(ok2, "CONFLICT", key, c.Rel(in.Pos()), "merged only on the path-not-taken edge, under the fan-out lock", why)
	})
}

// checkPathPrefix: containment between two file-system paths is never decided
// by a string prefix test: "/idl/svc" is a string prefix of "/idl/svc-common"
// without being its ancestor, so a root computed that way can leave an included
// file outside it (its relative path starts with ".." and its output escapes
// the output directory). Flags strings.HasPrefix(a, b) where both operands
// derive from path-valued sources and b is not a constant.
func checkPathPrefix(c *core.Ctx, l *core.Ledger) {
	pathy := func(v ssa.Value) bool {
		seen := map[ssa.Value]bool{}
		var walk func(x ssa.Value, d int) bool
		walk = func(x ssa.Value, d int) bool {
			if d > 10 || seen[x] {
				return false
			}
			seen[x] = true
			switch y := x.(type) {
			case *ssa.Call:
				if o := core.CalleeObj(y); o != nil && o.Pkg() != nil && (o.Pkg().Path() == "path/filepath" || o.Pkg().Path() == "path") {
					return true
				}
				for _, a := range y.Call.Args {
					if walk(a, d+1) {
						return true
					}
				}
			case *ssa.Extract:
				return walk(y.Tuple, d+1)
			case *ssa.Phi:
				for _, e := range y.Edges {
					if walk(e, d+1) {
						return true
					}
				}
			case *ssa.UnOp:
				if fa, ok := y.X.(*ssa.FieldAddr); ok && core.FieldOf(fa) != nil {
					n := core.FieldName(core.FieldOf(fa))
					if strings.HasSuffix(n, "Path") || strings.HasSuffix(n, "Root") || strings.HasSuffix(n, "Dir") || strings.HasSuffix(n, "Directory") {
						return true
					}
				}
				if al, ok := y.X.(*ssa.Alloc); ok {
					for _, r := range *al.Referrers() {
						if st, ok := r.(*ssa.Store); ok && st.Addr == ssa.Value(al) && walk(st.Val, d+1) {
							return true
						}
					}
				}
				if fv, ok := y.X.(*ssa.FreeVar); ok {
					// a captured variable: look at what the enclosing function stores into it
					if p := fv.Parent().Parent(); p != nil {
						found := false
						core.Instrs(p, func(in ssa.Instruction) {
							if mc, ok := in.(*ssa.MakeClosure); ok && mc.Fn == ssa.Value(fv.Parent()) {
								for i, b := range mc.Bindings {
									if fv.Parent().FreeVars[i] == fv {
										if al, ok := b.(*ssa.Alloc); ok {
											for _, r := range *al.Referrers() {
												if st, ok := r.(*ssa.Store); ok && walk(st.Val, d+1) {
													found = true
												}
											}
										}
									}
								}
							}
						})
						// stores inside the closure itself
						core.Instrs(fv.Parent(), func(in ssa.Instruction) {
							if st, ok := in.(*ssa.Store); ok && st.Addr == ssa.Value(fv) && walk(st.Val, d+1) {
								found = true
							}
						})
						return found
					}
				}
			case *ssa.BinOp:
				return walk(y.X, d+1) || walk(y.Y, d+1)
			case *ssa.Slice:
				return walk(y.X, d+1)
			}
			return false
		}
		return walk(v, 0)
	}
	n := 0
	for _, f := range c.AllFuncs("", "gen", "internal/plugin") {
		if c.IsTestFile(f.Pos()) {
			continue
		}
		k := 0
		core.Instrs(f, func(in ssa.Instruction) {
			call, ok := in.(*ssa.Call)
			if !ok || !(core.IsCallTo(call, "strings", "HasPrefix") || core.IsCallTo(call, "strings", "HasSuffix")) {
				return
			}
			n++
			k++
			key := fmt.Sprintf("%s:HasPrefix#%d", core.SSAName(f), k)
			if _, isC := call.Call.Args[1].(*ssa.Const); isC {
				l.Ok("PATH-PREFIX", key, c.Rel(in.Pos()), "prefix test against a constant")
				return
			}
			if pathy(call.Call.Args[0]) && pathy(call.Call.Args[1]) {
				l.Bad("PATH-PREFIX", key, c.Rel(in.Pos()), "containment of one path in another is decided by a string prefix test: a sibling directory whose name merely starts with the other's name (svc / svc-common) is taken for a descendant, so the derived root can leave files outside it and their output escapes the output directory")
				return
			}
			l.Ok("PATH-PREFIX", key, c.Rel(in.Pos()), "not a test between two paths")
		})
	}
	l.Units["prefix_tests_scanned"] = n
}
