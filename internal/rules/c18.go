package rules

import (
	"fmt"
	"go/types"
	"os"
	"sort"
	"strings"

	"golang.org/x/tools/go/ssa"

	"verif/internal/core"
)

func init() { Registry["C18"] = checkC18 }

type poolInfo struct {
	g    *ssa.Global
	typ  *types.Named // pooled struct type
	gets []ssa.Instruction
	puts []ssa.Instruction
	newF *ssa.Function
}

// pools finds the sync.Pool globals of the given packages with their Get/Put sites.
func pools(c *core.Ctx, rels ...string) []*poolInfo {
	var out []*poolInfo
	byG := map[*ssa.Global]*poolInfo{}
	for _, rel := range rels {
		sp := c.SSAPkg(rel)
		if sp == nil {
			continue
		}
		var names []string
		for n := range sp.Members {
			names = append(names, n)
		}
		sort.Strings(names)
		for _, n := range names {
			g, ok := sp.Members[n].(*ssa.Global)
			if !ok {
				continue
			}
			if core.TypeLabel(g.Type()) != "*sync.Pool" {
				continue
			}
			p := &poolInfo{g: g}
			byG[g] = p
			out = append(out, p)
		}
	}
	funcs := c.AllFuncs()
	for _, rel := range rels {
		if sp := c.SSAPkg(rel); sp != nil && sp.Func("init") != nil {
			funcs = append(funcs, sp.Func("init"))
		}
	}
	for _, f := range funcs {
		core.Instrs(f, func(in ssa.Instruction) {
			switch x := in.(type) {
			case ssa.CallInstruction:
				cal := x.Common().StaticCallee()
				if cal == nil || cal.Pkg == nil || cal.Pkg.Pkg.Path() != "sync" || recvNamed(cal) != "Pool" {
					return
				}
				g, ok := x.Common().Args[0].(*ssa.Global)
				if !ok || byG[g] == nil {
					return
				}
				switch cal.Name() {
				case "Get":
					byG[g].gets = append(byG[g].gets, in)
				case "Put":
					byG[g].puts = append(byG[g].puts, in)
				}
			case *ssa.Store:
				// pool = sync.Pool{New: closure}: either stored field-wise into the global or
				// into a local literal that is then copied to the global
				if g, ok := x.Addr.(*ssa.Global); ok && byG[g] != nil {
					if ld, ok := x.Val.(*ssa.UnOp); ok {
						if al, ok := ld.X.(*ssa.Alloc); ok {
							for _, r := range *al.Referrers() {
								fa, ok := r.(*ssa.FieldAddr)
								if !ok {
									continue
								}
								for _, rr := range *fa.Referrers() {
									if st, ok := rr.(*ssa.Store); ok {
										if fn := funcOf(st.Val); fn != nil {
											byG[g].newF = fn
										}
									}
								}
							}
						}
					}
					return
				}
				fa, ok := x.Addr.(*ssa.FieldAddr)
				if !ok {
					return
				}
				g, ok := fa.X.(*ssa.Global)
				if !ok || byG[g] == nil {
					return
				}
				if fn := funcOf(x.Val); fn != nil {
					byG[g].newF = fn
				}
			}
		})
	}
	for _, p := range out {
		if p.newF != nil {
			core.Instrs(p.newF, func(in ssa.Instruction) {
				if a, ok := in.(*ssa.Alloc); ok && a.Heap {
					if n, ok := a.Type().(*types.Pointer).Elem().(*types.Named); ok {
						if _, isS := n.Underlying().(*types.Struct); isS {
							p.typ = n
						}
					}
				}
			})
		}
	}
	return out
}

func funcOf(v ssa.Value) *ssa.Function {
	if mi, ok := v.(*ssa.MakeInterface); ok {
		v = mi.X
	}
	switch fn := v.(type) {
	case *ssa.Function:
		return fn
	case *ssa.MakeClosure:
		return fn.Fn.(*ssa.Function)
	}
	return nil
}

// pooledObject: the typed object obtained from a Get call (after the type assertion).
func pooledObject(get ssa.Instruction) ssa.Value {
	v, ok := get.(ssa.Value)
	if !ok {
		return nil
	}
	for _, r := range *v.Referrers() {
		if ta, ok := r.(*ssa.TypeAssert); ok {
			return ta
		}
	}
	return nil
}

// fieldStores returns, per field index, the stores to obj.field in obj's function.
func fieldStoresOf(obj ssa.Value) map[int][]*ssa.Store {
	out := map[int][]*ssa.Store{}
	for _, r := range *obj.Referrers() {
		fa, ok := r.(*ssa.FieldAddr)
		if !ok {
			continue
		}
		for _, rr := range *fa.Referrers() {
			if st, ok := rr.(*ssa.Store); ok && st.Addr == fa {
				out[fa.Field] = append(out[fa.Field], st)
			}
		}
	}
	return out
}

func isZeroConst(v ssa.Value) bool {
	k, ok := v.(*ssa.Const)
	if !ok {
		return false
	}
	if k.Value == nil {
		return true
	}
	s := k.Value.ExactString()
	return s == "0" || s == `""` || s == "false"
}

func checkC18(c *core.Ctx, l *core.Ledger) {
	l.Explanation = "Static clauses of C18 (the lifecycle and ownership discipline that isolation under any schedule rests on): (POOL-SITES) each of the codec's sync.Pools is read (Get) only in its borrow function and written (Put) only in its release function, and what is Put is the release function's own parameter of the pool's element type; (POOL-RESET) every field of a pooled object is, at every initialisation site, assigned on all paths before the object escapes, or reset to its zero value before every Put (then conditional assignment is stale-free), or written only by the pool's New function (bound method values), or is a value-typed scratch array — otherwise a stale value of the previous borrower could be observed; (POOL-PUT) after Put the release function does not touch the object, and no path executes Put twice; (POOL-PAIR) every internal borrower releases on all paths to return and no path releases the same object twice (a double Put hands one object to two goroutines); (R-LOCK) frame.Client.Send, frame.Reader.Read and frame.Writer.Write take their mutex as first effect with a deferred unlock, so the write and the matching read of one request are not interleaved with another's; (FANOUT) closures run by concurrent.Range access captured variables that any of them writes only between Lock and a deferred Unlock of a captured mutex, and concurrent.Range adds to the WaitGroup before each go statement, defers Done first in each goroutine, appends errors only under its lock and reads them only after Wait; (MUTEX-FIELDS) for every struct that carries a mutex, the fields its methods write after construction are accessed by its methods only with that mutex held (or from methods that are only called under it); (FRESH-RESULT) byte slices returned by methods of the framing layer and the codec originate from memory allocated during the call (or from the arguments), never from a field of the receiver or a package-level variable that the object reuses — a shared frame.Client would otherwise hand one caller's response buffer to the next; (NO-SHARED-STATE) package-level variables of wire, protocol, protocol/binary, protocol/stream and envelope are pools, immutable values (field-less structs, errors, zero-length slices, constants-in-vars) never stored to outside package initialisation; the same for generated packages. NOT decided: absence of data races as such, schedules, results of concurrent operations; callers outside the repository honouring the borrow/release contract; values kept by a user after wire.EvaluateValue closed their lazy lists."
	l.RuleText = "one obligation per pool site / pooled field / borrow site / critical section / package-level variable"
	l.Assumptions = []string{"sync.Pool, sync.Mutex, sync.WaitGroup behave as documented", "external callers release each borrowed object exactly once and do not use it afterwards"}

	checkPools(c, l)

	// ---- POOL-PAIR
	checkBorrowPairs(c, l, "POOL-PAIR", nil, func(f *ssa.Function) bool { return !core.IsGenerated2(c, f) })
	checkDoubleRelease(c, l)
	l.Floor("POOL-PAIR", 6)

	// ---- R-LOCK
	for _, m := range []struct{ rel, fn string }{{"internal/frame", "Client.Send"}, {"internal/frame", "Reader.Read"}, {"internal/frame", "Writer.Write"}} {
		f := c.SSAFunc(c.LookupFunc(m.rel, m.fn))
		if f == nil {
			l.Unk("R-LOCK", m.fn, "", "not found")
			continue
		}
		l.Check(lockedThroughout(f), "R-LOCK", m.fn, c.Rel(f.Pos()), "mutex taken as first effect, unlock deferred: the whole exchange is one critical section", "the method does not hold its mutex from the first effect to return")
	}
	if f := c.SSAFunc(c.LookupFunc("internal/frame", "Client.Send")); f != nil {
		w, r := callsIn(f, "Write"), callsIn(f, "Read")
		ok := len(w) == 1 && len(r) == 1
		if ok {
			// Read only after Write succeeded
			okE := successEdges(f, func(call *ssa.Call) bool { return ssa.Instruction(call) == w[0] })
			ok = core.AllPathsThroughEdges(f, r[0].Block(), okE)
		}
		l.Check(ok, "R-LOCK", "Client.Send:order", c.Rel(f.Pos()), "the response is read only after the request was written, inside the same critical section", "Send does not write then read within one critical section")
	}
	l.Floor("R-LOCK", 4)

	// ---- FANOUT
	rangeFn := c.SSAFunc(c.LookupFunc("internal/concurrent", "Range"))
	if rangeFn == nil {
		l.Unk("FANOUT", "concurrent.Range", "", "not found")
	} else {
		for _, cs := range c.StaticCallSites(rangeFn) {
			if c.IsTestFile(cs.Pos()) {
				continue
			}
			call := cs.(ssa.CallInstruction)
			arg := call.Common().Args[1]
			if mi, ok := arg.(*ssa.MakeInterface); ok {
				arg = mi.X
			}
			mc, ok := arg.(*ssa.MakeClosure)
			key := "closure@" + core.SSAName(cs.Parent())
			if !ok {
				if _, isFn := arg.(*ssa.Function); isFn {
					l.Ok("FANOUT", key, c.Rel(cs.Pos()), "a plain function (captures nothing)")
				} else {
					l.Unk("FANOUT", key, c.Rel(cs.Pos()), "callback is not a closure literal")
				}
				continue
			}
			why := fanoutClosureProblem(mc)
			l.Check(why == "", "FANOUT", key, c.Rel(cs.Pos()), "captured variables written by the callback are accessed only under the captured mutex (deferred unlock)", why)
		}
		// Range itself: go statements in the function or in a local closure it calls (a shared
		// "spawn" helper); spawn points are the places in Range from which a goroutine is started
		var gos []*ssa.Go
		var spawnPoints []ssa.Instruction
		core.Instrs(rangeFn, func(in ssa.Instruction) {
			if g, ok := in.(*ssa.Go); ok {
				gos = append(gos, g)
				spawnPoints = append(spawnPoints, in)
			}
		})
		for _, cl := range core.WithClosures(rangeFn) {
			if cl == rangeFn {
				continue
			}
			has := false
			core.Instrs(cl, func(in ssa.Instruction) {
				if g, ok := in.(*ssa.Go); ok {
					gos = append(gos, g)
					has = true
				}
			})
			if !has {
				continue
			}
			// calls of that closure in Range
			core.Instrs(rangeFn, func(in ssa.Instruction) {
				call, ok := in.(ssa.CallInstruction)
				if !ok {
					return
				}
				if mc, isMC := call.Common().Value.(*ssa.MakeClosure); isMC && mc.Fn == ssa.Value(cl) {
					spawnPoints = append(spawnPoints, in)
				}
			})
		}
		for i, g := range gos {
			key := fmt.Sprintf("concurrent.Range:go#%d", i+1)
			var why []string
			// wg.Add(1) in the same block before the go statement
			added := false
			for _, in := range g.Block().Instrs {
				if in == ssa.Instruction(g) {
					break
				}
				if call, ok := in.(ssa.CallInstruction); ok {
					if o := core.CalleeObj(call); o != nil && o.Name() == "Add" && o.Pkg() != nil && o.Pkg().Path() == "sync" {
						added = true
					}
				}
			}
			if !added {
				why = append(why, "no WaitGroup.Add before the go statement")
			}
			mc, ok := g.Call.Value.(*ssa.MakeClosure)
			if !ok {
				why = append(why, "goroutine body is not a closure literal")
			} else {
				body := mc.Fn.(*ssa.Function)
				// first instruction of note: defer wg.Done()
				first := false
				for _, in := range body.Blocks[0].Instrs {
					if d, ok := in.(*ssa.Defer); ok {
						if o := core.CalleeObj(d); o != nil && o.Name() == "Done" {
							first = true
						}
						break
					}
					if _, isCall := in.(*ssa.Call); isCall {
						break
					}
				}
				if !first {
					why = append(why, "Done is not deferred before the callback runs (a panic or early return would hang Wait)")
				}
				// stores to captured cells only between Lock and Unlock
				var lock, unlock ssa.Instruction
				core.Instrs(body, func(in ssa.Instruction) {
					if call, ok := in.(*ssa.Call); ok {
						if o := core.CalleeObj(call); o != nil && o.Pkg() != nil && o.Pkg().Path() == "sync" {
							switch o.Name() {
							case "Lock":
								lock = in
							case "Unlock":
								unlock = in
							}
						}
					}
				})
				core.Instrs(body, func(in ssa.Instruction) {
					s, ok := in.(*ssa.Store)
					if !ok {
						return
					}
					if _, isFV := s.Addr.(*ssa.FreeVar); !isFV {
						return
					}
					if lock == nil || unlock == nil {
						why = append(why, "shared variable written without a lock")
						return
					}
					if found, _ := core.PathFromEntryAvoiding(body, func(i2 ssa.Instruction) bool { return i2 == lock }, func(i2 ssa.Instruction) bool { return i2 == in }); found {
						why = append(why, "shared variable written before Lock")
					}
					if found, _ := core.PathAvoiding(unlock, nil, func(i2 ssa.Instruction) bool { return i2 == in }); found {
						why = append(why, "shared variable written after Unlock")
					}
					if leak, _ := core.PathToExitAvoiding(lock, func(i2 ssa.Instruction) bool { return i2 == unlock }, false); leak {
						why = append(why, "a path returns with the lock held")
					}
				})
			}
			l.Check(len(why) == 0, "FANOUT", key, c.Rel(g.Pos()), "Add precedes go; Done deferred first; shared error list appended only between Lock and Unlock", strings.Join(uniq(why), "; "))
		}
		// Wait dominates every return that follows a go statement
		waits := callsIn(rangeFn, "Wait")
		ok := len(waits) == 1 && len(gos) >= 1 && len(spawnPoints) >= 1
		if ok {
			for _, g := range spawnPoints {
				if leak, _ := core.PathToExitAvoiding(g, func(in ssa.Instruction) bool { return in == waits[0] }, false); leak {
					ok = false
				}
			}
		}
		l.Check(ok, "FANOUT", "concurrent.Range:wait", c.Rel(rangeFn.Pos()), "every path from a go statement to return passes Wait, so results are read after all callbacks finished", "Range can return (and read the error list) while callbacks are still running")
	}
	l.Floor("FANOUT", 5)

	// ---- MUTEX-FIELDS
	checkMutexFields(c, l, "MUTEX-FIELDS", []string{"internal/frame", "internal/plugin", "internal/process", "internal/concurrent", "protocol/binary", "envelope", "internal/envelope", "internal/multiplex", "plugin", "gen"})

	// ---- FRESH-RESULT
	checkFreshResults(c, l, "FRESH-RESULT", []string{"internal/frame", "protocol/binary", "internal/envelope", "envelope", "internal/process"})
	l.Floor("FRESH-RESULT", 4)

	// ---- NO-SHARED-STATE
	checkSharedState(c, l)
}

// fanoutClosureProblem: variables captured by the callback and written by it
// must be accessed only under a captured mutex with a deferred unlock.
func fanoutClosureProblem(mc *ssa.MakeClosure) string {
	body := mc.Fn.(*ssa.Function)
	// captured cells written by the closure: Store through FreeVar, or MapUpdate on a value loaded from a FreeVar
	written := map[*ssa.FreeVar]bool{}
	loadedFrom := func(v ssa.Value) *ssa.FreeVar {
		if u, ok := v.(*ssa.UnOp); ok {
			if fv, ok := u.X.(*ssa.FreeVar); ok {
				return fv
			}
		}
		if fv, ok := v.(*ssa.FreeVar); ok {
			return fv
		}
		return nil
	}
	core.Instrs(body, func(in ssa.Instruction) {
		switch x := in.(type) {
		case *ssa.Store:
			if fv, ok := x.Addr.(*ssa.FreeVar); ok {
				written[fv] = true
			}
		case *ssa.MapUpdate:
			if fv := loadedFrom(x.Map); fv != nil {
				written[fv] = true
			}
		}
	})
	if len(written) == 0 {
		return ""
	}
	var lock ssa.Instruction
	var unlocks []ssa.Instruction
	deferred := false
	core.Instrs(body, func(in ssa.Instruction) {
		call, ok := in.(ssa.CallInstruction)
		if !ok {
			return
		}
		o := core.CalleeObj(call)
		if o == nil || o.Pkg() == nil || o.Pkg().Path() != "sync" || len(call.Common().Args) == 0 {
			return
		}
		if _, isFV := call.Common().Args[0].(*ssa.FreeVar); !isFV {
			return
		}
		if _, isD := in.(*ssa.Defer); isD && o.Name() == "Unlock" {
			deferred = true
		} else if o.Name() == "Unlock" {
			unlocks = append(unlocks, in)
		} else if o.Name() == "Lock" && lock == nil {
			lock = in
		}
	})
	if lock == nil {
		return "the callback writes captured variables without taking a captured mutex"
	}
	isUnlock := func(in ssa.Instruction) bool {
		for _, u := range unlocks {
			if u == in {
				return true
			}
		}
		return false
	}
	if !deferred {
		if len(unlocks) == 0 {
			return "the callback never unlocks the captured mutex"
		}
		// explicit unlock: every path from Lock to a return passes it
		if leak, _ := core.PathToExitAvoiding(lock, isUnlock, true); leak {
			return "a path of the callback returns (or panics) with the captured mutex still held"
		}
	}
	bad := ""
	core.Instrs(body, func(in ssa.Instruction) {
		touches := false
		for _, op := range in.Operands(nil) {
			if *op == nil {
				continue
			}
			if fv, ok := (*op).(*ssa.FreeVar); ok && written[fv] {
				touches = true
			}
		}
		if !touches {
			return
		}
		if found, _ := core.PathFromEntryAvoiding(body, func(i2 ssa.Instruction) bool { return i2 == lock }, func(i2 ssa.Instruction) bool { return i2 == in }); found {
			bad = "a captured variable that the callback writes is accessed before the lock is taken"
		}
		for _, u := range unlocks {
			if found, _ := core.PathAvoiding(u, func(i2 ssa.Instruction) bool { return i2 == lock }, func(i2 ssa.Instruction) bool { return i2 == in }); found {
				bad = "a captured variable that the callback writes is accessed after the mutex was released"
			}
		}
	})
	return bad
}

// checkDoubleRelease: in one function no path releases the same borrowed object twice.
func checkDoubleRelease(c *core.Ctx, l *core.Ledger) {
	n := 0
	for _, f := range c.AllFuncs() {
		if c.IsTestFile(f.Pos()) || core.IsGenerated2(c, f) {
			continue
		}
		for _, call := range core.Calls(f) {
			cv, ok := call.(*ssa.Call)
			if !ok {
				continue
			}
			name := ""
			if cal := cv.Call.StaticCallee(); cal != nil && core.PkgRel(cal) == "protocol/binary" {
				name = cal.Name()
				if recvNamed(cal) == "Protocol" && (name == "Reader" || name == "Writer") {
					name = "Protocol." + name
				}
			}
			if _, is := acquireFns[name]; !is && name != "Protocol.Reader" && name != "Protocol.Writer" {
				continue
			}
			var rel []ssa.Instruction
			core.Instrs(f, func(in ssa.Instruction) {
				if isRelease(in, cv) {
					rel = append(rel, in)
				}
			})
			if len(rel) == 0 {
				continue
			}
			n++
			twice := false
			nDefer := 0
			for _, r := range rel {
				if _, isD := r.(*ssa.Defer); isD {
					nDefer++
				}
				for _, r2 := range rel {
					r2 := r2
					if found, _ := core.PathAvoiding(r, nil, func(in ssa.Instruction) bool { return in == r2 }); found {
						twice = true
					}
				}
			}
			key := fmt.Sprintf("%s:%s:once", core.SSAName(f), name)
			if n > 0 {
				key = fmt.Sprintf("%s#%d", key, countKey(l, "POOL-PAIR", key)+1)
			}
			l.Check(!twice, "POOL-PAIR", key, c.Rel(cv.Pos()), "no path releases the borrowed object twice", "a path releases the same borrowed object twice (explicit release plus deferred release, or a release in a loop): the pool would hand it to two borrowers")
		}
	}
}

func countKey(l *core.Ledger, rule, prefix string) int {
	n := 0
	for _, o := range l.Obls {
		if o.Rule == rule && strings.HasPrefix(o.Key, prefix) {
			n++
		}
	}
	return n
}

// checkSharedState classifies the package-level variables of the codec packages.
func checkSharedState(c *core.Ctx, l *core.Ledger) {
	rels := []string{"wire", "protocol", "protocol/binary", "protocol/stream", "envelope", "ptr", "internal/envelope", "internal/envelope/exception"}
	// generated test packages and the plugin API
	for _, p := range c.Pkgs {
		rel := strings.TrimPrefix(strings.TrimPrefix(p.PkgPath, core.ModPath), "/")
		if strings.HasPrefix(rel, "gen/internal/tests/") || rel == "plugin/api" {
			rels = append(rels, rel)
		}
	}
	// stores to globals, per global
	type use struct {
		f    *ssa.Function
		in   ssa.Instruction
		kind string
	}
	writes := map[*ssa.Global][]use{}
	for _, f := range c.AllFuncs() {
		if c.IsTestFile(f.Pos()) {
			continue
		}
		core.Instrs(f, func(in ssa.Instruction) {
			switch x := in.(type) {
			case *ssa.Store:
				if g := globalRoot(x.Addr); g != nil {
					writes[g] = append(writes[g], use{f, in, "store"})
				}
			case *ssa.MapUpdate:
				if g := globalRoot(x.Map); g != nil {
					writes[g] = append(writes[g], use{f, in, "map update"})
				}
			}
		})
	}
	ng := 0
	for _, rel := range rels {
		sp := c.SSAPkg(rel)
		if sp == nil {
			continue
		}
		var names []string
		for n := range sp.Members {
			names = append(names, n)
		}
		sort.Strings(names)
		for _, n := range names {
			g, ok := sp.Members[n].(*ssa.Global)
			if !ok || strings.HasPrefix(n, "init$") {
				continue
			}
			if c.IsTestFile(g.Pos()) {
				continue
			}
			ng++
			key := rel + "." + n
			if core.TypeLabel(g.Type()) == "*sync.Pool" {
				l.Ok("NO-SHARED-STATE", key, c.Rel(g.Pos()), "a sync.Pool (lifecycle decided by the POOL rules)")
				continue
			}
			var bad []string
			for _, w := range writes[g] {
				if w.f.Name() == "init" || strings.HasPrefix(w.f.Name(), "init#") || w.f.Synthetic != "" {
					continue
				}
				bad = append(bad, fmt.Sprintf("%s at %s in %s", w.kind, c.Rel(w.in.Pos()), core.SSAName(w.f)))
			}
			if len(bad) > 0 {
				l.Bad("NO-SHARED-STATE", key, c.Rel(g.Pos()), "package-level variable is written after initialisation: "+strings.Join(bad, "; "))
				continue
			}
			// a package-level slice is handed to every caller: it shares no memory only if it has no elements
			if _, isSl := g.Type().Underlying().(*types.Pointer).Elem().Underlying().(*types.Slice); isSl && !strings.HasPrefix(rel, "gen/") {
				// (generated packages export Thrift list constants as variables by design: not judged)
				nonEmpty := ""
				var inits []ssa.Instruction
				for _, w := range writes[g] {
					inits = append(inits, w.in)
				}
				if initFn := sp.Func("init"); initFn != nil {
					core.Instrs(initFn, func(in ssa.Instruction) { inits = append(inits, in) })
				}
				for _, in := range inits {
					st, isSt := in.(*ssa.Store)
					if !isSt || st.Addr != ssa.Value(g) {
						continue
					}
					switch v := st.Val.(type) {
					case *ssa.MakeSlice:
						ln, okL := core.ConstInt(v.Len)
						cp, okC := core.ConstInt(v.Cap)
						if !okL || !okC || ln != 0 || cp != 0 {
							nonEmpty = "initialised with make(..., " + core.Sym(v.Len) + ", " + core.Sym(v.Cap) + ")"
						}
					case *ssa.Slice:
						if w, okW := core.ConstSliceWidth(v); !okW || w != 0 {
							nonEmpty = "initialised with a non-empty literal"
						}
					case *ssa.Const:
					default:
						nonEmpty = "initialised with " + core.Sym(st.Val)
					}
				}
				if nonEmpty != "" {
					l.Bad("NO-SHARED-STATE", key, c.Rel(g.Pos()), "package-level slice with elements ("+nonEmpty+"): every caller that receives it shares its backing array")
					continue
				}
			}
			if os.Getenv("VDEBUG") != "" {
				fmt.Fprintf(os.Stderr, "C18 global %s : %s\n", key, core.TypeLabel(g.Type()))
			}
			l.Ok("NO-SHARED-STATE", key, c.Rel(g.Pos()), "never stored to (directly, through a field/element address, or by map update) outside package initialisation")
		}
	}
	l.Units["package_level_vars"] = ng
	// the shared protocol object has no state
	if p := c.Pkg("protocol/binary"); p != nil {
		if o := p.Types.Scope().Lookup("Protocol"); o != nil {
			st, isS := o.Type().Underlying().(*types.Struct)
			l.Check(isS && st.NumFields() == 0, "NO-SHARED-STATE", "binary.Protocol:stateless", c.Rel(o.Pos()), "the shared protocol object is a field-less struct: its methods have nothing to share", "the shared protocol object has fields (state shared by all goroutines)")
		}
	}
	l.Floor("NO-SHARED-STATE", 15)
}

// globalRoot: the global whose storage addr designates (global itself, a field
// or element of it, or memory reached through a pointer/map/slice loaded from it).
func globalRoot(v ssa.Value) *ssa.Global {
	for i := 0; i < 20; i++ {
		switch x := v.(type) {
		case *ssa.Global:
			return x
		case *ssa.FieldAddr:
			v = x.X
		case *ssa.IndexAddr:
			v = x.X
		case *ssa.UnOp:
			v = x.X
		case *ssa.Slice:
			v = x.X
		default:
			return nil
		}
	}
	return nil
}

// checkPools: POOL-SITES, POOL-PUT and POOL-RESET over the codec's sync.Pools
// (shared by C18 and C03: a pooled reader whose fields are not completely
// re-initialised carries state of a previous decode into the next one).
func checkPools(c *core.Ctx, l *core.Ledger) {
	ps := pools(c, "protocol/binary", "protocol", "wire", "protocol/stream", "envelope", "internal/envelope", "internal/frame")
	if len(ps) == 0 {
		l.Unk("POOL-SITES", "anchor", "", "no sync.Pool found")
	}
	for _, p := range ps {
		name := p.g.Name()
		if p.typ == nil || len(p.gets) == 0 || len(p.puts) == 0 {
			l.Unk("POOL-SITES", name, c.Rel(p.g.Pos()), fmt.Sprintf("pool shape not recognised (type=%v gets=%d puts=%d)", p.typ, len(p.gets), len(p.puts)))
			continue
		}
		tname := p.typ.Obj().Name()
		// Get sites: the result is asserted to *T
		for i, g := range p.gets {
			obj := pooledObject(g)
			ok := obj != nil && core.RecvTypeName(obj.Type()) == tname
			l.Check(ok, "POOL-SITES", fmt.Sprintf("%s:Get#%d@%s", name, i+1, core.SSAName(g.Parent())), c.Rel(g.Pos()), "Get result is asserted to the pool's element type *"+tname, "Get result is not asserted to *"+tname)
		}
		for i, put := range p.puts {
			call := put.(ssa.CallInstruction)
			arg := call.Common().Args[1]
			if mi, ok := arg.(*ssa.MakeInterface); ok {
				arg = mi.X
			}
			_, isParam := arg.(*ssa.Parameter)
			ok := isParam && core.RecvTypeName(arg.Type()) == tname
			key := fmt.Sprintf("%s:Put#%d@%s", name, i+1, core.SSAName(put.Parent()))
			l.Check(ok, "POOL-SITES", key, c.Rel(put.Pos()), "Put receives the release function's own *"+tname+" parameter", "Put receives something other than the release function's *"+tname+" parameter (foreign or derived object enters the pool)")
			if !ok {
				continue
			}
			// POOL-PUT: no use after Put, at most one Put per path
			uses := map[ssa.Instruction]bool{}
			for _, r := range *arg.Referrers() {
				uses[r] = true
			}
			after, _ := core.PathAvoiding(put, nil, func(in ssa.Instruction) bool {
				if uses[in] {
					return true
				}
				// uses of values derived from the object (field addresses)
				for _, op := range in.Operands(nil) {
					if fa, ok := (*op).(*ssa.FieldAddr); ok && fa.X == arg {
						return true
					}
				}
				return false
			})
			twice, _ := core.PathAvoiding(put, nil, func(in ssa.Instruction) bool {
				for _, q := range p.puts {
					if q == in {
						return true
					}
				}
				return false
			})
			why := ""
			if after {
				why = "the object is used after it was handed back to the pool"
			}
			if twice {
				why = "a path executes Put twice: the same object would be handed to two borrowers"
			}
			l.Check(!after && !twice, "POOL-PUT", key, c.Rel(put.Pos()), "nothing touches the object after Put and no path reaches a second Put", why)
		}
		// POOL-RESET per field
		st := p.typ.Underlying().(*types.Struct)
		// initialisation sites
		type site struct {
			f   *ssa.Function
			obj ssa.Value
			at  ssa.Instruction
		}
		var sites []site
		for _, g := range p.gets {
			obj := pooledObject(g)
			if obj == nil {
				continue
			}
			if len(fieldStoresOf(obj)) > 0 {
				sites = append(sites, site{g.Parent(), obj, obj.(ssa.Instruction)})
				continue
			}
			// a bare wrapper: its callers initialise
			for _, cs := range c.StaticCallSites(g.Parent()) {
				if v, ok := cs.(ssa.Value); ok {
					sites = append(sites, site{cs.Parent(), v, cs})
				}
			}
		}
		// stores to fields of T anywhere (for the construction-only class)
		storesOutsideNew := map[int][]string{}
		for _, f := range c.AllFuncs() {
			if f == p.newF || c.IsTestFile(f.Pos()) {
				continue
			}
			core.Instrs(f, func(in ssa.Instruction) {
				s, ok := in.(*ssa.Store)
				if !ok {
					return
				}
				if fa, ok := s.Addr.(*ssa.FieldAddr); ok && core.RecvTypeName(fa.X.Type()) == tname {
					if n, ok := fa.X.Type().(*types.Pointer).Elem().(*types.Named); ok && n.Obj() == p.typ.Obj() {
						storesOutsideNew[fa.Field] = append(storesOutsideNew[fa.Field], core.SSAName(f))
					}
				}
			})
		}
		for k := 0; k < st.NumFields(); k++ {
			fld := st.Field(k)
			key := fmt.Sprintf("%s.%s", tname, core.FieldName(fld))
			// (c) construction-only
			if len(storesOutsideNew[k]) == 0 {
				setInNew := false
				if p.newF != nil {
					core.Instrs(p.newF, func(in ssa.Instruction) {
						if s, ok := in.(*ssa.Store); ok {
							if fa, ok := s.Addr.(*ssa.FieldAddr); ok && fa.Field == k && core.RecvTypeName(fa.X.Type()) == tname {
								setInNew = true
							}
						}
					})
				}
				if setInNew {
					l.Ok("POOL-RESET", key, c.Rel(fld.Pos()), "written only by the pool's New function (fixed for the object's lifetime)")
					continue
				}
				if arr, isArr := fld.Type().Underlying().(*types.Array); isArr {
					if b, isB := arr.Elem().Underlying().(*types.Basic); isB && b.Kind() == types.Uint8 {
						l.Ok("POOL-RESET", key, c.Rel(fld.Pos()), "value-typed scratch array private to the object (never assigned as a whole)")
						continue
					}
				}
				if _, isEmb := fld.Type().Underlying().(*types.Struct); isEmb && fld.Type().Underlying().(*types.Struct).NumFields() == 0 {
					l.Ok("POOL-RESET", key, c.Rel(fld.Pos()), "field-less")
					continue
				}
			}
			// (b) reset before every Put
			resetAll := true
			for _, put := range p.puts {
				f := put.Parent()
				call := put.(ssa.CallInstruction)
				arg := call.Common().Args[1]
				if mi, ok := arg.(*ssa.MakeInterface); ok {
					arg = mi.X
				}
				isReset := func(in ssa.Instruction) bool {
					s, ok := in.(*ssa.Store)
					if !ok {
						return false
					}
					fa, ok := s.Addr.(*ssa.FieldAddr)
					return ok && fa.X == arg && fa.Field == k && isZeroConst(s.Val)
				}
				if found, _ := core.PathFromEntryAvoiding(f, isReset, func(in ssa.Instruction) bool { return in == put }); found {
					resetAll = false
				}
			}
			// (a) assigned on all paths at every initialisation site
			assignedAll := len(sites) > 0
			var missing []string
			for _, s := range sites {
				obj := s.obj
				isAssign := func(in ssa.Instruction) bool {
					st, ok := in.(*ssa.Store)
					if !ok {
						return false
					}
					fa, ok := st.Addr.(*ssa.FieldAddr)
					return ok && fa.X == obj && fa.Field == k
				}
				if leak, _ := core.PathToExitAvoiding(s.at, isAssign, false); leak {
					assignedAll = false
					missing = append(missing, core.SSAName(s.f))
				}
			}
			switch {
			case assignedAll:
				l.Ok("POOL-RESET", key, c.Rel(fld.Pos()), fmt.Sprintf("assigned on every path at all %d initialisation sites", len(sites)))
			case resetAll:
				l.Ok("POOL-RESET", key, c.Rel(fld.Pos()), "reset to its zero value before every Put; conditional assignment at borrow time cannot expose a previous borrower's value")
			default:
				l.Bad("POOL-RESET", key, c.Rel(fld.Pos()), "field is neither assigned on all paths when the object is borrowed ("+strings.Join(uniq(missing), ", ")+") nor reset before Put: a value left by the previous borrower can be observed")
			}
		}
	}
	l.Floor("POOL-SITES", 10)
	l.Floor("POOL-PUT", 5)
	l.Floor("POOL-RESET", 12)

}
