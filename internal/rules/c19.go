package rules

import (
	"fmt"
	"go/ast"
	"go/constant"
	"go/token"
	"go/types"
	"sort"
	"strconv"
	"strings"

	"golang.org/x/tools/go/ssa"

	"verif/internal/core"
	"verif/internal/tmpl"
)

func init() { Registry["C19"] = withErrRules(checkC19, "", "gen", "plugin") }

// resolveAt resolves a phi to the value flowing in from pred.
func resolveAt(v ssa.Value, pred *ssa.BasicBlock) ssa.Value {
	for i := 0; i < 4; i++ {
		p, ok := v.(*ssa.Phi)
		if !ok || pred == nil {
			return v
		}
		found := false
		for j, pb := range p.Block().Preds {
			if pb == pred && j < len(p.Edges) {
				v = p.Edges[j]
				found = true
				break
			}
		}
		if !found {
			return v
		}
		return v
	}
	return v
}

// apiTypeShape describes an *api.Type value built by buildType: the name of
// the (single) field set on the literal, looking through PointerType.
func apiTypeShape(v ssa.Value) (ptr bool, ctor string) {
	a, ok := v.(*ssa.Alloc)
	if !ok {
		return false, "?"
	}
	for _, r := range *a.Referrers() {
		fa, ok := r.(*ssa.FieldAddr)
		if !ok {
			continue
		}
		for _, rr := range *fa.Referrers() {
			st, ok := rr.(*ssa.Store)
			if !ok || st.Addr != ssa.Value(fa) {
				continue
			}
			if k, isC := st.Val.(*ssa.Const); isC && k.IsNil() {
				continue
			}
			name := core.FieldName(core.FieldOf(fa))
			if name == "PointerType" {
				_, inner := apiTypeShape(st.Val)
				if inner == "?" {
					if p, isPhi := st.Val.(*ssa.Phi); isPhi {
						for _, e := range p.Edges {
							if _, in := apiTypeShape(e); in != "?" {
								inner = in
							}
						}
					}
				}
				return true, inner
			}
			return false, name
		}
	}
	return false, "?"
}

func checkC19(c *core.Ctx, l *core.Ledger) {
	l.Explanation = "Static clauses of C19: (EXH) buildType handles every TypeSpec kind; FormatType handles every pointer field of api.Type and every api.SimpleType constant; (SIMPLE-AGREE) for each base type the api.SimpleType constant buildType emits is formatted by FormatType to the same Go type name the core generator's typeName uses; (PTR-AGREE) for every TypeSpec kind (and typedef-of-kind) and both requiredness values, buildType wraps the description in a pointer exactly when the core generator's typeReference (required) / typeReferencePtr (optional) prefixes '*' — decided by a finite-domain path analysis of all three functions with the predicate tables of isReferenceType/isStructType/isPrimitiveType; (CTOR-AGREE) container descriptions use the constructor whose FormatType literal equals typeName's literal, selected by the same hashability predicate; (HELPER-PTR) the response helpers take the address of the success value exactly for the kinds whose result field is a pointer to the value type; (REQUEST) a service is added only after its module id was found, modules are registered before root services; (HELPERS) on every shape class WrapResponse returns the success struct only when err == nil, has one nil-checked arm per declared exception and otherwise returns (nil, err); UnwrapResponse tests every exception before success and fails on an empty non-void result; IsException has one arm per exception and a false default. (TYPE-IDENTITY) nothing in gen treats two type specifications as the same because their ThriftName()s are equal (declared exceptions of two files may share a name). (PAIR-ORDER) TypePair.Left/Right are built from the key/value specification and formatted into the key/value position, in that order. NOT decided: ids/paths of a concrete request; helper round trips on values."
	l.RuleText = "one obligation per table row / (kind, requiredness) / (template, shape class)"
	l.Exhaustive = true
	ka := newKindAnalysis(c)

	// ---- EXH on FormatType
	if fobj := c.LookupFunc("plugin", "goFileGenerator.FormatType"); fobj == nil {
		l.Unk("EXH", "FormatType", "", "plugin.goFileGenerator.FormatType not found")
	} else {
		fd := c.Decl(fobj)
		info := c.DeclPkg(fobj).TypesInfo
		apiT := c.Pkg("plugin/api").Types.Scope().Lookup("Type").Type().Underlying().(*types.Struct)
		handled := map[string]bool{}
		var simple *core.Switch
		for _, sw := range core.Switches(info, fd.Body) {
			if sw.IsType {
				continue
			}
			if sw.Tag == nil {
				for _, e := range sw.CaseExprs {
					if be, ok := ast.Unparen(e).(*ast.BinaryExpr); ok && be.Op == token.NEQ {
						if sel, ok := be.X.(*ast.SelectorExpr); ok {
							handled[sel.Sel.Name] = true
						}
					}
				}
				end := core.ClauseEnd(info, sw.Default)
				l.Check(sw.Default != nil && end == "error", "EXH", "FormatType.default", c.Rel(sw.Node.Pos()), "a description with no field set is reported as an error", "FormatType has no error default for an empty description")
			} else if core.TypeLabel(sw.TagType) == "plugin/api.SimpleType" {
				simple = sw
			}
		}
		var missing []string
		for i := 0; i < apiT.NumFields(); i++ {
			f := apiT.Field(i)
			if _, isPtr := f.Type().(*types.Pointer); isPtr && !handled[f.Name()] {
				missing = append(missing, f.Name())
			}
		}
		l.Check(len(missing) == 0, "EXH", "FormatType.fields", c.Rel(fd.Pos()), fmt.Sprintf("all %d pointer fields of api.Type are formatted", len(handled)), "FormatType does not handle api.Type fields "+strings.Join(missing, ", "))
		_ = simple
		tab := formatSimpleTable(c)
		var miss []string
		st := c.Pkg("plugin/api").Types.Scope().Lookup("SimpleType").Type()
		for _, k := range core.ConstsOf(c.Pkg("plugin/api").Types, st) {
			if _, ok := tab[k.Name()]; !ok {
				miss = append(miss, k.Name())
			}
		}
		l.Check(len(miss) == 0 && len(tab) > 0, "EXH", "FormatType.simple", c.Rel(fd.Pos()), "every api.SimpleType constant is formatted to a fixed Go type name (switch, if-chain or literal table alike)", "FormatType does not format "+strings.Join(miss, ", "))
	}
	// buildType totality (no kind reaches its panic) — via kind analysis
	bt := c.SSAFunc(c.LookupFunc("gen", "generateServiceBuilder.buildType"))
	if bt == nil {
		l.Unk("EXH", "buildType", "", "gen.generateServiceBuilder.buildType not found")
		return
	}
	core.Instrs(bt, func(in ssa.Instruction) {
		if p, ok := in.(*ssa.Panic); ok {
			kinds, _ := ka.KindsReaching(bt, p, nil)
			l.Check(len(kinds) == 0, "EXH", "buildType", c.Rel(p.Pos()), "every TypeSpec kind is described", "buildType panics for "+strings.Join(kinds.names(), ", "))
		}
	})
	l.Floor("EXH", 4)

	// ---- SIMPLE-AGREE
	checkSimpleAgree(c, l)

	// ---- PTR-AGREE
	tr := c.SSAFunc(c.LookupFunc("gen", "typeReference"))
	trp := c.SSAFunc(c.LookupFunc("gen", "typeReferencePtr"))
	if tr == nil || trp == nil {
		l.Unk("PTR-AGREE", "anchor", "", "gen.typeReference / typeReferencePtr not found")
	} else {
		var requiredParam *ssa.Parameter
		for _, p := range bt.Params {
			if b, ok := p.Type().Underlying().(*types.Basic); ok && b.Kind() == types.Bool {
				requiredParam = p
			}
		}
		corePtr := func(f *ssa.Function, kind, root string) (string, string) {
			res := map[string]bool{}
			ka.ExploreKinds(f, kind, root, func(in ssa.Instruction, st kstate) {
				r, ok := in.(*ssa.Return)
				if !ok || len(r.Results) != 2 || !core.IsNilErrorReturn(r) {
					return
				}
				v := resolveAt(r.Results[0], st.pred)
				star := false
				if bo, ok := v.(*ssa.BinOp); ok && bo.Op == token.ADD {
					if k, ok := bo.X.(*ssa.Const); ok && k.Value != nil && constant.StringVal(k.Value) == "*" {
						star = true
					}
				}
				res[fmt.Sprint(star)] = true
			})
			var ks []string
			for k := range res {
				ks = append(ks, k)
			}
			sort.Strings(ks)
			return strings.Join(ks, "|"), ""
		}
		pluginPtr := func(kind, root string, required bool) string {
			res := map[string]bool{}
			var subj *ssa.Parameter
			for _, p := range bt.Params {
				if types.Identical(p.Type(), ka.tsType) {
					subj = p
				}
			}
			st0 := kstate{spec: kindSet{kind: true}, root: kindSet{root: true}, bools: map[ssa.Value]bool{requiredParam: required}}
			ka.explore(bt, subj, st0, func(in ssa.Instruction, st kstate) {
				r, ok := in.(*ssa.Return)
				if !ok || len(r.Results) != 2 || !core.IsNilErrorReturn(r) {
					return
				}
				v := resolveAt(r.Results[0], st.pred)
				ptr, _ := apiTypeShape(v)
				res[fmt.Sprint(ptr)] = true
			})
			var ks []string
			for k := range res {
				ks = append(ks, k)
			}
			sort.Strings(ks)
			return strings.Join(ks, "|")
		}
		if requiredParam == nil {
			l.Unk("PTR-AGREE", "anchor:required", "", "buildType has no bool parameter")
		} else {
			roots := ka.nonTypedef().names()
			type cs struct{ kind, root string }
			var cases []cs
			for _, r := range roots {
				cases = append(cases, cs{r, r})
			}
			for _, r := range roots {
				cases = append(cases, cs{"TypedefSpec", r})
			}
			for _, cse := range cases {
				for _, req := range []bool{true, false} {
					f := trp
					if req {
						f = tr
					}
					cp, _ := corePtr(f, cse.kind, cse.root)
					pp := pluginPtr(cse.kind, cse.root, req)
					label := strings.TrimSuffix(cse.kind, "Spec")
					if cse.kind == "TypedefSpec" {
						label = "typedef→" + strings.TrimSuffix(cse.root, "Spec")
					}
					key := fmt.Sprintf("%s/required=%v", label, req)
					l.Check(cp == pp && (cp == "true" || cp == "false"), "PTR-AGREE", key, c.Rel(bt.Pos()),
						fmt.Sprintf("pointer=%s in both the generated struct field type and the plugin type description", cp),
						fmt.Sprintf("the generated field type has pointer=%s but the description sent to plugins has pointer=%s", cp, pp))
				}
			}
		}
	}
	l.Floor("PTR-AGREE", 40)
	checkArgumentNames(c, l)
	checkTypeIdentity(c, l, "TYPE-IDENTITY", []string{"gen"})
	checkPairOrder(c, l, "PAIR-ORDER")

	// ---- HELPER-PTR: isPrimitiveType(k) == !isReferenceType(k) && !isStructType(k) for every root kind
	{
		p1 := ka.predicateTable(c.SSAFunc(c.LookupFunc("gen", "isPrimitiveType")))
		p2 := ka.predicateTable(c.SSAFunc(c.LookupFunc("gen", "isReferenceType")))
		p3 := ka.predicateTable(c.SSAFunc(c.LookupFunc("gen", "isStructType")))
		if p1 == nil || p2 == nil || p3 == nil {
			l.Unk("HELPER-PTR", "tables", "", "predicate tables could not be derived")
		} else {
			var bad []string
			for _, k := range ka.nonTypedef().names() {
				det := func(t [2]bool) (bool, bool) { return t[0] && !t[1], t[0] != t[1] }
				a, okA := det(p1[k])
				b, okB := det(p2[k])
				s, okS := det(p3[k])
				if !okA || !okB || !okS {
					bad = append(bad, k+": predicate not determined by the root kind")
					continue
				}
				if a != (!b && !s) {
					bad = append(bad, fmt.Sprintf("%s: helpers take &success iff isPrimitiveType=%v, but the result field is a pointer to the value type iff %v", k, a, !b && !s))
				}
			}
			l.Check(len(bad) == 0, "HELPER-PTR", "isPrimitiveType≡¬reference∧¬struct", "", "the helpers' address-of condition coincides with 'the optional field type is a pointer to the value type' for all 13 root kinds", strings.Join(bad, "; "))
		}
	}

	checkRequestRules(c, l)
	checkHelperTemplates(c, l)
}

// checkSimpleAgree: kind → api.SimpleTypeX (buildType) → string (FormatType) == typeName literal.
func checkSimpleAgree(c *core.Ctx, l *core.Ledger) {
	typeNameT, _ := dispatchLiterals(c, "typeName")
	// buildType: per case kind, the api.SimpleType constant identifier used
	btConst := map[string]string{}
	btName := "generateServiceBuilder.buildType"
	if o := c.LookupFunc("gen", btName); o != nil && c.Decl(o) != nil {
		btName = core.DeclName(c.Decl(o)) // the anchor may have been renamed
	}
	for _, r := range typeSwitches(c, []string{"gen"}, []string{"compile.TypeSpec"}) {
		if r.Func != btName {
			continue
		}
		for _, st := range r.Node.Body.List {
			cc := st.(*ast.CaseClause)
			var consts []string
			for _, b := range cc.Body {
				ast.Inspect(b, func(n ast.Node) bool {
					if sel, ok := n.(*ast.SelectorExpr); ok && strings.HasPrefix(sel.Sel.Name, "SimpleType") && sel.Sel.Name != "SimpleType" {
						consts = append(consts, sel.Sel.Name)
					}
					return true
				})
			}
			for _, e := range cc.List {
				if t := r.Info.TypeOf(e); t != nil && len(consts) > 0 {
					btConst[core.RecvTypeName(t)] = consts[0]
				}
			}
		}
	}
	// FormatType: SimpleType constant → literal (finite-domain evaluation of FormatType with *t.SimpleType fixed)
	fmtLit := formatSimpleTable(c)
	for _, bk := range baseKinds {
		if bk.kind == "BinarySpec" {
			// []byte = SliceType(SimpleTypeByte)
			l.Check(btConst["BinarySpec"] == "SimpleTypeByte" && fmtLit["SimpleTypeByte"] == "byte" && len(typeNameT["BinarySpec"]) > 0 && typeNameT["BinarySpec"][0] == "[]byte", "SIMPLE-AGREE", "BinarySpec", "", "binary is described as a slice of byte and generated as []byte", "binary: buildType uses "+btConst["BinarySpec"]+" → "+fmtLit[btConst["BinarySpec"]]+"; typeName "+fmt.Sprint(typeNameT["BinarySpec"]))
			continue
		}
		k := btConst[bk.kind]
		want := ""
		if len(typeNameT[bk.kind]) > 0 {
			want = typeNameT[bk.kind][0]
		}
		l.Check(k != "" && fmtLit[k] == want && want == bk.goType, "SIMPLE-AGREE", bk.kind, "", fmt.Sprintf("%s → api.%s → %q = typeName", bk.kind, k, want), fmt.Sprintf("%s: buildType emits api.%s which FormatType renders as %q, but the generated code uses %q", bk.kind, k, fmtLit[k], want))
	}
	l.Check(fmtLit["SimpleTypeStructEmpty"] == "struct{}", "SIMPLE-AGREE", "StructEmpty", "", "set-as-map value type is struct{}", "SimpleTypeStructEmpty is rendered as "+fmtLit["SimpleTypeStructEmpty"])
	// containers: literals
	norm := func(s string) string { return strings.ReplaceAll(s, "%s", "%v") }
	has := func(lits []string, want string) bool {
		for _, x := range lits {
			if norm(x) == want {
				return true
			}
		}
		return false
	}
	var fmtAll []string
	if fobj := c.LookupFunc("plugin", "goFileGenerator.FormatType"); fobj != nil {
		ast.Inspect(c.Decl(fobj).Body, func(n ast.Node) bool {
			if bl, ok := n.(*ast.BasicLit); ok && bl.Kind == token.STRING {
				s, _ := strconv.Unquote(bl.Value)
				fmtAll = append(fmtAll, s)
			}
			return true
		})
	}
	for _, row := range []struct{ kind, lit string }{{"MapSpec", "map[%v]%v"}, {"MapSpec", "[]struct{Key %v; Value %v}"}} {
		l.Check(has(typeNameT[row.kind], row.lit) && has(fmtAll, row.lit), "CTOR-AGREE", row.kind+":"+row.lit, "", "same Go type literal in typeName and FormatType", "container literal "+row.lit+" is not used by both typeName and FormatType")
	}
	l.Check(has(typeNameT["SetSpec"], "map[%v]struct{}") && has(fmtAll, "map[%v]%v"), "CTOR-AGREE", "SetSpec:map", "", "hashable sets are map[T]struct{} on both sides", "set-as-map literal disagrees")
	l.Check((has(typeNameT["SetSpec"], "[]%v")) && has(fmtAll, "[]%v"), "CTOR-AGREE", "SetSpec:slice", "", "slice-backed sets are []T on both sides", "set-as-slice literal disagrees")
	l.Floor("SIMPLE-AGREE", 9)
	l.Floor("CTOR-AGREE", 4)
	// same hashability predicate object on the same field in buildType and typeName
	for _, fn := range []string{"generateServiceBuilder.buildType", "typeName"} {
		fobj := c.LookupFunc("gen", fn)
		if fobj == nil {
			continue
		}
		src := ""
		ast.Inspect(c.Decl(fobj).Body, func(n ast.Node) bool {
			if call, ok := n.(*ast.CallExpr); ok {
				if id, ok := call.Fun.(*ast.Ident); ok && (id.Name == "isHashable" || id.Name == "setUsesMap") {
					src += types.ExprString(call) + ";"
				}
			}
			return true
		})
		wantMap := "isHashable(s.KeySpec)"
		l.Check(strings.Contains(src, wantMap), "CTOR-AGREE", fn+":map-predicate", c.Rel(c.Decl(fobj).Pos()), "map vs key-value slice is decided by isHashable(KeySpec)", fn+" does not decide the map representation with isHashable(KeySpec): "+src)
	}
}

func checkRequestRules(c *core.Ctx, l *core.Ledger) {
	// addService: the Services insertion is dominated by a successful module id lookup
	if f := c.SSAFunc(c.LookupFunc("gen", "generateServiceBuilder.addService")); f != nil {
		var okEdges []core.Edge
		var ins ssa.Instruction
		core.Instrs(f, func(in ssa.Instruction) {
			if lk, ok := in.(*ssa.Lookup); ok && lk.CommaOk {
				if fld, _ := core.LoadedField(lk.X); fld != nil && isMapTo(fld.Type(), "ModuleID") {
					for _, r := range *lk.Referrers() {
						if ex, ok := r.(*ssa.Extract); ok && ex.Index == 1 {
							for _, rr := range *ex.Referrers() {
								if ifi, ok := rr.(*ssa.If); ok {
									okEdges = append(okEdges, core.Edge{From: ifi.Block(), To: ifi.Block().Succs[0]})
								}
								if un, ok := rr.(*ssa.UnOp); ok {
									for _, r3 := range *un.Referrers() {
										if ifi, ok := r3.(*ssa.If); ok {
											okEdges = append(okEdges, core.Edge{From: ifi.Block(), To: ifi.Block().Succs[1]})
										}
									}
								}
							}
						}
					}
				}
			}
			if mu, ok := in.(*ssa.MapUpdate); ok {
				if fld, _ := core.LoadedField(mu.Map); fld != nil && core.FieldName(fld) == "Services" {
					ins = in
				}
			}
		})
		l.Check(ins != nil && core.AllPathsThroughEdges(f, ins.Block(), okEdges), "REQUEST", "addService.module-id", c.Rel(f.Pos()), "a service enters the request only after the id of its module was found", "a service can be added to the request without a known module id")
		// ModuleID of the service record is that looked-up id
	} else {
		l.Unk("REQUEST", "addService", "", "not found")
	}
	// generateModule: modules are registered (Walk(addModules)) before root services are added
	checkModulesFirst(c, l, "REQUEST", "generateModule.modules-first")
	checkRootExact(c, l)
	checkGoTypeAnnotation(c, l)
	if f := c.SSAFunc(c.LookupFunc("gen", "generateModule")); f != nil {
		// root services are exactly m.Services of the module being generated
		rootOK := false
		core.Instrs(f, func(in ssa.Instruction) {
			if call, ok := in.(ssa.CallInstruction); ok {
				if cal := call.Common().StaticCallee(); cal != nil && cal.Name() == "AddRootService" {
					s := core.Sym(call.Common().Args[1])
					if strings.Contains(s, "$0.Services[") {
						rootOK = true
					}
				}
			}
		})
		l.Check(rootOK, "REQUEST", "generateModule.root-services", c.Rel(f.Pos()), "root services are the services of the module being generated", "AddRootService is not called with the services of the module being generated")
	} else {
		l.Unk("REQUEST", "generateModule", "", "not found")
	}
	l.Floor("REQUEST", 3)
}

func checkHelperTemplates(c *core.Ctx, l *core.Ledger) {
	mod := tmpl.Extract(c)
	elems := 1
	if l.Tier == "thorough" {
		elems = 2
	}
	xs := expansions(c, elems)
	funcLit := func(v *tmpl.Variant) *ast.FuncLit {
		var fl *ast.FuncLit
		if v.File == nil {
			return nil
		}
		ast.Inspect(v.File, func(n ast.Node) bool {
			if f, ok := n.(*ast.FuncLit); ok && fl == nil {
				fl = f
			}
			return true
		})
		return fl
	}
	// WrapResponse
	if t := findTemplate(mod, "functionWrapResponse#1"); t != nil {
		for _, v := range xs[t].Variants {
			key := t.ID + ":[" + v.AtomString() + "]"
			fl := funcLit(v)
			if fl == nil {
				l.Bad("HELPERS", key, c.Rel(t.Pos), "no function literal")
				continue
			}
			var bad []string
			stmts := fl.Body.List
			hasRet := v.Atoms["δˑFunctionˑResultSpecˑReturnType"]
			hasExc := v.Atoms["δˑFunctionˑResultSpecˑExceptions"]
			prim := v.Atoms["ƒisPrimitiveTypeʃδˑFunctionˑResultSpecˑReturnType"]
			first := nodeStr(v.Fset, stmts[0])
			res := "ƒnamePrefixʃδˑServiceˑδˑFunctionResult"
			wantFirst := "if err == nil { return &" + res + "{}, nil }"
			if hasRet {
				if prim {
					wantFirst = "if err == nil { return &" + res + "{Success: &success}, nil }"
				} else {
					wantFirst = "if err == nil { return &" + res + "{Success: success}, nil }"
				}
			}
			if first != wantFirst {
				bad = append(bad, "success arm: "+first+" (expected "+wantFirst+")")
			}
			last := nodeStr(v.Fset, stmts[len(stmts)-1])
			if last != "return nil, err" {
				bad = append(bad, "undeclared errors are not returned unchanged: "+last)
			}
			mid := stmts[1 : len(stmts)-1]
			if hasExc {
				if len(mid) != 1 {
					bad = append(bad, "expected one type switch over the declared exceptions")
				} else if ts, ok := mid[0].(*ast.TypeSwitchStmt); !ok {
					bad = append(bad, "declared exceptions are not dispatched by a type switch")
				} else {
					els := variantElems(v)
					if len(ts.Body.List) != len(els) {
						bad = append(bad, fmt.Sprintf("%d exception arms for %d declared exceptions", len(ts.Body.List), len(els)))
					}
					for i, st := range ts.Body.List {
						cc := st.(*ast.CaseClause)
						if i >= len(els) {
							break
						}
						e := els[i]
						if len(cc.List) != 1 || nodeStr(v.Fset, cc.List[0]) != "ƬtypeReferencePtrʃ"+e+"ˑType" {
							bad = append(bad, "exception arm is not selected by the exception's own pointer type")
						}
						body := ""
						for _, b := range cc.Body {
							body += nodeStr(v.Fset, b) + " "
						}
						if !strings.Contains(body, "if e == nil { return nil, errors.New(") || !strings.Contains(body, "return &"+res+"{ƒgoNameʃ"+e+": e}, nil") {
							bad = append(bad, "exception arm does not nil-check and store the exception in its own result field: "+body)
						}
					}
				}
			} else if len(mid) != 0 {
				bad = append(bad, "unexpected statements for a function without exceptions")
			}
			sort.Strings(bad)
			l.Check(len(bad) == 0, "HELPERS", key, c.Rel(t.Pos), "WrapResponse: success only when err == nil; one nil-checked arm per declared exception; everything else refused", strings.Join(bad, "; "))
		}
	} else {
		l.Unk("HELPERS", "WrapResponse", "", "template not found")
	}
	// UnwrapResponse
	if t := findTemplate(mod, "functionUnwrapResponse#1"); t != nil {
		for _, v := range xs[t].Variants {
			key := t.ID + ":[" + v.AtomString() + "]"
			fl := funcLit(v)
			if fl == nil {
				l.Bad("HELPERS", key, c.Rel(t.Pos), "no function literal")
				continue
			}
			var clauses []string
			for _, s := range fl.Body.List {
				clauses = append(clauses, nodeStr(v.Fset, s))
			}
			hasRet := v.Atoms["δˑFunctionˑResultSpecˑReturnType"]
			prim := v.Atoms["ƒisPrimitiveTypeʃδˑFunctionˑResultSpecˑReturnType"]
			var want []string
			for _, e := range variantElems(v) {
				want = append(want, "if result.ƒgoNameʃ"+e+" != nil { err = result.ƒgoNameʃ"+e+" return }")
			}
			if hasRet {
				if prim {
					want = append(want, "if result.Success != nil { success = *result.Success return }")
				} else {
					want = append(want, "if result.Success != nil { success = result.Success return }")
				}
				want = append(want, `err = errors.New("expected a non-void result")`)
			}
			want = append(want, "return")
			l.Check(strings.Join(clauses, " | ") == strings.Join(want, " | "), "HELPERS", key, c.Rel(t.Pos), "UnwrapResponse: exceptions first, then the success value (dereferenced iff primitive), error on an empty non-void result", "UnwrapResponse clauses ["+strings.Join(clauses, " | ")+"] differ from ["+strings.Join(want, " | ")+"]")
		}
	} else {
		l.Unk("HELPERS", "UnwrapResponse", "", "template not found")
	}
	// IsException
	if t := findTemplate(mod, "functionIsException#1"); t != nil {
		for _, v := range xs[t].Variants {
			key := t.ID + ":[" + v.AtomString() + "]"
			fl := funcLit(v)
			ok := false
			if fl != nil && len(fl.Body.List) == 1 {
				if ts, isTS := fl.Body.List[0].(*ast.TypeSwitchStmt); isTS {
					els := variantElems(v)
					ok = len(ts.Body.List) == len(els)+1
					for i, st := range ts.Body.List {
						cc := st.(*ast.CaseClause)
						body := ""
						for _, b := range cc.Body {
							body += nodeStr(v.Fset, b)
						}
						if cc.List == nil {
							if body != "return false" {
								ok = false
							}
						} else if i < len(els) {
							if nodeStr(v.Fset, cc.List[0]) != "ƬtypeReferencePtrʃ"+els[i]+"ˑType" || body != "return true" {
								ok = false
							}
						}
					}
				}
			}
			l.Check(ok, "HELPERS", key, c.Rel(t.Pos), "IsException: true exactly for the declared exception types", "IsException does not have one true arm per declared exception and a false default")
		}
	} else {
		l.Unk("HELPERS", "IsException", "", "template not found")
	}
	// helper signatures use the value type of the return
	if t := findTemplate(mod, "functionHelper#1"); t != nil {
		for _, v := range xs[t].Variants {
			if v.File == nil || !v.Atoms["δˑFunctionˑResultSpecˑReturnType"] {
				continue
			}
			src := nodeStr(v.Fset, v.File)
			rt := "ƬtypeReferenceʃδˑFunctionˑResultSpecˑReturnType"
			ok := strings.Contains(src, "WrapResponse func("+rt+", error)") && strings.Contains(src, "UnwrapResponse func(*ƒnamePrefixʃδˑServiceˑδˑFunctionResult) ("+rt+", error)")
			l.Check(ok, "HELPERS", t.ID+":["+v.AtomString()+"]", c.Rel(t.Pos), "helper signatures use the value type of the declared return type", "helper signatures do not use typeReference of the return type")
		}
	}
	l.Floor("HELPERS", 8)
}

// checkModulesFirst: generateModule registers every module of its own include
// tree (a Walk whose callback calls AddModule on the visited module) before it
// adds any root service. Registration is then self-contained: whether a
// service's ancestors are known does not depend on which other modules were
// generated earlier (the order of compile.Module.Walk is a map order).
func checkModulesFirst(c *core.Ctx, l *core.Ledger, rule, key string) {
	f := c.SSAFunc(c.LookupFunc("gen", "generateModule"))
	if f == nil {
		l.Unk(rule, key, "", "generateModule not found")
		return
	}
	var walk, addRoot ssa.Instruction
	cbOK := false
	core.Instrs(f, func(in ssa.Instruction) {
		call, ok := in.(ssa.CallInstruction)
		if !ok {
			return
		}
		cal := call.Common().StaticCallee()
		if cal == nil {
			return
		}
		if cal.Name() == "Walk" && recvNamed(cal) == "Module" && core.Sym(call.Common().Args[0]) == "$0" {
			// the callback registers the module it is given
			cb := funcValueTarget(call.Common().Args[1])
			if cb != nil {
				// the parameter that is the visited module
				mod := ""
				for i, p := range cb.Params {
					if core.TypeLabel(p.Type()) == "*compile.Module" {
						mod = fmt.Sprintf("$%d", i)
					}
				}
				for _, ac := range callsIn(cb, "AddModule") {
					args := ac.(ssa.CallInstruction).Common().Args
					if s := core.Sym(args[len(args)-1]); mod != "" && s == mod+".ThriftPath" {
						cbOK = true
					}
				}
			}
			if walk == nil && cbOK {
				walk = in
			}
		}
		if cal.Name() == "AddRootService" {
			addRoot = in
		}
	})
	ok := walk != nil && addRoot != nil && cbOK
	if ok {
		// the walk succeeded on every path to AddRootService
		okE := successEdges(f, func(call *ssa.Call) bool { return ssa.Instruction(call) == walk })
		ok = len(okE) > 0 && core.AllPathsThroughEdges(f, addRoot.Block(), okE)
	}
	l.Check(ok, rule, key, c.Rel(f.Pos()), "every module of the file's own include tree is registered (Walk over the module with an AddModule callback, succeeded) before its services are added as roots", "root services can be added before every module they may refer to is registered by this same call: whether generation succeeds then depends on which other modules were generated earlier")
}

// checkRootExact: AddRootService / AddRootModule put the id into the request's
// root list on every successful call unless that id is already in the root
// list (membership in a set that is only ever extended together with the
// list). A successful return that does neither — for instance because the
// service is already known as somebody's parent — leaves a generated file's
// service out of RootServices, and plugins skip it.
func checkRootExact(c *core.Ctx, l *core.Ledger) {
	for _, r := range []struct{ fn, list string }{{"generateServiceBuilder.AddRootService", "RootServices"}, {"generateServiceBuilder.AddRootModule", "RootModules"}} {
		f := c.SSAFunc(c.LookupFunc("gen", r.fn))
		key := r.fn + ":" + r.list
		if f == nil {
			l.Unk("ROOT-EXACT", key, "", "not found")
			continue
		}
		var appendStore ssa.Instruction
		core.Instrs(f, func(in ssa.Instruction) {
			if st, ok := in.(*ssa.Store); ok {
				if fa, ok := st.Addr.(*ssa.FieldAddr); ok && core.FieldOf(fa) != nil && core.FieldName(core.FieldOf(fa)) == r.list && strings.HasPrefix(core.Sym(st.Val), "append(") {
					appendStore = in
				}
			}
		})
		if appendStore == nil {
			l.Bad("ROOT-EXACT", key, c.Rel(f.Pos()), "the id is never appended to "+r.list)
			continue
		}
		// root-set maps: updated only next to an append to the list (anywhere in package gen)
		rootSet := map[string]bool{}
		notRoot := map[string]bool{}
		for _, g := range c.AllFuncs("gen") {
			if c.IsTestFile(g.Pos()) {
				continue
			}
			core.Instrs(g, func(in ssa.Instruction) {
				mu, ok := in.(*ssa.MapUpdate)
				if !ok {
					return
				}
				fld, _ := core.LoadedField(mu.Map)
				if fld == nil {
					return
				}
				with := false
				for _, bi := range in.Block().Instrs {
					if st, ok := bi.(*ssa.Store); ok {
						if fa, ok := st.Addr.(*ssa.FieldAddr); ok && core.FieldOf(fa) != nil && core.FieldName(core.FieldOf(fa)) == r.list {
							with = true
						}
					}
				}
				if with {
					rootSet[core.FieldName(fld)] = true
				} else {
					notRoot[core.FieldName(fld)] = true
				}
			})
		}
		var hit []core.Edge
		core.Instrs(f, func(in ssa.Instruction) {
			lk, ok := in.(*ssa.Lookup)
			if !ok {
				return
			}
			fld, _ := core.LoadedField(lk.X)
			if fld == nil || !rootSet[core.FieldName(fld)] || notRoot[core.FieldName(fld)] {
				return
			}
			if !lk.CommaOk {
				// a set kept as map[K]bool in which only true is ever stored: the value is the membership
				if b, isB := lk.Type().Underlying().(*types.Basic); !isB || b.Kind() != types.Bool || !onlyTrueStored(c, fld) {
					return
				}
				var follow func(v ssa.Value, neg bool)
				follow = func(v ssa.Value, neg bool) {
					for _, r2 := range *v.Referrers() {
						switch x := r2.(type) {
						case *ssa.UnOp:
							if x.Op == token.NOT {
								follow(x, !neg)
							}
						case *ssa.If:
							idx := 0
							if neg {
								idx = 1
							}
							hit = append(hit, core.Edge{From: x.Block(), To: x.Block().Succs[idx]})
						}
					}
				}
				follow(lk, false)
				return
			}
			for _, rr := range *lk.Referrers() {
				if ex, ok := rr.(*ssa.Extract); ok && ex.Index == 1 {
					for _, r2 := range *ex.Referrers() {
						if ifi, ok := r2.(*ssa.If); ok {
							hit = append(hit, core.Edge{From: ifi.Block(), To: ifi.Block().Succs[0]})
						}
					}
				}
			}
		})
		ok := true
		where := ""
		core.Instrs(f, func(in ssa.Instruction) {
			ret, isR := in.(*ssa.Return)
			if !isR || core.ReturnsNonNilError(ret) {
				return
			}
			// returns on the failure edge of an error test are not successes
			fail := core.GuardEdges(f, func(cm core.Cmp) bool {
				k, isK := cm.Y.(*ssa.Const)
				return cm.Op == token.NEQ && isK && k.IsNil() && core.IsErrorType(cm.X.Type())
			})
			if len(fail) > 0 && core.AllPathsThroughEdges(f, ret.Block(), fail) {
				return
			}
			// a path through the failure edge of an error test is not a successful call, wherever it returns
			if pathAvoidingInstrAndEdges(f, appendStore, append(append([]core.Edge{}, hit...), fail...), in) {
				ok = false
				where = c.Rel(in.Pos())
			}
		})
		l.Check(ok, "ROOT-EXACT", key, c.Rel(f.Pos()), "every successful call appends the id to "+r.list+" unless it is already in the root set", "a successful return at "+where+" neither appends the id to "+r.list+" nor found it in the root set: a root of the generated files can be missing from the request")
	}
	l.Floor("ROOT-EXACT", 2)
}

// formatSimpleTable evaluates goFileGenerator.FormatType for every constant of
// api.SimpleType (t.SimpleType non-nil, *t.SimpleType fixed to the constant)
// and returns constant name -> the Go type name it returns. Constants for
// which the result is not a fixed string are absent.
func formatSimpleTable(c *core.Ctx) map[string]string {
	out := map[string]string{}
	f := c.SSAFunc(c.LookupFunc("plugin", "goFileGenerator.FormatType"))
	if f == nil {
		return out
	}
	st := c.Pkg("plugin/api").Types.Scope().Lookup("SimpleType").Type()
	isSimplePtr := func(v ssa.Value) bool {
		ld, ok := v.(*ssa.UnOp)
		if !ok || ld.Op != token.MUL {
			return false
		}
		fa, ok := ld.X.(*ssa.FieldAddr)
		return ok && core.FieldOf(fa) != nil && core.FieldName(core.FieldOf(fa)) == "SimpleType"
	}
	for _, k := range core.ConstsOf(c.Pkg("plugin/api").Types, st) {
		kv, _ := constant.Int64Val(k.Val())
		paths, ok := c.FiniteEval(f, core.FEOpts{Key: func(v ssa.Value) (core.CVal, bool) {
			if isSimplePtr(v) {
				return core.CVal{Kind: core.CNonNil}, true
			}
			if ld, isLd := v.(*ssa.UnOp); isLd && ld.Op == token.MUL && isSimplePtr(ld.X) {
				return core.CVal{Kind: core.CInt, I: kv}, true
			}
			return core.CVal{}, false
		}})
		if !ok {
			continue
		}
		vals := map[string]bool{}
		for _, p := range paths {
			if p.Panic != "" || len(p.Results) < 2 {
				continue
			}
			// the branch taken for a set SimpleType: paths that did not have to guess another field first
			if len(p.Conds) > 0 {
				continue
			}
			if p.Results[0].Kind == core.CString && p.Results[1].Kind == core.CNil {
				vals[p.Results[0].S] = true
			} else {
				vals["?"] = true
			}
		}
		if len(vals) == 1 {
			for s := range vals {
				if s != "?" {
					out[k.Name()] = s
				}
			}
		}
	}
	return out
}

// checkGoTypeAnnotation: whether a set is generated as a map or as a slice is
// decided by the go.type annotation in the core generator (setUsesMap) and,
// independently, by the plugin side when it formats the type it was sent
// (FormatType). The two agree for every annotation value only if both compare
// the raw annotation with the same constant, with no normalisation (case
// folding, trimming) on either side.
func checkGoTypeAnnotation(c *core.Ctx, l *core.Ledger) {
	n := 0
	consts := map[string]bool{}
	for _, f := range c.AllFuncs("gen", "plugin") {
		if c.IsTestFile(f.Pos()) || core.IsGenerated2(c, f) {
			continue
		}
		k := 0
		core.Instrs(f, func(in ssa.Instruction) {
			lk, ok := in.(*ssa.Lookup)
			if !ok {
				return
			}
			key, isK := lk.Index.(*ssa.Const)
			if !isK || key.Value == nil || key.Value.ExactString() != `"go.type"` {
				return
			}
			n++
			k++
			site := fmt.Sprintf("%s:go.type#%d", core.SSAName(f), k)
			var why []string
			var vals []ssa.Value
			if lk.CommaOk {
				for _, r := range *lk.Referrers() {
					if ex, ok := r.(*ssa.Extract); ok && ex.Index == 0 {
						vals = append(vals, ex)
					}
				}
			} else {
				vals = append(vals, lk)
			}
			for _, v := range vals {
				for _, r := range *v.Referrers() {
					switch x := r.(type) {
					case *ssa.BinOp:
						other := x.Y
						if other == v {
							other = x.X
						}
						kc, isC := other.(*ssa.Const)
						if (x.Op != token.EQL && x.Op != token.NEQ) || !isC || kc.Value == nil {
							why = append(why, "the annotation value is not compared for (in)equality with a constant")
						} else {
							consts[kc.Value.ExactString()] = true
						}
					case *ssa.DebugRef:
					default:
						why = append(why, fmt.Sprintf("the annotation value is transformed or passed on before the test (%T at %s): the core generator and the plugin side can then read the same annotation differently", r, c.Rel(r.Pos())))
					}
				}
			}
			l.Check(len(why) == 0, "GOTYPE-AGREE", site, c.Rel(in.Pos()), "the go.type annotation is compared verbatim with a constant", strings.Join(uniq(why), "; "))
		})
	}
	if n < 2 {
		l.Unk("GOTYPE-AGREE", "sites", "", "expected the annotation to be consulted by the core generator and by the plugin formatter")
	}
	l.Check(len(consts) <= 1, "GOTYPE-AGREE", "same-constant", "", "all sites compare with the same constant", fmt.Sprintf("sites compare the annotation with different constants: %v", consts))
	l.Floor("GOTYPE-AGREE", 3)
}

// onlyTrueStored: every MapUpdate into the given map-typed field in package gen stores the constant true.
func onlyTrueStored(c *core.Ctx, fld *types.Var) bool {
	ok, n := true, 0
	for _, g := range c.AllFuncs("gen") {
		if c.IsTestFile(g.Pos()) {
			continue
		}
		core.Instrs(g, func(in ssa.Instruction) {
			mu, isMU := in.(*ssa.MapUpdate)
			if !isMU {
				return
			}
			if f2, _ := core.LoadedField(mu.Map); f2 != fld {
				return
			}
			n++
			if k, isK := mu.Value.(*ssa.Const); !isK || k.Value == nil || k.Value.String() != "true" {
				ok = false
			}
		})
	}
	return ok && n > 0
}

// isMapTo: t is a map whose element type is the named type elem (the field is
// identified by what it holds, not by what it is called).
func isMapTo(t types.Type, elem string) bool {
	m, ok := t.Underlying().(*types.Map)
	if !ok {
		return false
	}
	n, ok := m.Elem().(*types.Named)
	return ok && n.Obj().Name() == elem
}

// funcValueTarget: the function a function-typed value denotes — a function, a
// closure, or the method behind a method value (the synthetic $bound wrapper is
// looked through).
func funcValueTarget(v ssa.Value) *ssa.Function {
	switch x := v.(type) {
	case *ssa.Function:
		return x
	case *ssa.ChangeType:
		return funcValueTarget(x.X)
	case *ssa.MakeClosure:
		fn, _ := x.Fn.(*ssa.Function)
		if fn != nil && strings.HasSuffix(fn.Name(), "$bound") {
			var target *ssa.Function
			core.Instrs(fn, func(in ssa.Instruction) {
				if call, ok := in.(ssa.CallInstruction); ok && call.Common().StaticCallee() != nil {
					target = call.Common().StaticCallee()
				}
			})
			return target
		}
		return fn
	}
	return nil
}
