package rules

import (
	"fmt"
	"go/token"
	"os"
	"sort"
	"strings"

	"golang.org/x/tools/go/ssa"

	"verif/internal/core"
)

func init() {
	Registry["C20"] = withErrRules(checkC20, "", "internal/compare", "cmd/thriftbreak", "internal/git")
}

// condEdges returns the edges on which the boolean value whose symbolic
// rendering satisfies match has truth value want.
func condEdges(f *ssa.Function, match func(sym string) bool, want bool) []core.Edge {
	var out []core.Edge
	for _, b := range f.Blocks {
		ifi, ok := b.Instrs[len(b.Instrs)-1].(*ssa.If)
		if !ok {
			continue
		}
		cond := ifi.Cond
		neg := false
		for {
			if u, ok := cond.(*ssa.UnOp); ok && u.Op == token.NOT {
				cond, neg = u.X, !neg
				continue
			}
			break
		}
		if !match(core.Sym(cond)) {
			continue
		}
		idx := 0 // successor on which cond is true
		if neg {
			idx = 1
		}
		if !want {
			idx = 1 - idx
		}
		out = append(out, core.Edge{From: b, To: b.Succs[idx]})
	}
	return out
}

// reportSites returns the calls of (*Pass).Report in f.
func reportSites(f *ssa.Function) []*ssa.Call {
	var out []*ssa.Call
	core.Instrs(f, func(in ssa.Instruction) {
		if call, ok := in.(*ssa.Call); ok {
			if cal := call.Call.StaticCallee(); cal != nil && cal.Name() == "Report" && recvNamed(cal) == "Pass" {
				out = append(out, call)
			}
		}
	})
	return out
}

// kindGuards: the conditions (symbolic, parameters numbered from the receiver)
// a diagnostic of each kind may be nested under; anything else narrows it.
var kindGuards = map[string]map[string]bool{
	"deleted-service":      {"($2==c:nil)": true},
	"removed-method":       {"($1==c:nil)": true},
	"optional-to-required": {"$1.Required": true, "$2.Required": true},
	"type-changed":         {"($1.Type==c:nil)": true, "($2.Type==c:nil)": true, "((compile.NamedEntity).ThriftName()!=(compile.NamedEntity).ThriftName())": true},
	"required-added":       {"$2.Fields[i].Required": true},
}

func checkC20(c *core.Ctx, l *core.Ledger) {
	if os.Getenv("VDEBUG") != "" {
		for _, s := range reportSitesInlined(c) {
			fmt.Fprintf(os.Stderr, "C20 site %s msg=%q\n   conds=%v\n", c.Rel(s.call.Pos()), s.msg, s.conds)
		}
	}
	l.Explanation = "Static clauses of C20 on internal/compare and cmd/thriftbreak: (KINDS) each documented breaking edit has exactly one diagnostic site whose guard is the documented condition — deleted service: the new service is nil; removed method: the new function is nil; required field added: the field id is absent from the old struct and the new field is required; optional->required: old not required and new required; type changed: the two declared type names differ — and there is no other diagnostic site, so edits that make none of these conditions true (identical versions, additive optional fields, new methods/services/types/constants/files) report nothing; (COVER) CompareModules visits every service and every type of the old module paired with the same-named definition of the new module, typ forwards every struct pair, structSpecs indexes every old field by id and visits every new field, service visits every old method paired with the same-named new method: every instance is examined wherever it occurs; (SET-ORDER) the only state written while iterating the (unordered) maps is the diagnostics list, appended by Report alone, and each iteration's diagnostics depend only on that iteration's key and value, so the reported set is independent of iteration order; (EXIT) run returns an error iff the diagnostics list is non-empty after a successful comparison, writes every diagnostic, and main turns any error other than flag.ErrHelp into a fatal exit. (ROOT-AGREE) the directory diagnostics are made relative to (Pass.GitDir) and the root against which the git file systems resolve file names are the same value, so filepath.Rel in getRelativePath inverts the Join that produced the module path. NOT decided: git tree diffing (go-git), which files are considered changed, renames, the text of messages, path values on concrete layouts (service-level diagnostics carry the base name by design of the existing tests)."
	l.RuleText = "one obligation per diagnostic site / traversal loop / exit path"
	l.Assumptions = []string{"compile.Compile yields modules whose Services/Types/Fields/Functions tables hold exactly the definitions of the file (C06-C09)", "go-git reports the changed .thrift files"}

	fn := func(name string) *ssa.Function { return c.SSAFunc(c.LookupFunc("internal/compare", "Pass."+name)) }

	// ---- KINDS / COVER on the inlined normal form: CompareModules is explored with every unexported
	// helper of the package in place, so the result does not depend on how the comparison is split
	// into functions. TO is the new field, FROM the old field with the same id, HIT the id lookup.
	const toFld = "$2.Types[*ssa.Next#1].(*compile.StructSpec)#0.Fields[i]"
	norm := func(s string) string {
		s = strings.ReplaceAll(s, "*ssa.MakeMap["+toFld+".ID]#0", "FROM")
		s = strings.ReplaceAll(s, "*ssa.MakeMap["+toFld+".ID]#1", "HIT")
		s = strings.ReplaceAll(s, toFld, "TO")
		// one spelling for nil tests: !(x != nil) is (x == nil), (x != nil) is !(x == nil)
		if strings.HasSuffix(s, "!=c:nil)") {
			neg := strings.HasPrefix(s, "!")
			body := strings.TrimPrefix(s, "!")
			body = strings.TrimSuffix(body, "!=c:nil)") + "==c:nil)"
			if neg {
				s = body
			} else {
				s = "!" + body
			}
		}
		return s
	}
	want := map[string][]string{
		"deleted-service":      {"($2.Services[*ssa.Next#1]==c:nil)"},
		"removed-method":       {"($2.Services[*ssa.Next#1].Functions[*ssa.Next#1]==c:nil)"},
		"optional-to-required": {"!FROM.Required", "HIT", "TO.Required"},
		"type-changed":         {"!(FROM.Type==c:nil)", "!(TO.Type==c:nil)", "(FROM.Type.ThriftName()!=TO.Type.ThriftName())", "HIT"},
		"required-added":       {"!HIT", "TO.Required"},
	}
	loopsWanted := map[string]int{"deleted-service": 1, "removed-method": 2, "optional-to-required": 2, "type-changed": 2, "required-added": 2}
	sites := reportSitesInlined(c)
	found := map[string]int{}
	seen := map[*ssa.Call]bool{}
	for i, s := range sites {
		seen[s.call] = true
		var conds []string
		loops := 0
		for _, cd := range s.conds {
			n := norm(cd)
			switch {
			case n == "next" || strings.HasPrefix(n, "loop("):
				loops++
			case strings.HasPrefix(n, "is(*compile.StructSpec)"):
			case n == "(TO.Type.ThriftName()!=FROM.Type.ThriftName())":
				conds = append(conds, "(FROM.Type.ThriftName()!=TO.Type.ThriftName())")
			default:
				conds = append(conds, n)
			}
		}
		conds = uniq(conds)
		sort.Strings(conds)
		kind := ""
		for k, w := range want {
			if strings.Join(w, " & ") == strings.Join(conds, " & ") {
				kind = k
			}
		}
		pos := c.Rel(s.call.Pos())
		if kind == "" {
			l.Bad("KINDS", fmt.Sprintf("site#%d", i+1), pos, "a diagnostic is reported under conditions that match none of the five documented breaking changes exactly ("+strings.Join(conds, " & ")+"): either a documented change is reported too narrowly/too widely, or something undocumented is reported")
			continue
		}
		found[kind]++
		// every loop level is a real loop (the site, or the call leading to it, lies on a cycle of its function)
		cyclic := 0
		blocks := []*ssa.BasicBlock{s.call.Block()}
		for _, v := range s.via {
			blocks = append(blocks, v.Block())
		}
		for _, b := range blocks {
			if core.CyclicBlocks(b.Parent())[b] {
				cyclic++
			}
		}
		l.Check(loops >= loopsWanted[kind] && cyclic >= loopsWanted[kind], "KINDS", kind, pos, "reported exactly under the documented condition, for every element of the old tables (conditions: "+strings.Join(conds, " & ")+")", fmt.Sprintf("the diagnostic is not issued once per element: %d enclosing loop level(s) that really iterate, %d needed (a loop left early, or the comparison moved out of the loop)", cyclic, loopsWanted[kind]))
	}
	for k := range want {
		if found[k] != 1 {
			l.Bad("KINDS", k+":count", c.Rel(fn("CompareModules").Pos()), fmt.Sprintf("documented breaking change %q has %d diagnostic sites (expected exactly one)", k, found[k]))
		}
	}
	// no diagnostic site outside what CompareModules reaches
	for _, f := range c.AllFuncs() {
		if c.IsTestFile(f.Pos()) {
			continue
		}
		for _, s := range reportSites(f) {
			if !seen[s] {
				l.Bad("KINDS", "extra-site:"+core.SSAName(f), c.Rel(s.Pos()), "a diagnostic site that CompareModules does not reach through the package's own helpers")
			}
		}
	}
	// lints is written by Report only
	for _, f := range c.AllFuncs("internal/compare", "internal/git", "cmd/thriftbreak") {
		if c.IsTestFile(f.Pos()) {
			continue
		}
		core.Instrs(f, func(in ssa.Instruction) {
			st, ok := in.(*ssa.Store)
			if !ok {
				return
			}
			if fa, ok := st.Addr.(*ssa.FieldAddr); ok && core.FieldOf(fa) != nil && core.FieldName(core.FieldOf(fa)) == "lints" {
				isReport := f.Name() == "Report" && recvNamed(f) == "Pass"
				if _, isAlloc := fa.X.(*ssa.Alloc); isAlloc && !isReport {
					return
				}
				l.Check(isReport, "KINDS", "lints-writer:"+core.SSAName(f), c.Rel(in.Pos()), "the diagnostics list is appended by Report only", "the diagnostics list is written outside Report")
			}
		})
	}
	if f := fn("Report"); f != nil {
		app := false
		core.Instrs(f, func(in ssa.Instruction) {
			if call, ok := in.(*ssa.Call); ok {
				if b, isB := call.Call.Value.(*ssa.Builtin); isB && b.Name() == "append" && core.Sym(call.Call.Args[0]) == "$0.lints" {
					app = true
				}
			}
		})
		l.Check(app && len(f.Blocks) == 1, "KINDS", "Report:unconditional", c.Rel(f.Pos()), "Report appends every diagnostic it is given (straight-line)", "Report drops or filters diagnostics")
	} else {
		l.Unk("KINDS", "Report", "", "not found")
	}
	l.Floor("KINDS", 7)

	// ---- COVER: the pairing itself
	if root := fn("CompareModules"); root != nil {
		idx, svcRange, typRange, fnRange := false, false, false, false
		core.WalkInlined(root, inlineHelpers(), func(in ssa.Instruction, via []*ssa.Call) {
			switch x := in.(type) {
			case *ssa.MapUpdate:
				k, v := core.Sym(x.Key), core.Sym(x.Value)
				if k == v+".ID" && strings.HasSuffix(v, ".(*compile.StructSpec)#0.Fields[i]") && strings.HasPrefix(v, "*ssa.Next#2") && core.CyclicBlocks(in.Parent())[in.Block()] {
					idx = true
				}
			case *ssa.Range:
				switch core.Sym(x.X) {
				case "$1.Services":
					svcRange = true
				case "$1.Types":
					typRange = true
				}
				if strings.HasSuffix(core.Sym(x.X), ".Functions") && strings.HasPrefix(core.Sym(x.X), "*ssa.Next#2") {
					fnRange = true
				}
			}
		})
		l.Check(svcRange, "COVER", "services", c.Rel(root.Pos()), "every service of the old module is visited (range over from.Services)", "the services of the old module are not all visited")
		l.Check(typRange, "COVER", "types", c.Rel(root.Pos()), "every type of the old module is visited (range over from.Types)", "the types of the old module are not all visited")
		l.Check(fnRange, "COVER", "functions", c.Rel(root.Pos()), "every method of an old service is visited (range over its Functions)", "the methods of the old services are not all visited")
		l.Check(idx, "COVER", "field-index", c.Rel(root.Pos()), "every field of the old struct is indexed by its id in a loop over all its fields", "old fields are not indexed by id over the whole field list")
	} else {
		l.Unk("COVER", "CompareModules", "", "not found")
	}
	if f := c.SSAFunc(c.LookupFunc("internal/git", "Compare")); f != nil {
		cm := callsIn(f, "CompareModules")
		ok := len(cm) == 1 && core.CyclicBlocks(f)[cm[0].Block()]
		l.Check(ok, "COVER", "git.Compare:changes", c.Rel(f.Pos()), "CompareModules runs once per changed Thrift file", "CompareModules is not called inside the loop over changed files")
	} else {
		l.Unk("COVER", "git.Compare", "", "not found")
	}
	l.Floor("COVER", 5)

	checkCompareEarlyExit(c, l)

	// ---- SET-ORDER
	for _, f := range c.AllFuncs("internal/compare") {
		if c.IsTestFile(f.Pos()) || len(f.Blocks) == 0 {
			continue
		}
		k := 0
		core.Instrs(f, func(in ssa.Instruction) {
			rg, ok := in.(*ssa.Range)
			if !ok {
				return
			}
			if !strings.HasPrefix(core.TypeLabel(rg.X.Type()), "map[") {
				return
			}
			k++
			key := fmt.Sprintf("%s:range#%d", core.SSAName(f), k)
			// loop body: blocks in the cycle containing the Next
			var why []string
			cyc := core.CyclicBlocks(f)
			for _, b := range f.Blocks {
				if !cyc[b] {
					continue
				}
				for _, bi := range b.Instrs {
					switch x := bi.(type) {
					case *ssa.Store:
						if _, isAlloc := x.Addr.(*ssa.Alloc); !isAlloc {
							if ia, isIA := x.Addr.(*ssa.IndexAddr); isIA {
								if _, isLocal := ia.X.(*ssa.Alloc); isLocal {
									continue // varargs array
								}
							}
							why = append(why, "store to shared memory in an unordered loop at "+c.Rel(bi.Pos()))
						} else if !x.Addr.(*ssa.Alloc).Heap {
							continue
						}
					case *ssa.MapUpdate:
						why = append(why, "map update in an unordered loop at "+c.Rel(bi.Pos()))
					case *ssa.Return:
						why = append(why, "early exit from an unordered loop at "+c.Rel(bi.Pos()))
					case *ssa.Call:
						cal := x.Call.StaticCallee()
						if cal != nil && core.InRepo(cal) && recvNamed(cal) != "Pass" {
							why = append(why, "call to "+core.SSAName(cal)+" in an unordered loop")
						}
					}
				}
			}
			l.Check(len(why) == 0, "SET-ORDER", key, c.Rel(rg.Pos()), "each iteration only calls Pass methods on its own key/value; no early exit and no carried state, so the reported set is independent of iteration order", strings.Join(uniq(why), "; "))
		})
	}
	l.Floor("SET-ORDER", 3)

	// ---- EXIT
	if f := c.SSAFunc(c.LookupFunc("cmd/thriftbreak", "run")); f != nil {
		// after the successful Compare: nil return iff len(lints) <= 0
		lints := callsIn(f, "Lints")
		cmp := callsIn(f, "Compare")
		ok := len(lints) == 1 && len(cmp) == 1
		why := "Compare/Lints calls not found"
		if ok {
			isLen := func(cm core.Cmp) bool {
				return strings.HasPrefix(core.Sym(cm.X), "len(") && strings.Contains(core.Sym(cm.X), "Lints(")
			}
			// "there are diagnostics" in any spelling: > 0, != 0, >= 1 — and its complement
			pos := core.GuardEdges(f, func(cm core.Cmp) bool {
				y := core.Sym(cm.Y)
				return isLen(cm) && ((y == "c:0" && (cm.Op == token.GTR || cm.Op == token.NEQ)) || (y == "c:1" && cm.Op == token.GEQ))
			})
			npos := core.GuardEdges(f, func(cm core.Cmp) bool {
				y := core.Sym(cm.Y)
				return isLen(cm) && ((y == "c:0" && (cm.Op == token.LEQ || cm.Op == token.EQL)) || (y == "c:1" && cm.Op == token.LSS))
			})
			if len(pos) != 1 || len(npos) != 1 {
				ok, why = false, "no single test len(lints) > 0"
			} else {
				// the true edge reaches only a non-nil error return; nil returns after Lints() lie on the false edge
				core.Instrs(f, func(in ssa.Instruction) {
					r, isR := in.(*ssa.Return)
					if !isR {
						return
					}
					if reachableFrom(pos[0].To, r.Block()) && pos[0].To != npos[0].To && !reachableFrom(npos[0].To, r.Block()) {
						if !core.DefinitelyNonNilError(r.Results[0], 2) {
							ok, why = false, "a return under len(lints) > 0 may be nil: diagnostics without a failing exit"
						}
					}
					if reachableFrom(npos[0].To, r.Block()) && r.Block() != pos[0].To && !reachableFrom(pos[0].To, r.Block()) {
						if !core.IsNilErrorReturn(r) {
							ok, why = false, "a return with no diagnostics is an error"
						}
					}
				})
				// between Lints() and the test, the only returns are write failures (errors)
			}
			// every lint is written: a loop over lints calling write
			wr := false
			core.Instrs(f, func(in ssa.Instruction) {
				if call, isC := in.(*ssa.Call); isC && call.Call.StaticCallee() == nil && !call.Call.IsInvoke() {
					if len(call.Call.Args) == 1 && strings.Contains(core.Sym(call.Call.Args[0]), "Lints(") && core.CyclicBlocks(f)[in.Block()] {
						wr = true
					}
				}
			})
			if !wr {
				ok, why = false, "diagnostics are not all written (no loop over Lints() calling the writer)"
			}
		}
		l.Check(ok, "EXIT", "thriftbreak.run", c.Rel(f.Pos()), "run fails iff there is at least one diagnostic, and writes each one", why)
	} else {
		l.Unk("EXIT", "thriftbreak.run", "", "not found")
	}
	if f := c.SSAFunc(c.LookupFunc("cmd/thriftbreak", "main")); f != nil {
		fatal := false
		exitWhy := ""
		core.Instrs(f, func(in ssa.Instruction) {
			if core.IsCallTo(in, "log", "Fatalf") || core.IsCallTo(in, "log", "Fatal") || core.IsCallTo(in, "log", "Fatalln") {
				fatal = true
			}
			if core.IsCallTo(in, "os", "Exit") {
				// the status must be a non-zero constant: a computed status (a count, say) is truncated to
				// eight bits by the operating system and can come out as 0
				arg := in.(ssa.CallInstruction).Common().Args[0]
				if k, isK := core.ConstInt(arg); isK && k != 0 && k < 256 {
					fatal = true
				} else if isK && k == 0 {
					// an explicit success exit is fine only where no error is pending; not judged here
				} else {
					exitWhy = "os.Exit is called with a computed status at " + c.Rel(in.Pos()) + ": the operating system keeps its low eight bits, so a failing run can exit 0"
				}
			}
		})
		why := "main does not turn an error from run into a failing exit"
		if exitWhy != "" {
			why = exitWhy
		}
		// the failing exit happens exactly for an error of run that is not the help request: the exit site lies
		// under the non-nil edge of run's own result and, besides that, only under the false edge of
		// errors.Is(<that error>, flag.ErrHelp); run receives the arguments after the program name
		if runs := callsIn(f, "run"); len(runs) == 1 && exitWhy == "" {
			runCall, _ := runs[0].(*ssa.Call)
			var sites []ssa.Instruction
			core.Instrs(f, func(in ssa.Instruction) {
				if core.IsCallTo(in, "log", "Fatalf") || core.IsCallTo(in, "log", "Fatal") || core.IsCallTo(in, "log", "Fatalln") || core.IsCallTo(in, "os", "Exit") {
					sites = append(sites, in)
				}
			})
			if runCall != nil {
				nonNil := core.GuardEdges(f, func(cm core.Cmp) bool {
					k, isK := cm.Y.(*ssa.Const)
					return cm.Op == token.NEQ && cm.X == ssa.Value(runCall) && isK && k.IsNil()
				})
				for _, s := range sites {
					if len(nonNil) == 0 || !core.AllPathsThroughEdges(f, s.Block(), nonNil) {
						exitWhy = "the failing exit at " + c.Rel(s.Pos()) + " is not confined to the case that run returned an error"
					}
				}
				// every other branch on the way is the help test, taken on its false edge
				for _, b := range f.Blocks {
					ifi, isIf := b.Instrs[len(b.Instrs)-1].(*ssa.If)
					if !isIf {
						continue
					}
					if bo, isBo := ifi.Cond.(*ssa.BinOp); isBo && bo.X == ssa.Value(runCall) {
						continue
					}
					okHelp := false
					if call, isCall := ifi.Cond.(*ssa.Call); isCall && core.IsCallTo(call, "errors", "Is") && len(call.Call.Args) == 2 && call.Call.Args[0] == ssa.Value(runCall) {
						if ld, isLd := call.Call.Args[1].(*ssa.UnOp); isLd {
							if g, isG := ld.X.(*ssa.Global); isG && g.Pkg.Pkg.Path() == "flag" && g.Name() == "ErrHelp" {
								okHelp = true
								for _, s := range sites {
									if b.Succs[0] == s.Block() || b.Succs[0].Dominates(s.Block()) {
										exitWhy = "a help request ends in the failing exit at " + c.Rel(s.Pos())
									}
								}
							}
						}
					}
					if !okHelp {
						exitWhy = "main decides about the exit under a condition other than `run failed` and `not a help request`: " + core.Sym(ifi.Cond) + " at " + c.Rel(ifi.Pos())
					}
				}
				// arguments: os.Args[1:]
				argOK := false
				if len(runCall.Call.Args) == 1 {
					if sl, isSl := runCall.Call.Args[0].(*ssa.Slice); isSl && sl.High == nil {
						if lo, isK := core.ConstInt(sl.Low); isK && lo == 1 {
							if ld, isLd := sl.X.(*ssa.UnOp); isLd {
								if g, isG := ld.X.(*ssa.Global); isG && g.Pkg.Pkg.Path() == "os" && g.Name() == "Args" {
									argOK = true
								}
							}
						}
					}
				}
				if !argOK && exitWhy == "" {
					exitWhy = "run is not given os.Args[1:]"
				}
			}
			if exitWhy != "" {
				why = exitWhy
			}
		}
		l.Check(fatal && exitWhy == "" && len(callsIn(f, "run")) == 1, "EXIT", "thriftbreak.main", c.Rel(f.Pos()), "an error from run ends the process through log.Fatalf or os.Exit with a constant non-zero status", why)
	} else {
		l.Unk("EXIT", "thriftbreak.main", "", "not found")
	}
	l.Floor("EXIT", 2)

	// ---- ROOT-AGREE: diagnostics are attributed by filepath.Rel(Pass.GitDir, module path); module paths
	// are filepath.Join(FS.root, relative name). Rel inverts the Join only if both roots are the same value.
	if f := c.SSAFunc(c.LookupFunc("internal/git", "Compare")); f != nil {
		var gitDirs, roots []string
		// the root field of the git file system: the one FS.Abs joins relative names to
		rootField := ""
		if g := c.SSAFunc(c.LookupFunc("internal/git", "FS.Abs")); g != nil {
			core.Instrs(g, func(in ssa.Instruction) {
				if call, ok := in.(*ssa.Call); ok && core.IsCallTo(call, "path/filepath", "Join") && len(call.Call.Args) == 1 {
					// variadic: the first element stored into the argument array
					if sl, ok := call.Call.Args[0].(*ssa.Slice); ok {
						if al, ok := sl.X.(*ssa.Alloc); ok {
							for _, r := range *al.Referrers() {
								ia, ok := r.(*ssa.IndexAddr)
								if !ok {
									continue
								}
								if k, isK := core.ConstInt(ia.Index); !isK || k != 0 {
									continue
								}
								for _, rr := range *ia.Referrers() {
									if st, ok := rr.(*ssa.Store); ok {
										if fld, _ := core.LoadedField(st.Val); fld != nil {
											rootField = core.FieldName(fld)
										}
									}
								}
							}
						}
					}
				}
			})
		}
		core.WalkInlined(f, func(caller, callee *ssa.Function) bool { return callee.Pkg == f.Pkg }, func(in ssa.Instruction, via []*ssa.Call) {
			st, ok := in.(*ssa.Store)
			if !ok {
				return
			}
			fa, ok := st.Addr.(*ssa.FieldAddr)
			if !ok {
				return
			}
			fld := core.FieldOf(fa)
			if fld == nil {
				return
			}
			owner := core.TypeLabel(fa.X.Type())
			switch {
			case core.FieldName(fld) == "GitDir" && strings.HasSuffix(owner, "compare.Pass"):
				gitDirs = append(gitDirs, core.Sym(st.Val))
			case rootField != "" && core.FieldName(fld) == rootField && strings.HasSuffix(owner, "git.FS"):
				roots = append(roots, core.Sym(st.Val))
			}
		})
		var why []string
		if len(gitDirs) == 0 || len(roots) == 0 {
			why = append(why, fmt.Sprintf("anchors not found (stores to Pass.GitDir: %d, to the field FS.Abs joins names to (%q): %d)", len(gitDirs), rootField, len(roots)))
		}
		for _, r := range roots {
			for _, g := range gitDirs {
				if r != g {
					why = append(why, fmt.Sprintf("the file system resolves names against %s but diagnostics are made relative to %s: when the two differ filepath.Rel fails or yields a path outside the repository, and the diagnostic is attributed to the bare file name", r, g))
				}
			}
		}
		relOK := false
		if g := c.SSAFunc(c.LookupFunc("internal/compare", "Pass.getRelativePath")); g != nil {
			core.Instrs(g, func(in ssa.Instruction) {
				if call, ok := in.(*ssa.Call); ok && core.IsCallTo(call, "path/filepath", "Rel") && len(call.Call.Args) == 2 {
					if strings.HasSuffix(core.Sym(call.Call.Args[0]), ".GitDir") {
						relOK = true
					}
				}
			})
		}
		if !relOK {
			why = append(why, "Pass.getRelativePath does not compute filepath.Rel(p.GitDir, path)")
		}
		l.Check(len(why) == 0, "ROOT-AGREE", "git.Compare", c.Rel(f.Pos()), fmt.Sprintf("Pass.GitDir and the root of both git file systems are the same value (%v)", uniq(gitDirs)), strings.Join(uniq(why), "; "))
	} else {
		l.Unk("ROOT-AGREE", "git.Compare", "", "internal/git.Compare not found")
	}
}

// extraGuards walks from the call's block up through single-predecessor chains
// and returns the conditions it is nested under, other than the loop test, a
// map-lookup hit and type-assertion successes (the traversal's own structure).
func extraGuards(call ssa.Instruction) []string {
	var out []string
	b := call.Block()
	for i := 0; i < 50 && len(b.Preds) == 1; i++ {
		p := b.Preds[0]
		if ifi, ok := p.Instrs[len(p.Instrs)-1].(*ssa.If); ok {
			cond := ifi.Cond
			for {
				if u, ok := cond.(*ssa.UnOp); ok && u.Op == token.NOT {
					cond = u.X
					continue
				}
				break
			}
			structural := false
			switch x := cond.(type) {
			case *ssa.Extract:
				switch t := x.Tuple.(type) {
				case *ssa.Next:
					structural = x.Index == 0
				case *ssa.Lookup:
					structural = x.Index == 1
				case *ssa.TypeAssert:
					_, isParam := t.X.(*ssa.Parameter)
					structural = x.Index == 1 && isParam
				}
			case *ssa.BinOp:
				if x.Op == token.LSS && strings.HasPrefix(core.Sym(x.Y), "len(") {
					structural = true
				}
			}
			if !structural {
				out = append(out, core.Sym(cond))
			}
		}
		b = p
	}
	return out
}

// guardAlwaysReports: from the function entry, every path on which the
// documented condition holds reaches the Report call; checked as: the Report's
// block is the unique successor region of the guard (no return between guard
// edge and the call).
func guardAlwaysReports(f *ssa.Function, site *ssa.Call, kind string) string {
	// walk back from the site's block through single-predecessor chains to the guarding If;
	// no Return may be reachable from the guard's taken edge without passing the site
	b := site.Block()
	for len(b.Preds) == 1 {
		p := b.Preds[0]
		if _, isIf := p.Instrs[len(p.Instrs)-1].(*ssa.If); isIf {
			break
		}
		b = p
	}
	// from the start of b, every path to a return passes the site
	seen := map[*ssa.BasicBlock]bool{}
	st := []*ssa.BasicBlock{b}
	for len(st) > 0 {
		x := st[len(st)-1]
		st = st[:len(st)-1]
		if seen[x] {
			continue
		}
		seen[x] = true
		hit := false
		for _, in := range x.Instrs {
			if in == ssa.Instruction(site) {
				hit = true
				break
			}
			if _, isR := in.(*ssa.Return); isR {
				return "under the documented condition a path returns without reporting (" + kind + ")"
			}
		}
		if !hit {
			st = append(st, x.Succs...)
		}
	}
	return ""
}

// reportSitesInlined walks CompareModules with all unexported helpers of the
// package explored in place and returns, for every diagnostic site, the list
// of conditions it is nested under — rendered relative to CompareModules'
// own parameters, whatever functions the code is split into.
type inlinedSite struct {
	call  *ssa.Call
	conds []string
	msg   string
	via   []*ssa.Call
}

func reportSitesInlined(c *core.Ctx) []inlinedSite {
	root := c.SSAFunc(c.LookupFunc("internal/compare", "Pass.CompareModules"))
	if root == nil {
		return nil
	}
	var out []inlinedSite
	core.WalkInlined(root, inlineHelpers(), func(in ssa.Instruction, via []*ssa.Call) {
		call, ok := in.(*ssa.Call)
		if !ok {
			return
		}
		cal := call.Call.StaticCallee()
		if cal == nil || cal.Name() != "Report" || recvNamed(cal) != "Pass" {
			return
		}
		var conds []string
		conds = append(conds, nestingConds(in.Block())...)
		for i := len(via) - 1; i >= 0; i-- {
			conds = append(conds, nestingConds(via[i].Block())...)
		}
		msg := ""
		if len(call.Call.Args) == 2 {
			s := core.Sym(call.Call.Args[1])
			if i := strings.Index(s, `Sprintf(c:"`); i >= 0 {
				msg = s[i+len(`Sprintf(c:"`):]
				if j := strings.Index(msg, `"`); j >= 0 {
					msg = msg[:j]
				}
			}
		}
		out = append(out, inlinedSite{call, conds, msg, append([]*ssa.Call{}, via...)})
	})
	return out
}
