package rules

import (
	"fmt"
	"go/token"
	"strings"

	"golang.org/x/tools/go/ssa"

	"verif/internal/core"
)

func init() { Registry["C20"] = checkC20 }

// condEdges returns the edges on which the boolean value whose symbolic
// rendering satisfies match has truth value want.
func condEdges(f *ssa.Function, match func(sym string) bool, want bool) []core.Edge {
	var out []core.Edge
	for _, b := range f.Blocks {
		ifi, ok := b.Instrs[len(b.Instrs)-1].(*ssa.If)
		if !ok {
			continue
		}
		cond := ifi.Cond
		neg := false
		for {
			if u, ok := cond.(*ssa.UnOp); ok && u.Op == token.NOT {
				cond, neg = u.X, !neg
				continue
			}
			break
		}
		if !match(core.Sym(cond)) {
			continue
		}
		idx := 0 // successor on which cond is true
		if neg {
			idx = 1
		}
		if !want {
			idx = 1 - idx
		}
		out = append(out, core.Edge{From: b, To: b.Succs[idx]})
	}
	return out
}

// reportSites returns the calls of (*Pass).Report in f.
func reportSites(f *ssa.Function) []*ssa.Call {
	var out []*ssa.Call
	core.Instrs(f, func(in ssa.Instruction) {
		if call, ok := in.(*ssa.Call); ok {
			if cal := call.Call.StaticCallee(); cal != nil && cal.Name() == "Report" && recvNamed(cal) == "Pass" {
				out = append(out, call)
			}
		}
	})
	return out
}

// kindGuards: the conditions (symbolic, parameters numbered from the receiver)
// a diagnostic of each kind may be nested under; anything else narrows it.
var kindGuards = map[string]map[string]bool{
	"deleted-service":      {"($2==c:nil)": true},
	"removed-method":       {"($1==c:nil)": true},
	"optional-to-required": {"$1.Required": true, "$2.Required": true},
	"type-changed":         {"($1.Type==c:nil)": true, "($2.Type==c:nil)": true, "((compile.NamedEntity).ThriftName()!=(compile.NamedEntity).ThriftName())": true},
	"required-added":       {"$2.Fields[i].Required": true},
}

func checkC20(c *core.Ctx, l *core.Ledger) {
	l.Explanation = "Static clauses of C20 on internal/compare and cmd/thriftbreak: (KINDS) each documented breaking edit has exactly one diagnostic site whose guard is the documented condition — deleted service: the new service is nil; removed method: the new function is nil; required field added: the field id is absent from the old struct and the new field is required; optional->required: old not required and new required; type changed: the two declared type names differ — and there is no other diagnostic site, so edits that make none of these conditions true (identical versions, additive optional fields, new methods/services/types/constants/files) report nothing; (COVER) CompareModules visits every service and every type of the old module paired with the same-named definition of the new module, typ forwards every struct pair, structSpecs indexes every old field by id and visits every new field, service visits every old method paired with the same-named new method: every instance is examined wherever it occurs; (SET-ORDER) the only state written while iterating the (unordered) maps is the diagnostics list, appended by Report alone, and each iteration's diagnostics depend only on that iteration's key and value, so the reported set is independent of iteration order; (EXIT) run returns an error iff the diagnostics list is non-empty after a successful comparison, writes every diagnostic, and main turns any error other than flag.ErrHelp into a fatal exit. NOT decided: git tree diffing (go-git), which files are considered changed, renames, the text of messages, attribution to directories (service-level diagnostics carry the base name by design of the existing tests)."
	l.RuleText = "one obligation per diagnostic site / traversal loop / exit path"
	l.Assumptions = []string{"compile.Compile yields modules whose Services/Types/Fields/Functions tables hold exactly the definitions of the file (C06-C09)", "go-git reports the changed .thrift files"}

	fn := func(name string) *ssa.Function { return c.SSAFunc(c.LookupFunc("internal/compare", "Pass."+name)) }

	// ---- KINDS
	type kind struct {
		id, fn string
		guard  func(f *ssa.Function, blk *ssa.BasicBlock) string
	}
	nilParam := func(idx int) func(f *ssa.Function, blk *ssa.BasicBlock) string {
		return func(f *ssa.Function, blk *ssa.BasicBlock) string {
			edges := core.GuardEdges(f, func(cm core.Cmp) bool {
				if cm.Op != token.EQL {
					return false
				}
				p, isP := cm.X.(*ssa.Parameter)
				k, isK := cm.Y.(*ssa.Const)
				return isP && isK && k.IsNil() && p == f.Params[idx]
			})
			if len(edges) == 0 || !core.AllPathsThroughEdges(f, blk, edges) {
				return fmt.Sprintf("diagnostic is not guarded by parameter %q being nil", f.Params[idx].Name())
			}
			// and every path on which the parameter is nil reaches the diagnostic
			return ""
		}
	}
	kinds := []kind{
		{"deleted-service", "service", nilParam(2)},
		{"removed-method", "function", nilParam(1)},
		{"optional-to-required", "requiredField", func(f *ssa.Function, blk *ssa.BasicBlock) string {
			e1 := condEdges(f, func(s string) bool { return s == "$1.Required" }, false)
			e2 := condEdges(f, func(s string) bool { return s == "$2.Required" }, true)
			if len(e1) == 0 || !core.AllPathsThroughEdges(f, blk, e1) {
				return "diagnostic is not guarded by the old field being optional"
			}
			if len(e2) == 0 || !core.AllPathsThroughEdges(f, blk, e2) {
				return "diagnostic is not guarded by the new field being required"
			}
			return ""
		}},
		{"type-changed", "changedTypes", func(f *ssa.Function, blk *ssa.BasicBlock) string {
			edges := core.GuardEdges(f, func(cm core.Cmp) bool {
				if cm.Op != token.NEQ {
					return false
				}
				recv := func(v ssa.Value) string {
					call, ok := v.(*ssa.Call)
					if !ok || !call.Call.IsInvoke() || call.Call.Method.Name() != "ThriftName" {
						return ""
					}
					return core.Sym(call.Call.Value)
				}
				a, b := recv(cm.X), recv(cm.Y)
				want := map[string]bool{"$1.Type": true, "$2.Type": true}
				return a != b && want[a] && want[b]
			})
			if len(edges) == 0 || !core.AllPathsThroughEdges(f, blk, edges) {
				return "diagnostic is not guarded by the two declared type names being different"
			}
			return ""
		}},
		{"required-added", "structSpecs", func(f *ssa.Function, blk *ssa.BasicBlock) string {
			// lookup miss on the id-indexed map of old fields
			var miss []core.Edge
			core.Instrs(f, func(in ssa.Instruction) {
				lk, ok := in.(*ssa.Lookup)
				if !ok || !lk.CommaOk {
					return
				}
				if _, isMk := lk.X.(*ssa.MakeMap); !isMk || !strings.HasSuffix(core.Sym(lk.Index), ".ID") || !strings.HasPrefix(core.Sym(lk.Index), "$2.Fields[") {
					return
				}
				for _, r := range *lk.Referrers() {
					if ex, ok := r.(*ssa.Extract); ok && ex.Index == 1 {
						for _, rr := range *ex.Referrers() {
							if ifi, ok := rr.(*ssa.If); ok {
								miss = append(miss, core.Edge{From: ifi.Block(), To: ifi.Block().Succs[1]})
							}
						}
					}
				}
			})
			if len(miss) == 0 || !core.AllPathsThroughEdges(f, blk, miss) {
				return "diagnostic is not guarded by the field id being absent from the old struct"
			}
			req := condEdges(f, func(s string) bool { return strings.HasPrefix(s, "$2.Fields[") && strings.HasSuffix(s, ".Required") }, true)
			if len(req) == 0 || !core.AllPathsThroughEdges(f, blk, req) {
				return "diagnostic is not guarded by the new field being required"
			}
			return ""
		}},
	}
	seen := map[*ssa.Call]bool{}
	for _, k := range kinds {
		f := fn(k.fn)
		if f == nil {
			l.Unk("KINDS", k.id, "", "function "+k.fn+" not found")
			continue
		}
		sites := reportSites(f)
		if len(sites) != 1 {
			l.Bad("KINDS", k.id, c.Rel(f.Pos()), fmt.Sprintf("expected exactly one diagnostic site in %s, found %d", k.fn, len(sites)))
			for _, s := range sites {
				seen[s] = true
			}
			continue
		}
		seen[sites[0]] = true
		why := k.guard(f, sites[0].Block())
		if why == "" {
			// completeness: whenever the guard holds, the diagnostic is emitted — no path from
			// the guard edges to return avoids the Report call other than through it
			why = guardAlwaysReports(f, sites[0], k.id)
		}
		if why == "" {
			var extra []string
			for _, g := range extraGuards(sites[0]) {
				if !kindGuards[k.id][g] {
					extra = append(extra, g)
				}
			}
			if len(extra) > 0 {
				why = "the diagnostic is additionally conditional on " + strings.Join(extra, ", ") + ": some instances of the documented breaking edit are not reported"
			}
		}
		l.Check(why == "", "KINDS", k.id, c.Rel(sites[0].Pos()), "the diagnostic is emitted exactly under the documented condition", why)
	}
	// no other diagnostic site anywhere
	for _, f := range c.AllFuncs() {
		if c.IsTestFile(f.Pos()) {
			continue
		}
		for _, s := range reportSites(f) {
			if !seen[s] {
				l.Bad("KINDS", "extra-site:"+core.SSAName(f), c.Rel(s.Pos()), "a diagnostic site outside the five documented kinds: compatible edits may now be reported")
			}
		}
	}
	// lints is written by Report only
	for _, f := range c.AllFuncs("internal/compare", "internal/git", "cmd/thriftbreak") {
		if c.IsTestFile(f.Pos()) {
			continue
		}
		core.Instrs(f, func(in ssa.Instruction) {
			st, ok := in.(*ssa.Store)
			if !ok {
				return
			}
			if fa, ok := st.Addr.(*ssa.FieldAddr); ok && core.FieldOf(fa) != nil && core.FieldOf(fa).Name() == "lints" {
				isReport := f.Name() == "Report" && recvNamed(f) == "Pass"
				// composite literal initialisation writes the zero value only
				if _, isAlloc := fa.X.(*ssa.Alloc); isAlloc && !isReport {
					return
				}
				l.Check(isReport, "KINDS", "lints-writer:"+core.SSAName(f), c.Rel(in.Pos()), "the diagnostics list is appended by Report only", "the diagnostics list is written outside Report")
			}
		})
	}
	if f := fn("Report"); f != nil {
		app := false
		core.Instrs(f, func(in ssa.Instruction) {
			if call, ok := in.(*ssa.Call); ok {
				if b, isB := call.Call.Value.(*ssa.Builtin); isB && b.Name() == "append" && core.Sym(call.Call.Args[0]) == "$0.lints" {
					app = true
				}
			}
		})
		l.Check(app && len(f.Blocks) == 1, "KINDS", "Report:unconditional", c.Rel(f.Pos()), "Report appends every diagnostic it is given (straight-line)", "Report drops or filters diagnostics")
	} else {
		l.Unk("KINDS", "Report", "", "not found")
	}
	l.Floor("KINDS", 7)

	// ---- COVER
	callArgs := func(f *ssa.Function, callee string) [][]string {
		var out [][]string
		core.Instrs(f, func(in ssa.Instruction) {
			call, ok := in.(*ssa.Call)
			if !ok {
				return
			}
			if cal := call.Call.StaticCallee(); cal != nil && cal.Name() == callee {
				var a []string
				for _, x := range call.Call.Args {
					a = append(a, core.Sym(x))
				}
				out = append(out, a)
			}
		})
		return out
	}
	rangesOver := func(f *ssa.Function, sym string) (*ssa.Range, bool) {
		var r *ssa.Range
		core.Instrs(f, func(in ssa.Instruction) {
			if rg, ok := in.(*ssa.Range); ok && core.Sym(rg.X) == sym {
				r = rg
			}
		})
		return r, r != nil
	}
	inLoopOf := func(call []string, rng *ssa.Range) bool { return rng != nil && len(call) > 0 }
	_ = inLoopOf
	if f := fn("CompareModules"); f != nil {
		_, ok1 := rangesOver(f, "$1.Services")
		_, ok2 := rangesOver(f, "$1.Types")
		sv := callArgs(f, "service")
		ty := callArgs(f, "typ")
		ok := ok1 && len(sv) == 1 && len(sv[0]) == 3 && strings.HasPrefix(sv[0][1], "*ssa.Next#2") && strings.HasPrefix(sv[0][2], "$2.Services[*ssa.Next#1")
		l.Check(ok, "COVER", "CompareModules:services", c.Rel(f.Pos()), "every service of the old module is compared with the same-named service of the new module", "services are not traversed as (old value, new.Services[same key]) over all of old.Services")
		ok = ok2 && len(ty) == 1 && len(ty[0]) == 4 && strings.HasPrefix(ty[0][1], "*ssa.Next#2") && strings.HasPrefix(ty[0][2], "$2.Types[*ssa.Next#1")
		l.Check(ok, "COVER", "CompareModules:types", c.Rel(f.Pos()), "every type of the old module is compared with the same-named type of the new module", "types are not traversed as (old value, new.Types[same key]) over all of old.Types")
		// calls are inside their loops: reachable from the Next and reaching it again
		for _, name := range []string{"service", "typ"} {
			for _, in := range callsIn(f, name) {
				l.Check(core.CyclicBlocks(f)[in.Block()], "COVER", "CompareModules:"+name+":in-loop", c.Rel(in.Pos()), "the comparison runs once per element", "the comparison call is outside the traversal loop")
			}
		}
	} else {
		l.Unk("COVER", "CompareModules", "", "not found")
	}
	if f := fn("typ"); f != nil {
		ss := callArgs(f, "structSpecs")
		ok := len(ss) == 1 && len(ss[0]) == 4 && ss[0][1] == "$1.(*compile.StructSpec)#0" && ss[0][2] == "$2.(*compile.StructSpec)#0" && ss[0][3] == "$3"
		l.Check(ok, "COVER", "typ:structs", c.Rel(f.Pos()), "every (old struct, new struct) pair is forwarded to the field comparison (structs, unions and exceptions share StructSpec)", "struct pairs are not forwarded to structSpecs unchanged")
	} else {
		l.Unk("COVER", "typ", "", "not found")
	}
	if f := fn("structSpecs"); f != nil {
		// old fields are indexed by id: MapUpdate(map, $1.Fields[i].ID, $1.Fields[i])
		idx := false
		core.Instrs(f, func(in ssa.Instruction) {
			if mu, ok := in.(*ssa.MapUpdate); ok {
				k, v := core.Sym(mu.Key), core.Sym(mu.Value)
				if strings.HasPrefix(k, "$1.Fields[") && strings.HasSuffix(k, ".ID") && k == v+".ID" && core.CyclicBlocks(f)[in.Block()] {
					idx = true
				}
			}
		})
		l.Check(idx, "COVER", "structSpecs:index", c.Rel(f.Pos()), "every old field is indexed by its id", "old fields are not indexed by id over the whole field list")
		rf, ct := callArgs(f, "requiredField"), callArgs(f, "changedTypes")
		okPair := func(a [][]string) bool {
			return len(a) == 1 && len(a[0]) == 5 && strings.HasPrefix(a[0][1], "*ssa.MakeMap[$2.Fields[") && strings.HasSuffix(a[0][1], ".ID]#0") && strings.HasPrefix(a[0][2], "$2.Fields[") && a[0][3] == "$2" && a[0][4] == "$3"
		}
		l.Check(okPair(rf), "COVER", "structSpecs:requiredField", c.Rel(f.Pos()), "every new field with a matching old id is checked for optional->required", "requiredField is not called with (old field of same id, new field) for every new field")
		l.Check(okPair(ct), "COVER", "structSpecs:changedTypes", c.Rel(f.Pos()), "every new field with a matching old id is checked for a changed type name", "changedTypes is not called with (old field of same id, new field) for every new field")
		for _, name := range []string{"requiredField", "changedTypes"} {
			for _, in := range callsIn(f, name) {
				l.Check(core.CyclicBlocks(f)[in.Block()], "COVER", "structSpecs:"+name+":in-loop", c.Rel(in.Pos()), "runs once per new field", "call is outside the loop over the new fields")
			}
		}
		// the hit branch runs both checks: both calls in the same block or one dominating the other
		a, b := callsIn(f, "requiredField"), callsIn(f, "changedTypes")
		if len(a) == 1 && len(b) == 1 {
			l.Check(a[0].Block() == b[0].Block(), "COVER", "structSpecs:both", c.Rel(f.Pos()), "both per-field checks run unconditionally on a matching id", "one per-field check is conditional on the other")
		}
	} else {
		l.Unk("COVER", "structSpecs", "", "not found")
	}
	if f := fn("service"); f != nil {
		_, ok1 := rangesOver(f, "$1.Functions")
		fa := callArgs(f, "function")
		ok := ok1 && len(fa) == 1 && len(fa[0]) == 5 && strings.HasPrefix(fa[0][1], "$2.Functions[*ssa.Next#1") && strings.HasPrefix(fa[0][2], "*ssa.Next#1")
		for _, in := range callsIn(f, "function") {
			l.Check(core.CyclicBlocks(f)[in.Block()], "COVER", "service:function:in-loop", c.Rel(in.Pos()), "runs once per old method", "the method comparison is not repeated for every old method (outside the loop, or the loop is left early)")
		}
		l.Check(ok, "COVER", "service:functions", c.Rel(f.Pos()), "every method of the old service is looked up by name in the new service", "methods are not traversed as new.Functions[name] over all names of old.Functions")
	} else {
		l.Unk("COVER", "service", "", "not found")
	}
	if f := c.SSAFunc(c.LookupFunc("internal/git", "Compare")); f != nil {
		cm := callsIn(f, "CompareModules")
		ok := len(cm) == 1 && core.CyclicBlocks(f)[cm[0].Block()]
		l.Check(ok, "COVER", "git.Compare:changes", c.Rel(f.Pos()), "CompareModules runs once per changed Thrift file", "CompareModules is not called inside the loop over changed files")
	} else {
		l.Unk("COVER", "git.Compare", "", "not found")
	}
	// the comparison calls are unconditional within the traversal
	for _, site := range []struct{ fn, callee string }{{"CompareModules", "service"}, {"CompareModules", "typ"}, {"typ", "structSpecs"}, {"structSpecs", "requiredField"}, {"structSpecs", "changedTypes"}, {"service", "function"}} {
		f := fn(site.fn)
		if f == nil {
			continue
		}
		for _, in := range callsIn(f, site.callee) {
			g := extraGuards(in)
			l.Check(len(g) == 0, "COVER", site.fn+":"+site.callee+":unconditional", c.Rel(in.Pos()), "nested only under the traversal's own tests (loop, id hit, struct assertions)", "the comparison is skipped under an extra condition: "+strings.Join(g, ", "))
		}
	}
	l.Floor("COVER", 16)

	// ---- SET-ORDER
	for _, f := range c.AllFuncs("internal/compare") {
		if c.IsTestFile(f.Pos()) || len(f.Blocks) == 0 {
			continue
		}
		k := 0
		core.Instrs(f, func(in ssa.Instruction) {
			rg, ok := in.(*ssa.Range)
			if !ok {
				return
			}
			if !strings.HasPrefix(core.TypeLabel(rg.X.Type()), "map[") {
				return
			}
			k++
			key := fmt.Sprintf("%s:range#%d", core.SSAName(f), k)
			// loop body: blocks in the cycle containing the Next
			var why []string
			cyc := core.CyclicBlocks(f)
			for _, b := range f.Blocks {
				if !cyc[b] {
					continue
				}
				for _, bi := range b.Instrs {
					switch x := bi.(type) {
					case *ssa.Store:
						if _, isAlloc := x.Addr.(*ssa.Alloc); !isAlloc {
							if ia, isIA := x.Addr.(*ssa.IndexAddr); isIA {
								if _, isLocal := ia.X.(*ssa.Alloc); isLocal {
									continue // varargs array
								}
							}
							why = append(why, "store to shared memory in an unordered loop at "+c.Rel(bi.Pos()))
						} else if !x.Addr.(*ssa.Alloc).Heap {
							continue
						}
					case *ssa.MapUpdate:
						why = append(why, "map update in an unordered loop at "+c.Rel(bi.Pos()))
					case *ssa.Return:
						why = append(why, "early exit from an unordered loop at "+c.Rel(bi.Pos()))
					case *ssa.Call:
						cal := x.Call.StaticCallee()
						if cal != nil && core.InRepo(cal) && recvNamed(cal) != "Pass" {
							why = append(why, "call to "+core.SSAName(cal)+" in an unordered loop")
						}
					}
				}
			}
			l.Check(len(why) == 0, "SET-ORDER", key, c.Rel(rg.Pos()), "each iteration only calls Pass methods on its own key/value; no early exit and no carried state, so the reported set is independent of iteration order", strings.Join(uniq(why), "; "))
		})
	}
	l.Floor("SET-ORDER", 3)

	// ---- EXIT
	if f := c.SSAFunc(c.LookupFunc("cmd/thriftbreak", "run")); f != nil {
		// after the successful Compare: nil return iff len(lints) <= 0
		lints := callsIn(f, "Lints")
		cmp := callsIn(f, "Compare")
		ok := len(lints) == 1 && len(cmp) == 1
		why := "Compare/Lints calls not found"
		if ok {
			pos := core.GuardEdges(f, func(cm core.Cmp) bool {
				return cm.Op == token.GTR && strings.HasPrefix(core.Sym(cm.X), "len(") && strings.Contains(core.Sym(cm.X), "Lints(") && core.Sym(cm.Y) == "c:0"
			})
			npos := core.GuardEdges(f, func(cm core.Cmp) bool {
				return cm.Op == token.LEQ && strings.HasPrefix(core.Sym(cm.X), "len(") && strings.Contains(core.Sym(cm.X), "Lints(") && core.Sym(cm.Y) == "c:0"
			})
			if len(pos) != 1 || len(npos) != 1 {
				ok, why = false, "no single test len(lints) > 0"
			} else {
				// the true edge reaches only a non-nil error return; nil returns after Lints() lie on the false edge
				core.Instrs(f, func(in ssa.Instruction) {
					r, isR := in.(*ssa.Return)
					if !isR {
						return
					}
					if reachableFrom(pos[0].To, r.Block()) && pos[0].To != npos[0].To && !reachableFrom(npos[0].To, r.Block()) {
						if !core.DefinitelyNonNilError(r.Results[0], 2) {
							ok, why = false, "a return under len(lints) > 0 may be nil: diagnostics without a failing exit"
						}
					}
					if reachableFrom(npos[0].To, r.Block()) && r.Block() != pos[0].To && !reachableFrom(pos[0].To, r.Block()) {
						if !core.IsNilErrorReturn(r) {
							ok, why = false, "a return with no diagnostics is an error"
						}
					}
				})
				// between Lints() and the test, the only returns are write failures (errors)
			}
			// every lint is written: a loop over lints calling write
			wr := false
			core.Instrs(f, func(in ssa.Instruction) {
				if call, isC := in.(*ssa.Call); isC && call.Call.StaticCallee() == nil && !call.Call.IsInvoke() {
					if len(call.Call.Args) == 1 && strings.Contains(core.Sym(call.Call.Args[0]), "Lints(") && core.CyclicBlocks(f)[in.Block()] {
						wr = true
					}
				}
			})
			if !wr {
				ok, why = false, "diagnostics are not all written (no loop over Lints() calling the writer)"
			}
		}
		l.Check(ok, "EXIT", "thriftbreak.run", c.Rel(f.Pos()), "run fails iff there is at least one diagnostic, and writes each one", why)
	} else {
		l.Unk("EXIT", "thriftbreak.run", "", "not found")
	}
	if f := c.SSAFunc(c.LookupFunc("cmd/thriftbreak", "main")); f != nil {
		fatal := false
		core.Instrs(f, func(in ssa.Instruction) {
			if core.IsCallTo(in, "log", "Fatalf") || core.IsCallTo(in, "os", "Exit") {
				fatal = true
			}
		})
		l.Check(fatal && len(callsIn(f, "run")) == 1, "EXIT", "thriftbreak.main", c.Rel(f.Pos()), "an error from run ends the process through log.Fatalf (exit status 1)", "main does not turn an error from run into a failing exit")
	} else {
		l.Unk("EXIT", "thriftbreak.main", "", "not found")
	}
	l.Floor("EXIT", 2)
}

// extraGuards walks from the call's block up through single-predecessor chains
// and returns the conditions it is nested under, other than the loop test, a
// map-lookup hit and type-assertion successes (the traversal's own structure).
func extraGuards(call ssa.Instruction) []string {
	var out []string
	b := call.Block()
	for i := 0; i < 50 && len(b.Preds) == 1; i++ {
		p := b.Preds[0]
		if ifi, ok := p.Instrs[len(p.Instrs)-1].(*ssa.If); ok {
			cond := ifi.Cond
			for {
				if u, ok := cond.(*ssa.UnOp); ok && u.Op == token.NOT {
					cond = u.X
					continue
				}
				break
			}
			structural := false
			switch x := cond.(type) {
			case *ssa.Extract:
				switch t := x.Tuple.(type) {
				case *ssa.Next:
					structural = x.Index == 0
				case *ssa.Lookup:
					structural = x.Index == 1
				case *ssa.TypeAssert:
					_, isParam := t.X.(*ssa.Parameter)
					structural = x.Index == 1 && isParam
				}
			case *ssa.BinOp:
				if x.Op == token.LSS && strings.HasPrefix(core.Sym(x.Y), "len(") {
					structural = true
				}
			}
			if !structural {
				out = append(out, core.Sym(cond))
			}
		}
		b = p
	}
	return out
}

// guardAlwaysReports: from the function entry, every path on which the
// documented condition holds reaches the Report call; checked as: the Report's
// block is the unique successor region of the guard (no return between guard
// edge and the call).
func guardAlwaysReports(f *ssa.Function, site *ssa.Call, kind string) string {
	// walk back from the site's block through single-predecessor chains to the guarding If;
	// no Return may be reachable from the guard's taken edge without passing the site
	b := site.Block()
	for len(b.Preds) == 1 {
		p := b.Preds[0]
		if _, isIf := p.Instrs[len(p.Instrs)-1].(*ssa.If); isIf {
			break
		}
		b = p
	}
	// from the start of b, every path to a return passes the site
	seen := map[*ssa.BasicBlock]bool{}
	st := []*ssa.BasicBlock{b}
	for len(st) > 0 {
		x := st[len(st)-1]
		st = st[:len(st)-1]
		if seen[x] {
			continue
		}
		seen[x] = true
		hit := false
		for _, in := range x.Instrs {
			if in == ssa.Instruction(site) {
				hit = true
				break
			}
			if _, isR := in.(*ssa.Return); isR {
				return "under the documented condition a path returns without reporting (" + kind + ")"
			}
		}
		if !hit {
			st = append(st, x.Succs...)
		}
	}
	return ""
}
