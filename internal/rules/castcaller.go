package rules

import (
	"go/token"
	"go/types"

	"golang.org/x/tools/go/ssa"

	"verif/internal/core"
)

// checkCastCaller: the CAST rules decide that ConstantValue.Link casts every
// constant kind to every target type or fails; that is worth something only
// if the owner of a default hands it over. In (*compile.FieldSpec).Link: every
// path from entry to a return passes through the interface call
// <default>.Link(scope, type), except paths that leave through the error side
// of an error test or through the nil side of a nil test on a value of the
// default's interface type. A path that skips the call for a default that is
// not nil (a filter on the constant's kind, say) leaves an uncast, unchecked
// default in the compiled module.
func checkCastCaller(c *core.Ctx, l *core.Ledger, rule string) {
	defer l.Floor(rule, 1)
	key := "compile.FieldSpec.Link:default"
	f := c.SSAFunc(c.LookupFunc("compile", "FieldSpec.Link"))
	if f == nil || len(f.Blocks) == 0 {
		l.Unk(rule, key, "", "function not found")
		return
	}
	pos := c.Rel(f.Pos())
	errT := types.Universe.Lookup("error").Type()
	// D: blocks that invoke Link on an interface value loaded from a field of the receiver
	cast := map[*ssa.BasicBlock]bool{}
	var ifaceT types.Type
	core.Instrs(f, func(in ssa.Instruction) {
		call, ok := in.(*ssa.Call)
		if !ok || !call.Call.IsInvoke() || len(call.Call.Args) != 2 {
			return
		}
		sig := call.Call.Method.Type().(*types.Signature)
		if sig.Results().Len() != 2 || !types.Identical(sig.Results().At(0).Type(), call.Call.Value.Type()) || !types.Identical(sig.Results().At(1).Type(), errT) {
			return
		}
		u, isLoad := call.Call.Value.(*ssa.UnOp)
		if !isLoad {
			return
		}
		if _, isField := u.X.(*ssa.FieldAddr); !isField {
			return
		}
		cast[in.Block()] = true
		ifaceT = call.Call.Value.Type()
	})
	if len(cast) == 0 {
		l.Bad(rule, key, pos, "FieldSpec.Link never calls the default's Link(scope, type): defaults are neither cast to nor checked against the field's type")
		return
	}
	isNil := func(v ssa.Value) bool { k, ok := v.(*ssa.Const); return ok && k.IsNil() }
	seen := map[*ssa.BasicBlock]bool{}
	st := []*ssa.BasicBlock{f.Blocks[0]}
	skip := ""
	for len(st) > 0 && skip == "" {
		b := st[len(st)-1]
		st = st[:len(st)-1]
		if seen[b] || cast[b] {
			continue
		}
		seen[b] = true
		if len(b.Instrs) == 0 {
			continue
		}
		switch last := b.Instrs[len(b.Instrs)-1].(type) {
		case *ssa.Return:
			skip = c.Rel(last.Pos())
			if !last.Pos().IsValid() {
				skip = c.Rel(firstPos(b))
			}
		case *ssa.If:
			next := b.Succs
			if bo, ok := last.Cond.(*ssa.BinOp); ok && (bo.Op == token.EQL || bo.Op == token.NEQ) && (isNil(bo.X) || isNil(bo.Y)) {
				v := bo.X
				if isNil(v) {
					v = bo.Y
				}
				nilSide, otherSide := b.Succs[0], b.Succs[1]
				if bo.Op == token.NEQ {
					nilSide, otherSide = otherSide, nilSide
				}
				switch {
				case types.Identical(v.Type(), ifaceT):
					next = []*ssa.BasicBlock{otherSide} // no default: nothing to cast
				case types.Identical(v.Type(), errT):
					next = []*ssa.BasicBlock{nilSide} // an error ends the compilation
				}
			}
			st = append(st, next...)
		default:
			st = append(st, b.Succs...)
		}
	}
	l.Check(skip == "", rule, key, pos,
		"every path with a non-nil default and no error passes through <default>.Link(scope, type)",
		"a path on which the default is not known to be nil returns at "+skip+" without the call <default>.Link(scope, type): that default stays uncast and unchecked against the field's type")
}
