package rules

import (
	"fmt"
	"go/constant"
	"go/token"
	"go/types"
	"sort"
	"strings"

	"golang.org/x/tools/go/ssa"

	"verif/internal/core"
	"verif/internal/tmpl"
)

// checkConstPtrAgree (CONSTPTR-AGREE): the struct templates assign
// `<constantValuePtr .Default .Type>` to an optional field, whose Go type is
// typeReferencePtr(.Type). For every TypeSpec kind and every typedef-of-kind
// the pointer depth of the expression ConstantValuePtr produces must therefore
// equal the pointer depth of typeReferencePtr: a mismatch is generated code
// that does not compile. Depths are computed by a finite-domain path analysis:
//
//	want(kind)  = 1 if typeReferencePtr prefixes '*', else 0
//	got(kind)   = 1 + star(typeReference)  when the result is wrapped by the
//	              generated `_T_ptr` helper (func(v X) *X with X = typeReference)
//	            = 1                        when wrapped without declaring a helper (a ptr.<Prim> function)
//	            = depth(ConstantValue)     when ConstantValue's result is passed on,
//	              which is 1 for struct roots (constantStruct emits &T{...}), else 0
func checkConstPtrAgree(c *core.Ctx, l *core.Ledger, rule string) {
	get := func(name string) *ssa.Function {
		if tf := c.LookupFunc("gen", name); tf != nil {
			return c.SSAFunc(tf)
		}
		return nil
	}
	cvp, cv, tr, trp, cs := get("ConstantValuePtr"), get("ConstantValue"), get("typeReference"), get("typeReferencePtr"), get("constantStruct")
	if cvp == nil || cv == nil || tr == nil || trp == nil || cs == nil {
		l.Unk(rule, "anchor", "", "gen.ConstantValuePtr / ConstantValue / typeReference / typeReferencePtr / constantStruct not found")
		return
	}
	ka := newKindAnalysis(c)
	// the struct literal is the only constant rendered behind '&'
	ampStruct, ampOther := false, []string{}
	for _, f := range c.AllFuncs("gen") {
		if c.IsTestFile(f.Pos()) || f.Parent() != nil {
			continue
		}
		// the constant renderers: func(Generator, <a constant value type>, TypeSpec) (string, error)
		isRenderer := false
		if f.Signature.Params().Len() == 3 && f.Signature.Results().Len() == 2 {
			p1 := core.TypeLabel(f.Signature.Params().At(1).Type())
			isRenderer = strings.Contains(p1, "compile.Constant") && core.TypeLabel(f.Signature.Params().At(2).Type()) == "compile.TypeSpec"
		}
		if !isRenderer {
			continue
		}
		core.Instrs(f, func(in ssa.Instruction) {
			call, ok := in.(ssa.CallInstruction)
			if !ok || !call.Common().IsInvoke() || call.Common().Method.Name() != "TextTemplate" || len(call.Common().Args) == 0 {
				return
			}
			k, ok := call.Common().Args[0].(*ssa.Const)
			if !ok || k.Value == nil || k.Value.Kind() != constant.String {
				return
			}
			body := strings.TrimSpace(constant.StringVal(k.Value))
			for strings.HasPrefix(body, "<-") {
				// leading assignment actions: <- $x := ... ->
				e := strings.Index(body, "->")
				if e < 0 || !strings.Contains(body[:e], ":=") {
					break
				}
				body = strings.TrimSpace(body[e+2:])
			}
			if strings.HasPrefix(body, "&") {
				if f == cs {
					ampStruct = true
				} else {
					ampOther = append(ampOther, f.Name())
				}
			}
		})
	}
	star := func(f *ssa.Function, kind, root string) string {
		res := map[string]bool{}
		ka.ExploreKinds(f, kind, root, func(in ssa.Instruction, st kstate) {
			r, ok := in.(*ssa.Return)
			if !ok || len(r.Results) != 2 || !core.IsNilErrorReturn(r) {
				return
			}
			v := resolveAt(r.Results[0], st.pred)
			s := "0"
			if bo, ok := v.(*ssa.BinOp); ok && bo.Op == token.ADD {
				if k, ok := bo.X.(*ssa.Const); ok && k.Value != nil && constant.StringVal(k.Value) == "*" {
					s = "1"
				}
			}
			res[s] = true
		})
		return joinKeys(res)
	}
	produced := func(kind, root string) string {
		res := map[string]bool{}
		helper, prim := false, false
		var rets []string
		ka.ExploreKinds(cvp, kind, root, func(in ssa.Instruction, st kstate) {
			if call, ok := in.(ssa.CallInstruction); ok {
				com := call.Common()
				if com.IsInvoke() && com.Method.Name() == "EnsureDeclared" {
					helper = true
				}
				if com.IsInvoke() && com.Method.Name() == "Import" && len(com.Args) == 1 {
					if k, ok := com.Args[0].(*ssa.Const); ok && k.Value != nil && strings.HasSuffix(constant.StringVal(k.Value), "thriftrw/ptr") {
						prim = true
					}
				}
			}
			r, ok := in.(*ssa.Return)
			if !ok || len(r.Results) != 2 {
				return
			}
			v := resolveAt(r.Results[0], st.pred)
			switch x := v.(type) {
			case *ssa.Const:
				return // failure exit
			case *ssa.Extract:
				if call, ok := x.Tuple.(*ssa.Call); ok && call.Call.StaticCallee() == cv {
					rets = append(rets, "pass")
					return
				}
			case *ssa.Call:
				if o := core.CalleeObj(x); o != nil && o.Pkg() != nil && o.Pkg().Path() == "fmt" && o.Name() == "Sprintf" {
					rets = append(rets, "wrap")
					return
				}
			}
			rets = append(rets, "?")
		})
		for _, r := range rets {
			switch {
			case r == "pass" && root == "StructSpec":
				res["1"] = true
			case r == "pass":
				res["0"] = true
			case r == "wrap" && helper:
				s := star(tr, kind, root)
				if s == "0" {
					res["1"] = true
				} else if s == "1" {
					res["2"] = true
				} else {
					res["?"] = true
				}
			case r == "wrap":
				// no helper was declared on the way: the wrapper is a function of the ptr package, func(T) *T
				_ = prim
				res["1"] = true
			default:
				res["?"] = true
			}
		}
		return joinKeys(res)
	}
	if !ampStruct || len(ampOther) > 0 {
		l.Unk(rule, "model:address-of", c.Rel(cs.Pos()), fmt.Sprintf("the depth model assumes that exactly constantStruct renders its literal behind '&' (constantStruct: %v, others: %v)", ampStruct, ampOther))
		return
	}
	// the helper's declared shape: func <.Name>(v <typeReference .Spec>) *<typeReference .Spec>
	helperOK := false
	core.Instrs(cvp, func(in ssa.Instruction) {
		call, ok := in.(ssa.CallInstruction)
		if !ok || !call.Common().IsInvoke() || call.Common().Method.Name() != "EnsureDeclared" || len(call.Common().Args) == 0 {
			return
		}
		if k, ok := call.Common().Args[0].(*ssa.Const); ok && k.Value != nil {
			t := strings.Join(strings.Fields(constant.StringVal(k.Value)), " ")
			if i := strings.Index(t, "(v "); i >= 0 {
				rest := t[i+3:]
				if j := strings.Index(rest, ") *"); j >= 0 {
					param := rest[:j]
					after := rest[j+3:]
					helperOK = param == "<typeReference .Spec>" && strings.HasPrefix(after, param) && strings.Contains(after, "return &v")
				}
			}
		}
	})
	if !helperOK {
		l.Unk(rule, "model:helper", c.Rel(cvp.Pos()), "the pointer helper declared by ConstantValuePtr is not of the shape func(v <typeReference .Spec>) *<typeReference .Spec> { return &v }")
		return
	}
	roots := ka.nonTypedef().names()
	type cse struct{ kind, root string }
	var cases []cse
	for _, r := range roots {
		cases = append(cases, cse{r, r})
	}
	for _, r := range roots {
		cases = append(cases, cse{"TypedefSpec", r})
	}
	for _, x := range cases {
		label := strings.TrimSuffix(x.kind, "Spec")
		if x.kind == "TypedefSpec" {
			label = "typedef→" + strings.TrimSuffix(x.root, "Spec")
		}
		want := star(trp, x.kind, x.root)
		got := produced(x.kind, x.root)
		ok := want == got && (want == "0" || want == "1")
		l.Check(ok, rule, label, c.Rel(cvp.Pos()),
			fmt.Sprintf("ConstantValuePtr yields pointer depth %s, the depth of the optional field's Go type", got),
			fmt.Sprintf("an optional field of this type has pointer depth %s (typeReferencePtr) but the default expression ConstantValuePtr produces has depth %s: the generated default assignment does not type-check", want, got))
	}
	l.Floor(rule, 20)
}

func joinKeys(m map[string]bool) string {
	var ks []string
	for k := range m {
		ks = append(ks, k)
	}
	sort.Strings(ks)
	return strings.Join(ks, "|")
}

// checkTypedefTransparent (PRED-ROOT), for predicates bound as template functions: a typedef is transparent — a field of
// type `typedef list<string> Names` is a list field. Every predicate of package
// gen that classifies a compile.TypeSpec (func(TypeSpec) bool) must therefore
// give, for each root kind, the same answer for the type itself and for a
// typedef of it (finite-domain evaluation per root kind with the subject being
// the kind or a typedef of it). A predicate that forgets to resolve the root
// treats aliased fields differently from plain ones.
func checkTypedefTransparent(c *core.Ctx, l *core.Ledger, rule string) {
	ka := newKindAnalysis(c)
	n := 0
	// only predicates the templates consult (bound in a template function table): a plain Go helper may
	// distinguish a type from its alias on purpose where both answers generate equivalent code
	mod := tmpl.Extract(c)
	bound := map[*types.Func]bool{}
	for _, b := range mod.Global {
		if b != nil && b.Obj != nil {
			bound[b.Obj] = true
		}
	}
	for _, t := range mod.Templates {
		for _, b := range t.Funcs {
			if b != nil && b.Obj != nil {
				bound[b.Obj] = true
			}
		}
	}
	for _, f := range c.AllFuncs("gen") {
		if c.IsTestFile(f.Pos()) || f.Parent() != nil || f.Signature.Recv() != nil || len(f.Params) != 1 {
			continue
		}
		if !types.Identical(f.Params[0].Type(), ka.tsType) {
			continue
		}
		if o, ok := f.Object().(*types.Func); !ok || !bound[o] {
			continue
		}
		tab := ka.predicateTable(f)
		if tab == nil {
			continue
		}
		n++
		var amb []string
		for rk, r := range tab {
			if r[0] && r[1] {
				amb = append(amb, strings.TrimSuffix(rk, "Spec"))
			}
		}
		sort.Strings(amb)
		l.Check(len(amb) == 0, rule, core.CanonName(f), c.Rel(f.Pos()), "answers the same for a type and for a typedef of it, for every root kind", "the predicate can answer differently for a type and for a typedef of it (root kinds: "+strings.Join(amb, ", ")+"): typedef'd fields are treated differently from plain ones")
	}
	l.Units["typespec_predicates"] = n
	l.Floor(rule, 5)
}
