package rules

import (
	"fmt"
	"go/ast"
	"go/token"
	"go/types"
	"sort"
	"strings"

	"golang.org/x/tools/go/ssa"

	"verif/internal/core"
)

// errProblem is one place where an error value is lost.
type errProblem struct {
	fn   *ssa.Function
	pos  token.Pos
	kind string // dead-store | overwritten-in-loop | deferred-overwrite
	what string
}

// lostErrors finds, in the given functions, error values that are produced
// and then lost without anybody having looked at them:
//
//   - dead-store: the error result of a call is assigned to a named variable
//     (not to _ and not left unassigned) and that variable is never read
//     afterwards — typically an inner `err :=` shadowing the one that is checked;
//   - overwritten-in-loop: the error result is only carried to the next
//     iteration, where the same assignment replaces it, and nothing inside the
//     loop tests it — only the last iteration's error survives;
//   - deferred-overwrite: a deferred closure assigns the function's error
//     result from a call without regard to the error already there (it neither
//     tests it nor passes it to the call).
//
// Deliberate discards (`_ = f()`, a bare call statement) are not reported.
func lostErrors(c *core.Ctx, fns []*ssa.Function) []errProblem {
	var out []errProblem
	isErr := func(t types.Type) bool { return core.IsErrorType(t) }
	nonDebug := func(v ssa.Value) []ssa.Instruction {
		var rs []ssa.Instruction
		if v.Referrers() == nil {
			return nil
		}
		for _, r := range *v.Referrers() {
			if _, dbg := r.(*ssa.DebugRef); !dbg {
				rs = append(rs, r)
			}
		}
		return rs
	}
	for _, f := range fns {
		if len(f.Blocks) == 0 {
			continue
		}
		// loop heads
		isLoopHead := func(b *ssa.BasicBlock) bool {
			for _, p := range b.Preds {
				if b.Dominates(p) {
					return true
				}
			}
			return false
		}
		core.Instrs(f, func(in ssa.Instruction) {
			call, ok := in.(*ssa.Call)
			if !ok {
				return
			}
			sig := call.Call.Signature()
			if sig == nil || sig.Results().Len() == 0 || !isErr(sig.Results().At(sig.Results().Len()-1).Type()) {
				return
			}
			var ev ssa.Value
			if sig.Results().Len() == 1 {
				ev = call
			} else {
				for _, r := range nonDebug(call) {
					if ex, isEx := r.(*ssa.Extract); isEx && ex.Index == sig.Results().Len()-1 {
						ev = ex
					}
				}
			}
			name := "call"
			if o := core.CalleeObj(call); o != nil {
				name = o.Name()
			} else if call.Call.IsInvoke() {
				name = call.Call.Method.Name()
			}
			if ev == nil || len(nonDebug(ev)) == 0 {
				// unused: deliberate unless the source assigns it to a named variable
				if lhs := assignedErrName(c, call); lhs != "" {
					out = append(out, errProblem{f, call.Pos(), "dead-store", fmt.Sprintf("the error of %s is assigned to %q and never read (an inner declaration shadows the variable that is checked?)", name, lhs)})
				}
				return
			}
			// only carried around the loop
			allPhi := true
			var phis []*ssa.Phi
			for _, r := range nonDebug(ev) {
				if p, isPhi := r.(*ssa.Phi); isPhi {
					phis = append(phis, p)
				} else {
					allPhi = false
				}
			}
			if allPhi && len(phis) > 0 {
				for _, p := range phis {
					if !isLoopHead(p.Block()) || !p.Block().Dominates(call.Block()) {
						continue
					}
					tested := false
					for _, r := range nonDebug(p) {
						switch x := r.(type) {
						case *ssa.BinOp:
							if x.Block() != nil && p.Block().Dominates(x.Block()) {
								// a test inside the loop (before the next assignment) or used by a combining call
								for _, rr := range nonDebug(x) {
									if ifi, isIf := rr.(*ssa.If); isIf {
										// the test must be able to leave the loop or skip the assignment: any If inside the loop counts
										_ = ifi
										tested = tested || loopContains(p.Block(), x.Block())
									}
								}
							}
						case *ssa.Call:
							tested = true // passed on (multierr.Append(err, ...), a wrapper)
						}
					}
					if !tested {
						out = append(out, errProblem{f, call.Pos(), "overwritten-in-loop", fmt.Sprintf("the error of %s is replaced by the next iteration's without having been looked at: only the last iteration's error survives", name)})
					}
				}
			}
		})
		// deferred closures that assign the error result
		core.Instrs(f, func(in ssa.Instruction) {
			d, ok := in.(*ssa.Defer)
			if !ok {
				return
			}
			mc, ok := d.Call.Value.(*ssa.MakeClosure)
			if !ok {
				return
			}
			cl, _ := mc.Fn.(*ssa.Function)
			if cl == nil {
				return
			}
			for _, fv := range cl.FreeVars {
				pt, isP := fv.Type().Underlying().(*types.Pointer)
				if !isP || !isErr(pt.Elem()) {
					continue
				}
				var loads []ssa.Value
				for _, r := range nonDebug(fv) {
					if u, isU := r.(*ssa.UnOp); isU {
						loads = append(loads, u)
					}
				}
				for _, r := range nonDebug(fv) {
					st, isSt := r.(*ssa.Store)
					if !isSt || st.Addr != ssa.Value(fv) {
						continue
					}
					if k, isK := st.Val.(*ssa.Const); isK && k.IsNil() {
						continue
					}
					// the stored value depends on the old one (it is an argument of the call that makes it) ...
					dep := false
					seen := map[ssa.Value]bool{}
					var walk func(v ssa.Value, depth int)
					walk = func(v ssa.Value, depth int) {
						if depth > 6 || seen[v] {
							return
						}
						seen[v] = true
						for _, l := range loads {
							if v == l {
								dep = true
							}
						}
						if ins, isI := v.(ssa.Instruction); isI {
							for _, op := range ins.Operands(nil) {
								if op != nil && *op != nil {
									walk(*op, depth+1)
								}
							}
						}
						// variadic arguments: the values stored into the argument array
						if sl, isSl := v.(*ssa.Slice); isSl {
							if al, isAl := sl.X.(*ssa.Alloc); isAl {
								for _, r := range *al.Referrers() {
									if ia, isIA := r.(*ssa.IndexAddr); isIA {
										for _, rr := range *ia.Referrers() {
											if st2, isSt2 := rr.(*ssa.Store); isSt2 {
												walk(st2.Val, depth+1)
											}
										}
									}
								}
							}
						}
					}
					walk(st.Val, 0)
					// ... or the store happens only when the old one is nil
					guarded := false
					for _, l := range loads {
						edges := core.GuardEdges(cl, func(cm core.Cmp) bool {
							k, isK := cm.Y.(*ssa.Const)
							return cm.Op == token.EQL && isK && k.IsNil() && cm.X == l
						})
						if len(edges) > 0 && core.AllPathsThroughEdges(cl, st.Block(), edges) {
							guarded = true
						}
					}
					if !dep && !guarded {
						out = append(out, errProblem{f, st.Pos(), "deferred-overwrite", "a deferred function assigns the error result without regard to the error already there: a failure reported by the body is replaced (by nil, when the deferred call succeeds)"})
					}
				}
			}
		})
	}
	sort.Slice(out, func(i, j int) bool { return out[i].pos < out[j].pos })
	return out
}

func loopContains(head, b *ssa.BasicBlock) bool {
	if !head.Dominates(b) {
		return false
	}
	// b reaches head again
	seen := map[*ssa.BasicBlock]bool{b: true}
	st := []*ssa.BasicBlock{b}
	for len(st) > 0 {
		x := st[len(st)-1]
		st = st[:len(st)-1]
		for _, s := range x.Succs {
			if s == head {
				return true
			}
			if !seen[s] && head.Dominates(s) {
				seen[s] = true
				st = append(st, s)
			}
		}
	}
	return false
}

// assignedErrName: the call is the right-hand side of an assignment or short
// declaration whose last left-hand side is a named variable; returns that name.
func assignedErrName(c *core.Ctx, call *ssa.Call) string {
	_, file := c.FileOf(call.Pos())
	if file == nil {
		return ""
	}
	name := ""
	ast.Inspect(file, func(n ast.Node) bool {
		if n == nil || name != "" {
			return false
		}
		if n.Pos() > call.Pos() || n.End() < call.Pos() {
			return false
		}
		as, ok := n.(*ast.AssignStmt)
		if !ok || len(as.Rhs) != 1 {
			return true
		}
		ce, ok := ast.Unparen(as.Rhs[0]).(*ast.CallExpr)
		if !ok || ce.Lparen != call.Pos() && ce.Pos() != call.Pos() {
			return true
		}
		if id, ok := as.Lhs[len(as.Lhs)-1].(*ast.Ident); ok && id.Name != "_" {
			name = id.Name
		}
		return false
	})
	return name
}

// checkErrKeep arms ERR-KEEP on the given packages.
func checkErrKeep(c *core.Ctx, l *core.Ledger, rule string, rels []string) {
	if !strings.Contains(l.Explanation, "(ERR-SENSE)") {
		l.Explanation += " Error discipline on these packages: (ERR-SENSE) no nil test of a call-produced error is inverted — where the failure is not dealt with on the non-nil edge, the error is neither returned nor otherwise used on the nil edge; (ERR-USED) the error result of every call is compared, returned, passed on or stored in code that can run (deferred Close, reads whose byte count is compared, and a frozen list of discards excepted); (OK-SENSE) the value of a failed comma-ok assertion is not dereferenced where ok is false."
	}
	// the companion rule on the same packages: the sense of an error test is not inverted
	checkErrSense(c, l, "ERR-SENSE", rels)
	checkErrUsed(c, l, "ERR-USED", rels)
	checkOkSense(c, l, "OK-SENSE", rels)
	checkErrOverwritten(c, l, rule, rels)
	checkTypedNil(c, l, "TYPED-NIL", rels)
	var fns []*ssa.Function
	for _, f := range c.AllFuncs(rels...) {
		if c.IsTestFile(f.Pos()) || !errInScope(f) {
			continue
		}
		if _, file := c.FileOf(f.Pos()); file != nil && core.IsGenerated(file) {
			continue
		}
		fns = append(fns, f)
	}
	probs := lostErrors(c, fns)
	k := map[string]int{}
	for _, p := range probs {
		k[core.SSAName(p.fn)+":"+p.kind]++
		key := fmt.Sprintf("%s:%s#%d", core.SSAName(p.fn), p.kind, k[core.SSAName(p.fn)+":"+p.kind])
		l.Bad(rule, key, c.Rel(p.pos), p.what)
	}
	l.Add(core.Obligation{Rule: rule, Key: "scan:" + strings.Join(rels, ","), Status: core.Discharged, Detail: fmt.Sprintf("%d functions scanned: no error value is assigned and never read, overwritten by the next iteration unseen, or replaced by a deferred assignment", len(fns))})
}
