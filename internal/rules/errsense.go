package rules

import (
	"fmt"
	"go/token"
	"go/types"
	"os"
	"strings"

	"golang.org/x/tools/go/ssa"

	"verif/internal/core"
)

// checkErrSense (ERR-SENSE): the sense of an error test is not inverted. For
// every branch on `e == nil` / `e != nil` where e is the error result of a
// call, a return reached only through the edge on which e is nil does not
// hand e itself back as its error result unless the failure is dealt with on
// its own edge (some use of e lies under the non-nil edge): code that means
// "failed, give up" sits on the non-nil edge. The inverted form — `if err == nil { return x,
// err }` — returns "success" with whatever x holds and lets the failure run
// on into code that assumes success; it compiles, and every test that only
// exercises the success path of the callee's caller still passes when x
// happens to be zero-valued there.
func checkErrSense(c *core.Ctx, l *core.Ledger, rule string, rels []string) {
	in := map[string]bool{}
	for _, r := range rels {
		in[r] = true
	}
	n := 0
	for _, f := range c.AllFuncs() {
		if !in[core.PkgRel(f)] || c.IsTestFile(f.Pos()) || core.IsGenerated2(c, f) || !errInScope(f) {
			continue
		}
		k := 0
		for _, b := range f.Blocks {
			ifi, ok := b.Instrs[len(b.Instrs)-1].(*ssa.If)
			if !ok {
				continue
			}
			bo, ok := ifi.Cond.(*ssa.BinOp)
			if !ok || (bo.Op != token.EQL && bo.Op != token.NEQ) || !core.IsErrorType(bo.X.Type()) {
				continue
			}
			kc, isK := bo.Y.(*ssa.Const)
			if !isK || !kc.IsNil() {
				continue
			}
			e := bo.X
			var cell *ssa.Alloc
			if !fromCall(e) {
				// an error kept in a local variable that lives in memory (captured, or a named result): the value
				// tested is a load of the cell, most recently stored from a call in the same block
				ld, isLd := e.(*ssa.UnOp)
				if !isLd || ld.Op != token.MUL {
					continue
				}
				al, isAl := ld.X.(*ssa.Alloc)
				if !isAl || !fromCall(core.Unspill(e)) {
					continue
				}
				cell = al
			}
			// for a cell: the uses of the tested value are the uses of loads of the cell reached from the branch
			// before the cell is stored to again
			cellUses := func(start *ssa.BasicBlock) []ssa.Instruction {
				var out []ssa.Instruction
				seen := map[*ssa.BasicBlock]bool{}
				work := []*ssa.BasicBlock{start}
				for len(work) > 0 {
					blk := work[len(work)-1]
					work = work[:len(work)-1]
					if seen[blk] || !(blk == start || start.Dominates(blk)) {
						continue
					}
					seen[blk] = true
					killed := false
					for _, ins := range blk.Instrs {
						if st, isSt := ins.(*ssa.Store); isSt && st.Addr == ssa.Value(cell) {
							killed = true
							break
						}
						if ld, isLd := ins.(*ssa.UnOp); isLd && ld.Op == token.MUL && ld.X == ssa.Value(cell) && ld.Referrers() != nil {
							out = append(out, *ld.Referrers()...)
						}
					}
					if !killed {
						work = append(work, blk.Succs...)
					}
				}
				return out
			}
			refsOf := func() []ssa.Instruction {
				var out []ssa.Instruction
				if cell == nil {
					if r := e.Referrers(); r != nil {
						out = append(out, *r...)
					}
					return out
				}
				if r := e.Referrers(); r != nil {
					out = append(out, *r...)
				}
				for _, sb := range b.Succs {
					if len(sb.Preds) == 1 {
						out = append(out, cellUses(sb)...)
					}
				}
				return out
			}
			n++
			nilSucc, errSucc := b.Succs[0], b.Succs[1]
			if bo.Op == token.NEQ {
				nilSucc, errSucc = b.Succs[1], b.Succs[0]
			}
			if len(nilSucc.Preds) != 1 {
				continue
			}
			// the failure is dealt with on its own edge: some use of e (a return, a wrap, an append, a phi fed from
			// there) lies under the non-nil edge
			handled := false
			{
				for _, r := range refsOf() {
					if r == ssa.Instruction(bo) {
						continue
					}
					rb := r.Block()
					if ph, isPhi := r.(*ssa.Phi); isPhi {
						for i, ed := range ph.Edges {
							if ed == e {
								p := rb.Preds[i]
								if p == errSucc || (len(errSucc.Preds) == 1 && errSucc.Dominates(p)) || (p == b && rb == errSucc) {
									handled = true
								}
							}
						}
						continue
					}
					if len(errSucc.Preds) == 1 && (rb == errSucc || errSucc.Dominates(rb)) {
						handled = true
					}
				}
			}
			if handled {
				continue
			}
			// any other use of e under the nil edge (wrapping it into a message, appending it): e is looked at only
			// where it is nil, never where it is an error
			usedNil := false
			{
				for _, r := range refsOf() {
					if r == ssa.Instruction(bo) {
						continue
					}
					if _, isDbg := r.(*ssa.DebugRef); isDbg {
						continue
					}
					if _, isPhi := r.(*ssa.Phi); isPhi {
						continue
					}
					if _, isRet := r.(*ssa.Return); isRet {
						continue // reported below with its own text
					}
					if st, isSt := r.(*ssa.Store); isSt {
						if _, isAl := st.Addr.(*ssa.Alloc); isAl {
							continue // spilled result cell: the return below sees it
						}
					}
					if rb := r.Block(); rb == nilSucc || nilSucc.Dominates(rb) {
						usedNil = true
					}
				}
			}
			if usedNil {
				k++
				key := fmt.Sprintf("%s:used-only-when-nil#%d", core.SSAName(f), k)
				l.Bad(rule, key, c.Rel(ifi.Pos()), "the error "+core.Sym(e)+" is used only on the edge where it was found to be nil and ignored where it is an error: the test is inverted")
				continue
			}
			// returns dominated by the nil edge that return e itself
			for _, rb := range f.Blocks {
				if !(rb == nilSucc || nilSucc.Dominates(rb)) {
					continue
				}
				r, isR := rb.Instrs[len(rb.Instrs)-1].(*ssa.Return)
				if !isR || len(r.Results) == 0 {
					continue
				}
				last := core.SpilledResult(r, r.Results[len(r.Results)-1])
				if last == e || (cell != nil && (last == core.Unspill(e))) {
					k++
					key := fmt.Sprintf("%s:nil-error-returned#%d", core.SSAName(f), k)
					l.Bad(rule, key, c.Rel(r.Pos()), "an error that was just found to be nil is returned as the error result ("+core.Sym(e)+"): the test is inverted — the failure case runs on as if the call had succeeded")
				}
			}
		}
	}
	if os.Getenv("VDEBUG") != "" {
		fmt.Fprintln(os.Stderr, "ERR-SENSE tests examined:", n)
	}
	l.Add(core.Obligation{Rule: rule, Key: "tests-examined", Status: core.Discharged, Detail: fmt.Sprintf("%d nil tests of call-produced errors examined in %v: none returns the error it found nil", n, rels)})
	if n < 5 {
		l.Bad(rule, "floor", "", fmt.Sprintf("only %d nil tests of errors examined (at least 5 expected in these packages)", n))
	}
}

// fromCall: v is an error produced by a call (directly or as a tuple component).
func fromCall(v ssa.Value) bool {
	switch x := v.(type) {
	case *ssa.Call:
		return true
	case *ssa.Extract:
		_, ok := x.Tuple.(*ssa.Call)
		return ok
	}
	return false
}

// errDiscardOK: the places where the repository deliberately ignores an error
// of one of its own functions, confirmed by reading (errcheck -blank lists the
// same sites). Keyed by enclosing function (canonical name) and callee name.
var errDiscardOK = map[string]string{
	"wire.ValueListToSlice|ForEach":                      "the callback never returns an error, so ForEach over an evaluated list cannot",
	"wire.MapItemListToSlice|ForEach":                    "the callback never returns an error",
	"wire.setsArEqualHashable|ForEach":                   "the collecting callback never returns an error",
	"wire.mapsAreEqualHashable|ForEach":                  "the collecting callback never returns an error",
	"internal/git.findChangedThrift|DiffTreeWithOptions": "as on the pinned tree: a failing tree diff yields no changed files (fault handling of go-git is outside C20's quantifier)",
	"internal/git.findChangedThrift|Files":               "as on the pinned tree: second and third result of Change.Files",
}

// liveBlocks: blocks reachable from the entry when a branch on a constant
// condition only takes the edge the constant selects (uses of a value under
// `if false` are no uses).
func liveBlocks(f *ssa.Function) map[*ssa.BasicBlock]bool {
	live := map[*ssa.BasicBlock]bool{}
	if len(f.Blocks) == 0 {
		return live
	}
	work := []*ssa.BasicBlock{f.Blocks[0]}
	if f.Recover != nil {
		work = append(work, f.Recover)
	}
	for len(work) > 0 {
		b := work[len(work)-1]
		work = work[:len(work)-1]
		if live[b] {
			continue
		}
		live[b] = true
		succs := b.Succs
		if ifi, ok := b.Instrs[len(b.Instrs)-1].(*ssa.If); ok {
			if k, isK := ifi.Cond.(*ssa.Const); isK && k.Value != nil {
				if k.Value.String() == "true" {
					succs = b.Succs[:1]
				} else {
					succs = b.Succs[1:]
				}
			}
		}
		work = append(work, succs...)
	}
	return live
}

// checkErrUsed (ERR-USED): the error result of every call to a function or
// method of the repository is looked at — compared, returned, passed on or
// stored — somewhere in live code of the caller. Deferred Close/close calls
// (release of a pooled or borrowed object after the result is known) and the
// discards listed in errDiscardOK are the accepted exceptions.
func checkErrUsed(c *core.Ctx, l *core.Ledger, rule string, rels []string) {
	in := map[string]bool{}
	for _, r := range rels {
		in[r] = true
	}
	n := 0
	for _, f := range c.AllFuncs() {
		if !in[core.PkgRel(f)] || c.IsTestFile(f.Pos()) || core.IsGenerated2(c, f) || !errInScope(f) {
			continue
		}
		live := liveBlocks(f)
		k := 0
		for _, b := range f.Blocks {
			if !live[b] {
				continue
			}
			for _, ins := range b.Instrs {
				call, ok := ins.(ssa.CallInstruction)
				if !ok {
					continue
				}
				cc := call.Common()
				sig := cc.Signature()
				if sig == nil || sig.Results().Len() == 0 || !core.IsErrorType(sig.Results().At(sig.Results().Len()-1).Type()) {
					continue
				}
				// callee of the repository (static, or an interface method declared in it)
				name := ""
				inRepo := false
				if cc.IsInvoke() {
					name = cc.Method.Name()
					inRepo = cc.Method.Pkg() != nil && strings.HasPrefix(cc.Method.Pkg().Path(), core.ModPath)
				} else if cal := cc.StaticCallee(); cal != nil {
					name = cal.Name()
					inRepo = core.InRepo(cal)
				}
				if !inRepo {
					// library calls count too, except the writers whose error is conventionally not looked at
					o := core.CalleeObj(call)
					if o == nil || o.Pkg() == nil {
						if !cc.IsInvoke() || cc.Method.Pkg() == nil {
							continue
						}
						o = cc.Method
					}
					name = o.Name()
					recv := ""
					if sg, isSig := o.Type().(*types.Signature); isSig && sg.Recv() != nil {
						recv = types.TypeString(sg.Recv().Type(), func(p *types.Package) string { return p.Name() })
					}
					full := o.Pkg().Path() + "." + name
					switch {
					case o.Pkg().Path() == "fmt", strings.Contains(recv, "bytes.Buffer"), strings.Contains(recv, "strings.Builder"), strings.Contains(recv, "tabwriter.Writer"), strings.Contains(recv, "hash."):
						continue
					case full == "os.Setenv" || full == "os.Unsetenv":
						continue
					}
				}
				n++
				if _, isDefer := ins.(*ssa.Defer); isDefer {
					if name == "Close" || name == "close" {
						continue
					}
				}
				used := false
				// looked at: some live instruction other than a phi refers to the value, or to a phi it flows into
				var lookedAt func(v ssa.Value, seen map[ssa.Value]bool) bool
				lookedAt = func(v ssa.Value, seen map[ssa.Value]bool) bool {
					if seen[v] || v.Referrers() == nil {
						return false
					}
					seen[v] = true
					for _, r := range *v.Referrers() {
						if _, isDbg := r.(*ssa.DebugRef); isDbg || !live[r.Block()] {
							continue
						}
						if ph, isPhi := r.(*ssa.Phi); isPhi {
							if lookedAt(ph, seen) {
								return true
							}
							continue
						}
						return true
					}
					return false
				}
				if v, isV := ins.(ssa.Value); isV {
					idx := sig.Results().Len() - 1
					if sig.Results().Len() == 1 {
						used = lookedAt(v, map[ssa.Value]bool{})
					} else if refs := v.Referrers(); refs != nil {
						for _, r := range *refs {
							if ex, isEx := r.(*ssa.Extract); isEx && ex.Index == idx && lookedAt(ex, map[ssa.Value]bool{}) {
								used = true
							}
						}
					}
				}
				if !used && sig.Results().Len() == 2 {
					// a read whose byte count is compared instead: the count decides, the error adds nothing
					if v, isV := ins.(ssa.Value); isV && v.Referrers() != nil {
						for _, r := range *v.Referrers() {
							ex, isEx := r.(*ssa.Extract)
							if !isEx || ex.Index != 0 || ex.Referrers() == nil {
								continue
							}
							if bt, isB := ex.Type().Underlying().(*types.Basic); !isB || bt.Info()&types.IsInteger == 0 {
								continue
							}
							for _, rr := range *ex.Referrers() {
								if bo, isBo := rr.(*ssa.BinOp); isBo && live[bo.Block()] {
									switch bo.Op {
									case token.LSS, token.LEQ, token.GTR, token.GEQ, token.EQL, token.NEQ:
										used = true
									}
								}
							}
						}
					}
				}
				if used {
					continue
				}
				host := f
				for host.Parent() != nil {
					host = host.Parent()
				}
				if _, okd := errDiscardOK[core.PkgRel(host)+"."+core.CanonName(host)+"|"+name]; okd {
					continue
				}
				k++
				l.Bad(rule, fmt.Sprintf("%s:%s#%d", core.SSAName(f), name, k), c.Rel(ins.Pos()), "the error result of "+name+" is never looked at (not compared, returned, passed on or stored in code that can run)")
			}
		}
	}
	l.Add(core.Obligation{Rule: rule, Key: "calls-examined", Status: core.Discharged, Detail: fmt.Sprintf("%d calls to error-returning functions of the repository examined in %v", n, rels)})
	if n < 3 {
		l.Bad(rule, "floor", "", fmt.Sprintf("only %d error-returning calls examined", n))
	}
}

func isLoadOf(v ssa.Value, cell *ssa.Alloc) bool {
	ld, ok := v.(*ssa.UnOp)
	return ok && ld.Op == token.MUL && ld.X == ssa.Value(cell)
}

// checkOkSense (OK-SENSE): the value half of a comma-ok type assertion is
// the zero value — a nil interface or pointer — when ok is false. A method
// call or field access on it in code reached only through the not-ok edge
// dereferences nil: the sense of the ok test is inverted.
func checkOkSense(c *core.Ctx, l *core.Ledger, rule string, rels []string) {
	in := map[string]bool{}
	for _, r := range rels {
		in[r] = true
	}
	n := 0
	for _, f := range c.AllFuncs() {
		if !in[core.PkgRel(f)] || c.IsTestFile(f.Pos()) || core.IsGenerated2(c, f) || !errInScope(f) {
			continue
		}
		k := 0
		core.Instrs(f, func(ins ssa.Instruction) {
			ta, ok := ins.(*ssa.TypeAssert)
			if !ok || !ta.CommaOk || ta.Referrers() == nil {
				return
			}
			switch ta.AssertedType.Underlying().(type) {
			case *types.Interface, *types.Pointer:
			default:
				return
			}
			var val, okv *ssa.Extract
			for _, r := range *ta.Referrers() {
				if ex, isEx := r.(*ssa.Extract); isEx {
					if ex.Index == 0 {
						val = ex
					} else {
						okv = ex
					}
				}
			}
			if val == nil || okv == nil || val.Referrers() == nil || okv.Referrers() == nil {
				return
			}
			for _, r := range *okv.Referrers() {
				ifi, isIf := r.(*ssa.If)
				if !isIf {
					continue
				}
				n++
				notOk := ifi.Block().Succs[1]
				if len(notOk.Preds) != 1 {
					continue
				}
				for _, u := range *val.Referrers() {
					ub := u.Block()
					if !(ub == notOk || notOk.Dominates(ub)) {
						continue
					}
					deref := ""
					switch x := u.(type) {
					case ssa.CallInstruction:
						if x.Common().IsInvoke() && x.Common().Value == ssa.Value(val) {
							deref = "method " + x.Common().Method.Name() + " called on it"
						} else if cal := x.Common().StaticCallee(); cal != nil && cal.Signature.Recv() != nil && len(x.Common().Args) > 0 && x.Common().Args[0] == ssa.Value(val) {
							if _, isPtr := val.Type().Underlying().(*types.Pointer); isPtr {
								deref = "" // a method on a nil pointer receiver may be fine
							}
						}
					case *ssa.FieldAddr:
						deref = "field read through it"
					case *ssa.UnOp:
						if x.Op == token.MUL {
							deref = "dereferenced"
						}
					}
					if deref != "" {
						k++
						l.Bad(rule, fmt.Sprintf("%s:not-ok-use#%d", core.SSAName(f), k), c.Rel(u.Pos()), "the value of a failed type assertion (nil) is used where ok is false: "+deref+" — the ok test is inverted")
					}
				}
			}
		})
	}
	l.Add(core.Obligation{Rule: rule, Key: "tests-examined", Status: core.Discharged, Detail: fmt.Sprintf("%d ok-tests of comma-ok assertions to interface or pointer types examined in %v", n, rels)})
}

// checkErrOverwritten (ERR-KEEP, path form): two call-produced errors merge in
// one variable (a phi) and the second is computed in code the first one's call
// dominates. Then, on the path through the second call, the first error is
// replaced — which is fine only if it was looked at (compared with nil) before
// the second call. `err = a(); if cond { err = b() }; return err` loses a's
// failure whenever cond holds.
func checkErrOverwritten(c *core.Ctx, l *core.Ledger, rule string, rels []string) {
	in := map[string]bool{}
	for _, r := range rels {
		in[r] = true
	}
	for _, f := range c.AllFuncs() {
		if !in[core.PkgRel(f)] || c.IsTestFile(f.Pos()) || core.IsGenerated2(c, f) || !errInScope(f) {
			continue
		}
		k := 0
		reported := map[ssa.Value]bool{}
		core.Instrs(f, func(ins ssa.Instruction) {
			ph, ok := ins.(*ssa.Phi)
			if !ok || !core.IsErrorType(ph.Type()) {
				return
			}
			for _, e1 := range ph.Edges {
				if !fromCall(e1) || reported[e1] {
					continue
				}
				i1, _ := e1.(ssa.Instruction)
				for _, e2 := range ph.Edges {
					if e2 == e1 || !fromCall(e2) {
						continue
					}
					i2, _ := e2.(ssa.Instruction)
					b1, b2 := i1.Block(), i2.Block()
					if b1 == b2 || !b1.Dominates(b2) {
						continue
					}
					// e2 made from e1 (multierr.Append(err, …), a wrap): nothing is lost
					if dependsOn(e2, map[ssa.Value]bool{e1: true}, map[ssa.Value]bool{}) {
						continue
					}
					// e1 tested before e2 is computed?
					tested := false
					if refs := e1.Referrers(); refs != nil {
						for _, r := range *refs {
							bo, isBo := r.(*ssa.BinOp)
							if !isBo || (bo.Op != token.EQL && bo.Op != token.NEQ) {
								continue
							}
							if bo.Referrers() == nil {
								continue
							}
							for _, rr := range *bo.Referrers() {
								ifi, isIf := rr.(*ssa.If)
								if !isIf {
									continue
								}
								// the second call runs where the first error was found nil — or, at least, after a test of it
								// whose non-nil edge does not lead to the second call (that edge replaces a real failure)
								nilSucc, errSucc := ifi.Block().Succs[0], ifi.Block().Succs[1]
								if bo.Op == token.NEQ {
									nilSucc, errSucc = errSucc, nilSucc
								}
								underErr := len(errSucc.Preds) == 1 && (errSucc == b2 || errSucc.Dominates(b2))
								underNil := nilSucc == b2 || nilSucc.Dominates(b2)
								if underErr && !underNil {
									continue // replaced exactly when it is an error
								}
								if ifi.Block() == b2 || ifi.Block().Dominates(b2) {
									tested = true
								}
							}
						}
					}
					if !tested {
						k++
						reported[e1] = true
						pos := i2.Pos()
						if ex, isEx := e2.(*ssa.Extract); isEx {
							if ti, isI := ex.Tuple.(ssa.Instruction); isI {
								pos = ti.Pos()
							}
						}
						l.Bad(rule, fmt.Sprintf("%s:replaced-unseen#%d", core.SSAName(f), k), c.Rel(pos), "the error of "+core.Sym(e1)+" is replaced by the error of a later call without having been looked at: on that path the first failure is lost")
					}
				}
			}
		})
	}
}
