package rules

import (
	"strings"

	"golang.org/x/tools/go/ssa"

	"verif/internal/core"
)

// errSide restricts the error-discipline rules to one direction of the codec
// when the property is about that direction only: "read" (decoders, skippers,
// lazy lists), "write" (serializers), "" (both).
var errSide = ""

// codecSide classifies a function of the codec packages by receiver and name.
func codecSide(f *ssa.Function) string {
	name := f.Name()
	recv := recvNamed(f)
	if p := f.Parent(); p != nil {
		return codecSide(p)
	}
	low := strings.ToLower(recv)
	switch {
	case strings.Contains(low, "reader") || strings.HasPrefix(low, "lazy"):
		return "read"
	case strings.Contains(low, "writer") || strings.Contains(low, "responder"):
		return "write"
	}
	ln := strings.ToLower(name)
	switch {
	case strings.HasPrefix(ln, "read") || strings.HasPrefix(ln, "decode") || strings.HasPrefix(ln, "skip") || strings.HasPrefix(ln, "fromwire"):
		return "read"
	case strings.HasPrefix(ln, "write") || strings.HasPrefix(ln, "encode") || strings.HasPrefix(ln, "towire"):
		return "write"
	}
	return ""
}

// errInScope: f belongs to the side the current property is about (functions
// that belong to neither side — shared helpers — are always in scope).
func errInScope(f *ssa.Function) bool {
	if errSide == "" {
		return true
	}
	if errSide == "envelope" {
		// message framing only: the envelope packages, and the envelope/request/response functions of the codec
		switch core.PkgRel(f) {
		case "envelope", "internal/envelope", "internal/multiplex":
			return true
		}
		g := f
		for g.Parent() != nil {
			g = g.Parent()
		}
		low := strings.ToLower(recvNamed(g) + "." + g.Name())
		return strings.Contains(low, "envelope") || strings.Contains(low, "request") || strings.Contains(low, "respon")
	}
	s := codecSide(f)
	return s == "" || s == errSide
}

// withErrRules arms the two error-discipline rules (ERR-KEEP: no error value
// is lost; ERR-SENSE: no error test is inverted) on the packages a property's
// mechanisms live in, after the property's own rules.
func withErrRules(chk func(*core.Ctx, *core.Ledger), side string, rels ...string) func(*core.Ctx, *core.Ledger) {
	return func(c *core.Ctx, l *core.Ledger) {
		chk(c, l)
		errSide = side
		defer func() { errSide = "" }()
		checkErrKeep(c, l, "ERR-KEEP", rels)
	}
}
