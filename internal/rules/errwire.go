package rules

import (
	"strings"

	"golang.org/x/tools/go/ssa"

	"verif/internal/core"
)

// errSide restricts the error-discipline rules to one direction of the codec
// when the property is about that direction only: "read" (decoders, skippers,
// lazy lists), "write" (serializers), "" (both).
var errSide = ""

// codecSide classifies a function of the codec packages by receiver and name.
func codecSide(f *ssa.Function) string {
	name := f.Name()
	recv := recvNamed(f)
	if p := f.Parent(); p != nil {
		return codecSide(p)
	}
	low := strings.ToLower(recv)
	switch {
	case strings.Contains(low, "reader") || strings.HasPrefix(low, "lazy"):
		return "read"
	case strings.Contains(low, "writer") || strings.Contains(low, "responder"):
		return "write"
	}
	ln := strings.ToLower(name)
	switch {
	case strings.HasPrefix(ln, "read") || strings.HasPrefix(ln, "decode") || strings.HasPrefix(ln, "skip") || strings.HasPrefix(ln, "fromwire"):
		return "read"
	case strings.HasPrefix(ln, "write") || strings.HasPrefix(ln, "encode") || strings.HasPrefix(ln, "towire"):
		return "write"
	}
	return ""
}

// errInScope: f belongs to the side the current property is about (functions
// that belong to neither side — shared helpers — are always in scope).
func errInScope(f *ssa.Function) bool {
	if errSide == "" {
		return true
	}
	if errSide == "envelope" {
		// message framing only: the envelope packages, and the envelope/request/response functions of the codec
		switch core.PkgRel(f) {
		case "envelope", "internal/envelope", "internal/multiplex":
			return true
		}
		g := f
		for g.Parent() != nil {
			g = g.Parent()
		}
		low := strings.ToLower(recvNamed(g) + "." + g.Name())
		return strings.Contains(low, "envelope") || strings.Contains(low, "request") || strings.Contains(low, "respon")
	}
	s := codecSide(f)
	return s == "" || s == errSide
}

// withErrRules arms the two error-discipline rules (ERR-KEEP: no error value
// is lost; ERR-SENSE: no error test is inverted) on the packages a property's
// mechanisms live in, after the property's own rules.
func withErrRules(chk func(*core.Ctx, *core.Ledger), side string, rels ...string) func(*core.Ctx, *core.Ledger) {
	return func(c *core.Ctx, l *core.Ledger) {
		chk(c, l)
		errSide = side
		defer func() { errSide = "" }()
		checkErrKeep(c, l, "ERR-KEEP", rels)
	}
}

// extraRules: small rules added after the surveys and later seed rounds, run
// after a property's own rules (properties wrapped by withErrRules).
// RunExtra runs the extra rules of the ledger's property (called by the driver after the property's check).
func RunExtra(c *core.Ctx, l *core.Ledger) {
	for _, extra := range extraRules[l.Prop] {
		extra(c, l)
	}
	if d := extraDoc[l.Prop]; d != "" {
		l.Explanation += " Added after the mutation surveys and the later seed rounds: " + d
	}
}

// extraDoc: what the extra rules of a property decide (appended to the explanation in the evidence file).
var extraDoc = map[string]string{
	"C09": "(PARSE-ID) whenever the parser builds a field identifier, its ID is the scanned number converted to int and its Unset flag is a constant.",
	"C13": "(FULL-READ) the stream reader hands its io.Reader only to full-read primitives: a short source is an error, never a silent end of a skip.",
	"C17": "(HANDSHAKE-GATE) a plugin handle is constructed only after a handshake that succeeded with the expected name and exactly the expected API version.",
	"C01": "(FRESH-CLAIM) fresh-name searches of the generator record the name they found free; (UNSAFE-LEN) unsafe.String/unsafe.Slice over the data of a value take len of that same value; (CONST-ACCEPT) each constant kind's Link succeeds exactly under the root type kinds the generator renders it for (frozen table).",
	"C02": "(UNSAFE-LEN) as under C01; (STOP-EXACT) a byte read from the input is compared with 0 by == or != only; (POOL-*) pooled readers are completely re-initialised when borrowed.",
	"C03": "(STOP-EXACT) a byte read from the input is compared with 0 by == or != only: 0x80–0xFF never end a struct.",
	"C04": "(UNSAFE-LEN) unsafe views take len of the value they alias; (STOP-EXACT) only the byte 0 ends a struct.",
	"C05": "(RSEQ) every StreamReader primitive consumes exactly its Thrift row; (STOP-EXACT) only the byte 0 ends a struct; (WIDE-ARITH) count × width of a skipped container is computed in 64 bits.",
	"C06": "(IMPORT-NAME) a path that is already imported is referred to by the name recorded for it; (CONST-ACCEPT) constants are accepted exactly for the type kinds the generator renders.",
	"C07": "(NARROW) narrowing conversions of source numbers in package compile are dominated by tests of both bounds; (LOOKUP-EXACT) the Lookup* functions of package compile match names exactly (no case folding, trimming or prefix tests).",
	"C08": "(INDEX-GUARD) constant-index reads of input-dependent slices and strings in idl and idl/internal lie under a length test on every path; (APPEND-ALIAS) no function returns append(p, …) for its own slice parameter p.",
	"C11": "(POS-LOOKUP) idl.Info.Pos indexes the position table with a node only after ast.Pos answered that the node has no position of its own.",
	"C14": "(HASH-KEY) for every hashable primitive type code, the key toHashable yields is the value itself in its own Go type.",
	"C19": "(NAME-KEY) tables keyed by the name of a service or module specification are also keyed by, or nested under, its file; (REQUEST exceptions) the description of a function's exceptions is conditional only on a result specification being present and the list being non-empty.",
}

var extraRules = map[string][]func(*core.Ctx, *core.Ledger){
	"C01": {
		func(c *core.Ctx, l *core.Ledger) { checkFreshClaim(c, l, "FRESH-CLAIM", []string{"gen"}, 2) },
		func(c *core.Ctx, l *core.Ledger) {
			checkUnsafeLen(c, l, "UNSAFE-LEN", []string{"wire", "protocol/binary"})
		},
		func(c *core.Ctx, l *core.Ledger) { checkConstAccept(c, l, "CONST-ACCEPT") },
	},
	"C02": {
		func(c *core.Ctx, l *core.Ledger) {
			checkUnsafeLen(c, l, "UNSAFE-LEN", []string{"wire", "protocol/binary"})
		},
		func(c *core.Ctx, l *core.Ledger) { checkStopExact(c, l, "STOP-EXACT") },
		func(c *core.Ctx, l *core.Ledger) { checkPools(c, l) },
	},
	"C03": {
		func(c *core.Ctx, l *core.Ledger) { checkStopExact(c, l, "STOP-EXACT") },
	},
	"C04": {
		func(c *core.Ctx, l *core.Ledger) { checkStopExact(c, l, "STOP-EXACT") },
		func(c *core.Ctx, l *core.Ledger) {
			checkUnsafeLen(c, l, "UNSAFE-LEN", []string{"wire", "protocol/binary"})
		},
	},
	"C05": {
		func(c *core.Ctx, l *core.Ledger) { checkReaderRows(c, l, "RSEQ") },
		func(c *core.Ctx, l *core.Ledger) { checkStopExact(c, l, "STOP-EXACT") },
		func(c *core.Ctx, l *core.Ledger) {
			// skipping an unknown container of any size consumes exactly its bytes only if count × width does not wrap
			sub := core.NewLedger("C03", "quick")
			d := decodeScope(c, sub)
			checkWideArith(c, l, core.SortedFuncs(d), func(f *ssa.Function) bool { _, ok := d[f]; return ok })
		},
	},
	"C06": {
		func(c *core.Ctx, l *core.Ledger) { checkImportName(c, l, "IMPORT-NAME") },
		func(c *core.Ctx, l *core.Ledger) { checkConstAccept(c, l, "CONST-ACCEPT") },
	},
	"C07": {
		func(c *core.Ctx, l *core.Ledger) { checkNarrowing(c, l, "NARROW", []string{"compile"}) },
		func(c *core.Ctx, l *core.Ledger) { checkLookupExact(c, l, "LOOKUP-EXACT") },
	},
	"C08": {
		func(c *core.Ctx, l *core.Ledger) {
			checkAppendAlias(c, l, "APPEND-ALIAS", []string{"compile", "gen", "ast", "idl", "idl/internal"})
		},
		func(c *core.Ctx, l *core.Ledger) {
			checkIndexGuard(c, l, "INDEX-GUARD", []string{"idl/internal", "idl"})
		},
	},
	"C09": {
		func(c *core.Ctx, l *core.Ledger) { checkParsedFieldID(c, l, "PARSE-ID") },
	},
	"C11": {
		func(c *core.Ctx, l *core.Ledger) { checkPosLookup(c, l, "POS-LOOKUP") },
	},
	"C13": {
		func(c *core.Ctx, l *core.Ledger) { checkNoRawRead(c, l, "FULL-READ", []string{"protocol/binary"}) },
		func(c *core.Ctx, l *core.Ledger) { checkStreamReaderFullRead(c, l) },
	},
	"C14": {
		func(c *core.Ctx, l *core.Ledger) { checkHashGetter(c, l, "HASH-KEY") },
	},
	"C17": {
		func(c *core.Ctx, l *core.Ledger) { checkHandshakeGate(c, l) },
	},
	"C19": {
		func(c *core.Ctx, l *core.Ledger) { checkNameKey(c, l, "NAME-KEY") },
		func(c *core.Ctx, l *core.Ledger) { checkExceptionsPath(c, l, "REQUEST") },
	},
}
