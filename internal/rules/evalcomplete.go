package rules

import (
	"fmt"
	"os"
	"sort"
	"strings"

	"golang.org/x/tools/go/ssa"

	"verif/internal/core"
)

// checkEvalComplete (EVAL-COMPLETE): wire.EvaluateValue is what "forces every
// lazily decoded container" means in this code base. For each container wire
// type, every success path of EvaluateValue — with v.Type() fixed to that type
// and unexported helpers explored in place — must hand every wire.Value-typed
// component of the container to EvaluateValue again (or to a callback doing
// so): both Key and Value of every map item, every element of a set or list,
// the Value of every struct field; and the error of each such step must be
// looked at. A component that is not forced can hide an invalid element behind
// a successful decode.
func checkEvalComplete(c *core.Ctx, l *core.Ledger, rule string) {
	var f *ssa.Function
	if tf := c.LookupFunc("wire", "EvaluateValue"); tf != nil {
		f = c.SSAFunc(tf)
	}
	if f == nil || len(f.Params) != 1 {
		l.Unk(rule, "anchor", "", "wire.EvaluateValue not found")
		return
	}
	inline := inlineHelpers("EvaluateValue")
	// events of one function: EV(<arg>) for a recursive call, FE(<recv>){<callback events>} for ForEach
	var events func(g *ssa.Function, decide func(*ssa.If) (int, bool), depth int) ([][]string, bool)
	used := func(v ssa.Value) bool {
		refs := v.Referrers()
		if refs == nil {
			return false
		}
		for _, r := range *refs {
			if _, dbg := r.(*ssa.DebugRef); !dbg {
				return true
			}
		}
		return false
	}
	events = func(g *ssa.Function, decide func(*ssa.If) (int, bool), depth int) ([][]string, bool) {
		return core.SuccessSeqs(g, core.SeqOpts{
			Inline: inline,
			Decide: decide,
			EdgeLabel: func(ifi *ssa.If, idx int) string {
				if in, ok := ifi.Cond.(ssa.Instruction); ok && fieldsRangeFull(in) {
					if idx == 0 {
						return "fields:body"
					}
					return "fields:done"
				}
				return ""
			},
			Classify: func(in ssa.Instruction, inLoop bool) []string {
				call, ok := in.(ssa.CallInstruction)
				if !ok {
					return nil
				}
				com := call.Common()
				val, _ := in.(ssa.Value)
				unused := ""
				if _, isDefer := in.(*ssa.Defer); isDefer || val == nil || !used(val) {
					unused = "!unchecked"
				}
				lp := ""
				if inLoop {
					lp = "loop:"
				}
				if com.StaticCallee() == f && len(com.Args) == 1 {
					return []string{lp + "EV(" + core.Sym(com.Args[0]) + ")" + unused}
				}
				if com.IsInvoke() && com.Method.Name() == "ForEach" && len(com.Args) == 1 && depth < 2 {
					cb := com.Args[0]
					if mc, isMC := cb.(*ssa.MakeClosure); isMC {
						cb = mc.Fn
					}
					if ci, isCI := cb.(*ssa.ChangeType); isCI {
						cb = ci.X
					}
					body := "?"
					if h, isF := cb.(*ssa.Function); isF {
						if h == f {
							body = "EV($0)"
						} else {
							sub, ok2 := events(h, nil, depth+1)
							if ok2 {
								var alts []string
								for _, s := range sub {
									alts = append(alts, strings.Join(s, " "))
								}
								sort.Strings(alts)
								body = strings.Join(alts, "|")
							}
						}
					}
					return []string{lp + "FE(" + core.Sym(com.Value) + "){" + body + "}" + unused}
				}
				return nil
			},
		})
	}
	typeCall := func(v ssa.Value) bool {
		call, ok := v.(*ssa.Call)
		if !ok {
			return false
		}
		cal := call.Call.StaticCallee()
		return cal != nil && cal.Name() == "Type" && len(call.Call.Args) == 1 && core.Sym(call.Call.Args[0]) == "$0"
	}
	type want struct {
		code int64
		name string
		ok   func(seq []string) string
	}
	feOK := func(seq []string, getter string, need ...string) string {
		for _, e := range seq {
			if !strings.HasPrefix(e, "FE(") || !strings.Contains(e[:strings.Index(e, "{")], getter) {
				continue
			}
			if strings.HasSuffix(e, "!unchecked") {
				return "the result of ForEach is not looked at"
			}
			body := e[strings.Index(e, "{")+1 : strings.LastIndex(e, "}")]
			if body == "?" || body == "" {
				return "the callback passed to ForEach could not be resolved or has no success path"
			}
			for _, alt := range strings.Split(body, "|") {
				for _, n := range need {
					found := false
					for _, ev := range strings.Fields(alt) {
						if ev == n {
							found = true
						}
						if ev == n+"!unchecked" {
							return "the error of forcing " + n + " is dropped"
						}
					}
					if !found {
						return fmt.Sprintf("a success path of the ForEach callback does not force %s (path: [%s])", n, alt)
					}
				}
			}
			return ""
		}
		return "no ForEach over the value's " + getter + " result on this success path"
	}
	wants := []want{
		{12, "TStruct", func(seq []string) string {
			body, done := false, false
			for _, e := range seq {
				body = body || e == "fields:body"
				done = done || e == "fields:done"
			}
			if !done {
				return "a success path does not run the loop over all struct fields to its end"
			}
			if !body {
				return "" // a struct without fields
			}
			for _, e := range seq {
				if strings.HasPrefix(e, "loop:EV(") && strings.Contains(e, ".Fields[") && strings.HasSuffix(strings.TrimSuffix(e, "!unchecked"), ".Value)") {
					if strings.HasSuffix(e, "!unchecked") {
						return "the error of forcing a field value is dropped"
					}
					return ""
				}
			}
			return "no loop forcing the Value of each struct field on this success path"
		}},
		{13, "TMap", func(seq []string) string { return feOK(seq, "GetMap", "EV($0.Key)", "EV($0.Value)") }},
		{14, "TSet", func(seq []string) string { return feOK(seq, "GetSet", "EV($0)") }},
		{15, "TList", func(seq []string) string { return feOK(seq, "GetList", "EV($0)") }},
	}
	for _, w := range wants {
		code := w.code
		seqs, ok := events(f, func(ifi *ssa.If) (int, bool) {
			return c.ConstCond(ifi, func(v ssa.Value) (core.CVal, bool) {
				if typeCall(v) {
					return core.CVal{Kind: core.CInt, I: code}, true
				}
				return core.CVal{}, false
			})
		}, 0)
		key := "EvaluateValue(" + w.name + ")"
		if !ok || len(seqs) == 0 {
			l.Unk(rule, key, c.Rel(f.Pos()), "no success path found for this wire type (or too many paths)")
			continue
		}
		var why []string
		if os.Getenv("VDEBUG") != "" {
			fmt.Fprintln(os.Stderr, "EVAL", w.name, core.SeqString(seqs))
		}
		for _, s := range seqs {
			if r := w.ok(s); r != "" {
				why = append(why, r)
			}
		}
		if w.code == 12 && len(why) == 0 {
			some := false
			for _, sq := range seqs {
				for _, e := range sq {
					some = some || e == "fields:body"
				}
			}
			if !some {
				why = append(why, "no success path enters a loop over the whole Fields slice")
			}
		}
		l.Check(len(why) == 0, rule, key, c.Rel(f.Pos()), "every success path forces all Value-typed components of the container and looks at each error", strings.Join(uniq(why), "; "))
	}
	l.Floor(rule, 4)
}

// fieldsRangeFull: in is the loop test `i < len(x.Fields)` of a range-style loop
// whose induction variable starts at 0 (or -1 with pre-increment).
func fieldsRangeFull(in ssa.Instruction) bool {
	b, ok := in.(*ssa.BinOp)
	if !ok || b.Op.String() != "<" {
		return false
	}
	y := core.Sym(b.Y)
	if !strings.HasPrefix(y, "len(") || !strings.HasSuffix(y, ".Fields)") {
		return false
	}
	if bo, isBo := b.X.(*ssa.BinOp); isBo && bo.Op.String() == "+" {
		return true
	}
	if ph, isPh := b.X.(*ssa.Phi); isPh {
		for _, e := range ph.Edges {
			if k, isK := e.(*ssa.Const); isK && (k.Int64() == 0 || k.Int64() == -1) {
				return true
			}
		}
	}
	return false
}
