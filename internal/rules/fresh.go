package rules

import (
	"fmt"
	"go/types"
	"sort"
	"strings"

	"golang.org/x/tools/go/ssa"

	"verif/internal/core"
)

// byteSliceOrigins classifies where a returned []byte can come from:
// "fresh" (allocated during the call), "param" (derived from an argument),
// "state:<what>" (memory that outlives the call: a field of the receiver, a
// package-level variable), "unknown:<why>".
func byteSliceOrigins(c *core.Ctx, f *ssa.Function, memo map[*ssa.Function]map[string]bool, depth int) map[string]bool {
	if m, ok := memo[f]; ok {
		return m
	}
	out := map[string]bool{}
	memo[f] = out // cycles: assume nothing new
	var walk func(v ssa.Value, seen map[ssa.Value]bool)
	walk = func(v ssa.Value, seen map[ssa.Value]bool) {
		if seen[v] {
			return
		}
		seen[v] = true
		switch x := v.(type) {
		case *ssa.Const:
			out["fresh"] = true
		case *ssa.MakeSlice:
			out["fresh"] = true
		case *ssa.Parameter:
			if len(f.Params) > 0 && f.Signature.Recv() != nil && x == f.Params[0] {
				out["state:receiver"] = true
			} else {
				out["param"] = true
			}
		case *ssa.Slice:
			walk(x.X, seen)
		case *ssa.Phi:
			for _, e := range x.Edges {
				walk(e, seen)
			}
		case *ssa.ChangeType:
			walk(x.X, seen)
		case *ssa.Convert:
			// []byte(string) allocates
			if _, isStr := x.X.Type().Underlying().(*types.Basic); isStr {
				out["fresh"] = true
			} else {
				walk(x.X, seen)
			}
		case *ssa.Alloc:
			if x.Heap {
				out["fresh"] = true // a new array (`new [N]byte` then sliced) or escaping local
			} else {
				out["fresh"] = true
			}
		case *ssa.FieldAddr:
			// the address of a field (e.g. a bytes.Buffer kept in the receiver) handed to a call
			root := x.X
			for {
				if fa, ok := root.(*ssa.FieldAddr); ok {
					root = fa.X
					continue
				}
				break
			}
			if r, ok := root.(*ssa.Parameter); ok && f.Signature.Recv() != nil && r == f.Params[0] {
				out["state:"+core.TypeLabel(r.Type())+"."+core.FieldName(core.FieldOf(x))] = true
			} else if _, ok := root.(*ssa.Alloc); ok {
				out["fresh"] = true
			} else if g, ok := root.(*ssa.Global); ok {
				out["state:"+g.Name()] = true
			} else {
				out["unknown:field address"] = true
			}
		case *ssa.UnOp:
			// load
			switch a := x.X.(type) {
			case *ssa.FieldAddr:
				root := a.X
				for {
					if fa, ok := root.(*ssa.FieldAddr); ok {
						root = fa.X
						continue
					}
					if u, ok := root.(*ssa.UnOp); ok {
						root = u.X
						continue
					}
					break
				}
				switch r := root.(type) {
				case *ssa.Parameter:
					if f.Signature.Recv() != nil && r == f.Params[0] {
						out["state:"+core.TypeLabel(r.Type())+"."+core.FieldName(core.FieldOf(a))] = true
					} else {
						out["param"] = true
					}
				case *ssa.Alloc:
					// field of a local struct: what was stored there
					for _, ref := range *a.Referrers() {
						if st, ok := ref.(*ssa.Store); ok && st.Addr == ssa.Value(a) {
							walk(st.Val, seen)
						}
					}
					// other FieldAddr of the same field
					for _, ref := range *r.Referrers() {
						if fa2, ok := ref.(*ssa.FieldAddr); ok && fa2.Field == a.Field {
							for _, r2 := range *fa2.Referrers() {
								if st, ok := r2.(*ssa.Store); ok {
									walk(st.Val, seen)
								}
							}
						}
					}
				case *ssa.Global:
					out["state:"+r.Name()] = true
				case *ssa.FreeVar:
					out["state:captured "+r.Name()] = true
				default:
					out["unknown:field of "+fmt.Sprintf("%T", root)] = true
				}
			case *ssa.Global:
				out["state:"+a.Name()] = true
			case *ssa.Alloc:
				for _, ref := range *a.Referrers() {
					if st, ok := ref.(*ssa.Store); ok && st.Addr == ssa.Value(a) {
						walk(st.Val, seen)
					}
				}
			case *ssa.IndexAddr:
				walk(a.X, seen)
			case *ssa.FreeVar:
				out["state:captured "+a.Name()] = true
			default:
				out["unknown:load"] = true
			}
		case *ssa.Extract:
			walk(x.Tuple, seen)
		case *ssa.Call:
			cc := x.Call
			if b, ok := cc.Value.(*ssa.Builtin); ok {
				if b.Name() == "append" {
					// append(dst, ...): result may alias dst
					walk(cc.Args[0], seen)
					return
				}
				out["unknown:builtin "+b.Name()] = true
				return
			}
			cal := cc.StaticCallee()
			if cal == nil {
				out["unknown:dynamic call"] = true
				return
			}
			name := ""
			if cal.Pkg != nil {
				name = cal.Pkg.Pkg.Path() + "." + cal.Name()
			}
			switch {
			case name == "bytes.Bytes" && recvNamed(cal) == "Buffer":
				// contents of a buffer: fresh iff the buffer is local to this call
				if al, ok := cc.Args[0].(*ssa.Alloc); ok {
					_ = al
					out["fresh"] = true
				} else {
					walk(cc.Args[0], seen)
				}
			case name == "io.ReadAll" || name == "io/ioutil.ReadAll" || name == "os.ReadFile":
				out["fresh"] = true
			case core.InRepo(cal) && depth < 6:
				for k := range byteSliceOrigins(c, cal, memo, depth+1) {
					if k == "param" {
						// derived from one of the callee's arguments: follow ours
						for _, a := range cc.Args {
							if _, isSl := a.Type().Underlying().(*types.Slice); isSl {
								walk(a, seen)
							}
						}
						continue
					}
					if k == "state:receiver" && len(cc.Args) > 0 {
						walk(cc.Args[0], seen)
						continue
					}
					out[k] = true
				}
			default:
				out["unknown:call "+name] = true
			}
		default:
			out[fmt.Sprintf("unknown:%T", v)] = true
		}
	}
	core.Instrs(f, func(in ssa.Instruction) {
		r, ok := in.(*ssa.Return)
		if !ok {
			return
		}
		for i, res := range r.Results {
			if core.TypeLabel(f.Signature.Results().At(i).Type()) == "[]byte" {
				walk(core.SpilledResult(r, res), map[ssa.Value]bool{})
			}
		}
	})
	return out
}

// checkFreshResults: byte slices handed to callers by the framing layer and the
// codec are not views of memory that the object keeps and reuses — otherwise the
// next operation on the shared object overwrites what an earlier caller still
// holds (two goroutines sharing a frame.Client would read each other's frames).
func checkFreshResults(c *core.Ctx, l *core.Ledger, rule string, rels []string) {
	memo := map[*ssa.Function]map[string]bool{}
	n := 0
	for _, f := range c.AllFuncs(rels...) {
		if c.IsTestFile(f.Pos()) || len(f.Blocks) == 0 || f.Signature.Recv() == nil {
			continue
		}
		has := false
		for i := 0; i < f.Signature.Results().Len(); i++ {
			if core.TypeLabel(f.Signature.Results().At(i).Type()) == "[]byte" {
				has = true
			}
		}
		if !has {
			continue
		}
		n++
		org := byteSliceOrigins(c, f, memo, 0)
		var keys, state, unk []string
		for k := range org {
			keys = append(keys, k)
			if strings.HasPrefix(k, "state:") {
				state = append(state, strings.TrimPrefix(k, "state:"))
			}
			if strings.HasPrefix(k, "unknown:") {
				unk = append(unk, strings.TrimPrefix(k, "unknown:"))
			}
		}
		sort.Strings(keys)
		sort.Strings(state)
		key := core.SSAName(f)
		switch {
		case len(state) > 0 && !declaredView(f):
			l.Bad(rule, key, c.Rel(f.Pos()), "the returned bytes are a view of memory the object keeps ("+strings.Join(state, ", ")+"): the next call on the same object overwrites what this caller holds")
		case len(unk) > 0 && len(state) == 0:
			l.Unk(rule, key, c.Rel(f.Pos()), "origin of the returned bytes not resolved: "+strings.Join(unk, ", "))
		default:
			l.Ok(rule, key, c.Rel(f.Pos()), "returned bytes come from: "+strings.Join(keys, ", "))
		}
	}
	l.Units["byte_slice_results"] = n
}

// declaredView: accessor-style methods whose contract is to expose the
// receiver's own bytes (value-typed receivers holding immutable payloads).
func declaredView(f *ssa.Function) bool {
	// wire.Value is an immutable value type: GetBinary returns its payload by design
	return recvNamed(f) == "Value" && core.PkgRel(f) == "wire"
}
