package rules

import (
	"fmt"
	"go/types"
	"sort"

	"golang.org/x/tools/go/ssa"

	"verif/internal/core"
)

// checkFreshClaim: a fresh-name search ("try base, base2, base3 … until one
// is not in the set") hands out unique names only if the name it found free
// is the name it then records as taken. For every such loop (the loops the
// termination rule certifies as fresh-name searches) in the given packages:
// the candidate is the string phi of the loop header that is re-formatted
// in the body; the sets consulted are the map fields looked up with the
// candidate as key, directly or through the membership helper the loop
// condition calls; after the loop, some consulted set must be updated with
// the candidate itself as key. Recording any other string (the base name,
// the previous candidate) lets a later search hand out the same name again.
func checkFreshClaim(c *core.Ctx, l *core.Ledger, rule string, rels []string, floor int) {
	in := map[string]bool{}
	for _, r := range rels {
		in[r] = true
	}
	for _, f := range c.AllFuncs() {
		if !in[core.PkgRel(f)] || core.IsGenerated2(c, f) || c.IsTestFile(f.Pos()) {
			continue
		}
		loops := loopsOf(f)
		var hs []*ssa.BasicBlock
		for h := range loops {
			hs = append(hs, h)
		}
		sort.Slice(hs, func(i, j int) bool { return hs[i].Index < hs[j].Index })
		for _, h := range hs {
			body := loops[h]
			if _, counted := countedLoop(body); counted {
				continue
			}
			if _, ok := freshNameLoop(f, body); !ok {
				continue
			}
			key := fmt.Sprintf("%s:fresh-name", core.SSAName(f))
			pos := c.Rel(firstPos(h))
			// candidate: string phi in the loop with an in-body edge that is a call result
			var cand *ssa.Phi
			for b := range body {
				for _, ins := range b.Instrs {
					p, ok := ins.(*ssa.Phi)
					if !ok {
						break
					}
					if bt, isB := p.Type().Underlying().(*types.Basic); !isB || bt.Kind() != types.String {
						continue
					}
					for i, e := range p.Edges {
						if _, isCall := e.(*ssa.Call); isCall && body[b.Preds[i]] {
							cand = p
						}
						if _, isBo := e.(*ssa.BinOp); isBo && body[b.Preds[i]] {
							cand = p // base + strconv.Itoa(i)
						}
					}
				}
			}
			// exitVals: the values the name can have when the search is left
			exitVals := map[ssa.Value]bool{}
			candVals := map[ssa.Value]bool{}
			if cand != nil {
				exitVals[cand] = true
				candVals[cand] = true
				// the membership test may be spelled on the value about to become the candidate
				// (`name = next; _, taken = set[name]`): the candidate and the values flowing into it
				for _, e := range cand.Edges {
					candVals[e] = true
				}
			} else {
				// `for { name = format(i); if !taken(name) { break } }`: the name is made afresh in every turn
				for b := range body {
					for _, ins := range b.Instrs {
						if call, ok := ins.(*ssa.Call); ok {
							if bt, isB := call.Type().Underlying().(*types.Basic); isB && bt.Kind() == types.String {
								if o := core.CalleeObj(call); o != nil && o.Pkg() != nil && (o.Pkg().Path() == "fmt" || o.Pkg().Path() == "strconv") {
									exitVals[call] = true
									candVals[call] = true
								}
							}
						}
					}
				}
			}
			if len(exitVals) == 0 {
				l.Unk(rule, key, pos, "fresh-name loop without an identifiable candidate variable")
				continue
			}
			// consulted sets
			consulted := map[*types.Var]bool{}
			var collect func(fn *ssa.Function, isKey func(ssa.Value) bool, inBody func(*ssa.BasicBlock) bool, d int)
			collect = func(fn *ssa.Function, isKey func(ssa.Value) bool, inBody func(*ssa.BasicBlock) bool, d int) {
				if d > 3 {
					return
				}
				for _, b := range fn.Blocks {
					if !inBody(b) {
						continue
					}
					for _, ins := range b.Instrs {
						switch x := ins.(type) {
						case *ssa.Lookup:
							if isKey(x.Index) {
								if fld, _ := core.LoadedField(x.X); fld != nil {
									consulted[fld] = true
								}
							}
						case *ssa.Call:
							cal := x.Call.StaticCallee()
							if cal == nil || !core.InRepo(cal) || len(cal.Blocks) == 0 {
								continue
							}
							for i, a := range x.Call.Args {
								if isKey(a) && i < len(cal.Params) {
									p := cal.Params[i]
									collect(cal, func(v ssa.Value) bool { return v == ssa.Value(p) }, func(*ssa.BasicBlock) bool { return true }, d+1)
								}
							}
						}
					}
				}
			}
			collect(f, func(v ssa.Value) bool { return candVals[v] }, func(b *ssa.BasicBlock) bool { return true }, 0)
			if len(consulted) == 0 {
				l.Unk(rule, key, pos, "fresh-name loop: no set consulted with the candidate as key was found")
				continue
			}
			claimed := false
			var other []string
			core.Instrs(f, func(ins ssa.Instruction) {
				mu, ok := ins.(*ssa.MapUpdate)
				if !ok || body[mu.Block()] {
					return
				}
				fld, _ := core.LoadedField(mu.Map)
				if fld == nil || !consulted[fld] {
					return
				}
				if exitVals[mu.Key] {
					claimed = true
				} else {
					other = append(other, c.Rel(mu.Pos())+": key "+core.Sym(mu.Key))
				}
			})
			if !claimed && len(other) == 0 {
				// the search is a helper that hands the free name to its caller: the caller records it
				returnsCand := false
				core.Instrs(f, func(ins ssa.Instruction) {
					if r, ok := ins.(*ssa.Return); ok && len(r.Results) >= 1 && exitVals[r.Results[0]] {
						returnsCand = true
					}
				})
				if returnsCand {
					sites := 0
					all := true
					for _, site := range c.StaticCallSites(f) {
						if c.IsTestFile(site.Pos()) {
							continue
						}
						sites++
						var res ssa.Value
						if v, isV := site.(ssa.Value); isV {
							res = v
						}
						got := false
						core.Instrs(site.Parent(), func(ins ssa.Instruction) {
							mu, ok := ins.(*ssa.MapUpdate)
							if !ok {
								return
							}
							fld, _ := core.LoadedField(mu.Map)
							if fld == nil || !consulted[fld] {
								return
							}
							k := mu.Key
							if ex, isEx := k.(*ssa.Extract); isEx && ex.Index == 0 {
								k = ex.Tuple
							}
							if res != nil && k == res {
								got = true
							} else {
								other = append(other, c.Rel(mu.Pos())+": key "+core.Sym(mu.Key))
							}
						})
						if !got {
							all = false
						}
					}
					claimed = sites > 0 && all
				}
			}
			why := "the name found free is not recorded in the set the search consults"
			if len(other) > 0 {
				why += "; the set is updated with another key (" + other[0] + ")"
			}
			l.Check(claimed, rule, core.SSAName(f)+":fresh-name", pos, "the candidate that left the search is the key inserted into the consulted set", why)
		}
	}
	l.Floor(rule, floor)
}

// checkNamespaceChain (NS-CHAIN): a child namespace (the locals of one
// generated function) must not hand out a name its ancestors hold (a package
// import, a top-level declaration): the membership test of gen.namespace
// consults the parent — by calling itself on the parent field of the receiver,
// or by walking the parent chain in a loop — on the path where the own set
// does not have the name.
func checkNamespaceChain(c *core.Ctx, l *core.Ledger, rule string) {
	f := c.SSAFunc(c.LookupFunc("gen", "namespace.isTaken"))
	if f == nil {
		l.Unk(rule, "namespace.isTaken", "", "gen.namespace.isTaken not found")
		return
	}
	var parentFld *types.Var
	if st, ok := f.Params[0].Type().Underlying().(*types.Pointer); ok {
		if s, isS := st.Elem().Underlying().(*types.Struct); isS {
			for i := 0; i < s.NumFields(); i++ {
				if types.Identical(s.Field(i).Type(), f.Params[0].Type()) {
					parentFld = s.Field(i)
				}
			}
		}
	}
	if parentFld == nil {
		l.Unk(rule, "namespace.isTaken", c.Rel(f.Pos()), "namespace has no field of its own pointer type (parent link)")
		return
	}
	viaParent := false
	live := liveBlocks(f)
	core.Instrs(f, func(in ssa.Instruction) {
		if !live[in.Block()] {
			return
		}
		switch x := in.(type) {
		case *ssa.Call:
			if x.Call.StaticCallee() == f && len(x.Call.Args) > 0 {
				if fld, _ := core.LoadedField(x.Call.Args[0]); fld == parentFld {
					viaParent = true
				}
			}
		case *ssa.Phi:
			for _, e := range x.Edges {
				if fld, base := core.LoadedField(e); fld == parentFld && base == ssa.Value(x) {
					viaParent = true
				}
			}
		}
	})
	l.Check(viaParent, rule, "namespace.isTaken", c.Rel(f.Pos()), "names held by the ancestors are taken in the child: the test continues with the "+parentFld.Name()+" link", "the membership test never looks at the parent namespace: a local name can shadow an import or a top-level declaration of the generated file")
}
