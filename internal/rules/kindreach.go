package rules

import (
	"go/token"
	"go/types"
	"sort"
	"strings"

	"golang.org/x/tools/go/ssa"

	"verif/internal/core"
)

// kindreach: a small path-sensitive abstract interpretation over the finite
// domain of compile.TypeSpec kinds. For a function taking a TypeSpec it
// answers: with which dynamic kinds of the argument can control reach a given
// instruction (a panic, a default arm, a return)? Branch conditions
// understood: comma-ok type assertions (type switches), calls to predicate
// functions over a TypeSpec (their truth tables are derived by the same
// analysis), and nil tests on phis whose incoming values are known (the
// "t != nil" idiom after a first switch).

type kindSet map[string]bool

func (k kindSet) clone() kindSet {
	o := kindSet{}
	for x := range k {
		o[x] = true
	}
	return o
}

func (k kindSet) names() []string {
	var out []string
	for x := range k {
		out = append(out, x)
	}
	sort.Strings(out)
	return out
}

type kindAnalysis struct {
	c      *core.Ctx
	kinds  []string // exported implementers of compile.TypeSpec, by name
	tsType types.Type
	root   *ssa.Function
	preds  map[*ssa.Function]map[string][2]bool // root-kind -> (can be true, can be false)
	busy   map[*ssa.Function]bool
}

func newKindAnalysis(c *core.Ctx) *kindAnalysis {
	ka := &kindAnalysis{c: c, preds: map[*ssa.Function]map[string][2]bool{}, busy: map[*ssa.Function]bool{}}
	t, impl := ifaceDomain(c, "compile.TypeSpec")
	ka.tsType = t
	for _, it := range impl {
		n := core.RecvTypeName(it)
		if token.IsExported(n) {
			ka.kinds = append(ka.kinds, n)
		}
	}
	sort.Strings(ka.kinds)
	ka.root = c.SSAFunc(c.LookupFunc("compile", "RootTypeSpec"))
	return ka
}

func (ka *kindAnalysis) all() kindSet {
	k := kindSet{}
	for _, n := range ka.kinds {
		k[n] = true
	}
	return k
}

func (ka *kindAnalysis) nonTypedef() kindSet {
	k := ka.all()
	delete(k, "TypedefSpec")
	return k
}

// kstate: kinds of the spec value and of its root.
type kstate struct {
	spec  kindSet            // possible kinds of the subject value
	root  kindSet            // possible kinds of RootTypeSpec(subject)
	bools map[ssa.Value]bool // truth of bool parameters decided on this path
	pred  *ssa.BasicBlock    // block from which the current block was entered
}

func (s kstate) clone() kstate {
	b := map[ssa.Value]bool{}
	for k, v := range s.bools {
		b[k] = v
	}
	return kstate{s.spec.clone(), s.root.clone(), b, s.pred}
}

func (s *kstate) normalize() {
	// spec non-typedef kinds must be within root; root must be reachable from spec
	for k := range s.spec {
		if k != "TypedefSpec" && !s.root[k] {
			delete(s.spec, k)
		}
	}
	if !s.spec["TypedefSpec"] {
		for k := range s.root {
			if !s.spec[k] {
				delete(s.root, k)
			}
		}
	}
}

func (s kstate) empty() bool { return len(s.spec) == 0 || len(s.root) == 0 }

// subjectOf classifies v relative to the function's subject parameter:
// 1 = the subject itself (or a type-asserted binding of it), 2 = its root, 0 = unrelated.
func (ka *kindAnalysis) subjectOf(v ssa.Value, subj ssa.Value, depth int) int {
	if depth > 8 {
		return 0
	}
	if v == subj {
		return 1
	}
	switch x := v.(type) {
	case *ssa.Call:
		if x.Call.StaticCallee() == ka.root && len(x.Call.Args) == 1 {
			if ka.subjectOf(x.Call.Args[0], subj, depth+1) != 0 {
				return 2
			}
		}
	case *ssa.Phi:
		r := -1
		for _, e := range x.Edges {
			k := ka.subjectOf(e, subj, depth+1)
			if r == -1 {
				r = k
			} else if r != k {
				// spec reassigned to its root (spec = RootTypeSpec(spec)): from then on it is the root
				if (r == 1 && k == 2) || (r == 2 && k == 1) {
					r = 2
				} else {
					return 0
				}
			}
		}
		if r > 0 {
			return r
		}
	case *ssa.ChangeInterface:
		return ka.subjectOf(x.X, subj, depth+1)
	case *ssa.MakeInterface:
		return ka.subjectOf(x.X, subj, depth+1)
	case *ssa.Extract:
		if ta, ok := x.Tuple.(*ssa.TypeAssert); ok && x.Index == 0 {
			return ka.subjectOf(ta.X, subj, depth+1)
		}
	case *ssa.TypeAssert:
		return ka.subjectOf(x.X, subj, depth+1)
	case *ssa.UnOp:
		// load of a local that holds the subject (parameter spilled / reassigned)
		if a, ok := x.X.(*ssa.Alloc); ok && x.Op == token.MUL {
			r := 0
			for _, ref := range *a.Referrers() {
				if st, ok := ref.(*ssa.Store); ok && st.Addr == a {
					k := ka.subjectOf(st.Val, subj, depth+1)
					if k > r {
						r = k
					}
				}
			}
			return r
		}
	}
	return 0
}

// predicateTable derives, for a bool function of one TypeSpec, which results
// are possible per root kind.
func (ka *kindAnalysis) predicateTable(f *ssa.Function) map[string][2]bool {
	if t, ok := ka.preds[f]; ok {
		return t
	}
	if ka.busy[f] || len(f.Blocks) == 0 {
		return nil
	}
	// find the TypeSpec-typed parameter
	var subj *ssa.Parameter
	for _, p := range f.Params {
		if types.Identical(p.Type(), ka.tsType) {
			subj = p
		}
	}
	if subj == nil || f.Signature.Results().Len() != 1 {
		return nil
	}
	if b, ok := f.Signature.Results().At(0).Type().Underlying().(*types.Basic); !ok || b.Kind() != types.Bool {
		return nil
	}
	ka.busy[f] = true
	defer delete(ka.busy, f)
	tab := map[string][2]bool{}
	for _, rk := range ka.nonTypedef().names() {
		// subject may be rk itself or a typedef with root rk
		st := kstate{spec: kindSet{rk: true, "TypedefSpec": true}, root: kindSet{rk: true}, bools: map[ssa.Value]bool{}}
		var res [2]bool
		ka.explore(f, subj, st, func(in ssa.Instruction, s kstate) {
			if r, ok := in.(*ssa.Return); ok && len(r.Results) == 1 {
				switch v := r.Results[0].(type) {
				case *ssa.Const:
					if v.Value != nil && v.Value.String() == "true" {
						res[0] = true
					} else {
						res[1] = true
					}
				default:
					// "_, ok := x.(*K); return ok"
					if ex, ok := v.(*ssa.Extract); ok && ex.Index == 1 {
						if ta, ok := ex.Tuple.(*ssa.TypeAssert); ok && ta.CommaOk {
							if which := ka.subjectOf(ta.X, subj, 0); which != 0 {
								kind := core.RecvTypeName(ta.AssertedType)
								target := s.spec
								if which == 2 {
									target = s.root
								}
								for k := range target {
									if k == kind {
										res[0] = true
									} else {
										res[1] = true
									}
								}
								return
							}
						}
					}
					// result of a nested predicate call
					if call, ok := v.(*ssa.Call); ok {
						if cal := call.Call.StaticCallee(); cal != nil {
							if t2 := ka.predicateTable(cal); t2 != nil && len(call.Call.Args) > 0 {
								which := 0
								for _, a := range call.Call.Args {
									if k := ka.subjectOf(a, subj, 0); k != 0 {
										which = k
									}
								}
								if which != 0 {
									for k := range s.root {
										if t2[k][0] {
											res[0] = true
										}
										if t2[k][1] {
											res[1] = true
										}
									}
									return
								}
							}
						}
					}
					res[0], res[1] = true, true
				}
			}
		})
		tab[rk] = res
	}
	ka.preds[f] = tab
	return tab
}

// explore walks all acyclic paths of f from entry, refining the kind state at
// branches, and calls visit for every instruction reached with the state at
// that point.
func (ka *kindAnalysis) explore(f *ssa.Function, subj ssa.Value, init kstate, visit func(ssa.Instruction, kstate)) {
	type frame struct {
		b    *ssa.BasicBlock
		pred *ssa.BasicBlock
		st   kstate
	}
	onPath := map[*ssa.BasicBlock]bool{}
	steps := 0
	var walk func(fr frame)
	walk = func(fr frame) {
		steps++
		if steps > 200000 || onPath[fr.b] {
			return
		}
		onPath[fr.b] = true
		defer delete(onPath, fr.b)
		st := fr.st
		st.pred = fr.pred
		for _, in := range fr.b.Instrs {
			visit(in, st)
		}
		last := fr.b.Instrs[len(fr.b.Instrs)-1]
		switch x := last.(type) {
		case *ssa.If:
			for idx := 0; idx < 2; idx++ {
				ns, feasible := ka.refine(f, subj, fr.b, fr.pred, x.Cond, idx == 0, st.clone())
				if !feasible {
					continue
				}
				walk(frame{fr.b.Succs[idx], fr.b, ns})
			}
		case *ssa.Jump:
			walk(frame{fr.b.Succs[0], fr.b, st})
		}
	}
	init.normalize()
	walk(frame{f.Blocks[0], nil, init})
}

// refine applies condition cond==truth to the state. pred is the block from
// which the current block was entered (to resolve phis).
func (ka *kindAnalysis) refine(f *ssa.Function, subj ssa.Value, cur, pred *ssa.BasicBlock, cond ssa.Value, truth bool, st kstate) (kstate, bool) {
	switch x := cond.(type) {
	case *ssa.Parameter:
		if prev, known := st.bools[x]; known {
			return st, prev == truth
		}
		if st.bools == nil {
			st.bools = map[ssa.Value]bool{}
		}
		st.bools[x] = truth
		return st, true
	case *ssa.UnOp:
		if x.Op == token.NOT {
			return ka.refine(f, subj, cur, pred, x.X, !truth, st)
		}
	case *ssa.Extract:
		if ta, ok := x.Tuple.(*ssa.TypeAssert); ok && ta.CommaOk && x.Index == 1 {
			which := ka.subjectOf(ta.X, subj, 0)
			kind := core.RecvTypeName(ta.AssertedType)
			if which == 0 || kind == "" {
				return st, true
			}
			target := st.spec
			if which == 2 {
				target = st.root
			}
			if truth {
				if !target[kind] {
					return st, false
				}
				for k := range target {
					if k != kind {
						delete(target, k)
					}
				}
				if which == 1 && kind != "TypedefSpec" {
					st.root = kindSet{kind: true}
				}
			} else {
				delete(target, kind)
			}
			st.normalize()
			return st, !st.empty()
		}
	case *ssa.Call:
		if cal := x.Call.StaticCallee(); cal != nil {
			if tab := ka.predicateTable(cal); tab != nil {
				which := 0
				for _, a := range x.Call.Args {
					if k := ka.subjectOf(a, subj, 0); k != 0 {
						which = k
					}
				}
				if which != 0 {
					idx := 0
					if !truth {
						idx = 1
					}
					for k := range st.root {
						if !tab[k][idx] {
							delete(st.root, k)
						}
					}
					st.normalize()
					return st, !st.empty()
				}
			}
		}
	case *ssa.BinOp:
		// phi != nil / phi == nil with incoming values of known nil-ness
		if x.Op == token.NEQ || x.Op == token.EQL {
			var other ssa.Value
			if k, ok := x.Y.(*ssa.Const); ok && k.IsNil() {
				other = x.X
			} else if k, ok := x.X.(*ssa.Const); ok && k.IsNil() {
				other = x.Y
			}
			if phi, ok := other.(*ssa.Phi); ok && phi.Block() == cur && pred != nil {
				for i, p := range cur.Preds {
					if p == pred {
						isNil, known := nilness(phi.Edges[i])
						if known {
							condTrue := (x.Op == token.NEQ) != isNil
							return st, condTrue == truth
						}
					}
				}
			}
		}
	}
	return st, true
}

func nilness(v ssa.Value) (isNil, known bool) {
	switch x := v.(type) {
	case *ssa.Const:
		return x.IsNil(), true
	case *ssa.Alloc, *ssa.MakeInterface, *ssa.MakeMap, *ssa.MakeSlice, *ssa.MakeClosure, *ssa.FieldAddr, *ssa.IndexAddr:
		return false, true
	case *ssa.Extract:
		// the value result of a repository function that returns (value, error): when every return of the
		// callee either carries a non-nil error or a value that cannot be nil, the value is non-nil wherever
		// the caller got past its error test (the callers explored here return on err != nil)
		if call, ok := x.Tuple.(*ssa.Call); ok && x.Index == 0 {
			if g := call.Call.StaticCallee(); g != nil && core.InRepo(g) && len(g.Blocks) > 0 && g.Signature.Results().Len() == 2 && core.IsErrorType(g.Signature.Results().At(1).Type()) {
				all, n := true, 0
				core.Instrs(g, func(in ssa.Instruction) {
					r, isR := in.(*ssa.Return)
					if !isR || len(r.Results) != 2 {
						return
					}
					n++
					if core.ReturnsNonNilError(r) || isErrNilTest(r.Block()) {
						return
					}
					if _, isExt := r.Results[0].(*ssa.Extract); isExt {
						all = false // no recursion into further calls
						return
					}
					if isNil, known := nilness(r.Results[0]); !known || isNil {
						all = false
					}
				})
				if all && n > 0 {
					return false, true
				}
			}
		}
	case *ssa.Phi:
		var r, set bool
		for _, e := range x.Edges {
			n, k := nilness(e)
			if !k {
				return false, false
			}
			if !set {
				r, set = n, true
			} else if r != n {
				return false, false
			}
		}
		return r, set
	}
	return false, false
}

// KindsReaching returns the kinds of the function's TypeSpec parameter with
// which the instruction can be reached (union over paths), restricted to the
// kinds the callers can pass (init; nil = all).
func (ka *kindAnalysis) KindsReaching(f *ssa.Function, target ssa.Instruction, init kindSet) (kindSet, bool) {
	var subj *ssa.Parameter
	for _, p := range f.Params {
		if types.Identical(p.Type(), ka.tsType) {
			subj = p
		}
	}
	if subj == nil {
		return nil, false
	}
	if init == nil {
		init = ka.all()
	}
	st := kstate{spec: init.clone(), root: ka.nonTypedef(), bools: map[ssa.Value]bool{}}
	out := kindSet{}
	ka.explore(f, subj, st, func(in ssa.Instruction, s kstate) {
		if in == target {
			for k := range s.spec {
				if k == "TypedefSpec" {
					for r := range s.root {
						out["typedef→"+strings.TrimSuffix(r, "Spec")] = true
					}
				} else {
					out[k] = true
				}
			}
		}
	})
	return out, true
}

// ExploreKinds runs the path exploration of f for a subject restricted to
// (kind, rootKind) and calls visit with the path state at every instruction.
func (ka *kindAnalysis) ExploreKinds(f *ssa.Function, kind, rootKind string, visit func(ssa.Instruction, kstate)) bool {
	var subj *ssa.Parameter
	for _, p := range f.Params {
		if types.Identical(p.Type(), ka.tsType) {
			subj = p
		}
	}
	if subj == nil {
		return false
	}
	st := kstate{spec: kindSet{kind: true}, root: kindSet{rootKind: true}, bools: map[ssa.Value]bool{}}
	ka.explore(f, subj, st, visit)
	return true
}
