package rules

import (
	"fmt"
	"go/ast"
	"go/constant"
	"go/token"
	"go/types"
	"sort"
	"strconv"
	"strings"

	"verif/internal/core"
)

// lalr holds the goyacc tables of idl/internal/y.go, read from the syntax of
// the current tree, and the per-rule facts extracted from the action switch.
type lalr struct {
	exca, act, pact, pgo, r1, r2, chk, def []int
	last, flag                             int
	toknames                               []string
	// actions
	ruleLen   map[int]int       // from `yyDollar = yyS[yypt-L : yypt+1]`
	markerOf  map[int]string    // rule -> "pos" | "docstring" for marker rules (empty productions reading lexer state)
	uses      map[int][]lalrUse // rule -> marker uses
	rulePos   map[int]token.Pos // case clause position
	ruleLabel map[int]string    // first ast literal / RecordPosition type in the action
}

type lalrUse struct {
	k     int    // yyDollar[k]
	field string // pos | docstring
}

func intLits(cl *ast.CompositeLit) ([]int, bool) {
	var out []int
	for _, e := range cl.Elts {
		neg := false
		if u, ok := e.(*ast.UnaryExpr); ok && u.Op == token.SUB {
			neg = true
			e = u.X
		}
		bl, ok := e.(*ast.BasicLit)
		if !ok || bl.Kind != token.INT {
			return nil, false
		}
		v, err := strconv.Atoi(bl.Value)
		if err != nil {
			return nil, false
		}
		if neg {
			v = -v
		}
		out = append(out, v)
	}
	return out, true
}

func loadLALR(c *core.Ctx) (*lalr, error) {
	p := c.Pkg("idl/internal")
	if p == nil {
		return nil, fmt.Errorf("package idl/internal not loaded")
	}
	t := &lalr{ruleLen: map[int]int{}, markerOf: map[int]string{}, uses: map[int][]lalrUse{}, rulePos: map[int]token.Pos{}, ruleLabel: map[int]string{}}
	tabs := map[string]*[]int{"yyExca": &t.exca, "yyAct": &t.act, "yyPact": &t.pact, "yyPgo": &t.pgo, "yyR1": &t.r1, "yyR2": &t.r2, "yyChk": &t.chk, "yyDef": &t.def}
	for _, f := range p.Syntax {
		if c.IsTestFile(f.Pos()) {
			continue
		}
		for _, d := range f.Decls {
			gd, ok := d.(*ast.GenDecl)
			if !ok || gd.Tok != token.VAR {
				continue
			}
			for _, sp := range gd.Specs {
				vs := sp.(*ast.ValueSpec)
				if len(vs.Names) != 1 || len(vs.Values) != 1 {
					continue
				}
				cl, ok := vs.Values[0].(*ast.CompositeLit)
				if !ok {
					continue
				}
				if dst := tabs[vs.Names[0].Name]; dst != nil {
					v, ok := intLits(cl)
					if !ok {
						return nil, fmt.Errorf("table %s is not a literal of integers", vs.Names[0].Name)
					}
					*dst = v
				}
				if vs.Names[0].Name == "yyToknames" {
					for _, e := range cl.Elts {
						if bl, ok := e.(*ast.BasicLit); ok {
							s, _ := strconv.Unquote(bl.Value)
							t.toknames = append(t.toknames, s)
						}
					}
				}
			}
		}
	}
	for n, dst := range tabs {
		if len(*dst) == 0 {
			return nil, fmt.Errorf("table %s not found", n)
		}
	}
	cint := func(name string) (int, bool) {
		k, ok := p.Types.Scope().Lookup(name).(*types.Const)
		if !ok {
			return 0, false
		}
		v, ok := constant.Int64Val(k.Val())
		return int(v), ok
	}
	var ok1, ok2 bool
	t.last, ok1 = cint("yyLast")
	t.flag, ok2 = cint("yyFlag")
	if !ok1 || !ok2 {
		return nil, fmt.Errorf("yyLast/yyFlag not found")
	}
	// the action switch
	var parse *ast.FuncDecl
	for _, f := range p.Syntax {
		for _, d := range f.Decls {
			if fd, ok := d.(*ast.FuncDecl); ok && fd.Name.Name == "Parse" && fd.Recv != nil && len(fd.Recv.List) == 1 {
				if strings.Contains(types.ExprString(fd.Recv.List[0].Type), "yyParserImpl") {
					parse = fd
				}
			}
		}
	}
	if parse == nil {
		return nil, fmt.Errorf("yyParserImpl.Parse not found")
	}
	var sw *ast.SwitchStmt
	ast.Inspect(parse.Body, func(n ast.Node) bool {
		if s, ok := n.(*ast.SwitchStmt); ok {
			if id, ok := s.Tag.(*ast.Ident); ok && id.Name == "yynt" {
				sw = s
			}
		}
		return true
	})
	if sw == nil {
		return nil, fmt.Errorf("action switch on yynt not found")
	}
	for _, st := range sw.Body.List {
		cc := st.(*ast.CaseClause)
		if len(cc.List) != 1 {
			continue
		}
		bl, ok := cc.List[0].(*ast.BasicLit)
		if !ok {
			continue
		}
		rule, _ := strconv.Atoi(bl.Value)
		t.rulePos[rule] = cc.Pos()
		for _, s := range cc.Body {
			ast.Inspect(s, func(n ast.Node) bool {
				switch x := n.(type) {
				case *ast.AssignStmt:
					// yyDollar = yyS[yypt-L : yypt+1]
					if len(x.Lhs) == 1 && len(x.Rhs) == 1 {
						if id, ok := x.Lhs[0].(*ast.Ident); ok && id.Name == "yyDollar" {
							if se, ok := x.Rhs[0].(*ast.SliceExpr); ok {
								if be, ok := se.Low.(*ast.BinaryExpr); ok && be.Op == token.SUB {
									if l, ok := be.Y.(*ast.BasicLit); ok {
										t.ruleLen[rule], _ = strconv.Atoi(l.Value)
									}
								}
							}
						}
						// marker rules: yyVAL.pos = yylex.(*lexer).Pos() / yyVAL.docstring = ....LastDocstring()
						if sel, ok := x.Lhs[0].(*ast.SelectorExpr); ok {
							if id, ok := sel.X.(*ast.Ident); ok && id.Name == "yyVAL" {
								if call, ok := x.Rhs[0].(*ast.CallExpr); ok {
									if fs, ok := call.Fun.(*ast.SelectorExpr); ok && len(call.Args) == 0 {
										if strings.Contains(types.ExprString(fs.X), "yylex") {
											t.markerOf[rule] = sel.Sel.Name
										}
									}
								}
							}
						}
					}
				case *ast.SelectorExpr:
					// yyDollar[k].pos
					if ie, ok := x.X.(*ast.IndexExpr); ok {
						if id, ok := ie.X.(*ast.Ident); ok && id.Name == "yyDollar" {
							if l, ok := ie.Index.(*ast.BasicLit); ok {
								k, _ := strconv.Atoi(l.Value)
								dup := false
								for _, u := range t.uses[rule] {
									if u.k == k && u.field == x.Sel.Name {
										dup = true
									}
								}
								if !dup {
									t.uses[rule] = append(t.uses[rule], lalrUse{k, x.Sel.Name})
								}
							}
						}
					}
				case *ast.CompositeLit:
					if t.ruleLabel[rule] == "" {
						t.ruleLabel[rule] = types.ExprString(x.Type)
					}
				case *ast.CallExpr:
					if t.ruleLabel[rule] == "" {
						if id, ok := x.Fun.(*ast.SelectorExpr); ok && id.Sel.Name != "RecordPosition" && id.Sel.Name != "ParseDocstring" && strings.HasPrefix(types.ExprString(x.Fun), "ast.") {
							t.ruleLabel[rule] = types.ExprString(x.Fun)
						}
					}
				}
				return true
			})
		}
	}
	return t, nil
}

func (t *lalr) tokName(n int) string {
	if n >= 1 && n-1 < len(t.toknames) {
		return t.toknames[n-1]
	}
	return fmt.Sprintf("tok-%d", n)
}

func (t *lalr) simple(s int) bool { return t.pact[s] <= t.flag }

func (t *lalr) shift(s, tok int) (int, bool) {
	n := t.pact[s]
	if n <= t.flag {
		return 0, false
	}
	n += tok
	if n < 0 || n >= t.last {
		return 0, false
	}
	n = t.act[n]
	if t.chk[n] == tok {
		return n, true
	}
	return 0, false
}

func (t *lalr) gotoState(p, nt int) int {
	g := t.pgo[nt]
	j := g + p + 1
	if j >= t.last {
		return t.act[g]
	}
	ns := t.act[j]
	if t.chk[ns] != -nt {
		ns = t.act[g]
	}
	return ns
}

// excaRules returns the rules the exception table lists for a state (all lookaheads).
func (t *lalr) excaRules(s int) []int {
	xi := 0
	for xi+1 < len(t.exca) {
		if t.exca[xi] == -1 && t.exca[xi+1] == s {
			break
		}
		xi += 2
	}
	var out []int
	for xi += 2; xi+1 < len(t.exca); xi += 2 {
		out = append(out, t.exca[xi+1])
		if t.exca[xi] < 0 {
			break
		}
	}
	return out
}

type lalrSim struct {
	t        *lalr
	rev      map[int]map[int]bool  // to -> set of from
	reach    map[[2]int]bool       // (state, la)
	markerLA map[int]map[bool]bool // state where a marker rule reduces -> lookahead-present statuses
	markerR  map[int]map[int]bool  // state -> marker rules reduced there
	redAt    map[int]map[int]bool  // rule -> states where it is reduced
}

func b2i(b bool) int {
	if b {
		return 1
	}
	return 0
}

// back returns the states n automaton edges behind q.
func (s *lalrSim) back(q, n int) []int {
	cur := map[int]bool{q: true}
	for i := 0; i < n; i++ {
		nxt := map[int]bool{}
		for x := range cur {
			for p := range s.rev[x] {
				nxt[p] = true
			}
		}
		cur = nxt
	}
	var out []int
	for x := range cur {
		out = append(out, x)
	}
	sort.Ints(out)
	return out
}

func (s *lalrSim) edge(from, to int) bool {
	if s.rev[to] == nil {
		s.rev[to] = map[int]bool{}
	}
	if s.rev[to][from] {
		return false
	}
	s.rev[to][from] = true
	return true
}

// run explores the reachable (state, lookahead-present) configurations of the
// automaton on error-free inputs, to a fixpoint.
func (s *lalrSim) run() {
	t := s.t
	s.reach[[2]int{0, 0}] = true
	for changed := true; changed; {
		changed = false
		var items [][2]int
		for it := range s.reach {
			items = append(items, it)
		}
		sort.Slice(items, func(i, j int) bool {
			if items[i][0] != items[j][0] {
				return items[i][0] < items[j][0]
			}
			return items[i][1] < items[j][1]
		})
		push := func(st int, la bool) {
			k := [2]int{st, b2i(la)}
			if !s.reach[k] {
				s.reach[k] = true
				changed = true
			}
		}
		reduce := func(q, r int, la bool) {
			if r <= 0 {
				return
			}
			if s.redAt[r] == nil {
				s.redAt[r] = map[int]bool{}
			}
			s.redAt[r][q] = true
			if t.markerOf[r] != "" {
				if s.markerLA[q] == nil {
					s.markerLA[q] = map[bool]bool{}
					s.markerR[q] = map[int]bool{}
				}
				s.markerLA[q][la] = true
				s.markerR[q][r] = true
			}
			n := t.r2[r]
			for _, p := range s.back(q, n) {
				to := t.gotoState(p, t.r1[r])
				if s.edge(p, to) {
					changed = true
				}
				push(to, la)
			}
		}
		for _, it := range items {
			q, la := it[0], it[1] == 1
			if t.simple(q) {
				r := t.def[q]
				if r == -2 {
					for _, rr := range t.excaRules(q) {
						reduce(q, rr, true)
					}
				} else {
					reduce(q, r, la)
				}
				continue
			}
			for tok := 1; tok <= len(t.toknames); tok++ {
				if to, ok := t.shift(q, tok); ok {
					if s.edge(q, to) {
						changed = true
					}
					push(to, false)
				}
			}
			r := t.def[q]
			if r == -2 {
				for _, rr := range t.excaRules(q) {
					reduce(q, rr, true)
				}
			} else {
				reduce(q, r, true)
			}
		}
	}
}

// accessing symbol of a state, rendered
func (t *lalr) accessSym(s int) string {
	if s == 0 {
		return "<start>"
	}
	c := t.chk[s]
	if c > 0 {
		return t.tokName(c)
	}
	return fmt.Sprintf("nonterminal#%d", -c)
}

// checkPosMarkers decides, for every use of a position/docstring marker in a
// grammar action, whether the marker's (empty) production is reduced with the
// lookahead token already read — then lexer state describes the NEXT token — or
// without — then it describes the LAST shifted token — and compares that with
// the marker's place in the production: a marker followed by further symbols
// must describe the next token; a marker that ends its production, the last one.
func checkPosMarkers(c *core.Ctx, l *core.Ledger) {
	t, err := loadLALR(c)
	if err != nil {
		l.Unk("POS-MARKER", "tables", "", "goyacc tables not readable: "+err.Error())
		return
	}
	sim := &lalrSim{t: t, rev: map[int]map[int]bool{}, reach: map[[2]int]bool{}, markerLA: map[int]map[bool]bool{}, markerR: map[int]map[int]bool{}, redAt: map[int]map[int]bool{}}
	sim.run()
	l.Units["lalr_states"] = len(t.pact)
	l.Units["lalr_rules"] = len(t.r1) - 1
	l.Units["lalr_reachable_configs"] = len(sim.reach)
	nm := 0
	for range t.markerOf {
		nm++
	}
	if nm == 0 {
		l.Unk("POS-MARKER", "markers", "", "no marker production (action reading lexer state in an empty production) found")
		return
	}
	var rules []int
	for r := range t.uses {
		rules = append(rules, r)
	}
	sort.Ints(rules)
	labelCount := map[string]int{}
	for _, r := range rules {
		L := t.ruleLen[r]
		for _, u := range t.uses[r] {
			if u.field != "pos" && u.field != "docstring" {
				continue
			}
			label := t.ruleLabel[r]
			if label == "" {
				label = fmt.Sprintf("rule%d", r)
			}
			labelCount[label+u.field]++
			key := fmt.Sprintf("%s:%s", label, u.field)
			if n := labelCount[label+u.field]; n > 1 {
				key = fmt.Sprintf("%s#%d", key, n)
			}
			pos := c.Rel(t.rulePos[r])
			followed := u.k < L
			if len(sim.redAt[r]) == 0 {
				l.Unk("POS-MARKER", key, pos, fmt.Sprintf("rule %d is never reduced in the explored automaton", r))
				continue
			}
			var good, bad []string
			for q := range sim.redAt[r] {
				for _, T := range sim.back(q, L-u.k) {
					for _, S := range sim.back(T, 1) {
						las := sim.markerLA[S]
						if las == nil {
							bad = append(bad, fmt.Sprintf("state %d (after %s): no marker reduction recorded", S, t.accessSym(S)))
							continue
						}
						for la := range las {
							desc := fmt.Sprintf("after %s", t.accessSym(S))
							switch {
							case followed && la, !followed && !la:
								good = append(good, desc)
							case followed && !la:
								bad = append(bad, desc+": the marker is reduced by default without reading the next token, so it records the position of the token before it ("+t.accessSym(S)+")")
							default:
								bad = append(bad, desc+": the marker is reduced only after the next token was read, so it records that token instead of the one it follows")
							}
						}
					}
				}
			}
			good, bad = uniq(good), uniq(bad)
			sort.Strings(good)
			sort.Strings(bad)
			if len(bad) == 0 {
				what := "the next token (start of the node)"
				if !followed {
					what = "the token it follows"
				}
				l.Ok("POS-MARKER", key, pos, fmt.Sprintf("$%d.%s of rule %d always describes %s; contexts: %s", u.k, u.field, r, what, strings.Join(good, ", ")))
			} else {
				l.Bad("POS-MARKER", key, pos, fmt.Sprintf("$%d.%s of rule %d: %s", u.k, u.field, r, strings.Join(bad, "; ")))
			}
		}
	}
	l.Floor("POS-MARKER", 30)
}
