package rules

import (
	"fmt"
	"go/types"
	"os"
	"sort"

	"golang.org/x/tools/go/packages"
	"golang.org/x/tools/go/ssa"
	"golang.org/x/tools/go/ssa/ssautil"

	"verif/internal/core"
)

// moduleByNameSites: a map that is both looked up and updated, in one function,
// with keys read from the Name field of a Module — a "seen" set or memo table
// keyed by the module's base name. Two files in different directories share a
// base name; the identity of a module is its ThriftPath.
func moduleByNameSites(fns []*ssa.Function) []ssa.Instruction {
	isModuleName := func(v ssa.Value) bool {
		fld, base := core.LoadedField(v)
		if fld == nil || fld.Name() != "Name" || base == nil {
			return false
		}
		t := base.Type()
		if p, ok := t.Underlying().(*types.Pointer); ok {
			t = p.Elem()
		}
		n, ok := t.(*types.Named)
		if !ok || n.Obj().Name() != "Module" {
			return false
		}
		st, ok := n.Underlying().(*types.Struct)
		if !ok {
			return false
		}
		for i := 0; i < st.NumFields(); i++ {
			if st.Field(i).Name() == "ThriftPath" {
				return true
			}
		}
		return false
	}
	var out []ssa.Instruction
	for _, f := range fns {
		lookups := map[ssa.Value][]ssa.Instruction{}
		updates := map[ssa.Value]bool{}
		core.Instrs(f, func(in ssa.Instruction) {
			switch x := in.(type) {
			case *ssa.Lookup:
				if isModuleName(x.Index) {
					lookups[x.X] = append(lookups[x.X], in)
				}
			case *ssa.MapUpdate:
				if isModuleName(x.Key) {
					updates[x.Map] = true
				}
			}
		})
		for m, ls := range lookups {
			if updates[m] {
				out = append(out, ls...)
			}
		}
	}
	sort.Slice(out, func(i, j int) bool { return out[i].Pos() < out[j].Pos() })
	return out
}

// checkModuleIdentity arms MODULE-IDENTITY on the given packages, with a witness.
func checkModuleIdentity(c *core.Ctx, l *core.Ledger, rule string, rels []string) {
	cfg := &packages.Config{Mode: packages.LoadAllSyntax, Dir: witnessDir(), Env: append(os.Environ(), "GOWORK=off", "GOFLAGS=-mod=mod", "GOPROXY=off")}
	pkgs, err := packages.Load(cfg, "./testdata/witness/modname")
	fired := false
	if err == nil && len(pkgs) == 1 && len(pkgs[0].Errors) == 0 {
		prog, sp := ssautil.AllPackages(pkgs, 0)
		prog.Build()
		var fns []*ssa.Function
		for _, m := range sp[0].Members {
			if fn, ok := m.(*ssa.Function); ok {
				fns = append(fns, fn)
			}
		}
		hit := map[string]int{}
		for _, in := range moduleByNameSites(fns) {
			hit[in.Parent().Name()]++
		}
		fired = hit["walkByName"] == 1 && hit["walkByPath"] == 0
	}
	l.Witness(rule, fired, "the matcher must flag walkByName (and only it) in testdata/witness/modname")
	var fns []*ssa.Function
	for _, f := range c.AllFuncs(rels...) {
		if !c.IsTestFile(f.Pos()) {
			fns = append(fns, f)
		}
	}
	for i, in := range moduleByNameSites(fns) {
		l.Bad(rule, fmt.Sprintf("%s:by-name#%d", core.SSAName(in.Parent()), i+1), c.Rel(in.Pos()), "modules are remembered by their Name (the file's base name) instead of their ThriftPath: of two files with the same base name in different directories only one is visited, linked or generated")
	}
	l.Add(core.Obligation{Rule: rule, Key: "scan", Status: core.Discharged, Detail: fmt.Sprintf("%d functions scanned for tables keyed by a module's base name", len(fns))})
}
